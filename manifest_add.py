#!/usr/bin/env python3
# usage: manifest_add.py Cxx "<level text>" "<level note>" "<technique>"
import json, sys
pid, text, note, tech = sys.argv[1:5]
m = json.load(open('/verif/MANIFEST.json'))
m['checks'] = [c for c in m['checks'] if c['property_id'] != pid]
m['checks'].append({"property_id": pid, "quick_cmd": "./check %s --tier quick" % pid, "thorough_cmd": "./check %s --tier thorough" % pid,
  "evidence_file": "/verif/evidence/%s.json" % pid, "replay_cmd_template": "./check %s --replay {path}" % pid,
  "engine": "lean-proof+correspondence",
  "level_claimed": {"category": "proof", "text": text, "design_ref": "DESIGN.md §6 " + pid},
  "level_note": note, "technique": tech})
m['checks'].sort(key=lambda c: c['property_id'])
m['not_applicable'] = [x for x in m['not_applicable'] if x['property_id'] != pid]
m['engines'][0]['serves_properties'] = sorted(c['property_id'] for c in m['checks'])
json.dump(m, open('/verif/MANIFEST.json', 'w'), indent=1)
