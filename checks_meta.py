# Per-property metadata used by ./check (what the correspondence covers, trusted base additions).
META = {
    "C12": dict(
        rule="24 message kinds x type-directed random field values (string lengths biased to 0,1,127,128,255,256,"
             "32767,32768,65535,65536; full-range int64; both result codes; durations across the u32-ms range) "
             "encoded by the real CodecManager and by the Lean v1 table; bytes, decode(encode) and registry "
             "compared. distinct = distinct op text; non-trivial = at least one non-empty string or numeric field",
        trusted=["Codec/V1Table.lean: transcription of the Seata Java v1 codecs (no Java source offline)"],
        assumptions=["field values beyond a length prefix's limit are compared on bytes only (outside the property)"],
    ),
    "C13": dict(
        rule="frames written by the real RpcPackageHandler.Write (random ids, types incl. heartbeats, head maps with "
             "empty keys/values, C12-normal bodies) are fed to the real Read through a copy of dubbo-getty's "
             "handleTCPPackage loop and to the Lean `feed`: every cut position of 1-2 frame streams (as two chunks and "
             "as a truncation), random partitions of 1-6 frame streams, mutated/garbage streams; Write vs writeFrame "
             "bytes for head maps with <=1 entry. distinct = distinct op text; non-trivial = more than one chunk",
        trusted=["copy of dubbo-getty v1.5.0 handleTCPPackage loop in harness/c13.go (driveRead)"],
        assumptions=["garbage streams whose head map overruns its declared length: the contract model says `bad`, the "
                     "implementation is only required not to crash or spin there (comparison skipped, oracle kept)"],
        lenient=lambda cid, impl, model, tags: tags.get("garbage") == "1" and model is not None and model.endswith("hm-irregular"),
    ),
    "C04": dict(
        rule="exhaustive enumeration: retry counts {1,2,3,(5),0} x begin reply {ok,failed,transport} x callback "
             "{nil,error,panic} x every second-phase script (transport^k then ok/failed, transport^max, and one "
             "longer than the bound) x cancellation {none, before the second phase, during attempt 1, 2}; run through "
             "the real tm.WithGlobalTx against the scripted fake coordinator; requests per xid and the returned "
             "value compared with the Lean withGlobalTx. distinct = distinct op; all non-trivial",
        trusted=["fakecoord (harness/coord.go): scripted coordinator as a getty.Session; transport error = WritePkg "
                 "error; 'no reply' (20 s RpcRequestTimeout) is represented by the same transport-error class"],
        assumptions=["a script that runs out ends with the context cancelled (the harness cancels it)",
                     "'ok' = an acknowledgement in the sense of commitRefusal (8 wire forms), 'failed' = a refusal "
                     "(8 wire forms: Failed with a status that decides nothing, or a rollback status)"],
        exhaustive={"quick": True, "thorough": True},
        timeout=900,
    ),
    "C07": dict(
        rule="all scope trees of depth <= 2 with up to 2 children per node over 6 modes x 2 outcomes (1884), all pairs of "
             "top-level siblings on one context (144), random trees to depth 3 (thorough: complete depth-3 chains), "
             "each on a shared context and on fresh contexts carrying the xid, through the real tm.WithGlobalTx; "
             "per-case request log + xid/role/name seen in and after each scope compared with the Lean `run`; "
             "gRPC/gin/dubbo carriers with random xids in every accepted spelling. non-trivial = more than one scope",
        trusted=["fakecoord; xids are renumbered by order of begin for comparison"],
        assumptions=["integrations are exercised in-process (grpc metadata contexts, httptest, stub dubbo invoker)"],
        timeout=1200,
    ),
    "C19": dict(
        rule="random histories of open/close/release/busy/select over 1-3 addresses and the five policies (plus an unknown "
             "spelling), xids of the form ip:port:id for present/absent/closed addresses and malformed ones; the session "
             "returned by the real loadbalance.Select must belong to the SET the Lean `allowed` computes for that state "
             "(random choice and map order are not functions of the state); reconnection at idle / request in flight / "
             "between phase one and two through the real client. non-trivial = more than one session",
        trusted=["fakecoord; FakeSession objects as sessions; rpc in-flight counters set through rpc.BeginCount"],
        assumptions=["consistent hash: the ring position (md5) is not modelled; allowed = every open registered session"],
        compare=lambda cid, impl, model, tags: tags.get("member") == "1" and _member(impl, model),
    ),
    "C14": dict(
        rule="N concurrent callers (1..8 quick, 1..64 thorough) through the real SendSyncRequest on one session; the "
             "fake coordinator holds all requests, then answers in a random permutation with duplicates, stragglers, "
             "SendAsyncResponse and heart-beat traffic in between; one batch where replies never come (the 20 s "
             "RpcRequestTimeout is waited for once, all cases in parallel) followed by late and duplicate late replies; "
             "per-caller result (own / foreign / timeout), futures left for the case's ids, goroutines parked in "
             "response delivery; compared with the Lean table model. non-trivial = more than one caller",
        trusted=["fakecoord; goroutine stack scan for parked deliveries; reply marker carried in the Msg field"],
        assumptions=["real scheduling, timers and the Go memory model are not modelled: the model is the table logic"],
        timeout=1800,
    ),
    "C15": dict(
        rule="streams of 1-10 BranchCommit/BranchRollback requests mixing branch types AT/TCC/XA (scripted stub "
             "managers registered in the real ResourceManagerCache), SAGA and unknown types, shared xids and branch "
             "ids, manager outcomes status/error, pushed concurrently on one session through the real OnMessage -> "
             "processors -> SendAsyncResponse path; response frames matched to requests by message id and compared "
             "with the Lean processAll. non-trivial = more than one request",
        trusted=["fakecoord; stub resource managers; a panic inside OnMessage is recovered by the delivering goroutine "
                 "as dubbo-getty's task-pool worker does (observed effect: no response)"],
        assumptions=["when the manager returns an error no response is sent (the coordinator retries): the property's "
                     "'never reports a success status' is what is required there"],
    ),
    "C08": dict(
        rule="branch undo logs of 1-3 statements x before/after images x 0-3 rows x 1-6 columns over the cell table "
             "(MySQL type -> JDBC code the image builder emits -> Go kind the AT scanner yields), values: NULL, empty "
             "strings, strings that are valid base64 / look like numbers / JSON, UTF-8, +-2^53+-k, int64 extremes, "
             "doubles and float32-representable floats, timestamps with ns, binary; serializer json/protobuf x compress "
             "type None/Gzip/Zip/Bzip2/Lz4/Deflate/Zstd/Sevenz/'gzip'/''/'bogus'; flushed by the real FlushUndoLog "
             "(capturing conn) and decoded by the rollback path's decoder; one case per column value (decoded value, "
             "undo-executor equality) + one per log (structure, context). distinct = (serializer, jdbc, value)",
        trusted=["JSON text layer and compressor libraries by contract (exercised for real, not modelled)",
                 "harness/c08.go cell table (MySQL type -> scanner kind), read from exec/at/base_executor.go GetScanSlice"],
        assumptions=["values outside the model's faithful range (integers beyond 2^53) are run on the implementation "
                     "and judged by the oracle only"],
        compare=lambda cid, impl, model, tags: tags.get("fragment") == "0" or _strip_sup(impl) == _strip_sup(model),
    ),
    "C06": dict(
        rule="every delivery sequence over {prepare, commit, rollback} up to length 5 (thorough 7) for one branch on a "
             "stateful in-memory database through the real fence.WithFence; for every sequence up to length 3 (4) and "
             "every step a failure of the k-th statement of that step's local transaction (k = 1..6: BEGIN, fence "
             "statements, business effect, COMMIT) followed by a clean retry, and a failing callback; random sequences "
             "over 3 branches sharing the fence table; pairs of deliveries racing for one branch. Observed per "
             "delivery: result, fence row, durable try/confirm/cancel effects. non-trivial = more than one delivery",
        trusted=["memdb (in-memory MySQL-dialect driver: duplicate key 1062, row locks fail fast with 1205)"],
        assumptions=["the caller commits the local transaction iff WithFence returns nil (as the fence driver and the "
                     "samples do)"],
        exhaustive={"quick": True, "thorough": True},
        # directed races (op `race …`): the model prints the outcome of exactly the interleaving the harness
        # tries to force and the set of outcomes the property allows; where the scheduler did not produce that
        # interleaving the implementation's outcome must still be one of the allowed ones
        compare=lambda cid, impl, model, tags: (cid.startswith("race-d") and _race_ok(impl, model)) or
                                               (cid.startswith("fd-") and _fd_ok(impl, model)),
    ),
    "C05": dict(
        rule="TCC prepare inside a real global transaction with parameter structs of several shapes (unexported fields, "
             "'-' and empty tags, duplicate tags, contained action context by pointer / nil pointer / value, nested "
             "structs, pointer fields incl. nil, reflect.StructOf-generated structs of random field types passed by "
             "value and by pointer) x registration outcome (ok / refused / transport error); then 0-4 coordinator "
             "commit/rollback requests replaying the registered application data, empty, key-less or malformed data, "
             "unknown and other resources, user method failing or not. Observed: BranchRegister (order vs try, "
             "resource, tagged parameters), arguments seen by the user methods, response frames. non-trivial = "
             "some tagged parameter or some request",
        trusted=["fakecoord; JSON round trip of application data (encoding/json) by contract; a panic inside OnMessage "
                 "is recovered by the delivering goroutine as dubbo-getty's task-pool worker does"],
        assumptions=["when the user method returns an error the manager's error makes the processor send no response "
                     "(the coordinator retries): 'never committed/rollbacked on failure' is what is checked"],
    ),
    "C01": dict(
        rule="generated schemas (2-4 columns BIGINT/VARCHAR, nullable or not, single and composite keys) x initial rows x "
             "programs of 1-3 local transactions (autocommit statements or explicit transactions of 1-3 statements: "
             "UPDATE with literal/bound/increment SET, DELETE, single- and multi-row INSERT; WHERE from comparisons, "
             "AND/OR, IN, BETWEEN, IS NULL, some with parentheses/NOT) x serializer x compress type x data-validation x "
             "only-care-update-columns, run through the real AT proxy on memdb inside a real global transaction, then "
             "rolled back branch by branch by the fake coordinator through the real processors. Observed: lock keys, "
             "images (decoded from undo_log), table after phase one and after rollback, undo_log, each status. "
             "non-trivial = phase one changed the table",
        trusted=["memdb (fidelity to a MySQL server is assumed; its SQL semantics are compared with DB/Store.lean here)",
                 "fakecoord"],
        assumptions=["one resource; no foreign writer between phase one and rollback (that is C09)"],
        timeout=1800,
    ),
    "C09": dict(
        rule="AT programs as in C01 (data validation on) followed, between local commit and rollback, by 0-2 foreign "
             "statements aimed at rows the branches wrote: change a written or unwritten column, delete the row, "
             "re-insert a deleted key; then branch-by-branch rollback. Observed: statuses, table, undo_log; the oracle "
             "computes from the decoded images which rows differ from both before and after image and requires them "
             "untouched and the transaction not answered rollbacked. non-trivial = at least one foreign write applied",
        trusted=["memdb; fakecoord; foreign writes go straight to the engine (Engine.Exec)"],
        assumptions=[],
        timeout=1800,
    ),
    "C10": dict(
        rule="AT programs as in C01; then for every branch (last first) a database failure injected at statement index "
             "k = 1,2,... of the rollback transaction (BEGIN, undo_log select, validation selects, compensating "
             "statements, undo_log delete, COMMIT; until the index lies beyond the transaction), a clean delivery, and "
             "1-3 repeated deliveries; in 30% of the cases the coordinator rolls one branch back BETWEEN its "
             "registration and its undo-log flush and the late local commit is observed. Observed after every "
             "delivery: status, table, undo_log. non-trivial = at least one branch",
        trusted=["memdb fault injection (Fault{Nth}); fakecoord holding the BranchRegister reply while it rolls the branch back"],
        assumptions=[],
        timeout=2400,
    ),
    "C18": dict(
        rule="one local transaction (autocommit statement or explicit transaction with 1-3 statements; UPDATE with "
             "literal/parameter/column+expr SET clauses, DELETE, single- and multi-row INSERT; WHERE built from "
             "comparisons, AND/OR/NOT, IN, BETWEEN, IS NULL, parentheses, parameters anywhere) on generated schemas "
             "(single/composite, integer/string keys, nullable columns) with both settings of only-care-update-columns; "
             "observed: the decoded undo-log items and lock keys. Oracle on the implementation alone: the table is read "
             "just before and just after every statement (inside the local transaction) and the WHERE clause is "
             "evaluated separately by the engine; every touched row must be in the image with the database's content on "
             "exactly the tracked columns, and no other row",
        trusted=["memdb's own WHERE evaluation (differentially tested against DB/Store.lean by the same cases)"],
        assumptions=[],
        timeout=2400,
    ),
    "C03": dict(
        rule="(a) one local transaction (1-3 generated statements; integer, string and composite keys) - observed: the "
             "raw BranchRegisterRequest.LockKey; oracle: every row that differs across any statement (read inside the "
             "transaction) is named, with the right table, in the key text; (b) SELECT ... FOR UPDATE inside a global "
             "transaction, autocommit and explicit, matching 0/1/many rows, with the coordinator answering lockable / "
             "conflict / failure - observed: rows or error, lock query sent and naming the selected rows, local row locks "
             "and open transactions afterwards; (c) 2-3 concurrent global transactions with statements aimed at the same "
             "few rows, a random interleaving of their local transactions and ends, a coordinator with a real lock table - "
             "observed: which local transactions go through and the final table; oracle: no row is written by a global "
             "transaction while another still-active one has written it",
        trusted=["memdb row locks (InnoDB semantics: ROLLBACK TO SAVEPOINT keeps row locks); the harness's coordinator lock table"],
        assumptions=["(c) interleaves at the granularity of local transactions (each runs to completion before the next starts)"],
        compare=lambda cid, impl, model, tags: cid.startswith("c03-k") and model.split(":img=")[0] == impl,
        timeout=2400,
    ),
    "C16": dict(
        rule="programs of 2-6 steps (generated UPDATE/DELETE/INSERT executed directly or as prepared statements, SELECTs "
             "with bound arguments, BEGIN/COMMIT/ROLLBACK, two statements in one Exec, CREATE/DROP TABLE) run once through "
             "the proxy (AT outside a global transaction, AT inside one, XA outside) and once through the bare driver on "
             "an identical table; compared: every result (affected rows, generated id, rows, error number), the final "
             "table, the statements that reached the database (identical outside a global transaction; the bare run's "
             "statements as an ordered subsequence inside one) and coordinator traffic (none outside). Programs of plain "
             "DML and transaction control are also predicted by the model (Plain.prun)",
        trusted=["memdb executes the same statement identically on two identical tables"],
        assumptions=["SELECT ... FOR UPDATE, INSERT ... ON DUPLICATE KEY UPDATE and XA inside a global transaction belong to C03 / C17"],
        timeout=2400,
    ),
    "C11": dict(
        rule="undo-log rows (resource x xid x branch id, with xids shared across branches and branch ids across xids, "
             "two resources on separate databases), a shuffled list of BranchCommit requests (subset of the rows, "
             "duplicates, requests without a row) handed to a fresh AsyncWorker by 1-3 goroutines, under worker settings "
             "buffer limit 1/3/10/1000 x clean interval 5/20/60 ms x queue size 1/4/100 x workers 1/3 x worker buffer "
             "1/10 and one of: no fault, the first / first three DELETEs failing, the first two PREPAREs failing, the "
             "second resource unknown to the resource manager until after the requests; observed after quiescence: "
             "the remaining undo-log rows; every request must be answered committed",
        trusted=["quiescence is detected by polling the undo_log tables for up to 4 s plus three clean intervals"],
        assumptions=["the process stays alive; the database failures are transient (finitely many)"],
        timeout=2400,
    ),
    "C17": dict(
        rule="(a) branch identifiers for generated xids (ip:port:number, with dashes, random text) and branch ids (small, "
             "random 63-bit, 2^63-1, random 64-bit): text, and decoding of the encoded parts; (b) one UPDATE through the "
             "XA proxy inside a global transaction (autocommit; 20% inside an explicit transaction) for every fault "
             "position (registration refused, XA START, the statement, XA END, XA PREPARE failing, none) and both "
             "phase-two decisions, 30% of the fault-free runs with the kept connection forgotten before phase two; "
             "observed: the XA commands and the registration in order, the error returned, the branch's final state; "
             "oracle: one identifier (xid-branch) on every command, registration before XA START, a legal XA sequence, "
             "an error and a rolled-back branch after any failure, the decision applied after success",
        trusted=["memdb's XA state machine (MySQL semantics)"],
        assumptions=["one pooled connection (every branch reuses it)"],
        compare=lambda cid, impl, model, tags: False,
        timeout=2400,
    ),
    "C20": dict(
        rule="(a) every access to a field that lives next to a mutex, with the locks syntactically held, extracted from "
             "the Go sources by /verif/lockfacts (go/ast, one level of call-site lock propagation) and checked against the "
             "hand-written guard table by the Lean theorems; (b) a race-enabled stress run: 4-8 goroutines x 6-11 AT and XA "
             "global transactions (commit and rollback) through the shared handles with phase two delivered concurrently, "
             "12 table-meta caches starting up under lookups, 3 goroutines selecting over 5 load-balance policies while "
             "sessions close, hooks and codecs registered while in use; observed: termination within 60 s, connections "
             "left in a transaction, goroutines per round, and every data race the Go race detector reports",
        trusted=["the Go race detector (happens-before, no false positives); lockfacts is syntactic and intra-procedural "
                 "(closures stored in variables are analysed with no lock held)"],
        assumptions=["interleavings are those the scheduler and the race detector produce in the run, not all"],
        gen=lambda ctx: _c20_gen(ctx),
        post=lambda ctx: _c20_post(ctx),
        lean_targets=("SeataModel.Props.C20",),
        race_always=True,
        timeout=1800,
    ),
    "C02": dict(
        rule="one AT local transaction (autocommit statement, or explicit BEGIN/1-2 statements/COMMIT; UPDATE, DELETE or "
             "INSERT that certainly changes a row) inside a global transaction, run once fault-free and then once per "
             "fault: a database failure at every statement index of the business connection (BEGIN, image selects, the "
             "business statement, the undo_log INSERT, COMMIT), a refused registration, a registration transport "
             "failure, and 1/2/5 lost status reports (fault-free and with the COMMIT failing). The model is given only the "
             "fault-free trace and the fault and predicts the faulted trace, durability, the returned error and whether "
             "the pooled connection is left inside a transaction; the oracle checks atomicity and ordering on the trace itself",
        trusted=["memdb journal order on the one pooled business connection; fakecoord positions recorded synchronously "
                 "inside the client's send; report retry back-off is real time"],
        assumptions=["table meta is cached before the observed run (meta queries run on another connection)"],
        timeout=2400,
    ),
}

def _c20_gen(ctx):
    """regenerate the lock facts from the tree under test and the list of excused sites"""
    import os, json
    out = []
    lf = os.path.join(ctx["BUILD"], "lockfacts")
    r = ctx["sh"](["go", "build", "-o", lf, "."], cwd=os.path.join(ctx["VERIF"], "lockfacts"), env=ctx["GOENV"])
    if r.returncode != 0:
        return [dict(kind="obligation", case=None, theorem="(lockfacts build)", detail=r.stdout[-2000:])]
    gen = os.path.join(ctx["LEAN"], "SeataModel", "Gen")
    os.makedirs(gen, exist_ok=True)
    for f in ("LockFacts.lean", "KnownSites.lean"):
        try:
            os.remove(os.path.join(gen, f))
        except FileNotFoundError:
            pass
    r = ctx["sh"]([lf, ctx["REPO"], os.path.join(gen, "LockFacts.lean")])
    if r.returncode != 0:
        out.append(dict(kind="obligation", case=None, theorem="(lockfacts)", detail=r.stdout[-2000:]))
    sites = sorted(f["site"] for f in ctx["findings"] if f["status"] == "open" and f.get("site"))
    with open(os.path.join(gen, "KnownSites.lean"), "w") as fh:
        fh.write("/- GENERATED by /verif/check from known_findings.json (open C20 findings with a `site`); do not edit. -/\n"
                 "namespace Seata.Gen\ndef knownSites : List String := [%s]\nend Seata.Gen\n" % ", ".join('"%s"' % s for s in sites))
    # when the discipline theorem is going to fail, say where: the unguarded accesses are the failing input
    ev = os.path.join(ctx["BUILD"], "c20_eval.lean")
    with open(ev, "w") as fh:
        fh.write("import SeataModel.Gen.LockFacts\nopen Seata.Conc Seata.Gen\n"
                 "#eval (violations accesses).map fun a => s!\"{a.site} {a.owner}.{a.field} in {a.fn} holds {a.held}\"\n")
    ctx["sh"](["lake", "build", "SeataModel.Gen.LockFacts"], cwd=ctx["LEAN"])
    r = ctx["sh"](["lake", "env", "lean", ev], cwd=ctx["LEAN"])
    import re
    for m in re.finditer(r'"((pkg/[^ "]+) [^"]*)"', r.stdout):
        if m.group(2) not in sites:
            out.append(dict(kind="failing-input", case="site:" + m.group(2), theorem="C20_lock_discipline",
                            detail="unguarded access to a shared registry field: " + m.group(1)))
    return out

def _c20_post(ctx):
    """race-detector reports of the stress run, one finding per distinct pair of top frames"""
    import re
    txt = open(ctx["stderr"], errors="replace").read()
    res, seen = [], set()
    for b in txt.split("WARNING: DATA RACE")[1:]:
        b = b.split("==================")[0]
        # a race between two accesses that are both in the harness's own code is the harness's (its fake
        # coordinator, its scripts), whatever called them
        tops = re.findall(r"(?:Write|Read|Previous write|Previous read|Atomic write|Previous atomic write|Atomic read|Previous atomic read) at [^\n]*\n\s+[^\n]*\n\s+(/[^\s:]+):\d+", b)
        if len(tops) >= 2 and all("/verif/harness/" in t and "/memdb/" not in t for t in tops[:2]):
            continue
        frames = re.findall(r"\n\s+(/(?:repo|verif)/[^\s:]+|/[^\s]*?/pkg/[^\s:]+):(\d+)", b)
        frames = [(re.sub(r"^.*?/pkg/", "pkg/", f), l) for f, l in frames if "/harness/" not in f]
        if not frames:
            continue
        top = frames[0]
        key = tuple(frames[:2])
        if key in seen:
            continue
        seen.add(key)
        cls = "data_race"
        if any(f[0].endswith("conn_xa.go") or f[0].endswith("xa_resource_manager.go") for f in frames[:3]):
            cls = "race_xaconn_shared_between_pool_and_phase_two"
        res.append(("c20-race-%s-%s" % (top[0].split("/")[-1], top[1]), cls, " <- ".join("%s:%s" % f for f in frames[:4])))
    if re.search(r"^(panic:|fatal error:)", txt, flags=re.M):
        m = re.search(r"^(panic:|fatal error:).*", txt, flags=re.M)
        res.append(("c20-crash", "crash", m.group(0)[:300]))
    return res

def _member(impl, model):
    a, b = impl.split(), model.split()
    if len(a) != len(b):
        return False
    for x, s in zip(a, b):
        if s == "nil":
            if x != "nil":
                return False
        else:
            if x not in s.strip("{}").split(","):
                return False
    return True


def _fd_ok(impl, model):
    # the fence driver path: answer, record and business effect of every delivery (the harness plays an application
    # that runs its business on every transaction the driver hands out)
    return impl.split() == model.split()


def _race_ok(impl, model):
    import re
    m = re.match(r"exp=\[(.*?)\] allowed=\[(.*)\]$", model)
    if not m:
        return False
    return impl == m.group(1) or impl in m.group(2).split("|")


def _strip_sup(x):
    return " ".join(t for t in x.split() if not t.startswith("supported="))
