# Per-property metadata used by ./check (what the correspondence covers, trusted base additions).
META = {
    "C12": dict(
        rule="24 message kinds x type-directed random field values (string lengths biased to 0,1,127,128,255,256,"
             "32767,32768,65535,65536; full-range int64; both result codes; durations across the u32-ms range) "
             "encoded by the real CodecManager and by the Lean v1 table; bytes, decode(encode) and registry "
             "compared. distinct = distinct op text; non-trivial = at least one non-empty string or numeric field",
        trusted=["Codec/V1Table.lean: transcription of the Seata Java v1 codecs (no Java source offline)"],
        assumptions=["field values beyond a length prefix's limit are compared on bytes only (outside the property)"],
    ),
}
