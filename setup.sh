#!/bin/sh
# Build the framework from files on disk only (offline): Lean model + proofs + driver exe, Go harness.
set -e
cd "$(dirname "$0")"
export GOFLAGS=-mod=mod GOPROXY=off GOSUMDB=off GOTOOLCHAIN=local
mkdir -p .build evidence replays
(cd lean && lake build)
python3 gen_gomod.py /repo
cp /repo/go.sum harness/go.sum
(cd harness && CGO_ENABLED=0 go build -tags verif -o ../.build/verifharness .)
echo setup-ok
