import SeataModel.Basic.Bytes
import SeataModel.Codec.Layout
import SeataModel.Codec.V1Table
import SeataModel.Lemmas.Codec
import SeataModel.Props.C12
