import SeataModel.Basic.Bytes
import SeataModel.Codec.Layout
import SeataModel.Codec.V1Table
import SeataModel.Lemmas.Codec
import SeataModel.Props.C12
import SeataModel.Codec.Frame
import SeataModel.Lemmas.Frame
import SeataModel.Props.C13
