/-
  Bytes: byte strings as `List UInt8`, big-endian integer packing, hex text.
  Core-only (no Mathlib) so the line-protocol driver can be compiled to a native executable.
-/
namespace Seata

abbrev Bytes := List UInt8

/-- big-endian encoding of `n mod 256^w` on exactly `w` bytes -/
def putBE : (w : Nat) → Nat → Bytes
  | 0, _ => []
  | w+1, n => putBE w (n / 256) ++ [UInt8.ofNat (n % 256)]

/-- value of a big-endian byte string -/
def valBE (bs : Bytes) : Nat := bs.foldl (fun acc b => acc * 256 + b.toNat) 0

/-- read exactly `w` bytes as a big-endian number; `none` when fewer are present -/
def getBE (w : Nat) (bs : Bytes) : Option (Nat × Bytes) :=
  if w ≤ bs.length then some (valBE (bs.take w), bs.drop w) else none

@[simp] theorem putBE_length (w n : Nat) : (putBE w n).length = w := by
  induction w generalizing n with
  | zero => rfl
  | succ w ih => simp [putBE, ih]

theorem valBE_append_single (bs : Bytes) (b : UInt8) : valBE (bs ++ [b]) = valBE bs * 256 + b.toNat := by
  simp [valBE, List.foldl_append]

theorem valBE_putBE (w n : Nat) : valBE (putBE w n) = n % 256 ^ w := by
  induction w generalizing n with
  | zero => simp [putBE, valBE, Nat.mod_one]
  | succ w ih =>
    rw [putBE, valBE_append_single, ih]
    have h1 : (UInt8.ofNat (n % 256)).toNat = n % 256 := by
      simp [UInt8.toNat_ofNat']
    rw [h1, Nat.pow_succ]
    have := Nat.mod_mul_right_div_self n 256 (256 ^ w)
    have h2 : n % (256 ^ w * 256) = n % (256 * 256 ^ w) := by rw [Nat.mul_comm]
    rw [h2, Nat.mod_mul, Nat.mul_comm 256, Nat.add_comm]

theorem getBE_putBE (w n : Nat) (rest : Bytes) :
    getBE w (putBE w n ++ rest) = some (n % 256 ^ w, rest) := by
  unfold getBE
  have hl : w ≤ (putBE w n ++ rest).length := by simp
  simp only [hl, if_true]
  have ht : (putBE w n ++ rest).take w = putBE w n := by
    rw [List.take_append_of_le_length (by simp)]
    exact List.take_of_length_le (by simp)
  have hd : (putBE w n ++ rest).drop w = rest := by
    have : w = (putBE w n).length := by simp
    conv => lhs; arg 1; rw [this]
    exact List.drop_left
  rw [ht, hd, valBE_putBE]

/-! hex text, used only by the driver (not in theorems) -/

def hexDigit (n : Nat) : Char :=
  if n < 10 then Char.ofNat (48 + n) else Char.ofNat (87 + n)

def toHex (bs : Bytes) : String :=
  String.ofList (bs.flatMap fun b => [hexDigit (b.toNat / 16), hexDigit (b.toNat % 16)])

def hexVal (c : Char) : Option Nat :=
  if '0' ≤ c ∧ c ≤ '9' then some (c.toNat - 48)
  else if 'a' ≤ c ∧ c ≤ 'f' then some (c.toNat - 87)
  else if 'A' ≤ c ∧ c ≤ 'F' then some (c.toNat - 55)
  else none

def ofHexChars : List Char → Option Bytes
  | [] => some []
  | [_] => none
  | a :: b :: r => do
    let x ← hexVal a
    let y ← hexVal b
    let t ← ofHexChars r
    pure (UInt8.ofNat (x * 16 + y) :: t)

/-- `-` denotes the empty byte string on the wire of the line protocol -/
def ofHex (s : String) : Option Bytes :=
  if s == "-" then some [] else ofHexChars s.toList

def hexOrDash (bs : Bytes) : String := if bs.isEmpty then "-" else toHex bs

end Seata
