/-
  Generic field-layout codec: a message body is a list of typed fields written in order.
  Models pkg/protocol/codec/*_codec.go + pkg/util/bytes/buf_helper.go.
-/
import SeataModel.Basic.Bytes
namespace Seata.Codec
open Seata

inductive Field
  | rc                          -- u8 result code; 0 = Failed (makes the `msg` field present)
  | u8 | u16 | u32
  | i64                         -- two's complement 64-bit
  | str (w : Nat)               -- w-byte big-endian length prefix, then the bytes
  | msg (w : Nat) (cap : Nat)   -- present only after a Failed rc; cut to `cap` bytes
  | bool8 | bool16
  | ms32                        -- time.Duration (ns) carried as u32 milliseconds
  deriving Repr, DecidableEq

inductive FVal
  | nat (n : Nat)
  | int (i : Int)
  | bytes (b : Bytes)
  | bool (b : Bool)
  deriving Repr, DecidableEq

abbrev Layout := List Field

def i64ToNat (i : Int) : Nat := (i % 18446744073709551616).toNat
def natToI64 (n : Nat) : Int := if n < 9223372036854775808 then (n : Int) else (n : Int) - 18446744073709551616

/-- state carried left-to-right: was the result code `Failed`? -/
def nextFailed (failed : Bool) : Field → FVal → Bool
  | .rc, .nat n => n == 0
  | _, _ => failed

def encodeF (failed : Bool) : Field → FVal → Bytes
  | .rc, .nat n => putBE 1 n
  | .u8, .nat n => putBE 1 n
  | .u16, .nat n => putBE 2 n
  | .u32, .nat n => putBE 4 n
  | .i64, .int i => putBE 8 (i64ToNat i)
  | .str w, .bytes b => putBE w b.length ++ b
  | .msg w cap, .bytes b => if failed then putBE w (b.take cap).length ++ b.take cap else []
  | .bool8, .bool b => putBE 1 (if b then 1 else 0)
  | .bool16, .bool b => putBE 2 (if b then 1 else 0)
  | .ms32, .nat ns => putBE 4 (ns / 1000000)
  | _, _ => []

def encode : Bool → Layout → List FVal → Bytes
  | _, [], _ => []
  | _, _ :: _, [] => []
  | f, fd :: L, v :: vs => encodeF f fd v ++ encode (nextFailed f fd v) L vs

def getStr (w : Nat) (bs : Bytes) : Option (Bytes × Bytes) :=
  match getBE w bs with
  | none => none
  | some (len, r) => if len ≤ r.length then some (r.take len, r.drop len) else none

def decodeF (failed : Bool) : Field → Bytes → Option (FVal × Bytes)
  | .rc, bs => (getBE 1 bs).map fun (n, r) => (.nat n, r)
  | .u8, bs => (getBE 1 bs).map fun (n, r) => (.nat n, r)
  | .u16, bs => (getBE 2 bs).map fun (n, r) => (.nat n, r)
  | .u32, bs => (getBE 4 bs).map fun (n, r) => (.nat n, r)
  | .i64, bs => (getBE 8 bs).map fun (n, r) => (.int (natToI64 n), r)
  | .str w, bs => (getStr w bs).map fun (b, r) => (.bytes b, r)
  | .msg w _, bs => if failed then (getStr w bs).map fun (b, r) => (.bytes b, r) else some (.bytes [], bs)
  | .bool8, bs => (getBE 1 bs).map fun (n, r) => (.bool (n == 1), r)
  | .bool16, bs => (getBE 2 bs).map fun (n, r) => (.bool (n == 1), r)
  | .ms32, bs => (getBE 4 bs).map fun (n, r) => (.nat (n * 1000000), r)

def decode : Bool → Layout → Bytes → Option (List FVal × Bytes)
  | _, [], bs => some ([], bs)
  | f, fd :: L, bs =>
    match decodeF f fd bs with
    | none => none
    | some (v, r) =>
      match decode (nextFailed f fd v) L r with
      | none => none
      | some (vs, r') => some (v :: vs, r')

/-- what a decoded message is expected to equal: msg dropped/cut, duration floored to ms -/
def normalizeF (failed : Bool) : Field → FVal → FVal
  | .msg _ cap, .bytes b => if failed then .bytes (b.take cap) else .bytes []
  | .ms32, .nat ns => .nat (ns / 1000000 * 1000000)
  | _, v => v

def normalize : Bool → Layout → List FVal → List FVal
  | _, [], _ => []
  | _, _ :: _, [] => []
  | f, fd :: L, v :: vs => normalizeF f fd v :: normalize (nextFailed f fd v) L vs

/-- the value has the field's type and is within the wire limits -/
def withinF : Field → FVal → Bool
  | .rc, .nat n => n < 256
  | .u8, .nat n => n < 256
  | .u16, .nat n => n < 65536
  | .u32, .nat n => n < 4294967296
  | .i64, .int i => -9223372036854775808 ≤ i && i < 9223372036854775808
  | .str w, .bytes b => b.length < 256 ^ w
  | .msg _ _, .bytes _ => true            -- any length: the encoder truncates
  | .bool8, .bool _ => true
  | .bool16, .bool _ => true
  | .ms32, .nat ns => ns / 1000000 < 4294967296
  | _, _ => false

def within : Layout → List FVal → Bool
  | [], [] => true
  | fd :: L, v :: vs => withinF fd v && within L vs
  | _, _ => false

/-- well-formed layout: the truncation cap of a message fits its length prefix -/
def wfF : Field → Bool
  | .msg w cap => cap < 256 ^ w
  | _ => true

def wf (L : Layout) : Bool := L.all wfF

end Seata.Codec
