/-
  The Seata v1 ("seata" serializer) body layout of the 24 message kinds the Go client knows,
  transcribed from Seata Java 1.x `io.seata.serializer.seata.protocol.*Codec`
  (AbstractResultMessageCodec: rc byte, then, only when rc = Failed, a 16-bit-length message cut
  to Short.MAX_VALUE; AbstractTransactionResponseCodec: + error-code byte; …).
  This table is independent of the Go codecs; the correspondence check compares bytes.
-/
import SeataModel.Codec.Layout
namespace Seata.Codec

inductive MsgKind
  | globalBegin | globalBeginResult | branchCommit | branchCommitResult
  | branchRollback | branchRollbackResult | globalCommit | globalCommitResult
  | globalRollback | globalRollbackResult | branchRegister | branchRegisterResult
  | branchReport | branchReportResult | globalStatus | globalStatusResult
  | globalReport | globalReportResult | globalLockQuery | globalLockQueryResult
  | regClt | regCltResult | regRm | regRmResult
  deriving Repr, DecidableEq

def MsgKind.all : List MsgKind :=
  [.globalBegin, .globalBeginResult, .branchCommit, .branchCommitResult,
   .branchRollback, .branchRollbackResult, .globalCommit, .globalCommitResult,
   .globalRollback, .globalRollbackResult, .branchRegister, .branchRegisterResult,
   .branchReport, .branchReportResult, .globalStatus, .globalStatusResult,
   .globalReport, .globalReportResult, .globalLockQuery, .globalLockQueryResult,
   .regClt, .regCltResult, .regRm, .regRmResult]

def typeCode : MsgKind → Nat
  | .globalBegin => 1 | .globalBeginResult => 2 | .branchCommit => 3 | .branchCommitResult => 4
  | .branchRollback => 5 | .branchRollbackResult => 6 | .globalCommit => 7 | .globalCommitResult => 8
  | .globalRollback => 9 | .globalRollbackResult => 10 | .branchRegister => 11 | .branchRegisterResult => 12
  | .branchReport => 13 | .branchReportResult => 14 | .globalStatus => 15 | .globalStatusResult => 16
  | .globalReport => 17 | .globalReportResult => 18 | .globalLockQuery => 21 | .globalLockQueryResult => 22
  | .regClt => 101 | .regCltResult => 102 | .regRm => 103 | .regRmResult => 104

def MsgKind.name : MsgKind → String
  | .globalBegin => "GlobalBegin" | .globalBeginResult => "GlobalBeginResult"
  | .branchCommit => "BranchCommit" | .branchCommitResult => "BranchCommitResult"
  | .branchRollback => "BranchRollback" | .branchRollbackResult => "BranchRollbackResult"
  | .globalCommit => "GlobalCommit" | .globalCommitResult => "GlobalCommitResult"
  | .globalRollback => "GlobalRollback" | .globalRollbackResult => "GlobalRollbackResult"
  | .branchRegister => "BranchRegister" | .branchRegisterResult => "BranchRegisterResult"
  | .branchReport => "BranchReport" | .branchReportResult => "BranchReportResult"
  | .globalStatus => "GlobalStatus" | .globalStatusResult => "GlobalStatusResult"
  | .globalReport => "GlobalReport" | .globalReportResult => "GlobalReportResult"
  | .globalLockQuery => "GlobalLockQuery" | .globalLockQueryResult => "GlobalLockQueryResult"
  | .regClt => "RegClt" | .regCltResult => "RegCltResult"
  | .regRm => "RegRm" | .regRmResult => "RegRmResult"

def MsgKind.ofName (s : String) : Option MsgKind := MsgKind.all.find? (fun k => k.name == s)

/-- Short.MAX_VALUE -/
def msgCap : Nat := 32767

/-- rc, optional message, transaction error code -/
def resultHead : Layout := [.rc, .msg 2 msgCap, .u8]

def branchEndReq : Layout := [.str 2, .i64, .u8, .str 2, .str 4]
def branchEndResp : Layout := resultHead ++ [.str 2, .i64, .u8]
def globalEndReq : Layout := [.str 2, .str 2]
def globalEndResp : Layout := resultHead ++ [.u8]
def identifyReq : Layout := [.str 2, .str 2, .str 2, .str 2]
def identifyResp : Layout := [.bool8, .str 2]
def branchRegisterReq : Layout := [.str 2, .u8, .str 2, .str 4, .str 4]

def v1 : MsgKind → Layout
  | .globalBegin => [.ms32, .str 2]
  | .globalBeginResult => resultHead ++ [.str 2, .str 2]
  | .branchCommit => branchEndReq
  | .branchCommitResult => branchEndResp
  | .branchRollback => branchEndReq
  | .branchRollbackResult => branchEndResp
  | .globalCommit => globalEndReq
  | .globalCommitResult => globalEndResp
  | .globalRollback => globalEndReq
  | .globalRollbackResult => globalEndResp
  | .branchRegister => branchRegisterReq
  | .branchRegisterResult => resultHead ++ [.i64]
  | .branchReport => [.str 2, .i64, .u8, .str 2, .str 4, .u8]
  | .branchReportResult => resultHead
  | .globalStatus => globalEndReq
  | .globalStatusResult => globalEndResp
  | .globalReport => globalEndReq ++ [.u8]
  | .globalReportResult => globalEndResp
  | .globalLockQuery => branchRegisterReq
  | .globalLockQueryResult => resultHead ++ [.bool16]
  | .regClt => identifyReq
  | .regCltResult => identifyResp
  | .regRm => identifyReq ++ [.str 4]
  | .regRmResult => identifyResp

/-- full wire form handed to the frame writer: 2-byte big-endian type code, then the body -/
def encodeMsg (k : MsgKind) (vs : List FVal) : Bytes := putBE 2 (typeCode k) ++ encode false (v1 k) vs

def decodeMsg (bs : Bytes) : Option (MsgKind × List FVal × Bytes) :=
  match getBE 2 bs with
  | none => none
  | some (c, r) =>
    match MsgKind.all.find? (fun k => typeCode k == c) with
    | none => none
    | some k => (decode false (v1 k) r).map fun (vs, r') => (k, vs, r')

/-- kinds the client sends or expects a reply of (call sites of SendSyncRequest / SendAsyncRequest /
    SendAsyncResponse and the processor registrations) — all but the never-used GlobalReport pair
    are exercised; the registry must hold a codec for each. -/
def registered : List MsgKind := MsgKind.all

end Seata.Codec
