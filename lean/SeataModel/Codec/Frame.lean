/-
  Seata v1 frame layer: 16-byte header, optional head map, body; the reader's contract as the
  transport loop (dubbo-getty `handleTCPPackage`) uses it.
  Models pkg/remoting/getty/readwriter.go (`Read`, `Write`, `encodeHeapMap`, `decodeHeapMap`).
-/
import SeataModel.Codec.Layout
namespace Seata.Frame
open Seata Seata.Codec

structure RpcMsg where
  id : Nat                          -- request id, u32
  type : Nat                        -- GettyRequestType, u8
  codec : Nat                       -- u8
  comp : Nat                        -- u8
  head : List (Bytes × Bytes)       -- head map entries in wire order
  body : Bytes                      -- type code + encoded body (opaque here), empty for heartbeats
  deriving Repr, DecidableEq

def encodeHM : List (Bytes × Bytes) → Bytes
  | [] => []
  | (k, v) :: r => putBE 2 k.length ++ k ++ (putBE 2 v.length ++ v) ++ encodeHM r

/-- decode a head map that must fill the given bytes exactly -/
def decodeHM : Nat → Bytes → Option (List (Bytes × Bytes))
  | 0, bs => if bs.isEmpty then some [] else none
  | f+1, bs =>
    if bs.isEmpty then some []
    else match getStr 2 bs with
      | none => none
      | some (k, r) =>
        match getStr 2 r with
        | none => none
        | some (v, r') => (decodeHM f r').map ((k, v) :: ·)

def headLen (m : RpcMsg) : Nat := 16 + (encodeHM m.head).length
def totalLen (m : RpcMsg) : Nat := headLen m + m.body.length

def header (m : RpcMsg) : Bytes :=
  [0xda, 0xda, 1] ++ putBE 4 (totalLen m) ++ putBE 2 (headLen m) ++ putBE 1 m.type ++ putBE 1 m.codec
    ++ putBE 1 m.comp ++ putBE 4 m.id

def writeFrame (m : RpcMsg) : Bytes := header m ++ encodeHM m.head ++ m.body

/-- fits the wire: the fields fit their widths -/
def WF (m : RpcMsg) : Prop :=
  m.id < 256 ^ 4 ∧ m.type < 256 ∧ m.codec < 256 ∧ m.comp < 256 ∧
  (∀ kv ∈ m.head, kv.1.length < 256 ^ 2 ∧ kv.2.length < 256 ^ 2) ∧
  headLen m < 256 ^ 2 ∧ totalLen m < 256 ^ 4

inductive ReadResult
  | needMore                         -- (nil, _, nil): wait for more bytes, consume nothing
  | bad                              -- error: the transport closes the session
  | frame (m : RpcMsg) (n : Nat)     -- deliver m, consume n bytes
  deriving Repr, DecidableEq

/-- every byte present so far agrees with the magic 0xdada -/
def magicOK : Bytes → Bool
  | [] => true
  | [a] => a == 0xda
  | a :: b :: _ => a == 0xda && b == 0xda

def field (bs : Bytes) (off w : Nat) : Nat := valBE ((bs.drop off).take w)

/-- The reader's contract. -/
def readFrame (bs : Bytes) : ReadResult :=
  if !magicOK bs then .bad
  else if bs.length < 16 then .needMore
  else
    let total := field bs 3 4
    let hl := field bs 7 2
    if hl < 16 || total < hl then .bad
    else if bs.length < total then .needMore
    else
      match decodeHM (hl - 16) ((bs.drop 16).take (hl - 16)) with
      | none => .bad
      | some hm =>
        .frame { id := field bs 12 4, type := field bs 9 1, codec := field bs 10 1, comp := field bs 11 1,
                 head := hm, body := (bs.drop hl).take (total - hl) } total

/-- The transport's receive loop on one buffer: deliver frames while complete ones are present.
    Returns delivered messages, the unread rest and whether the session was closed by an error. -/
def drain : Nat → Bytes → List RpcMsg × Bytes × Bool
  | 0, buf => ([], buf, false)
  | fuel+1, buf =>
    if buf.isEmpty then ([], buf, false)
    else match readFrame buf with
      | .needMore => ([], buf, false)
      | .bad => ([], buf, true)
      | .frame m n =>
        let (ms, r, c) := drain fuel (buf.drop n)
        (m :: ms, r, c)

structure RxState where
  delivered : List RpcMsg := []
  buf : Bytes := []
  closed : Bool := false
  deriving Repr, DecidableEq

/-- one network read: append the chunk, drain -/
def recv (s : RxState) (chunk : Bytes) : RxState :=
  if s.closed then s
  else
    let b := s.buf ++ chunk
    let (ms, r, c) := drain (b.length + 1) b
    { delivered := s.delivered ++ ms, buf := r, closed := c }

def feed (chunks : List Bytes) : RxState := chunks.foldl recv {}

end Seata.Frame
