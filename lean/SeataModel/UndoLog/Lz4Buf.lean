/-
  The output buffer of `Lz4.Decompress` (pkg/compressor/lz4_compress.go): an lz4 block does not say how long
  its data is; the reader tries a buffer of 100·n + 64 bytes for n compressed bytes and doubles it while the
  library answers "destination too short", giving up once a buffer above 255·n + 64 has failed (lz4 cannot
  shrink data below 1/255 of its length).
-/
namespace Seata.UndoLog

/-- the buffer size at which a block of `n` bytes holding `need` bytes of data is read, `fuel` tries left -/
def lz4Try (n need : Nat) : Nat → Nat → Option Nat
  | 0, _ => none
  | fuel + 1, size =>
    if need ≤ size then some size
    else if size > 255 * n + 64 then none
    else lz4Try n need fuel (2 * size)

/-- the reader: start at 100·n + 64 -/
def lz4Read (n need : Nat) : Option Nat := lz4Try n need 4 (100 * n + 64)

/-- before the repair: one try with 100·n bytes -/
def lz4ReadBeforeFix (n need : Nat) : Option Nat := if need ≤ 100 * n then some (100 * n) else none

end Seata.UndoLog
