/-
  Branch undo logs as trees of column images; the flush → load pipeline over contracts for the JSON
  text layer and the compressor.
-/
import SeataModel.UndoLog.ColVal
namespace Seata.UndoLog
open Seata

structure Col where
  key : Bool            -- KeyType == PrimaryKey
  name : Bytes
  jdbc : Int
  val : GoVal
  deriving Repr, DecidableEq

abbrev RowI := List Col

structure Image where
  table : Bytes
  sqlType : Nat
  rows : List RowI
  deriving Repr, DecidableEq

structure SqlLog where
  sqlType : Nat
  table : Bytes
  before : Option Image
  after : Option Image
  deriving Repr, DecidableEq

structure Log where
  xid : Bytes
  branch : Nat
  logs : List SqlLog
  deriving Repr, DecidableEq

def mapE {α β ε : Type} (f : α → Except ε β) : List α → Except ε (List β)
  | [] => .ok []
  | a :: r =>
    match f a with
    | .error e => .error e
    | .ok b =>
      match mapE f r with
      | .error e => .error e
      | .ok bs => .ok (b :: bs)

def rtCol (ser : Serializer) (c : Col) : Except DecErr Col :=
  match roundtripVal ser c.jdbc c.val with
  | .ok v => .ok { c with val := v }
  | .error e => .error e

def rtImage (ser : Serializer) (im : Image) : Except DecErr Image :=
  match mapE (mapE (rtCol ser)) im.rows with
  | .ok rows => .ok { im with rows := rows }
  | .error e => .error e

def rtOpt (ser : Serializer) : Option Image → Except DecErr (Option Image)
  | none => .ok none
  | some im => match rtImage ser im with | .ok i => .ok (some i) | .error e => .error e

def rtSqlLog (ser : Serializer) (l : SqlLog) : Except DecErr SqlLog :=
  match rtOpt ser l.before, rtOpt ser l.after with
  | .ok b, .ok a => .ok { l with before := b, after := a }
  | .error e, _ => .error e
  | _, .error e => .error e

/-- what decoding the encoded log yields (the value layer of serialize ; deserialize) -/
def rtLog (ser : Serializer) (l : Log) : Except DecErr Log :=
  match mapE (rtSqlLog ser) l.logs with
  | .ok ls => .ok { l with logs := ls }
  | .error e => .error e

/-! equality up to the undo executors' value equality; names, key flags, types, structure exact -/
def eqCol (a b : Col) : Bool := a.key == b.key && a.name == b.name && a.jdbc == b.jdbc && undoEq a.val b.val

def all2 {α : Type} (p : α → α → Bool) : List α → List α → Bool
  | [], [] => true
  | a :: r, b :: s => p a b && all2 p r s
  | _, _ => false

def eqImage (a b : Image) : Bool := a.table == b.table && a.sqlType == b.sqlType && all2 (all2 eqCol) a.rows b.rows
def eqOpt : Option Image → Option Image → Bool
  | none, none => true
  | some a, some b => eqImage a b
  | _, _ => false
def eqSqlLog (a b : SqlLog) : Bool :=
  a.sqlType == b.sqlType && a.table == b.table && eqOpt a.before b.before && eqOpt a.after b.after
def eqLog (a b : Log) : Bool := a.xid == b.xid && a.branch == b.branch && all2 eqSqlLog a.logs b.logs

def colsOfImage (im : Image) : List Col := im.rows.flatten
def colsOfOpt : Option Image → List Col | none => [] | some im => colsOfImage im
def colsOfLog (l : Log) : List Col := l.logs.flatMap fun s => colsOfOpt s.before ++ colsOfOpt s.after

/-- the text layer by contract: what is written is read back as the same tree -/
structure TextCodec where
  write : Log → Bytes
  read : Bytes → Option Log
  lawful : ∀ l, read (write l) = some l

/-- FlushUndoLog: context (serializer and compress type names), rollback_info = compress(serialize) -/
def flush (serName compName : Bytes) (tc : TextCodec) (comp : Compressor) (l : Log) : Bytes × Bytes :=
  (encodeCtx [([115], serName), ([99], compName)], comp.compress (tc.write l))

/-- the decoding half of Undo: the context picks decompressor and parser (looked up by name) -/
def load (ser : Serializer) (lookupComp : Bytes → Compressor) (lookupCodec : Bytes → Option TextCodec)
    (rec : Bytes × Bytes) : Except DecErr Log :=
  let ctx := decodeCtx rec.1
  match ctx.find? (fun p => p.1 == [115]), ctx.find? (fun p => p.1 == [99]) with
  | some (_, sn), some (_, cn) =>
    match lookupCodec sn with
    | none => .error .error
    | some tc =>
      match (lookupComp cn).decompress rec.2 with
      | none => .error .error
      | some text =>
        match tc.read text with
        | none => .error .error
        | some l => rtLog ser l
  | _, _ => .error .error

end Seata.UndoLog
