/-
  Undo-log value encoding.  Models pkg/datasource/sql/types/image.go (ColumnImage.MarshalJSON /
  UnmarshalJSON), undo/parser/parser_json.go, parser_protobuf.go (every value through json.Marshal
  inside an Any, decoded as untyped JSON), undo/base/undo.go (context, compress, decompress),
  pkg/util/collection (EncodeMap/DecodeMap), datasource.DeepEqual (the undo executors' equality).
  The JSON TEXT layer (encoding/json) and the compressor libraries are modelled by their contracts:
  identity on the JSON value domain with numbers as IEEE doubles; Decompress ∘ Compress = id.
-/
import SeataModel.Basic.Bytes
deriving instance DecidableEq for Except

namespace Seata.UndoLog
open Seata

/-- the Go values the AT row scanner puts into an image -/
inductive GoVal
  | nil
  | int (i : Int)                       -- int64
  | float (tok : Nat) (f32 : Bool)      -- float64, opaque bit pattern; `f32` = exactly representable as float32
  | f32 (tok : Nat)                     -- float32 (what decoding a REAL column yields)
  | str (s : Bytes)                     -- string (valid UTF-8)
  | bytes (b : Bytes)                   -- []byte
  | time (ns : Int)                     -- time.Time, UTC instant
  deriving Repr, DecidableEq

/-- the JSON value domain as encoding/json sees a column value -/
inductive JVal
  | null
  | int (i : Int)                       -- a number written without fraction
  | float (tok : Nat) (f32 : Bool)
  | str (s : Bytes)
  deriving Repr, DecidableEq

/-- nearest IEEE double of an integer, as an integer: exact up to 2^53; beyond, the low bits are
    lost (round to a multiple of the ulp).  Only the exact range is used in the theorems. -/
def exactF64 (i : Int) : Bool := -9007199254740992 ≤ i && i ≤ 9007199254740992

/-! base64 (encoding/base64 StdEncoding), executable; used by the driver and in the statement of
    which strings are ambiguous -/
def b64alphabet : List Char :=
  "ABCDEFGHIJKLMNOPQRSTUVWXYZabcdefghijklmnopqrstuvwxyz0123456789+/".toList

def b64char (n : Nat) : UInt8 := UInt8.ofNat ((b64alphabet.getD n 'A').toNat)

def b64enc : Bytes → Bytes
  | [] => []
  | [a] =>
    let n := a.toNat * 65536
    [b64char (n / 262144 % 64), b64char (n / 4096 % 64), 61, 61]
  | [a, b] =>
    let n := a.toNat * 65536 + b.toNat * 256
    [b64char (n / 262144 % 64), b64char (n / 4096 % 64), b64char (n / 64 % 64), 61]
  | a :: b :: c :: r =>
    let n := a.toNat * 65536 + b.toNat * 256 + c.toNat
    b64char (n / 262144 % 64) :: b64char (n / 4096 % 64) :: b64char (n / 64 % 64) :: b64char (n % 64) :: b64enc r

def b64val (c : UInt8) : Option Nat :=
  let n := c.toNat
  if 65 ≤ n ∧ n ≤ 90 then some (n - 65)
  else if 97 ≤ n ∧ n ≤ 122 then some (n - 71)
  else if 48 ≤ n ∧ n ≤ 57 then some (n + 4)
  else if n = 43 then some 62
  else if n = 47 then some 63
  else none

/-- strict StdEncoding decode: groups of four, padding only at the very end, canonical trailing bits
    are NOT required (Go's decoder is lenient about them), no newlines considered -/
def b64dec : Bytes → Option Bytes
  | [] => some []
  | [a, b, 61, 61] => do
    let x ← b64val a; let y ← b64val b
    let n := x * 262144 + y * 4096
    pure [UInt8.ofNat (n / 65536 % 256)]
  | [a, b, c, 61] => do
    let x ← b64val a; let y ← b64val b; let z ← b64val c
    let n := x * 262144 + y * 4096 + z * 64
    pure [UInt8.ofNat (n / 65536 % 256), UInt8.ofNat (n / 256 % 256)]
  | a :: b :: c :: d :: r => do
    let x ← b64val a; let y ← b64val b; let z ← b64val c; let w ← b64val d
    let n := x * 262144 + y * 4096 + z * 64 + w
    let t ← b64dec r
    pure (UInt8.ofNat (n / 65536 % 256) :: UInt8.ofNat (n / 256 % 256) :: UInt8.ofNat (n % 256) :: t)
  | _ => none

/-! JDBC type codes (types.JDBCType) -/
def jBit : Int := -7
def jTinyInt : Int := -6
def jSmallInt : Int := 5
def jInteger : Int := 4
def jBigInt : Int := -5
def jReal : Int := 7
def jDouble : Int := 8
def jDecimal : Int := 3
def jChar : Int := 1
def jVarchar : Int := 12
def jLongVarchar : Int := -1
def jDate : Int := 91
def jTime : Int := 92
def jTimestamp : Int := 93
def jBinary : Int := -2
def jVarBinary : Int := -3
def jLongVarBinary : Int := -4

inductive Serializer | json | protobuf
  deriving Repr, DecidableEq

inductive DecErr | panic | error
  deriving Repr, DecidableEq

def jBlob : Int := 2004

/-- how the decoder treats a JDBC type code -/
inductive JClass | real | dbl | intN (bits : Nat) | time | char | bin | other
  deriving Repr, DecidableEq

def classOf (jdbc : Int) : JClass :=
  if jdbc = jReal then .real
  else if jdbc = jDecimal ∨ jdbc = jDouble then .dbl
  else if jdbc = jTinyInt then .intN 8
  else if jdbc = jSmallInt then .intN 16
  else if jdbc = jInteger then .intN 32
  else if jdbc = jBigInt then .intN 64
  else if jdbc = jTimestamp ∨ jdbc = jDate ∨ jdbc = jTime then .time
  else if jdbc = jChar ∨ jdbc = jVarchar ∨ jdbc = jLongVarchar then .char
  else if jdbc = jBinary ∨ jdbc = jVarBinary ∨ jdbc = jLongVarBinary ∨ jdbc = jBit ∨ jdbc = jBlob then .bin
  else .other                              -- no rule of its own: the value is taken as the document has it

/-- json.Marshal of a column value as the protobuf serializer does it (the raw value; a time.Time through its
    own MarshalJSON, the same RFC3339Nano text for UTC instants) -/
def marshalVal : GoVal → JVal
  | .nil => .null
  | .int i => .int i
  | .float t f => .float t f
  | .f32 t => .float t true
  | .str s => .str s
  | .bytes b => .str (b64enc b)
  | .time ns => .str (putBE 8 (ns % 18446744073709551616).toNat)   -- stands for the RFC3339Nano text of the instant (injective)

/-- ColumnImage.MarshalJSON (JSON serializer): as above, except that a TEXT of a character column which happens
    to be valid base64 is written in its base64 form — the reader tries base64 first and would otherwise take
    the text for the base64 form of other bytes -/
def marshalJson (jdbc : Int) (v : GoVal) : JVal :=
  match v, classOf jdbc with
  | .str s, .char => if (b64dec s).isSome then .str (b64enc s) else .str s
  | v, _ => marshalVal v

def timeOfText (s : Bytes) : Option Int :=
  match getBE 8 s with
  | some (n, []) => some (if n < 9223372036854775808 then (n : Int) else (n : Int) - 18446744073709551616)
  | _ => none

def inRange (bits : Nat) (i : Int) : Bool := -(2 ^ (bits - 1) : Int) ≤ i && i < (2 ^ (bits - 1) : Int)

/-- the integers an integer column's decoder gives back as the number they are: everything an int64 holds
    (a value beyond the signed range of the column's width comes from an UNSIGNED column and stays what it is),
    and for BIGINT also what only a uint64 holds -/
def intKept (bits : Nat) (i : Int) : Bool :=
  -(9223372036854775808 : Int) ≤ i && i < (if bits = 64 then (18446744073709551616 : Int) else 9223372036854775808)

/-- the value the document holds, taken as it is (types.ColumnValueFromJSON's last resort; numbers are read
    with json.Number, so an integer keeps all its digits) -/
def passThrough : JVal → GoVal
  | .null => .nil
  | .int i => .int i
  | .float t f => .float t f
  | .str s => .str s

/-- types.ColumnValueFromJSON by class of the type code.  `error`: the only failure left is a text in a time
    column that is not a point in time, and (a model restriction, not reachable from the scanner) a number
    outside the range of its integer column or a fraction in one. -/
def unmarshalC : JClass → JVal → Except DecErr GoVal
  | _, .null => .ok .nil
  | .real, .float t _ => .ok (.f32 t)
  | .real, .int i => .ok (.int i)                      -- float32(i): the same number while exact (see `supported`)
  | .dbl, .float t f => .ok (.float t f)
  | .dbl, .int i => .ok (.int i)
  | .intN bits, .int i => if intKept bits i then .ok (.int i) else .error .error
  | .intN _, .float _ _ => .error .error
  | .time, .str s => (match timeOfText s with | some ns => .ok (.time ns) | none => .error .error)
  | .char, .str s => (match b64dec s with | some b => .ok (.str b) | none => .ok (.str s))
  | .bin, .str s => (match b64dec s with | some b => .ok (.bytes b) | none => .ok (.bytes s))
  | _, j => .ok (passThrough j)

def unmarshalJson (jdbc : Int) (j : JVal) : Except DecErr GoVal := unmarshalC (classOf jdbc) j

/-- protobuf serializer (convertAnyToColumnValue): the same rules, except that a text of a character column
    stays the text it is (this serializer writes the raw value and has never decoded base64 there) -/
def unmarshalPb (jdbc : Int) (j : JVal) : Except DecErr GoVal :=
  match classOf jdbc, j with
  | .char, .str s => .ok (.str s)
  | c, j => unmarshalC c j

def roundtripVal (ser : Serializer) (jdbc : Int) (v : GoVal) : Except DecErr GoVal :=
  match ser with
  | .json => unmarshalJson jdbc (marshalJson jdbc v)
  | .protobuf => unmarshalPb jdbc (marshalVal v)

/-- datasource.DeepEqual: numeric kinds compare by value, a text and a byte slice by their bytes, everything
    else structurally -/
def undoEq : GoVal → GoVal → Bool
  | .nil, .nil => true
  | .int a, .int b => a == b
  | .float a _, .float b _ => a == b
  | .float a _, .f32 b => a == b
  | .f32 a, .float b _ => a == b
  | .f32 a, .f32 b => a == b
  | .str a, .str b => a == b
  | .bytes a, .bytes b => a == b
  | .str a, .bytes b => a == b
  | .bytes a, .str b => a == b
  | .time a, .time b => a == b
  | _, _ => false

/-- the cells that round-trip: (serializer, JDBC code, value).  Everything the AT scanner produces for the
    column types it knows is in here; what is left out is a value in a column of a foreign type (a byte slice
    in a number column, a time outside a time column, ...) and integers beyond 2^53 in FLOAT/DOUBLE columns. -/
def supported (ser : Serializer) (jdbc : Int) (v : GoVal) : Bool :=
  match v, classOf jdbc with
  | .nil, _ => true
  | .int i, .intN bits => intKept bits i
  | .int i, .real => exactF64 i
  | .int i, .dbl => exactF64 i
  | .int _, .time => false
  | .int _, _ => true
  | .float _ f32, .real => f32
  | .float _ _, .intN _ => false
  | .float _ _, .time => false
  | .float _ _, _ => true
  | .f32 _, _ => false          -- never produced by the scanner
  | .str _, .char => true
  | .str s, .bin => (b64dec s).isNone
  | .str _, .time => false
  | .str _, _ => true
  | .bytes _, .bin => true
  | .bytes _, .char => ser == .json
  | .bytes _, _ => false
  | .time ns, .time => -9223372036854775808 ≤ ns && ns < 9223372036854775808
  | .time _, _ => false

/-! ### the decoders before the repairs in /repo (kept to state what they changed) -/

/-- before: BLOB (2004) had no rule and the binary codes kept the base64 text -/
def classOfBeforeFix (jdbc : Int) : JClass := if jdbc = jBlob then .other else classOf jdbc

/-- ColumnImage.UnmarshalJSON (JSON serializer) before the repairs, by class of the type code -/
def unmarshalCBeforeFix : JClass → JVal → Except DecErr GoVal
  | _, .null => .ok .nil
  | .real, .float t _ => .ok (.f32 t)
  | .real, .int i => .ok (.int i)
  | .real, .str _ => .error .panic          -- value.(float64) on a string
  | .dbl, .float t f => .ok (.float t f)
  | .dbl, .int i => .ok (.int i)
  | .dbl, .str _ => .error .panic
  | .intN bits, .int i => if exactF64 i && inRange bits i then .ok (.int i) else .error .error
  | .intN _, .float _ _ => .error .error     -- a fractional value in an integer column: outside the scanner's range
  | .intN _, .str _ => .error .panic
  | .time, .str s => (match timeOfText s with | some ns => .ok (.time ns) | none => .error .error)
  | .time, _ => .error .panic
  | .char, .str s => (match b64dec s with | some b => .ok (.str b) | none => .ok (.str s))
  | .char, _ => .error .panic
  | .bin, .str s => .ok (.str s)             -- the base64 TEXT is kept as the value
  | .bin, .int i => .ok (.int i)
  | .bin, .float t f => .ok (.float t f)
  | .other, _ => .ok .nil

def unmarshalJsonBeforeFix (jdbc : Int) (j : JVal) : Except DecErr GoVal := unmarshalCBeforeFix (classOfBeforeFix jdbc) j

/-- protobuf serializer: untyped JSON decode of the marshalled value -/
def unmarshalPbBeforeFix (j : JVal) : Except DecErr GoVal :=
  match j with
  | .null => .ok .nil
  | .int i => if exactF64 i then .ok (.int i) else .error .error
  | .float t f => .ok (.float t f)
  | .str s => .ok (.str s)

def roundtripValBeforeFix (ser : Serializer) (jdbc : Int) (v : GoVal) : Except DecErr GoVal :=
  match ser with
  | .json => unmarshalJsonBeforeFix jdbc (marshalVal v)
  | .protobuf => unmarshalPbBeforeFix (marshalVal v)


/-! context: `k=v&k=v` -/
def joinWith (sep : UInt8) : List Bytes → Bytes
  | [] => []
  | [a] => a
  | a :: r => a ++ [sep] ++ joinWith sep r

def splitOn (sep : UInt8) : Bytes → List Bytes
  | [] => [[]]
  | c :: r =>
    if c == sep then [] :: splitOn sep r
    else match splitOn sep r with
      | [] => [[c]]
      | h :: t => (c :: h) :: t

def encodeCtx (m : List (Bytes × Bytes)) : Bytes := joinWith 38 (m.map fun (k, v) => k ++ [61] ++ v)

def decodeCtx (data : Bytes) : List (Bytes × Bytes) :=
  (splitOn 38 data).filterMap fun pair =>
    if pair.isEmpty then none
    else match splitOn 61 pair with
      | [k, v] => some (k, v)
      | _ => none

/-- a compressor by contract -/
structure Compressor where
  compress : Bytes → Bytes
  decompress : Bytes → Option Bytes
  lawful : ∀ b, decompress (compress b) = some b

def noneCompressor : Compressor := { compress := id, decompress := some, lawful := fun _ => rfl }

end Seata.UndoLog
