/-
  Lock discipline of the client's shared registries and caches (C20).

  `Access` is one syntactic access to a field that lives next to a mutex, with the locks held at
  that point; the list of all accesses is GENERATED from the Go sources on every run by
  /verif/lockfacts (go/ast) into `Gen/LockFacts.lean`.  `guards` is the hand-written expectation:
  which lock protects which shared field.
-/
namespace Seata.Conc

structure Access where
  owner : String          -- package directory + type, or package directory for package-level variables
  field : String
  fn : String
  write : Bool
  held : List String      -- locks syntactically held at the access
  site : String           -- file:line
  ctor : Bool             -- inside a constructor / initialiser (no other goroutine can see the value yet)
  goroutine : Bool        -- inside a `go` statement's function literal
  deriving Repr, DecidableEq

structure Guard where
  owner : String
  field : String
  lock : String
  deriving Repr, DecidableEq

/-- the shared registries and caches and the lock each field is protected by -/
def guards : List Guard := [
  { owner := "pkg/datasource/sql/datasource/base.BaseTableMetaCache", field := "cache",
    lock := "pkg/datasource/sql/datasource/base.BaseTableMetaCache.lock" },
  { owner := "pkg/datasource/sql/datasource.BasicSourceManager", field := "tableMetaCache",
    lock := "pkg/datasource/sql/datasource.BasicSourceManager.lock" },
  { owner := "pkg/datasource/sql", field := "txHooks", lock := "pkg/datasource/sql.hl" },
  { owner := "pkg/protocol/codec.CodecManager", field := "codecMap", lock := "pkg/protocol/codec.CodecManager.mutex" },
  { owner := "pkg/remoting/loadbalance.Consistent", field := "sortedHashNodes",
    lock := "pkg/remoting/loadbalance.Consistent.<embedded>" },
  { owner := "pkg/remoting/loadbalance.Consistent", field := "hashCircle",
    lock := "pkg/remoting/loadbalance.Consistent.<embedded>" },
  { owner := "pkg/discovery.EtcdRegistryService", field := "grouplist", lock := "pkg/discovery.EtcdRegistryService.rwLock" },
  { owner := "pkg/discovery.EtcdRegistryService", field := "vgroupMapping", lock := "pkg/discovery.EtcdRegistryService.rwLock" }
]

def guardOf (a : Access) : Option Guard := guards.find? fun g => g.owner == a.owner && g.field == a.field

/-- an access respects the discipline: not a guarded field, or inside a constructor, or its lock is held -/
def ok (a : Access) : Bool :=
  match guardOf a with
  | none => true
  | some g => a.ctor || a.held.contains g.lock

def violations (accs : List Access) : List Access := accs.filter fun a => !ok a

/-- sites excused as open known findings -/
def disciplined (known : List String) (accs : List Access) : Bool :=
  (violations accs).all fun a => known.contains a.site

/-- a field of a shared owner that is WRITTEN under some lock somewhere must be in `guards`
    (so that a newly protected field cannot escape the table) -/
def sharedOwners : List String := (guards.map (·.owner)).eraseDups

def covered (accs : List Access) : Bool :=
  accs.all fun a => !(sharedOwners.contains a.owner) || !a.write || a.held.isEmpty || (guardOf a).isSome

/-- what `disciplined` establishes -/
theorem disciplined_sound (known : List String) (accs : List Access) (h : disciplined known accs = true) :
    ∀ a ∈ accs, ∀ g, guardOf a = some g → a.ctor = false → a.site ∉ known → g.lock ∈ a.held := by
  intro a ha g hg hc hk
  simp only [disciplined, List.all_eq_true] at h
  by_cases hok : ok a = true
  · simp only [ok, hg, hc, Bool.false_or] at hok
    simpa using hok
  · have hv : a ∈ violations accs := by
      simp only [violations, List.mem_filter]
      exact ⟨ha, by simpa using hok⟩
    have := h a hv
    simp only [List.contains_eq_mem, decide_eq_true_eq] at this
    exact absurd this hk

/-- two accesses to the same guarded field, both respecting the discipline and neither in a
    constructor, hold a common lock: they cannot run at the same time unless both only read-lock -/
theorem common_lock (a b : Access) (g : Guard) (ha : guardOf a = some g) (hb : guardOf b = some g)
    (oka : ok a = true) (okb : ok b = true) (ca : a.ctor = false) (cb : b.ctor = false) :
    g.lock ∈ a.held ∧ g.lock ∈ b.held := by
  simp only [ok, ha, ca, Bool.false_or] at oka
  simp only [ok, hb, cb, Bool.false_or] at okb
  exact ⟨by simpa using oka, by simpa using okb⟩

end Seata.Conc
