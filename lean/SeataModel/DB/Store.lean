/-
  A miniature relational store: the tables the AT proxy works on, with the SQL fragment the
  properties quantify over.  Rows are positional; a schema names the primary-key columns.
  (memdb, the in-memory database the real proxy runs against in the harness, is differentially
  tested against these definitions on every AT check.)
-/
import SeataModel.Basic.Bytes
namespace Seata.DB
open Seata

inductive Val
  | null
  | int (i : Int)
  | str (s : Bytes)
  deriving Repr, DecidableEq

abbrev Row := List Val
abbrev Key := List Val
abbrev Table := List Row          -- at most one row per key (`PkUnique`, a separate invariant)
abbrev Args := List Val           -- bound parameters, in placeholder order

structure Schema where
  ncols : Nat
  pk : List Nat                   -- indices of the primary-key columns, in key order
  deriving Repr, DecidableEq

def keyOf (sc : Schema) (r : Row) : Key := sc.pk.map fun i => r.getD i .null

def PkUnique (sc : Schema) (t : Table) : Prop := (t.map (keyOf sc)).Nodup

def lookup (sc : Schema) (t : Table) (k : Key) : Option Row := t.find? fun r => keyOf sc r == k

/-- scalar expressions -/
inductive Expr
  | col (i : Nat)
  | lit (v : Val)
  | par (i : Nat)                 -- the i-th bound parameter of the statement
  deriving Repr, DecidableEq

inductive CmpOp | eq | ne | lt | le | gt | ge
  deriving Repr, DecidableEq

/-- WHERE conditions -/
inductive Cond
  | tt                                        -- no WHERE clause
  | cmp (op : CmpOp) (a b : Expr)
  | and (a b : Cond)
  | or (a b : Cond)
  | not (a : Cond)
  | inList (e : Expr) (l : List Expr)
  | between (e lo hi : Expr)
  | isNull (e : Expr)
  | paren (c : Cond)
  deriving Repr

def evalE (r : Row) (args : Args) : Expr → Val
  | .col i => r.getD i .null
  | .lit v => v
  | .par i => args.getD i .null

def bytesLt : Bytes → Bytes → Bool
  | [], [] => false
  | [], _ :: _ => true
  | _ :: _, [] => false
  | a :: r, b :: s => a < b || (a == b && bytesLt r s)

/-- SQL comparison: UNKNOWN (none) when an operand is NULL or the kinds differ -/
def cmpVal (op : CmpOp) (a b : Val) : Option Bool :=
  match a, b with
  | .int x, .int y =>
    some (match op with
      | .eq => x == y | .ne => x != y | .lt => x < y | .le => x ≤ y | .gt => x > y | .ge => x ≥ y)
  | .str x, .str y =>
    some (match op with
      | .eq => x == y | .ne => x != y | .lt => bytesLt x y | .le => bytesLt x y || x == y
      | .gt => bytesLt y x | .ge => bytesLt y x || x == y)
  | _, _ => none

def and3 : Option Bool → Option Bool → Option Bool
  | some false, _ => some false
  | _, some false => some false
  | some true, some true => some true
  | _, _ => none
def or3 : Option Bool → Option Bool → Option Bool
  | some true, _ => some true
  | _, some true => some true
  | some false, some false => some false
  | _, _ => none
def not3 : Option Bool → Option Bool
  | some b => some (!b)
  | none => none

/-- three-valued evaluation of a condition on a row -/
def evalC (r : Row) (args : Args) : Cond → Option Bool
  | .tt => some true
  | .cmp op a b => cmpVal op (evalE r args a) (evalE r args b)
  | .and a b => and3 (evalC r args a) (evalC r args b)
  | .or a b => or3 (evalC r args a) (evalC r args b)
  | .not a => not3 (evalC r args a)
  | .inList e l => l.foldl (fun acc x => or3 acc (cmpVal .eq (evalE r args e) (evalE r args x))) (some false)
  | .between e lo hi => and3 (cmpVal .ge (evalE r args e) (evalE r args lo)) (cmpVal .le (evalE r args e) (evalE r args hi))
  | .isNull e => some (evalE r args e == .null)
  | .paren c => evalC r args c

def matches_ (r : Row) (args : Args) (w : Cond) : Bool := evalC r args w == some true

/-- right-hand sides of SET -/
inductive SetE
  | val (e : Expr)                 -- literal / parameter / another column
  | plus (c : Nat) (e : Expr)      -- c + e
  deriving Repr, DecidableEq

def evalSet (r : Row) (args : Args) : SetE → Val
  | .val e => evalE r args e
  | .plus c e =>
    match r.getD c .null, evalE r args e with
    | .int x, .int y => .int (x + y)
    | _, _ => .null

def setCol (r : Row) (i : Nat) (v : Val) : Row := r.set i v

/-- SET clauses are evaluated left to right on the row as it is being updated (MySQL semantics) -/
def applySets (args : Args) (sets : List (Nat × SetE)) (r : Row) : Row :=
  sets.foldl (fun acc p => setCol acc p.1 (evalSet acc args p.2)) r

/-- right-hand sides of ON DUPLICATE KEY UPDATE: `c = VALUES(c)` or `c = <literal>` -/
inductive UpSrc
  | values
  | lit (v : Val)
  deriving Repr, DecidableEq

inductive Stmt
  | update (sets : List (Nat × SetE)) (w : Cond)
  | delete (w : Cond)
  | insert (rows : List (List Expr))      -- full rows, one expression per column (lit / par)
  | failing (s : Stmt)                    -- a statement the database fails (deadlock, lock wait timeout, …)
  | upsert (rows : List (List Expr)) (assign : List (Nat × UpSrc))   -- INSERT … ON DUPLICATE KEY UPDATE
  | updateLim (sets : List (Nat × SetE)) (w : Cond) (ord : List (Nat × Bool)) (lim : Nat)  -- … ORDER BY … LIMIT n
  | deleteLim (w : Cond) (ord : List (Nat × Bool)) (lim : Nat)
  deriving Repr

inductive SqlErr | dupKey | other
  deriving Repr, DecidableEq

/-! ORDER BY (integer columns; NULL sorts first ascending) and LIMIT -/

/-- three-way comparison of two cells for ORDER BY: -1, 0, 1 -/
def ordCmp : Val → Val → Int
  | .null, .null => 0
  | .null, _ => -1
  | _, .null => 1
  | .int a, .int b => if a < b then -1 else if a == b then 0 else 1
  | .str a, .str b => if bytesLt a b then -1 else if a == b then 0 else 1
  | .int _, .str _ => -1
  | .str _, .int _ => 1

/-- does row `a` sort strictly before row `b` under the ORDER BY items (column, descending)? -/
def rowBefore (ord : List (Nat × Bool)) (a b : Row) : Bool :=
  match ord with
  | [] => false
  | (c, desc) :: rest =>
    let d := ordCmp (a.getD c .null) (b.getD c .null)
    if d == 0 then rowBefore rest a b else (d < 0) != desc

/-- stable insertion sort -/
def insertRow (ord : List (Nat × Bool)) (r : Row) : List Row → List Row
  | [] => [r]
  | x :: xs => if rowBefore ord r x then r :: x :: xs else x :: insertRow ord r xs

def orderRows (ord : List (Nat × Bool)) (rows : List Row) : List Row :=
  rows.foldr (fun r acc => insertRow ord r acc) []

/-- the keys of the rows an UPDATE / DELETE … WHERE … ORDER BY … LIMIT n works on -/
def limitedKeys (sc : Schema) (t : Table) (args : Args) (w : Cond) (ord : List (Nat × Bool)) (lim : Nat) : List Key :=
  ((orderRows ord (t.filter fun r => matches_ r args w)).take lim).map (keyOf sc)

/-- one row of INSERT … ON DUPLICATE KEY UPDATE: inserted when its key is new, otherwise the stored
    row gets the assignments (`VALUES(c)` is the new row's value of `c`) -/
def upsertRow (sc : Schema) (assign : List (Nat × UpSrc)) (t : Table) (r : Row) : Table :=
  match lookup sc t (keyOf sc r) with
  | none => t ++ [r]
  | some _ =>
    t.map fun old =>
      if keyOf sc old == keyOf sc r then
        assign.foldl (fun acc p => acc.set p.1 (match p.2 with | .values => r.getD p.1 .null | .lit v => v)) old
      else old

/-- execute a statement: new table and affected-row count, or an error with nothing changed -/
def apply (sc : Schema) (t : Table) (args : Args) : Stmt → Except SqlErr (Table × Nat)
  | .update sets w =>
    let t' := t.map fun r => if matches_ r args w then applySets args sets r else r
    .ok (t', (t.filter fun r => matches_ r args w && applySets args sets r != r).length)
  | .delete w => .ok (t.filter (fun r => !matches_ r args w), (t.filter fun r => matches_ r args w).length)
  | .insert rows =>
    let news := rows.map fun es => es.map (evalE [] args)
    let rec go (t : Table) : List Row → Option Table
      | [] => some t
      | r :: rs => if (lookup sc t (keyOf sc r)).isSome then none else go (t ++ [r]) rs
    match go t news with
    | some t' => .ok (t', news.length)
    | none => .error .dupKey
  | .failing _ => .error .other
  | .upsert rows assign =>
    let news := rows.map fun es => es.map (evalE [] args)
    .ok (news.foldl (upsertRow sc assign) t, news.length)
  | .updateLim sets w ord lim =>
    let sel := limitedKeys sc t args w ord lim
    .ok (t.map fun r => if sel.contains (keyOf sc r) then applySets args sets r else r,
         (t.filter fun r => sel.contains (keyOf sc r) && applySets args sets r != r).length)
  | .deleteLim w ord lim =>
    let sel := limitedKeys sc t args w ord lim
    .ok (t.filter (fun r => !sel.contains (keyOf sc r)), (t.filter fun r => sel.contains (keyOf sc r)).length)

end Seata.DB
