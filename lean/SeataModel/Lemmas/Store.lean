/-
  Helper lemmas for C01 (AT rollback restores the table): keyed lists, rows, images, and the
  compensation of each statement kind.
-/
import SeataModel.AT.World
namespace Seata.Lemmas.Store
open Seata Seata.DB Seata.AT

/-! ### lists with unique keys -/

section Keyed
variable {α : Type _} {κ : Type _}

theorem inj_of_nodup_map (f : α → κ) : ∀ (l : List α), (l.map f).Nodup →
    ∀ x ∈ l, ∀ y ∈ l, f x = f y → x = y := by
  intro l
  induction l with
  | nil => intro _ x hx; cases hx
  | cons a l ih =>
    intro hnd x hx y hy hxy
    simp only [List.map_cons, List.nodup_cons, List.mem_map, not_exists, not_and] at hnd
    obtain ⟨h1, h2⟩ := hnd
    rcases List.mem_cons.1 hx with rfl | hx' <;> rcases List.mem_cons.1 hy with rfl | hy'
    · rfl
    · exact absurd hxy.symm (h1 y hy')
    · exact absurd hxy (h1 x hx')
    · exact ih h2 x hx' y hy' hxy

/-- looking a key up in a list with unique keys finds the row carrying it -/
theorem find?_key [BEq κ] [LawfulBEq κ] (f : α → κ) (l : List α) (hnd : (l.map f).Nodup) (x : α) (hx : x ∈ l) (k : κ)
    (hk : f x = k) : l.find? (fun y => f y == k) = some x := by
  induction l with
  | nil => cases hx
  | cons a l ih =>
    simp only [List.map_cons, List.nodup_cons, List.mem_map, not_exists, not_and] at hnd
    obtain ⟨h1, h2⟩ := hnd
    rcases List.mem_cons.1 hx with rfl | hx'
    · simp [hk]
    · have : f a ≠ k := fun h => h1 x hx' (hk.trans h.symm)
      simp [this, ih h2 hx']

theorem find?_key_none [BEq κ] [LawfulBEq κ] (f : α → κ) (l : List α) (k : κ) (h : ∀ x ∈ l, f x ≠ k) :
    l.find? (fun y => f y == k) = none := by
  simp [List.find?_eq_none]; exact h

theorem nodup_map_filter (f : α → κ) (p : α → Bool) (l : List α) (hnd : (l.map f).Nodup) :
    ((l.filter p).map f).Nodup :=
  List.Nodup.sublist (List.Sublist.map f List.filter_sublist) hnd

theorem nodup_map_perm (f : α → κ) {l l' : List α} (hp : l.Perm l') (hnd : (l'.map f).Nodup) :
    (l.map f).Nodup := (hp.map f).nodup_iff.2 hnd

/-- membership of a row's key among the keys of the rows selected by `p` is `p` itself -/
theorem contains_key_filter [BEq κ] [LawfulBEq κ] (f : α → κ) (p : α → Bool) (l : List α) (hnd : (l.map f).Nodup)
    (x : α) (hx : x ∈ l) : ((l.filter p).map f).contains (f x) = p x := by
  cases hp : p x
  · rw [Bool.eq_false_iff]
    intro hc
    simp only [List.contains_eq_mem, List.mem_map, List.mem_filter, decide_eq_true_eq] at hc
    obtain ⟨y, ⟨hy, hpy⟩, hxy⟩ := hc
    have := inj_of_nodup_map f l hnd y hy x hx hxy
    subst this
    simp [hp] at hpy
  · simp only [List.contains_eq_mem, List.mem_map, List.mem_filter, decide_eq_true_eq]
    exact ⟨x, ⟨hx, hp⟩, rfl⟩

end Keyed

/-! ### rows -/

theorem row_ext (r r' : Row) (hl : r.length = r'.length)
    (h : ∀ j, j < r.length → r.getD j .null = r'.getD j .null) : r = r' := by
  apply List.ext_getElem hl
  intro j h1 h2
  have := h j h1
  simpa [List.getD_eq_getElem?_getD, h1, h2] using this

theorem getD_set (r : Row) (i j : Nat) (v : Val) :
    (r.set i v).getD j .null = if i = j ∧ i < r.length then v else r.getD j .null := by
  simp only [List.getD_eq_getElem?_getD, List.getElem?_set]
  by_cases hij : i = j
  · subst hij
    by_cases hl : i < r.length <;> simp [hl]
  · simp [hij]

theorem keyOf_congr (sc : Schema) (r r' : Row)
    (h : ∀ i ∈ sc.pk, r.getD i .null = r'.getD i .null) : keyOf sc r = keyOf sc r' :=
  List.map_congr_left h

theorem applySets_length (args : Args) (sets : List (Nat × SetE)) (r : Row) :
    (applySets args sets r).length = r.length := by
  unfold applySets
  induction sets generalizing r with
  | nil => rfl
  | cons p ps ih =>
    simp only [List.foldl_cons]
    rw [ih]
    simp [setCol]

/-- SET changes only the columns it names -/
theorem applySets_getD (args : Args) (sets : List (Nat × SetE)) (r : Row) (j : Nat)
    (hj : j ∉ sets.map (·.1)) : (applySets args sets r).getD j .null = r.getD j .null := by
  unfold applySets
  induction sets generalizing r with
  | nil => rfl
  | cons p ps ih =>
    simp only [List.map_cons, List.mem_cons, not_or] at hj
    simp only [List.foldl_cons]
    rw [ih _ hj.2, setCol, getD_set]
    simp [Ne.symm hj.1]

theorem applySets_keyOf (sc : Schema) (args : Args) (sets : List (Nat × SetE)) (r : Row)
    (h : ∀ p ∈ sets, p.1 ∉ sc.pk) : keyOf sc (applySets args sets r) = keyOf sc r := by
  apply keyOf_congr
  intro i hi
  apply applySets_getD
  intro hmem
  obtain ⟨p, hp, rfl⟩ := List.mem_map.1 hmem
  exact h p hp hi

theorem setCells_length (r : Row) (cells : List (Nat × Val)) (pk : List Nat) :
    (setCells r cells pk).length = r.length := by
  unfold setCells
  induction cells generalizing r with
  | nil => rfl
  | cons p ps ih =>
    simp only [List.foldl_cons]
    rw [ih]
    split <;> simp

/-- writing the tracked cells of an image of `r` back into `acc` -/
theorem setCells_project_getD (r : Row) (cols pk : List Nat) (acc : Row) (j : Nat) :
    (setCells acc (cols.map fun c => (c, r.getD c .null)) pk).getD j .null =
      if j ∈ cols ∧ j ∉ pk ∧ j < acc.length then r.getD j .null else acc.getD j .null := by
  unfold setCells
  induction cols generalizing acc with
  | nil => simp
  | cons c cs ih =>
    simp only [List.map_cons, List.foldl_cons]
    rw [ih]
    by_cases hc : pk.contains c = true
    · simp only [hc, if_true]
      have hc' : c ∈ pk := by simpa using hc
      by_cases hjc : j = c
      · subst hjc; simp [hc']
      · simp [hjc]
    · simp only [hc, Bool.false_eq_true, if_false, List.length_set, getD_set]
      have hc' : c ∉ pk := by simpa using hc
      by_cases hjc : j = c
      · subst hjc
        by_cases hl : j < acc.length <;> by_cases hm : j ∈ cs <;> simp [hl, hm, hc']
      · have : ¬ (c = j) := fun h => hjc h.symm
        simp [hjc, this]

/-- the compensation of an UPDATE on one row: `r'` differs from `r` only in tracked non-key
    columns; writing the before image back gives `r` -/
theorem setCells_restore (sc : Schema) (cols : List Nat) (r r' : Row) (hl : r'.length = r.length)
    (h : ∀ j, j < r.length → (j ∈ cols ∧ j ∉ sc.pk) ∨ r'.getD j .null = r.getD j .null) :
    setCells r' (project sc cols r).cells sc.pk = r := by
  apply row_ext
  · rw [setCells_length, hl]
  · intro j hj
    rw [setCells_length] at hj
    simp only [project]
    rw [setCells_project_getD]
    rcases h j (hl ▸ hj) with ⟨h1, h2⟩ | h3
    · simp [h1, h2, hj]
    · split
      · rfl
      · exact h3

theorem find?_cells (cols : List Nat) (f : Nat → Val) (c : Nat) :
    (cols.map fun c => (c, f c)).find? (fun q => q.1 == c) = if c ∈ cols then some (c, f c) else none := by
  induction cols with
  | nil => simp
  | cons a as ih =>
    simp only [List.map_cons, List.find?_cons]
    by_cases hac : a = c
    · subst hac; simp
    · have h1 : (a == c) = false := by simp [hac]
      have h2 : ¬ (c = a) := fun h => hac h.symm
      simp [h1, h2, ih]

/-- the row re-inserted by the compensation of a DELETE is the deleted row -/
theorem rebuild_row (sc : Schema) (r : Row) (hl : r.length = sc.ncols) :
    ((List.range sc.ncols).map fun c =>
      (((project sc (allCols sc) r).cells.find? (·.1 == c)).map (·.2)).getD .null) = r := by
  apply row_ext
  · simp [hl]
  · intro j hj
    simp only [List.length_map, List.length_range] at hj
    simp only [project, allCols, find?_cells]
    simp [List.getD_eq_getElem?_getD, hj]

/-! ### images -/

theorem cellsEq_project (sc : Schema) (cols : List Nat) (r r' : Row) :
    cellsEq (project sc cols r).cells (project sc cols r').cells = true ↔
      ∀ c ∈ cols, r'.getD c .null = r.getD c .null := by
  simp only [cellsEq, project, List.all_eq_true, List.mem_map, find?_cells]
  constructor
  · intro h c hc
    have := h (c, r.getD c .null) ⟨c, hc, rfl⟩
    simpa [hc] using this
  · rintro h p ⟨c, hc, rfl⟩
    simp only [hc, if_true, Option.map_some, h c hc]
    simp

theorem project_key (sc : Schema) (cols : List Nat) (r : Row) : (project sc cols r).key = keyOf sc r := rfl

theorem map_project_keys (sc : Schema) (cols : List Nat) (l : List Row) :
    (l.map (project sc cols)).map (·.key) = l.map (keyOf sc) := by
  simp [List.map_map, Function.comp_def, project_key]

/-- looking an image row up by the key of a stored row -/
theorem find?_project (sc : Schema) (cols : List Nat) (l : List Row) (k : Key) :
    (l.map (project sc cols)).find? (fun n => n.key == k) =
      (l.find? (fun r => keyOf sc r == k)).map (project sc cols) := by
  rw [List.find?_map]; rfl

/-- rows with unique keys, projected, equal their own projection after any permutation -/
theorem recordsEq_perm (sc : Schema) (cols : List Nat) (l cur : List Row)
    (hnd : (l.map (keyOf sc)).Nodup) (hp : cur.Perm l) :
    recordsEq (l.map (project sc cols)) (cur.map (project sc cols)) = true := by
  have hnd' := nodup_map_perm (keyOf sc) hp hnd
  simp only [recordsEq, Bool.and_eq_true, List.length_map, beq_iff_eq, List.all_eq_true, List.mem_map]
  refine ⟨hp.length_eq.symm, ?_⟩
  rintro o ⟨r, hr, rfl⟩
  rw [project_key, find?_project, find?_key (keyOf sc) cur hnd' r (hp.mem_iff.2 hr) _ rfl]
  simp only [Option.map_some]
  exact (cellsEq_project sc cols r r).2 (fun _ _ => rfl)

/-- images equal before and after: every hit row kept its tracked columns -/
theorem recordsEq_map (sc : Schema) (cols : List Nat) (l : List Row) (f : Row → Row)
    (hnd : (l.map (keyOf sc)).Nodup) (hk : ∀ r ∈ l, keyOf sc (f r) = keyOf sc r)
    (h : recordsEq (l.map (project sc cols)) ((l.map f).map (project sc cols)) = true) :
    ∀ r ∈ l, ∀ c ∈ cols, (f r).getD c .null = r.getD c .null := by
  intro r hr
  simp only [recordsEq, Bool.and_eq_true, List.all_eq_true, List.mem_map] at h
  have h2 := h.2 _ ⟨r, hr, rfl⟩
  have hfind : (l.map f).find? (fun x => keyOf sc x == keyOf sc r) = some (f r) := by
    rw [List.find?_map]
    have : ((fun x => keyOf sc x == keyOf sc r) ∘ f) = fun x => (keyOf sc ∘ f) x == keyOf sc r := rfl
    rw [this]
    have hnd2 : (l.map (keyOf sc ∘ f)).Nodup := by
      rw [List.map_congr_left (f := keyOf sc ∘ f) (g := keyOf sc) (fun a ha => hk a ha)]; exact hnd
    rw [find?_key (keyOf sc ∘ f) l hnd2 r hr _ (hk r hr)]
    rfl
  rw [project_key, find?_project, hfind] at h2
  exact (cellsEq_project sc cols r (f r)).1 h2

theorem currentOf_project (sc : Schema) (cols : List Nat) (t : Table) (l : List Row) (hl : l ≠ []) :
    currentOf sc t (l.map (project sc cols)) =
      (t.filter fun r => (l.map (keyOf sc)).contains (keyOf sc r)).map (project sc cols) := by
  cases l with
  | nil => exact absurd rfl hl
  | cons a as =>
    simp only [currentOf, map_project_keys]
    simp [project, List.map_map, Function.comp_def]

theorem validate_of_current (sc : Schema) (cfg : Cfg) (t : Table) (it : Item) (rows : List IRow)
    (h : recordsEq it.after (currentOf sc t rows) = true) :
    validate sc cfg t it rows = if cfg.validate && recordsEq it.before it.after then .skip else .goOn := by
  unfold validate
  cases cfg.validate <;> cases recordsEq it.before it.after <;> simp [h]

/-! ### UPDATE -/

section Update
variable (sc : Schema) (t : Table) (m : Row → Bool) (f : Row → Row)

/-- the table after an UPDATE (`m`: the WHERE clause, `f`: the SET clauses) -/
def updated : Table := t.map fun r => if m r then f r else r

theorem updated_keyOf (hkey : ∀ r ∈ t, keyOf sc (f r) = keyOf sc r) :
    ∀ r ∈ t, keyOf sc (if m r then f r else r) = keyOf sc r := by
  intro r hr; split
  · exact hkey r hr
  · rfl

theorem updated_keys (hkey : ∀ r ∈ t, keyOf sc (f r) = keyOf sc r) :
    (updated t m f).map (keyOf sc) = t.map (keyOf sc) := by
  simp only [updated, List.map_map]
  exact List.map_congr_left (updated_keyOf sc t m f hkey)

theorem hit_keys (hkey : ∀ r ∈ t, keyOf sc (f r) = keyOf sc r) :
    ((t.filter m).map f).map (keyOf sc) = (t.filter m).map (keyOf sc) := by
  simp only [List.map_map]
  exact List.map_congr_left (fun r hr => hkey r (List.mem_filter.1 hr).1)

/-- the after image of an UPDATE: the rows now stored under the keys of the hit rows -/
theorem update_after (hu : PkUnique sc t) (hkey : ∀ r ∈ t, keyOf sc (f r) = keyOf sc r) :
    (updated t m f).filter (fun r => ((t.filter m).map (keyOf sc)).contains (keyOf sc r)) =
      (t.filter m).map f := by
  simp only [updated, List.filter_map]
  have h1 : t.filter ((fun r => ((t.filter m).map (keyOf sc)).contains (keyOf sc r)) ∘
      fun r => if m r then f r else r) = t.filter m := by
    apply List.filter_congr
    intro r hr
    simp only [Function.comp]
    rw [updated_keyOf sc t m f hkey r hr]
    exact contains_key_filter (keyOf sc) m t hu r hr
  rw [h1]
  apply List.map_congr_left
  intro r hr
  simp [(List.mem_filter.1 hr).2]

theorem updated_eq_self (h : ∀ r ∈ t.filter m, f r = r) : updated t m f = t := by
  have : t.map (fun r => if m r then f r else r) = t.map id := by
    apply List.map_congr_left
    intro r hr
    by_cases hm : m r = true
    · simp [hm, h r (List.mem_filter.2 ⟨hr, hm⟩)]
    · simp [hm]
  simpa [updated] using this

/-- the compensating UPDATE, row by row -/
def undoUpd (cols : List Nat) (r : Row) : Row :=
  match ((t.filter m).map (project sc cols)).find? (fun b => b.key == keyOf sc r) with
  | some b => setCells r b.cells sc.pk
  | none => r

theorem undoUpd_updated (cols : List Nat) (hu : PkUnique sc t)
    (hlen : ∀ r ∈ t, (f r).length = r.length)
    (hkey : ∀ r ∈ t, keyOf sc (f r) = keyOf sc r)
    (hch : ∀ r ∈ t, ∀ j, j < r.length → (j ∈ cols ∧ j ∉ sc.pk) ∨ (f r).getD j .null = r.getD j .null) :
    (updated t m f).map (undoUpd sc t m cols) = t := by
  have : (updated t m f).map (undoUpd sc t m cols) = t.map id := by
    simp only [updated, List.map_map]
    apply List.map_congr_left
    intro r hr
    simp only [Function.comp, undoUpd, id]
    rw [updated_keyOf sc t m f hkey r hr, find?_project]
    by_cases hm : m r = true
    · rw [find?_key (keyOf sc) (t.filter m) (nodup_map_filter _ _ _ hu) r (List.mem_filter.2 ⟨hr, hm⟩) _ rfl]
      simp only [hm, if_true, Option.map_some]
      exact setCells_restore sc cols r (f r) (hlen r hr) (hch r hr)
    · rw [find?_key_none]
      · simp [hm]
      · intro x hx hxk
        have hx' := List.mem_filter.1 hx
        have := inj_of_nodup_map (keyOf sc) t hu x hx'.1 r hr hxk
        subst this
        exact hm hx'.2
  simpa using this

theorem undo_update_core (cfg : Cfg) (cols : List Nat) (hu : PkUnique sc t)
    (hlen : ∀ r ∈ t, (f r).length = r.length)
    (hkey : ∀ r ∈ t, keyOf sc (f r) = keyOf sc r)
    (hch : ∀ r ∈ t, ∀ j, j < r.length → (j ∈ cols ∧ j ∉ sc.pk) ∨ (f r).getD j .null = r.getD j .null)
    (hne : t.filter m ≠ [])
    (u : Table) (hp : u.Perm (updated t m f)) :
    ∃ u' res, undoItem sc cfg u ⟨.update, (t.filter m).map (project sc cols),
        ((t.filter m).map f).map (project sc cols)⟩ = (u', res) ∧
      (res = .done ∨ res = .skipped) ∧ u'.Perm t := by
  have hndhit : ((t.filter m).map (keyOf sc)).Nodup := nodup_map_filter _ _ _ hu
  have hne' : (t.filter m).map f ≠ [] := by simpa using hne
  have hcur : recordsEq (((t.filter m).map f).map (project sc cols))
      (currentOf sc u (((t.filter m).map f).map (project sc cols))) = true := by
    rw [currentOf_project sc cols u _ hne', hit_keys sc t m f hkey]
    apply recordsEq_perm
    · rw [hit_keys sc t m f hkey]; exact hndhit
    · rw [← update_after sc t m f hu hkey]
      exact hp.filter _
  simp only [undoItem]
  rw [validate_of_current sc cfg u _ _ hcur]
  by_cases hc : (cfg.validate && recordsEq ((t.filter m).map (project sc cols))
      (((t.filter m).map f).map (project sc cols))) = true
  · simp only [hc, if_true]
    refine ⟨u, .skipped, rfl, Or.inr rfl, ?_⟩
    have hrec := (Bool.and_eq_true _ _ ▸ hc).2
    have hsame := recordsEq_map sc cols (t.filter m) f hndhit
      (fun r hr => hkey r (List.mem_filter.1 hr).1) hrec
    have : updated t m f = t := by
      apply updated_eq_self
      intro r hr
      have hrt := (List.mem_filter.1 hr).1
      apply row_ext _ _ (hlen r hrt)
      intro j hj
      rw [hlen r hrt] at hj
      rcases hch r hrt j hj with ⟨h1, _⟩ | h2
      · exact hsame r hr j h1
      · exact h2
    rw [← this]; exact hp
  · simp only [hc, Bool.false_eq_true, if_false]
    have hemp : ((t.filter m).map (project sc cols)).isEmpty = false := by
      simpa [List.isEmpty_iff] using hne
    simp only [hemp, Bool.false_eq_true, if_false]
    refine ⟨_, .done, rfl, Or.inl rfl, ?_⟩
    have := hp.map (undoUpd sc t m cols)
    rw [undoUpd_updated sc t m f cols hu hlen hkey hch] at this
    exact this

end Update

/-- the conclusion of `C01_stmt_restore` with the well-formedness of the new table unpacked -/
def StmtRestores (sc : Schema) (cfg : Cfg) (t t' : Table) (item : Item) : Prop :=
  (PkUnique sc t' ∧ ∀ r ∈ t', r.length = sc.ncols) ∧
  (item.nonEmpty = false → t' = t) ∧
  (item.nonEmpty = true → ∀ u : Table, u.Perm t' →
    ∃ u' res, undoItem sc cfg u item = (u', res) ∧ (res = .done ∨ res = .skipped) ∧ u'.Perm t)

theorem mem_updateCols (sc : Schema) (cfg : Cfg) (sets : List (Nat × SetE))
    (hs : ∀ p ∈ sets, p.1 < sc.ncols ∧ p.1 ∉ sc.pk) (j : Nat) (hj : j ∈ sets.map (·.1)) :
    j ∈ updateCols sc cfg sets ∧ j ∉ sc.pk := by
  obtain ⟨p, hp, rfl⟩ := List.mem_map.1 hj
  refine ⟨?_, (hs p hp).2⟩
  unfold updateCols
  split
  · exact List.mem_append_left _ hj
  · simpa [allCols] using (hs p hp).1

theorem update_restore (sc : Schema) (cfg : Cfg) (t : Table) (args : Args) (sets : List (Nat × SetE))
    (w : Cond) (t' : Table) (item : Item) (keys : List Key)
    (hu : PkUnique sc t) (hsh : ∀ r ∈ t, r.length = sc.ncols)
    (hs : ∀ p ∈ sets, p.1 < sc.ncols ∧ p.1 ∉ sc.pk)
    (h : stmtPhase1 sc cfg t args (.update sets w) = .ok (t', item, keys)) :
    StmtRestores sc cfg t t' item := by
  have hkey : ∀ r ∈ t, keyOf sc (applySets args sets r) = keyOf sc r :=
    fun r _ => applySets_keyOf sc args sets r (fun p hp => (hs p hp).2)
  have hlen : ∀ r ∈ t, (applySets args sets r).length = r.length :=
    fun r _ => applySets_length args sets r
  have hch : ∀ r ∈ t, ∀ j, j < r.length → (j ∈ updateCols sc cfg sets ∧ j ∉ sc.pk) ∨
      (applySets args sets r).getD j .null = r.getD j .null := by
    intro r _ j _
    by_cases hj : j ∈ sets.map (·.1)
    · exact Or.inl (mem_updateCols sc cfg sets hs j hj)
    · exact Or.inr (applySets_getD args sets r j hj)
  replace h := (stmtPhase1_update_ok h).2
  simp only [updatePhase1, apply] at h
  have haft := update_after sc t (fun r => matches_ r args w) (applySets args sets) hu hkey
  simp only [updated] at haft
  rw [haft] at h
  simp only [List.length_map, bne_self_eq_false, Bool.false_eq_true, if_false, Except.ok.injEq,
    Prod.mk.injEq] at h
  obtain ⟨rfl, rfl, rfl⟩ := h
  refine ⟨⟨?_, ?_⟩, ?_, ?_⟩
  · have := updated_keys sc t (fun r => matches_ r args w) (applySets args sets) hkey
    simp only [updated] at this
    simp only [PkUnique, this]; exact hu
  · intro r hr
    obtain ⟨r0, hr0, rfl⟩ := List.mem_map.1 hr
    split
    · rw [applySets_length]; exact hsh r0 hr0
    · exact hsh r0 hr0
  · intro hne
    have hnil : t.filter (fun r => matches_ r args w) = [] := by
      simpa [Item.nonEmpty, List.isEmpty_iff] using hne
    have := updated_eq_self t (fun r => matches_ r args w) (applySets args sets) (by simp [hnil])
    simpa [updated] using this
  · intro hne u hp
    have hnn : t.filter (fun r => matches_ r args w) ≠ [] := by
      intro hnil; simp [Item.nonEmpty, hnil] at hne
    exact undo_update_core sc t (fun r => matches_ r args w) (applySets args sets) cfg
      (updateCols sc cfg sets) hu hlen hkey hch hnn u hp

/-! ### DELETE -/

theorem undo_delete_core (sc : Schema) (cfg : Cfg) (t : Table) (m : Row → Bool)
    (hu : PkUnique sc t) (hsh : ∀ r ∈ t, r.length = sc.ncols) (hne : t.filter m ≠ [])
    (u : Table) (hp : u.Perm (t.filter fun r => !m r)) :
    ∃ u' res, undoItem sc cfg u ⟨.delete, (t.filter m).map (project sc (allCols sc)), []⟩ = (u', res) ∧
      (res = .done ∨ res = .skipped) ∧ u'.Perm t := by
  have hnokey : ∀ r ∈ u, ((t.filter m).map (keyOf sc)).contains (keyOf sc r) = false := by
    intro r hr
    have hr' := List.mem_filter.1 (hp.mem_iff.1 hr)
    rw [contains_key_filter (keyOf sc) m t hu r hr'.1]
    simpa using hr'.2
  have hcur : currentOf sc u ((t.filter m).map (project sc (allCols sc))) = [] := by
    rw [currentOf_project sc _ u _ hne]
    have : u.filter (fun r => ((t.filter m).map (keyOf sc)).contains (keyOf sc r)) = [] := by
      rw [List.filter_eq_nil_iff]
      intro r hr; rw [hnokey r hr]; exact Bool.false_ne_true
    rw [this]; rfl
  have hlenne : ((t.filter m).length == 0) = false := by
    cases hf : t.filter m with
    | nil => exact absurd hf hne
    | cons a as => rfl
  have hval : validate sc cfg u ⟨.delete, (t.filter m).map (project sc (allCols sc)), []⟩
      ((t.filter m).map (project sc (allCols sc))) = .goOn := by
    simp only [validate, hcur]
    cases cfg.validate <;> simp [recordsEq, hlenne]
  have hemp : ((t.filter m).map (project sc (allCols sc))).isEmpty = false := by
    simpa [List.isEmpty_iff] using hne
  have hrows : ((t.filter m).map (project sc (allCols sc))).map (fun b =>
      (List.range sc.ncols).map fun c => ((b.cells.find? (·.1 == c)).map (·.2)).getD .null) = t.filter m := by
    rw [List.map_map]
    have : (t.filter m).map ((fun b : IRow => (List.range sc.ncols).map fun c =>
        ((b.cells.find? (·.1 == c)).map (·.2)).getD .null) ∘ project sc (allCols sc)) = (t.filter m).map id := by
      apply List.map_congr_left
      intro r hr
      exact rebuild_row sc r (hsh r (List.mem_filter.1 hr).1)
    simpa using this
  have hany : (t.filter m).any (fun r => (lookup sc u (keyOf sc r)).isSome) = false := by
    rw [List.any_eq_false]
    intro r hr
    simp only [lookup, List.find?_isSome, beq_iff_eq, not_exists, not_and]
    intro x hx hxk
    have := hnokey x hx
    rw [hxk] at this
    have h2 : ((t.filter m).map (keyOf sc)).contains (keyOf sc r) = true := by
      simp only [List.contains_eq_mem, List.mem_map, decide_eq_true_eq]
      exact ⟨r, hr, rfl⟩
    rw [this] at h2; cases h2
  simp only [undoItem, hval, hemp, hrows, hany, Bool.false_eq_true, if_false]
  refine ⟨_, .done, rfl, Or.inl rfl, ?_⟩
  exact (hp.append_right _).trans (List.perm_append_comm.trans (List.filter_append_perm m t))

theorem delete_restore (sc : Schema) (cfg : Cfg) (t : Table) (args : Args)
    (w : Cond) (t' : Table) (item : Item) (keys : List Key)
    (hu : PkUnique sc t) (hsh : ∀ r ∈ t, r.length = sc.ncols)
    (h : stmtPhase1 sc cfg t args (.delete w) = .ok (t', item, keys)) :
    StmtRestores sc cfg t t' item := by
  simp only [stmtPhase1, apply, Except.ok.injEq, Prod.mk.injEq] at h
  obtain ⟨rfl, rfl, rfl⟩ := h
  refine ⟨⟨?_, ?_⟩, ?_, ?_⟩
  · exact nodup_map_filter _ _ _ hu
  · intro r hr; exact hsh r (List.mem_filter.1 hr).1
  · intro hne
    have hnil : t.filter (fun r => matches_ r args w) = [] := by
      simpa [Item.nonEmpty, List.isEmpty_iff] using hne
    rw [List.filter_eq_self]
    intro r hr
    rw [List.filter_eq_nil_iff] at hnil
    simpa using hnil r hr
  · intro hne u hp
    have hnn : t.filter (fun r => matches_ r args w) ≠ [] := by
      intro hnil; simp [Item.nonEmpty, hnil] at hne
    exact undo_delete_core sc cfg t (fun r => matches_ r args w) hu hsh hnn u hp

/-! ### UPDATE / DELETE … ORDER BY … LIMIT (rows selected by key membership) -/

/-- the after image when the selection is by key membership: the selected rows of the new table -/
theorem update_after_sel (sc : Schema) (t : Table) (sel : List Key) (f : Row → Row)
    (hkey : ∀ r ∈ t, keyOf sc (f r) = keyOf sc r) :
    (updated t (fun r => sel.contains (keyOf sc r)) f).filter (fun r => sel.contains (keyOf sc r)) =
      (t.filter fun r => sel.contains (keyOf sc r)).map f := by
  simp only [updated, List.filter_map]
  have h1 : t.filter ((fun r => sel.contains (keyOf sc r)) ∘
      fun r => if sel.contains (keyOf sc r) then f r else r) = t.filter fun r => sel.contains (keyOf sc r) := by
    apply List.filter_congr
    intro r hr
    simp only [Function.comp]
    rw [updated_keyOf sc t (fun r => sel.contains (keyOf sc r)) f hkey r hr]
  rw [h1]
  apply List.map_congr_left
  intro r hr
  have hm : sel.contains (keyOf sc r) = true := (List.mem_filter.1 hr).2
  simp only [hm, if_true]

theorem updateLim_restore (sc : Schema) (cfg : Cfg) (t : Table) (args : Args) (sets : List (Nat × SetE))
    (w : Cond) (ord : List (Nat × Bool)) (lim : Nat) (t' : Table) (item : Item) (keys : List Key)
    (hu : PkUnique sc t) (hsh : ∀ r ∈ t, r.length = sc.ncols)
    (hs : ∀ p ∈ sets, p.1 < sc.ncols ∧ p.1 ∉ sc.pk)
    (h : stmtPhase1 sc cfg t args (.updateLim sets w ord lim) = .ok (t', item, keys)) :
    StmtRestores sc cfg t t' item := by
  have hkey : ∀ r ∈ t, keyOf sc (applySets args sets r) = keyOf sc r :=
    fun r _ => applySets_keyOf sc args sets r (fun p hp => (hs p hp).2)
  have hlen : ∀ r ∈ t, (applySets args sets r).length = r.length :=
    fun r _ => applySets_length args sets r
  have hch : ∀ r ∈ t, ∀ j, j < r.length → (j ∈ updateCols sc cfg sets ∧ j ∉ sc.pk) ∨
      (applySets args sets r).getD j .null = r.getD j .null := by
    intro r _ j _
    by_cases hj : j ∈ sets.map (·.1)
    · exact Or.inl (mem_updateCols sc cfg sets hs j hj)
    · exact Or.inr (applySets_getD args sets r j hj)
  have hnk : namesKey sc sets = false := namesKey_false_of (fun p hp => (hs p hp).2)
  simp only [stmtPhase1, hnk, Bool.false_eq_true, if_false, apply] at h
  generalize hsel : limitedKeys sc t args w ord lim = sel at h
  have haft := update_after_sel sc t sel (applySets args sets) hkey
  simp only [updated] at haft
  rw [haft] at h
  simp only [Except.ok.injEq, Prod.mk.injEq] at h
  obtain ⟨rfl, rfl, rfl⟩ := h
  refine ⟨⟨?_, ?_⟩, ?_, ?_⟩
  · have := updated_keys sc t (fun r => sel.contains (keyOf sc r)) (applySets args sets) hkey
    simp only [updated] at this
    simp only [PkUnique, this]; exact hu
  · intro r hr
    obtain ⟨r0, hr0, rfl⟩ := List.mem_map.1 hr
    split
    · rw [applySets_length]; exact hsh r0 hr0
    · exact hsh r0 hr0
  · intro hne
    have hnil : t.filter (fun r => sel.contains (keyOf sc r)) = [] := by
      simpa [Item.nonEmpty, List.isEmpty_iff] using hne
    have := updated_eq_self t (fun r => sel.contains (keyOf sc r)) (applySets args sets)
      (by rw [hnil]; intro r hr; cases hr)
    simpa [updated] using this
  · intro hne u hp
    have hnn : t.filter (fun r => sel.contains (keyOf sc r)) ≠ [] := by
      intro hnil; rw [hnil] at hne; simp [Item.nonEmpty] at hne
    exact undo_update_core sc t (fun r => sel.contains (keyOf sc r)) (applySets args sets) cfg
      (updateCols sc cfg sets) hu hlen hkey hch hnn u hp

theorem deleteLim_restore (sc : Schema) (cfg : Cfg) (t : Table) (args : Args)
    (w : Cond) (ord : List (Nat × Bool)) (lim : Nat) (t' : Table) (item : Item) (keys : List Key)
    (hu : PkUnique sc t) (hsh : ∀ r ∈ t, r.length = sc.ncols)
    (h : stmtPhase1 sc cfg t args (.deleteLim w ord lim) = .ok (t', item, keys)) :
    StmtRestores sc cfg t t' item := by
  simp only [stmtPhase1, apply, Except.ok.injEq, Prod.mk.injEq] at h
  generalize hsel : limitedKeys sc t args w ord lim = sel at h
  obtain ⟨rfl, rfl, rfl⟩ := h
  refine ⟨⟨?_, ?_⟩, ?_, ?_⟩
  · exact nodup_map_filter _ _ _ hu
  · intro r hr; exact hsh r (List.mem_filter.1 hr).1
  · intro hne
    have hnil : t.filter (fun r => sel.contains (keyOf sc r)) = [] := by
      simpa [Item.nonEmpty, List.isEmpty_iff] using hne
    rw [List.filter_eq_self]
    intro r hr
    rw [List.filter_eq_nil_iff] at hnil
    simpa using hnil r hr
  · intro hne u hp
    have hnn : t.filter (fun r => sel.contains (keyOf sc r)) ≠ [] := by
      intro hnil; rw [hnil] at hne; simp [Item.nonEmpty] at hne
    exact undo_delete_core sc cfg t (fun r => sel.contains (keyOf sc r)) hu hsh hnn u hp

/-! ### INSERT -/

theorem go_some (sc : Schema) : ∀ (news : List Row) (t t' : Table), apply.go sc t news = some t' →
    PkUnique sc t → t' = t ++ news ∧ PkUnique sc (t ++ news) := by
  intro news
  induction news with
  | nil =>
    intro t t' h hu
    simp only [apply.go, Option.some.injEq] at h
    subst h; simpa using hu
  | cons r rs ih =>
    intro t t' h hu
    simp only [apply.go] at h
    split at h
    · cases h
    · rename_i hlk
      have hfresh : ∀ x ∈ t, keyOf sc x ≠ keyOf sc r := by
        simpa [lookup] using hlk
      have hu1 : PkUnique sc (t ++ [r]) := by
        simp only [PkUnique, List.map_append, List.map_cons, List.map_nil, List.nodup_append]
        refine ⟨hu, by simp, ?_⟩
        intro a ha b hb
        obtain ⟨x, hx, rfl⟩ := List.mem_map.1 ha
        simp only [List.mem_singleton] at hb
        subst hb
        exact hfresh x hx
      obtain ⟨h1, h2⟩ := ih _ _ h hu1
      simp only [List.append_assoc, List.singleton_append] at h1 h2
      exact ⟨h1, h2⟩

theorem undo_insert_core (sc : Schema) (cfg : Cfg) (t news : Table)
    (hu : PkUnique sc (t ++ news)) (hne : news ≠ [])
    (u : Table) (hp : u.Perm (t ++ news)) :
    ∃ u' res, undoItem sc cfg u ⟨.insert, [], news.map (project sc (allCols sc))⟩ = (u', res) ∧
      (res = .done ∨ res = .skipped) ∧ u'.Perm t := by
  simp only [PkUnique, List.map_append, List.nodup_append] at hu
  obtain ⟨_, hnd2, hdisj⟩ := hu
  have hin : ∀ r ∈ news, (news.map (keyOf sc)).contains (keyOf sc r) = true := by
    intro r hr
    simp only [List.contains_eq_mem, List.mem_map, decide_eq_true_eq]
    exact ⟨r, hr, rfl⟩
  have hout : ∀ r ∈ t, (news.map (keyOf sc)).contains (keyOf sc r) = false := by
    intro r hr
    rw [Bool.eq_false_iff]
    intro hc
    simp only [List.contains_eq_mem, decide_eq_true_eq] at hc
    exact hdisj _ (List.mem_map.2 ⟨r, hr, rfl⟩) _ hc rfl
  have hfilt1 : (t ++ news).filter (fun r => (news.map (keyOf sc)).contains (keyOf sc r)) = news := by
    rw [List.filter_append, List.filter_eq_self.2 hin, List.filter_eq_nil_iff.2]
    · rfl
    · intro r hr; rw [hout r hr]; exact Bool.false_ne_true
  have hfilt2 : (t ++ news).filter (fun r => !(news.map (keyOf sc)).contains (keyOf sc r)) = t := by
    rw [List.filter_append, List.filter_eq_self.2, List.filter_eq_nil_iff.2]
    · simp
    · intro r hr; rw [hin r hr]; simp
    · intro r hr; rw [hout r hr]; rfl
  have hcur : recordsEq (news.map (project sc (allCols sc)))
      (currentOf sc u (news.map (project sc (allCols sc)))) = true := by
    rw [currentOf_project sc _ u _ hne]
    apply recordsEq_perm _ _ _ _ hnd2
    have := hp.filter (fun r => (news.map (keyOf sc)).contains (keyOf sc r))
    rwa [hfilt1] at this
  have hlenne : ((0 : Nat) == news.length) = false := by
    cases news with
    | nil => exact absurd rfl hne
    | cons a as => rfl
  have hemp : (news.map (project sc (allCols sc))).isEmpty = false := by
    simpa [List.isEmpty_iff] using hne
  simp only [undoItem]
  rw [validate_of_current sc cfg u _ _ hcur]
  have hrec : recordsEq [] (news.map (project sc (allCols sc))) = false := by
    simp [recordsEq, hlenne]
  simp only [hrec, Bool.and_false, Bool.false_eq_true, if_false, hemp, map_project_keys]
  refine ⟨_, .done, rfl, Or.inl rfl, ?_⟩
  have := hp.filter (fun r => !(news.map (keyOf sc)).contains (keyOf sc r))
  rwa [hfilt2] at this

theorem insert_restore (sc : Schema) (cfg : Cfg) (t : Table) (args : Args)
    (rows : List (List Expr)) (t' : Table) (item : Item) (keys : List Key)
    (hu : PkUnique sc t) (hsh : ∀ r ∈ t, r.length = sc.ncols)
    (hs : ∀ es ∈ rows, es.length = sc.ncols)
    (h : stmtPhase1 sc cfg t args (.insert rows) = .ok (t', item, keys)) :
    StmtRestores sc cfg t t' item := by
  simp only [stmtPhase1, apply] at h
  split at h
  · cases h
  · rename_i t1 n heq
    split at heq
    · rename_i t2 hgo
      simp only [Except.ok.injEq, Prod.mk.injEq] at heq h
      obtain ⟨rfl, _⟩ := heq
      obtain ⟨rfl, rfl, rfl⟩ := h
      obtain ⟨rfl, hu'⟩ := go_some sc _ _ _ hgo hu
      refine ⟨⟨hu', ?_⟩, ?_, ?_⟩
      · intro r hr
        rcases List.mem_append.1 hr with hr | hr
        · exact hsh r hr
        · obtain ⟨es, hes, rfl⟩ := List.mem_map.1 hr
          simpa using hs es hes
      · intro hne
        have : rows = [] := by simpa [Item.nonEmpty, List.isEmpty_iff] using hne
        simp [this]
      · intro hne u hp
        have hnn : rows.map (fun es => es.map (evalE [] args)) ≠ [] := by
          intro hnil; simp [Item.nonEmpty, hnil] at hne
        exact undo_insert_core sc cfg t _ hu' hnn u hp
    · cases heq

/-! ### folding the compensation over a list of items -/

theorem undoStep_ok (sc : Schema) (cfg : Cfg) (u u' : Table) (it : Item) (res : UndoRes)
    (h : undoItem sc cfg u it = (u', res)) (hr : res = .done ∨ res = .skipped) :
    undoStep sc cfg (u, true) it = (u', true) := by
  rcases hr with rfl | rfl <;> simp [undoStep, h]

theorem undoStep_fail (sc : Schema) (cfg : Cfg) (u : Table) (it : Item)
    (h : (undoItem sc cfg u it).2 = .dirty ∨ (undoItem sc cfg u it).2 = .sqlError) :
    undoStep sc cfg (u, true) it = (u, false) := by
  generalize hres : undoItem sc cfg u it = r at h
  obtain ⟨u', res⟩ := r
  simp only at h
  rcases h with rfl | rfl <;> simp [undoStep, hres]

theorem undoFold_false (sc : Schema) (cfg : Cfg) (u : Table) (l : List Item) :
    l.foldl (undoStep sc cfg) (u, false) = (u, false) := by
  induction l with
  | nil => rfl
  | cons a as ih => simpa [List.foldl_cons, undoStep] using ih

theorem undoFold_snoc (sc : Schema) (cfg : Cfg) (u : Table) (l : List Item) (it : Item) :
    undoFold sc cfg u (l ++ [it]) = undoStep sc cfg (undoFold sc cfg u l) it := by
  simp [undoFold, List.foldl_append]

theorem undoBranch_of_fold (sc : Schema) (cfg : Cfg) (u u' : Table) (b : Branch)
    (h : undoFold sc cfg u b.items.reverse = (u', true)) : undoBranch sc cfg u b = (u', true) := by
  simp [undoBranch, h]

theorem undoFold_append_ok (sc : Schema) (cfg : Cfg) (u u1 : Table) (l1 l2 : List Item)
    (h : undoFold sc cfg u l1 = (u1, true)) : undoFold sc cfg u (l1 ++ l2) = undoFold sc cfg u1 l2 := by
  simp only [undoFold, List.foldl_append] at h ⊢
  rw [h]

/-! ### INSERT … ON DUPLICATE KEY UPDATE -/

/-- what ON DUPLICATE KEY UPDATE does to the stored row `old` when the new row is `r` -/
def dupUpd (sc : Schema) (assign : List (Nat × UpSrc)) (r old : Row) : Row :=
  if keyOf sc old == keyOf sc r then
    assign.foldl (fun acc p => acc.set p.1 (match p.2 with | .values => r.getD p.1 .null | .lit v => v)) old
  else old

theorem upsertRow_eq (sc : Schema) (assign : List (Nat × UpSrc)) (t : Table) (r : Row) :
    upsertRow sc assign t r =
      if (lookup sc t (keyOf sc r)).isSome then t.map (dupUpd sc assign r) else t ++ [r] := by
  unfold upsertRow
  cases lookup sc t (keyOf sc r) with
  | none => rfl
  | some x => rfl

theorem setFold_length (vals : Nat × UpSrc → Val) (assign : List (Nat × UpSrc)) (old : Row) :
    (assign.foldl (fun acc p => acc.set p.1 (vals p)) old).length = old.length := by
  induction assign generalizing old with
  | nil => rfl
  | cons p ps ih => simp only [List.foldl_cons]; rw [ih]; simp

theorem setFold_getD (vals : Nat × UpSrc → Val) (assign : List (Nat × UpSrc)) (old : Row) (j : Nat)
    (hj : j ∉ assign.map (·.1)) :
    (assign.foldl (fun acc p => acc.set p.1 (vals p)) old).getD j .null = old.getD j .null := by
  induction assign generalizing old with
  | nil => rfl
  | cons p ps ih =>
    simp only [List.map_cons, List.mem_cons, not_or] at hj
    simp only [List.foldl_cons]
    rw [ih _ hj.2, getD_set]
    simp [Ne.symm hj.1]

theorem dupUpd_length (sc : Schema) (assign : List (Nat × UpSrc)) (r old : Row) :
    (dupUpd sc assign r old).length = old.length := by
  unfold dupUpd
  split
  · exact setFold_length _ assign old
  · rfl

theorem dupUpd_keyOf (sc : Schema) (assign : List (Nat × UpSrc)) (ha : ∀ p ∈ assign, p.1 ∉ sc.pk) (r old : Row) :
    keyOf sc (dupUpd sc assign r old) = keyOf sc old := by
  unfold dupUpd
  split
  · apply keyOf_congr
    intro i hi
    apply setFold_getD
    intro hmem
    obtain ⟨p, hp, rfl⟩ := List.mem_map.1 hmem
    exact ha p hp hi
  · rfl

theorem dupUpd_other (sc : Schema) (assign : List (Nat × UpSrc)) (r old : Row) (h : keyOf sc old ≠ keyOf sc r) :
    dupUpd sc assign r old = old := by
  simp [dupUpd, h]

/-- the shape of the table after INSERT … ON DUPLICATE KEY UPDATE: the stored rows, each possibly
    changed in non-key columns (only rows whose key is among the new rows' keys), followed by the rows
    that were inserted (new keys, pairwise distinct) -/
theorem upsert_fold (sc : Schema) (assign : List (Nat × UpSrc)) (ha : ∀ p ∈ assign, p.1 ∉ sc.pk) :
    ∀ (news : List Row) (t : Table), ∃ (g : Row → Row) (ins : List Row),
      news.foldl (upsertRow sc assign) t = t.map g ++ ins ∧
      (∀ r, keyOf sc (g r) = keyOf sc r ∧ (g r).length = r.length) ∧
      (∀ r, keyOf sc r ∉ news.map (keyOf sc) → g r = r) ∧
      (∀ x ∈ ins, keyOf sc x ∈ news.map (keyOf sc) ∧ keyOf sc x ∉ t.map (keyOf sc) ∧
        ∃ r ∈ news, x.length = r.length) ∧
      (ins.map (keyOf sc)).Nodup := by
  intro news
  induction news with
  | nil =>
    intro t
    refine ⟨id, [], by simp, fun r => ⟨rfl, rfl⟩, fun _ _ => rfl, ?_, by simp⟩
    intro x hx; cases hx
  | cons r rs ih =>
    intro t
    simp only [List.foldl_cons]
    rw [upsertRow_eq]
    by_cases hl : (lookup sc t (keyOf sc r)).isSome = true
    · simp only [hl, if_true]
      obtain ⟨g, ins, h1, h2, h3, h4, h5⟩ := ih (t.map (dupUpd sc assign r))
      refine ⟨g ∘ dupUpd sc assign r, ins, by simpa [List.map_map] using h1, ?_, ?_, ?_, h5⟩
      · intro x
        simp only [Function.comp]
        exact ⟨(h2 _).1.trans (dupUpd_keyOf sc assign ha r x), (h2 _).2.trans (dupUpd_length sc assign r x)⟩
      · intro x hx
        simp only [List.map_cons, List.mem_cons, not_or] at hx
        simp only [Function.comp]
        rw [dupUpd_other sc assign r x hx.1]
        exact h3 x hx.2
      · intro x hx
        obtain ⟨a, b, c, hc, hc'⟩ := h4 x hx
        refine ⟨by simp [a], ?_, c, by simp [hc], hc'⟩
        intro hmem
        apply b
        obtain ⟨y, hy, hyk⟩ := List.mem_map.1 hmem
        exact List.mem_map.2 ⟨dupUpd sc assign r y, List.mem_map.2 ⟨y, hy, rfl⟩,
          (dupUpd_keyOf sc assign ha r y).trans hyk⟩
    · simp only [hl, Bool.false_eq_true, if_false]
      have hfresh : keyOf sc r ∉ t.map (keyOf sc) := by
        intro hmem
        obtain ⟨x, hx, hxk⟩ := List.mem_map.1 hmem
        apply hl
        simp only [lookup, List.find?_isSome]
        exact ⟨x, hx, by simp [hxk]⟩
      obtain ⟨g, ins, h1, h2, h3, h4, h5⟩ := ih (t ++ [r])
      refine ⟨g, g r :: ins, by simpa using h1, h2, ?_, ?_, ?_⟩
      · intro x hx
        simp only [List.map_cons, List.mem_cons, not_or] at hx
        exact h3 x hx.2
      · intro x hx
        rcases List.mem_cons.1 hx with rfl | hx
        · refine ⟨by simp [(h2 r).1], by rw [(h2 r).1]; exact hfresh, r, by simp, (h2 r).2⟩
        · obtain ⟨a, b, c, hc, hc'⟩ := h4 x hx
          refine ⟨by simp [a], ?_, c, by simp [hc], hc'⟩
          intro hmem; apply b; simp [hmem]
      · simp only [List.map_cons, List.nodup_cons]
        refine ⟨?_, h5⟩
        rw [(h2 r).1]
        intro hmem
        obtain ⟨x, hx, hxk⟩ := List.mem_map.1 hmem
        apply (h4 x hx).2.1
        simp [hxk]


section UpsertShape
variable (sc : Schema) (t : Table) (K : List Key) (g : Row → Row) (ins : List Row)

theorem ups_filter_sel (hg : ∀ r, keyOf sc (g r) = keyOf sc r) (hins : ∀ x ∈ ins, keyOf sc x ∈ K) :
    (t.map g ++ ins).filter (fun r => K.contains (keyOf sc r)) =
      (t.filter fun r => K.contains (keyOf sc r)).map g ++ ins := by
  rw [List.filter_append, List.filter_map]
  congr 1
  · congr 1
    apply List.filter_congr
    intro r _
    simp only [Function.comp, hg r]
  · rw [List.filter_eq_self]
    intro x hx
    simpa using hins x hx

theorem ups_filter_hit (hit : List Row) (hsub : ∀ r ∈ hit, r ∈ t) (hg : ∀ r, keyOf sc (g r) = keyOf sc r)
    (hins : ∀ x ∈ ins, keyOf sc x ∉ t.map (keyOf sc)) :
    (hit.map g ++ ins).filter (fun r => (hit.map (keyOf sc)).contains (keyOf sc r)) = hit.map g := by
  rw [List.filter_append, List.filter_eq_self.2, List.filter_eq_nil_iff.2, List.append_nil]
  · intro x hx hc
    simp only [List.contains_eq_mem, List.mem_map, decide_eq_true_eq] at hc
    obtain ⟨r, hr, hrk⟩ := hc
    exact hins x hx (List.mem_map.2 ⟨r, hsub r hr, hrk⟩)
  · intro x hx
    obtain ⟨r, hr, rfl⟩ := List.mem_map.1 hx
    simp only [List.contains_eq_mem, List.mem_map, decide_eq_true_eq]
    exact ⟨r, hr, (hg r).symm⟩

theorem ups_filter_ins (hu : PkUnique sc t) (hg : ∀ r, keyOf sc (g r) = keyOf sc r)
    (hins : ∀ x ∈ ins, keyOf sc x ∈ K ∧ keyOf sc x ∉ t.map (keyOf sc)) :
    (t.map g ++ ins).filter (fun r => K.contains (keyOf sc r) &&
      !((t.filter fun r => K.contains (keyOf sc r)).map (keyOf sc)).contains (keyOf sc r)) = ins := by
  rw [List.filter_append, List.filter_eq_nil_iff.2, List.filter_eq_self.2, List.nil_append]
  · intro x hx
    have h1 : K.contains (keyOf sc x) = true := by simpa using (hins x hx).1
    have h2 : ((t.filter fun r => K.contains (keyOf sc r)).map (keyOf sc)).contains (keyOf sc x) = false := by
      rw [Bool.eq_false_iff]
      intro hc
      simp only [List.contains_eq_mem, List.mem_map, decide_eq_true_eq] at hc
      obtain ⟨r, hr, hrk⟩ := hc
      exact (hins x hx).2 (List.mem_map.2 ⟨r, (List.mem_filter.1 hr).1, hrk⟩)
    rw [h1, h2]; rfl
  · intro x hx
    obtain ⟨r, hr, rfl⟩ := List.mem_map.1 hx
    rw [hg r, contains_key_filter (keyOf sc) (fun r => K.contains (keyOf sc r)) t hu r hr]
    cases K.contains (keyOf sc r) <;> simp

theorem ups_pkUnique (hu : PkUnique sc t) (hg : ∀ r, keyOf sc (g r) = keyOf sc r)
    (hins : ∀ x ∈ ins, keyOf sc x ∉ t.map (keyOf sc)) (hnd : (ins.map (keyOf sc)).Nodup) :
    PkUnique sc (t.map g ++ ins) := by
  have hk : (t.map g).map (keyOf sc) = t.map (keyOf sc) := by
    rw [List.map_map]; exact List.map_congr_left (fun r _ => hg r)
  simp only [PkUnique, List.map_append, List.nodup_append, hk]
  refine ⟨hu, hnd, ?_⟩
  intro a ha b hb hab
  obtain ⟨x, hx, rfl⟩ := List.mem_map.1 hb
  exact hins x hx (hab ▸ ha)

theorem ups_map_eq_updated (hfix : ∀ r, keyOf sc r ∉ K → g r = r) :
    t.map g = updated t (fun r => K.contains (keyOf sc r)) g := by
  unfold updated
  apply List.map_congr_left
  intro r _
  by_cases hm : K.contains (keyOf sc r) = true
  · simp only [hm, if_true]
  · have : keyOf sc r ∉ K := by simpa using hm
    simp only [hm, Bool.false_eq_true, if_false]
    exact hfix r this

end UpsertShape


/-- `StmtRestores` for a statement that records further items (`extraItems`) besides its main one:
    compensating the extra items takes (a permutation of) the new table to an intermediate table `tm`,
    and compensating the main item takes that to the old table -/
def StmtRestoresX (sc : Schema) (cfg : Cfg) (t t' : Table) (item : Item) (extra : List Item) : Prop :=
  (PkUnique sc t' ∧ ∀ r ∈ t', r.length = sc.ncols) ∧
  ∃ tm : Table,
    (extra = [] → tm = t') ∧
    (∀ u : Table, u.Perm t' → ∃ u1, undoFold sc cfg u extra.reverse = (u1, true) ∧ u1.Perm tm) ∧
    (item.nonEmpty = false → tm = t) ∧
    (item.nonEmpty = true → ∀ u : Table, u.Perm tm →
      ∃ u' res, undoItem sc cfg u item = (u', res) ∧ (res = .done ∨ res = .skipped) ∧ u'.Perm t)

theorem upsert_restore (sc : Schema) (cfg : Cfg) (t : Table) (args : Args)
    (rows : List (List Expr)) (assign : List (Nat × UpSrc)) (t' : Table) (item : Item) (keys : List Key)
    (hu : PkUnique sc t) (hsh : ∀ r ∈ t, r.length = sc.ncols)
    (hrows : ∀ es ∈ rows, es.length = sc.ncols) (ha : ∀ p ∈ assign, p.1 ∉ sc.pk)
    (h : stmtPhase1 sc cfg t args (.upsert rows assign) = .ok (t', item, keys)) :
    StmtRestoresX sc cfg t t' item (extraItems sc t t' args (.upsert rows assign)) := by
  have hany : (assign.any fun a => sc.pk.contains a.1) = false := by
    rw [List.any_eq_false]
    intro p hp
    simpa using ha p hp
  simp only [stmtPhase1, hany, Bool.false_eq_true, if_false, apply, Except.ok.injEq, Prod.mk.injEq] at h
  obtain ⟨rfl, rfl, rfl⟩ := h
  simp only [extraItems]
  have hnl : ∀ r ∈ rows.map (fun es => es.map (evalE [] args)), r.length = sc.ncols := by
    intro r hr
    obtain ⟨es, hes, rfl⟩ := List.mem_map.1 hr
    simpa using hrows es hes
  generalize rows.map (fun es => es.map (evalE [] args)) = news at hnl ⊢
  obtain ⟨g, ins, h1, h2, h3, h4, h5⟩ := upsert_fold sc assign ha news t
  rw [h1]
  have hg : ∀ r, keyOf sc (g r) = keyOf sc r := fun r => (h2 r).1
  have hinsK : ∀ x ∈ ins, keyOf sc x ∈ news.map (keyOf sc) := fun x hx => (h4 x hx).1
  have hinsT : ∀ x ∈ ins, keyOf sc x ∉ t.map (keyOf sc) := fun x hx => (h4 x hx).2.1
  have hinsL : ∀ x ∈ ins, x.length = sc.ncols := by
    intro x hx
    obtain ⟨r, hr, hl⟩ := (h4 x hx).2.2
    rw [hl]; exact hnl r hr
  have hshg : ∀ r ∈ t.map g, r.length = sc.ncols := by
    intro r hr
    obtain ⟨r0, hr0, rfl⟩ := List.mem_map.1 hr
    rw [(h2 r0).2]; exact hsh r0 hr0
  have hug : PkUnique sc (t.map g) := by
    have := ups_pkUnique sc t g [] hu hg (by intro x hx; cases hx) (by simp)
    simpa using this
  have hU : PkUnique sc (t.map g ++ ins) := ups_pkUnique sc t g ins hu hg hinsT h5
  have hS : ∀ r ∈ t.map g ++ ins, r.length = sc.ncols := by
    intro r hr
    rcases List.mem_append.1 hr with hr | hr
    · exact hshg r hr
    · exact hinsL r hr
  rw [ups_filter_sel sc t _ g ins hg hinsK,
    ups_filter_hit sc t g ins _ (fun r hr => (List.mem_filter.1 hr).1) hg hinsT,
    ups_filter_ins sc t _ g ins hu hg (fun x hx => ⟨hinsK x hx, hinsT x hx⟩)]
  generalize hK : news.map (keyOf sc) = K at *
  refine ⟨⟨hU, hS⟩, ?_⟩
  by_cases hhit : t.filter (fun r => K.contains (keyOf sc r)) = []
  · -- no key existed: a plain INSERT of `ins`
    have hid : t.map g = t := by
      have : t.map g = t.map id := by
        apply List.map_congr_left
        intro r hr
        apply h3
        intro hmem
        have := List.filter_eq_nil_iff.1 hhit r hr
        exact this (by simpa using hmem)
      simpa using this
    simp only [hhit, List.isEmpty_nil, List.map_nil, List.nil_append, Bool.true_or, if_true, hid]
    refine ⟨t ++ ins, fun _ => rfl, fun u hp => ⟨u, rfl, hp⟩, ?_, ?_⟩
    · intro hne
      have : ins = [] := by simpa [Item.nonEmpty, List.isEmpty_iff] using hne
      simp [this]
    · intro hne u hp
      have hnn : ins ≠ [] := by
        intro hnil; rw [hnil] at hne; simp [Item.nonEmpty] at hne
      exact undo_insert_core sc cfg t ins (hid ▸ hU) hnn u hp
  · -- some keys existed: an UPDATE item for those, and an INSERT item for the inserted rows
    have hemp1 : (t.filter (fun r => K.contains (keyOf sc r))).isEmpty = false := by
      simpa [List.isEmpty_iff] using hhit
    have hemp2 : ((t.filter (fun r => K.contains (keyOf sc r))).map (keyOf sc)).isEmpty = false := by
      simpa [List.isEmpty_iff] using hhit
    simp only [hemp1, hemp2, Bool.false_eq_true, if_false, Bool.false_or]
    refine ⟨t.map g, ?_, ?_, ?_, ?_⟩
    · intro hex
      by_cases hi : ins = []
      · simp [hi]
      · have : ins.isEmpty = false := by simpa [List.isEmpty_iff] using hi
        simp [this] at hex
    · intro u hp
      by_cases hi : ins = []
      · subst hi
        exact ⟨u, by simp [undoFold], by simpa using hp⟩
      · have : ins.isEmpty = false := by simpa [List.isEmpty_iff] using hi
        simp only [this, Bool.false_eq_true, if_false, List.reverse_cons, List.reverse_nil, List.nil_append]
        obtain ⟨u', res, hit, hres, hp'⟩ := undo_insert_core sc cfg (t.map g) ins hU hi u hp
        exact ⟨u', by simpa [undoFold] using undoStep_ok sc cfg u u' _ res hit hres, hp'⟩
    · intro hne
      exfalso
      revert hne
      cases hf : t.filter (fun r => K.contains (keyOf sc r)) with
      | nil => exact absurd hf hhit
      | cons a as => simp [Item.nonEmpty]
    · intro _ u hp
      rw [ups_map_eq_updated sc t K g h3] at hp
      refine undo_update_core sc t (fun r => K.contains (keyOf sc r)) g cfg (allCols sc) hu
        (fun r _ => (h2 r).2) (fun r _ => hg r) ?_ hhit u hp
      intro r hr j hj
      by_cases hjp : j ∈ sc.pk
      · right
        have := hg r
        simp only [keyOf] at this
        exact List.map_inj_left.1 this j hjp
      · left
        refine ⟨?_, hjp⟩
        rw [hsh r hr] at hj
        simpa [allCols] using hj

/-! ### one statement, any kind -/

/-- what the SQL layer guarantees about a statement (same as `Props.C01.WFStmt`) -/
def StmtWF (sc : Schema) : Stmt → Prop
  | .update sets _ => ∀ p ∈ sets, p.1 < sc.ncols ∧ p.1 ∉ sc.pk
  | .delete _ => True
  | .insert rows => ∀ es ∈ rows, es.length = sc.ncols
  | .failing _ => True
  | .upsert rows assign =>    -- INSERT … ON DUPLICATE KEY UPDATE: full rows, no key column assigned
    (∀ es ∈ rows, es.length = sc.ncols) ∧ ∀ p ∈ assign, p.1 < sc.ncols ∧ p.1 ∉ sc.pk
  | .updateLim sets _ _ _ => ∀ p ∈ sets, p.1 < sc.ncols ∧ p.1 ∉ sc.pk   -- … ORDER BY … LIMIT n
  | .deleteLim _ _ _ => True

theorem restoresX_of_restores {sc : Schema} {cfg : Cfg} {t t' : Table} {item : Item}
    (h : StmtRestores sc cfg t t' item) : StmtRestoresX sc cfg t t' item [] :=
  ⟨h.1, t', fun _ => rfl, fun u hp => ⟨u, rfl, hp⟩, h.2.1, h.2.2⟩

theorem restores_of_restoresX {sc : Schema} {cfg : Cfg} {t t' : Table} {item : Item} {extra : List Item}
    (h : StmtRestoresX sc cfg t t' item extra) (hx : extra = []) : StmtRestores sc cfg t t' item := by
  obtain ⟨hwf, tm, h1, _, h3, h4⟩ := h
  have := h1 hx
  subst this
  exact ⟨hwf, h3, h4⟩

/-- every statement kind: phase one, then the compensation of the extra items and of the main item -/
theorem stmt_restore_x (sc : Schema) (cfg : Cfg) (t : Table) (args : Args) (s : Stmt)
    (t' : Table) (item : Item) (keys : List Key)
    (hu : PkUnique sc t) (hsh : ∀ r ∈ t, r.length = sc.ncols) (hs : StmtWF sc s)
    (h : stmtPhase1 sc cfg t args s = .ok (t', item, keys)) :
    StmtRestoresX sc cfg t t' item (extraItems sc t t' args s) := by
  cases s with
  | update sets w => exact restoresX_of_restores (update_restore sc cfg t args sets w t' item keys hu hsh hs h)
  | delete w => exact restoresX_of_restores (delete_restore sc cfg t args w t' item keys hu hsh h)
  | insert rows => exact restoresX_of_restores (insert_restore sc cfg t args rows t' item keys hu hsh hs h)
  | failing s => simp [stmtPhase1] at h
  | upsert rows assign =>
    exact upsert_restore sc cfg t args rows assign t' item keys hu hsh hs.1 (fun p hp => (hs.2 p hp).2) h
  | updateLim sets w ord lim =>
    exact restoresX_of_restores (updateLim_restore sc cfg t args sets w ord lim t' item keys hu hsh hs h)
  | deleteLim w ord lim =>
    exact restoresX_of_restores (deleteLim_restore sc cfg t args w ord lim t' item keys hu hsh h)

/-- a statement that recorded no extra item (every kind but a mixed INSERT … ON DUPLICATE KEY UPDATE):
    its one item restores the table -/
theorem stmt_restore (sc : Schema) (cfg : Cfg) (t : Table) (args : Args) (s : Stmt)
    (t' : Table) (item : Item) (keys : List Key)
    (hu : PkUnique sc t) (hsh : ∀ r ∈ t, r.length = sc.ncols) (hs : StmtWF sc s)
    (h : stmtPhase1 sc cfg t args s = .ok (t', item, keys))
    (hx : extraItems sc t t' args s = []) : StmtRestores sc cfg t t' item :=
  restores_of_restoresX (stmt_restore_x sc cfg t args s t' item keys hu hsh hs h) hx

/-- the new table is well-formed -/
theorem stmt_wf_after (sc : Schema) (cfg : Cfg) (t : Table) (args : Args) (s : Stmt)
    (t' : Table) (item : Item) (keys : List Key)
    (hu : PkUnique sc t) (hsh : ∀ r ∈ t, r.length = sc.ncols) (hs : StmtWF sc s)
    (h : stmtPhase1 sc cfg t args s = .ok (t', item, keys)) :
    PkUnique sc t' ∧ ∀ r ∈ t', r.length = sc.ncols :=
  (stmt_restore_x sc cfg t args s t' item keys hu hsh hs h).1

/-- only INSERT … ON DUPLICATE KEY UPDATE records extra items -/
theorem extraItems_of_not_upsert (sc : Schema) (t t' : Table) (args : Args) (s : Stmt)
    (hs : ∀ rows assign, s ≠ .upsert rows assign) : extraItems sc t t' args s = [] := by
  cases s <;> first | rfl | exact absurd rfl (hs _ _)

/-- the items a statement contributes to the branch, compensated last first, restore the table -/
theorem restoresX_fold {sc : Schema} {cfg : Cfg} {t t' : Table} {item : Item} {extra : List Item}
    (h : StmtRestoresX sc cfg t t' item extra) (u : Table) (hp : u.Perm t') :
    ∃ u', undoFold sc cfg u ((if item.nonEmpty then [item] else []) ++ extra).reverse = (u', true) ∧
      u'.Perm t := by
  obtain ⟨_, tm, _, h2, h3, h4⟩ := h
  obtain ⟨u1, hf1, hp1⟩ := h2 u hp
  rw [List.reverse_append, undoFold_append_ok sc cfg u u1 _ _ hf1]
  cases hne : item.nonEmpty
  · simp only [Bool.false_eq_true, if_false, List.reverse_nil]
    exact ⟨u1, rfl, h3 hne ▸ hp1⟩
  · simp only [if_true, List.reverse_cons, List.reverse_nil, List.nil_append]
    obtain ⟨u', res, hit, hres, hp'⟩ := h4 hne u1 hp1
    refine ⟨u', ?_, hp'⟩
    have := undoFold_snoc sc cfg u1 [] item
    simp only [List.nil_append] at this
    rw [this]
    exact undoStep_ok sc cfg u1 u' item res hit hres

/-! ### one branch -/

theorem local_restore (sc : Schema) (cfg : Cfg) : ∀ (ltx : LocalTx) (t t' : Table) (b : Branch),
    PkUnique sc t → (∀ r ∈ t, r.length = sc.ncols) → (∀ p ∈ ltx, StmtWF sc p.1) →
    localPhase1 sc cfg t ltx = .ok (t', b) →
    (PkUnique sc t' ∧ ∀ r ∈ t', r.length = sc.ncols) ∧
    ∀ u : Table, u.Perm t' → ∃ u', undoFold sc cfg u b.items.reverse = (u', true) ∧ u'.Perm t := by
  intro ltx
  induction ltx with
  | nil =>
    intro t t' b hu hsh _ h
    simp only [localPhase1, Except.ok.injEq, Prod.mk.injEq] at h
    obtain ⟨rfl, rfl⟩ := h
    exact ⟨⟨hu, hsh⟩, fun u hp => ⟨u, rfl, hp⟩⟩
  | cons p rest ih =>
    intro t t' b hu hsh hs h
    obtain ⟨s, args⟩ := p
    simp only [localPhase1] at h
    split at h
    · cases h
    · rename_i t1 item keys h1
      split at h
      · cases h
      · rename_i t2 b' h2
        simp only [Except.ok.injEq, Prod.mk.injEq] at h
        obtain ⟨rfl, rfl⟩ := h
        have hX := stmt_restore_x sc cfg t args s t1 item keys hu hsh (hs (s, args) (by simp)) h1
        obtain ⟨hu1, hsh1⟩ := hX.1
        obtain ⟨hwf2, hrest⟩ := ih t1 t2 b' hu1 hsh1 (fun q hq => hs q (by simp [hq])) h2
        refine ⟨hwf2, ?_⟩
        intro u hp
        obtain ⟨u1, hf1, hp1⟩ := hrest u hp
        obtain ⟨u', hf', hp'⟩ := restoresX_fold hX u1 hp1
        refine ⟨u', ?_, hp'⟩
        simp only [List.reverse_append (bs := b'.items)]
        rw [undoFold_append_ok sc cfg u u1 _ _ hf1]
        exact hf'

/-- the same for a local transaction that carries on after failed statements -/
theorem lenient_restore (sc : Schema) (cfg : Cfg) : ∀ (ltx : LocalTx) (t : Table),
    PkUnique sc t → (∀ r ∈ t, r.length = sc.ncols) → (∀ p ∈ ltx, StmtWF sc p.1) →
    (PkUnique sc (localPhase1Lenient sc cfg t ltx).1 ∧ ∀ r ∈ (localPhase1Lenient sc cfg t ltx).1, r.length = sc.ncols) ∧
    ∀ u : Table, u.Perm (localPhase1Lenient sc cfg t ltx).1 →
      ∃ u', undoFold sc cfg u (localPhase1Lenient sc cfg t ltx).2.1.items.reverse = (u', true) ∧ u'.Perm t := by
  intro ltx
  induction ltx with
  | nil =>
    intro t hu hsh _
    exact ⟨⟨hu, hsh⟩, fun u hp => ⟨u, rfl, hp⟩⟩
  | cons p rest ih =>
    intro t hu hsh hs
    obtain ⟨s, args⟩ := p
    simp only [localPhase1Lenient]
    split
    · exact ih t hu hsh (fun q hq => hs q (by simp [hq]))
    · rename_i t1 item keys h1
      have hX := stmt_restore_x sc cfg t args s t1 item keys hu hsh (hs (s, args) (by simp)) h1
      obtain ⟨hu1, hsh1⟩ := hX.1
      obtain ⟨hwf2, hrest⟩ := ih t1 hu1 hsh1 (fun q hq => hs q (by simp [hq]))
      refine ⟨hwf2, ?_⟩
      intro u hp
      obtain ⟨u1, hf1, hp1⟩ := hrest u hp
      obtain ⟨u', hf', hp'⟩ := restoresX_fold hX u1 hp1
      refine ⟨u', ?_, hp'⟩
      simp only [List.reverse_append (bs := (localPhase1Lenient sc cfg t1 rest).2.1.items)]
      rw [undoFold_append_ok sc cfg u u1 _ _ hf1]
      exact hf'

/-! ### the global transaction -/

/-- rolling `x` back takes (a permutation of) `tn` to (a permutation of) `tm` -/
def Restores (sc : Schema) (cfg : Cfg) (tm : Table) (x : BranchSt) (tn : Table) : Prop :=
  (∀ u : Table, u.Perm tn → ∃ u', undoBranch sc cfg u x.b = (u', true) ∧ u'.Perm tm) ∧
  (x.hasLog = false → x.b.items = [])

/-- branches listed last first: each one restores the table the previous one left -/
def ChainR (sc : Schema) (cfg : Cfg) : Table → List BranchSt → Table → Prop
  | t0, [], tn => tn = t0
  | t0, x :: rest, tn => ∃ tm, Restores sc cfg tm x tn ∧ ChainR sc cfg t0 rest tm

def Chain (sc : Schema) (cfg : Cfg) (t0 : Table) (bs : List BranchSt) (tn : Table) : Prop :=
  ChainR sc cfg t0 bs.reverse tn

theorem chain_snoc (sc : Schema) (cfg : Cfg) (t0 : Table) (bs : List BranchSt) (x : BranchSt) (tn : Table) :
    Chain sc cfg t0 (bs ++ [x]) tn ↔ ∃ tm, Restores sc cfg tm x tn ∧ Chain sc cfg t0 bs tm := by
  simp [Chain, ChainR]

theorem rollbackBranch_step (sc : Schema) (cfg : Cfg) (w : World) (k : Nat) (x : BranchSt) (tm T : Table)
    (hx : w.branches[k]? = some x) (hr : Restores sc cfg tm x T) (hp : w.t.Perm T) :
    ∃ w1 x', rollbackBranch sc cfg w k = (w1, true) ∧ w1.t.Perm tm ∧ x'.hasLog = false ∧
      w1.branches = w.branches.set k x' := by
  obtain ⟨u', hu', hp'⟩ := hr.1 w.t hp
  cases hl : x.hasLog
  · have hitems := hr.2 hl
    have : undoBranch sc cfg w.t x.b = (w.t, true) := by simp [undoBranch, undoFold, hitems]
    rw [this] at hu'
    simp only [Prod.mk.injEq, and_true] at hu'
    subst hu'
    exact ⟨{ w with branches := w.branches.set k { x with marker := true } }, { x with marker := true },
      by simp [rollbackBranch, hx, hl], hp', hl, rfl⟩
  · exact ⟨{ t := u', branches := w.branches.set k { x with hasLog := false } }, { x with hasLog := false },
      by simp [rollbackBranch, hx, hl, hu'], hp', rfl, rfl⟩

theorem rollback_prefix (sc : Schema) (cfg : Cfg) (t0 : Table) : ∀ (k : Nat) (w : World) (T : Table),
    k ≤ w.branches.length → Chain sc cfg t0 (w.branches.take k) T → w.t.Perm T →
    ∃ w', (List.range k).reverse.foldl
        (fun acc i => let r := rollbackBranch sc cfg acc.1 i; (r.1, acc.2 && r.2)) (w, true) = (w', true) ∧
      w'.t.Perm t0 ∧ w'.branches.length = w.branches.length ∧
      (∀ i bs, i < k → w'.branches[i]? = some bs → bs.hasLog = false) ∧
      (∀ i, k ≤ i → w'.branches[i]? = w.branches[i]?) := by
  intro k
  induction k with
  | zero =>
    intro w T _ hc hp
    simp only [Chain, List.take_zero, List.reverse_nil, ChainR] at hc
    subst hc
    exact ⟨w, rfl, hp, rfl, fun i bs hi => absurd hi (Nat.not_lt_zero i), fun _ _ => rfl⟩
  | succ k ih =>
    intro w T hk hc hp
    have hlt : k < w.branches.length := hk
    have hx : w.branches[k]? = some w.branches[k] := List.getElem?_eq_getElem hlt
    rw [List.take_succ_eq_append_getElem hlt, chain_snoc] at hc
    obtain ⟨tm, hres, hc'⟩ := hc
    obtain ⟨w1, x', hrb, hp1, hl', hbr⟩ := rollbackBranch_step sc cfg w k _ tm T hx hres hp
    have hlen1 : w1.branches.length = w.branches.length := by rw [hbr, List.length_set]
    have hc1 : Chain sc cfg t0 (w1.branches.take k) tm := by
      rw [hbr, List.take_set_of_le (Nat.le_refl k)]; exact hc'
    obtain ⟨w', hf, hp', hlen', hlog, hsame⟩ := ih w1 tm (by omega) hc1 hp1
    refine ⟨w', ?_, hp', hlen'.trans hlen1, ?_, ?_⟩
    · rw [List.range_succ, List.reverse_append, List.reverse_singleton, List.singleton_append,
        List.foldl_cons]
      simp only [hrb, Bool.and_self]
      exact hf
    · intro i bs hi hbs
      by_cases hik : i < k
      · exact hlog i bs hik hbs
      · have : i = k := by omega
        subst this
        rw [hsame i (Nat.le_refl i), hbr, List.getElem?_set_self hlt] at hbs
        cases hbs; exact hl'
    · intro i hi
      rw [hsame i (by omega), hbr, List.getElem?_set_ne (by omega)]

theorem rollbackAll_chain (sc : Schema) (cfg : Cfg) (t0 : Table) (w : World)
    (hc : Chain sc cfg t0 w.branches w.t) :
    ∃ w', rollbackAll sc cfg w = (w', true) ∧ w'.t.Perm t0 ∧ ∀ bs ∈ w'.branches, bs.hasLog = false := by
  obtain ⟨w', hf, hp, hlen, hlog, _⟩ := rollback_prefix sc cfg t0 w.branches.length w w.t
    (Nat.le_refl _) (by rw [List.take_length]; exact hc) (List.Perm.refl _)
  refine ⟨w', hf, hp, ?_⟩
  intro bs hbs
  obtain ⟨i, hi⟩ := List.mem_iff_getElem?.1 hbs
  have : i < w'.branches.length := by
    obtain ⟨h, _⟩ := List.getElem?_eq_some_iff.1 hi; exact h
  exact hlog i bs (hlen ▸ this) hi

theorem runLocalTx_chain (sc : Schema) (cfg : Cfg) (t0 : Table) (w w1 : World) (l : LocalTx)
    (hu : PkUnique sc w.t) (hsh : ∀ r ∈ w.t, r.length = sc.ncols) (hs : ∀ p ∈ l, StmtWF sc p.1)
    (hc : Chain sc cfg t0 w.branches w.t) (h : runLocalTx sc cfg w l = some w1) :
    (PkUnique sc w1.t ∧ ∀ r ∈ w1.t, r.length = sc.ncols) ∧ Chain sc cfg t0 w1.branches w1.t := by
  simp only [runLocalTx] at h
  split at h
  · cases h
  · rename_i t' b hl
    obtain ⟨hwf, hrest⟩ := local_restore sc cfg l w.t t' b hu hsh hs hl
    split at h
    · rename_i hemp
      simp only [Option.some.injEq] at h
      subst h
      have : l = [] := by simpa [List.isEmpty_iff] using hemp
      subst this
      simp only [localPhase1, Except.ok.injEq, Prod.mk.injEq] at hl
      obtain ⟨rfl, _⟩ := hl
      exact ⟨hwf, hc⟩
    · simp only [Option.some.injEq] at h
      subst h
      refine ⟨hwf, ?_⟩
      rw [chain_snoc]
      refine ⟨w.t, ⟨?_, ?_⟩, hc⟩
      · intro u hp
        obtain ⟨u', hf, hp'⟩ := hrest u hp
        exact ⟨u', undoBranch_of_fold sc cfg u u' b hf, hp'⟩
      · intro hlog
        simpa [List.isEmpty_iff] using hlog

end Seata.Lemmas.Store
