import SeataModel.UndoLog.Log
import SeataModel.Lemmas.Codec
namespace Seata.UndoLog
open Seata

theorem timeOfText_marshal (ns : Int) (h1 : -9223372036854775808 ≤ ns) (h2 : ns < 9223372036854775808) :
    timeOfText (putBE 8 (ns % 18446744073709551616).toNat) = some ns := by
  unfold timeOfText
  have := getBE_putBE 8 (ns % 18446744073709551616).toNat []
  simp only [List.append_nil] at this
  rw [this]
  have hp : (256:Nat) ^ 8 = 18446744073709551616 := by decide
  rw [hp]
  simp only
  congr 1
  omega

theorem rt_supported (ser : Serializer) (jdbc : Int) (v : GoVal) (h : supported ser jdbc v = true) :
    ∃ v', roundtripVal ser jdbc v = .ok v' ∧ undoEq v' v = true := by
  cases ser <;> cases v <;> simp only [supported] at h
  all_goals (try (simp at h; done))
  -- json
  · exact ⟨.nil, by simp [roundtripVal, marshalVal, unmarshalJson, unmarshalC], rfl⟩
  · rename_i i
    simp only [Bool.and_eq_true] at h
    obtain ⟨hex, hj⟩ := h
    refine ⟨.int i, ?_, by simp [undoEq]⟩
    simp only [roundtripVal, marshalVal, unmarshalJson]
    cases hc : classOf jdbc <;> rw [hc] at hj <;> simp [unmarshalC, hex] at hj ⊢
    exact hj
  · rename_i t f
    cases hc : classOf jdbc <;> rw [hc] at h <;> simp at h
    · subst h
      exact ⟨.f32 t, by simp [roundtripVal, marshalVal, unmarshalJson, hc, unmarshalC], by simp [undoEq]⟩
    · exact ⟨.float t f, by simp [roundtripVal, marshalVal, unmarshalJson, hc, unmarshalC], by simp [undoEq]⟩
    · exact ⟨.float t f, by simp [roundtripVal, marshalVal, unmarshalJson, hc, unmarshalC], by simp [undoEq]⟩
  · rename_i s
    cases hc : classOf jdbc <;> rw [hc] at h <;> simp at h
    refine ⟨.str s, ?_, by simp [undoEq]⟩
    simp only [roundtripVal, marshalVal, unmarshalJson, hc, unmarshalC]
    rcases h with hs | hs
    · cases hb : b64dec s with
      | none => rfl
      | some b => rw [hb] at hs; simp at hs
    · subst hs; simp [b64dec]
  · rename_i ns
    cases hc : classOf jdbc <;> rw [hc] at h <;> simp at h
    refine ⟨.time ns, ?_, by simp [undoEq]⟩
    simp [roundtripVal, marshalVal, unmarshalJson, hc, unmarshalC, timeOfText_marshal ns h.1 h.2]
  -- protobuf
  · exact ⟨.nil, by simp [roundtripVal, marshalVal, unmarshalPb], rfl⟩
  · rename_i i
    exact ⟨.int i, by simp [roundtripVal, marshalVal, unmarshalPb, h], by simp [undoEq]⟩
  · rename_i t f
    exact ⟨.float t f, by simp [roundtripVal, marshalVal, unmarshalPb], by simp [undoEq]⟩
  · rename_i s
    exact ⟨.str s, by simp [roundtripVal, marshalVal, unmarshalPb], by simp [undoEq]⟩


/-- lifting a per-element round trip through `mapE` -/
theorem mapE_ok {α ε : Type} (f : α → Except ε α) (eq : α → α → Bool) (l : List α)
    (h : ∀ a ∈ l, ∃ b, f a = .ok b ∧ eq b a = true) :
    ∃ l', mapE f l = .ok l' ∧ all2 eq l' l = true := by
  induction l with
  | nil => exact ⟨[], rfl, rfl⟩
  | cons a r ih =>
    obtain ⟨b, hb, heq⟩ := h a (by simp)
    obtain ⟨r', hr, hreq⟩ := ih (fun x hx => h x (by simp [hx]))
    exact ⟨b :: r', by simp [mapE, hb, hr], by simp [all2, heq, hreq]⟩

theorem rtCol_ok (ser : Serializer) (c : Col) (h : supported ser c.jdbc c.val = true) :
    ∃ c', rtCol ser c = .ok c' ∧ eqCol c' c = true := by
  obtain ⟨v', hv, he⟩ := rt_supported ser c.jdbc c.val h
  exact ⟨{ c with val := v' }, by simp [rtCol, hv], by simp [eqCol, he]⟩

theorem rtImage_ok (ser : Serializer) (im : Image) (h : ∀ c ∈ colsOfImage im, supported ser c.jdbc c.val = true) :
    ∃ im', rtImage ser im = .ok im' ∧ eqImage im' im = true := by
  have hrows : ∀ row ∈ im.rows, ∃ row', mapE (rtCol ser) row = .ok row' ∧ all2 eqCol row' row = true := by
    intro row hrow
    apply mapE_ok
    intro c hc
    exact rtCol_ok ser c (h c (by simp only [colsOfImage, List.mem_flatten]; exact ⟨row, hrow, hc⟩))
  obtain ⟨rows', h1, h2⟩ := mapE_ok (mapE (rtCol ser)) (all2 eqCol) im.rows hrows
  exact ⟨{ im with rows := rows' }, by simp [rtImage, h1], by simp [eqImage, h2]⟩

theorem rtOpt_ok (ser : Serializer) (o : Option Image) (h : ∀ c ∈ colsOfOpt o, supported ser c.jdbc c.val = true) :
    ∃ o', rtOpt ser o = .ok o' ∧ eqOpt o' o = true := by
  cases o with
  | none => exact ⟨none, rfl, rfl⟩
  | some im =>
    obtain ⟨im', h1, h2⟩ := rtImage_ok ser im h
    exact ⟨some im', by simp [rtOpt, h1], by simp [eqOpt, h2]⟩

theorem rtLog_ok (ser : Serializer) (l : Log) (h : ∀ c ∈ colsOfLog l, supported ser c.jdbc c.val = true) :
    ∃ l', rtLog ser l = .ok l' ∧ eqLog l' l = true := by
  have hl : ∀ s ∈ l.logs, ∃ s', rtSqlLog ser s = .ok s' ∧ eqSqlLog s' s = true := by
    intro s hs
    have hb : ∀ c ∈ colsOfOpt s.before, supported ser c.jdbc c.val = true := fun c hc =>
      h c (by simp only [colsOfLog, List.mem_flatMap]; exact ⟨s, hs, by simp [hc]⟩)
    have ha : ∀ c ∈ colsOfOpt s.after, supported ser c.jdbc c.val = true := fun c hc =>
      h c (by simp only [colsOfLog, List.mem_flatMap]; exact ⟨s, hs, by simp [hc]⟩)
    obtain ⟨b', hb1, hb2⟩ := rtOpt_ok ser s.before hb
    obtain ⟨a', ha1, ha2⟩ := rtOpt_ok ser s.after ha
    exact ⟨{ s with before := b', after := a' }, by simp [rtSqlLog, hb1, ha1], by simp [eqSqlLog, hb2, ha2]⟩
  obtain ⟨ls', h1, h2⟩ := mapE_ok (rtSqlLog ser) eqSqlLog l.logs hl
  exact ⟨{ l with logs := ls' }, by simp [rtLog, h1], by simp [eqLog, h2]⟩

/-! context -/

theorem splitOn_nosep (sep : UInt8) (a : Bytes) (h : sep ∉ a) : splitOn sep a = [a] := by
  induction a with
  | nil => rfl
  | cons c r ih =>
    have hc : (c == sep) = false := by
      simp only [beq_eq_false_iff_ne]; intro hcs; exact h (by simp [hcs])
    have := ih (fun hm => h (by simp [hm]))
    simp [splitOn, hc, this]

theorem splitOn_append_sep (sep : UInt8) (a rest : Bytes) (h : sep ∉ a) :
    splitOn sep (a ++ sep :: rest) = a :: splitOn sep rest := by
  induction a with
  | nil => simp [splitOn]
  | cons c r ih =>
    have hc : (c == sep) = false := by
      simp only [beq_eq_false_iff_ne]; intro hcs; exact h (by simp [hcs])
    have := ih (fun hm => h (by simp [hm]))
    simp [splitOn, hc, this]

theorem split_join (sep : UInt8) (parts : List Bytes) (hne : parts ≠ []) (h : ∀ p ∈ parts, sep ∉ p) :
    splitOn sep (joinWith sep parts) = parts := by
  induction parts with
  | nil => exact absurd rfl hne
  | cons a r ih =>
    cases r with
    | nil => simpa [joinWith] using splitOn_nosep sep a (h a (by simp))
    | cons b r' =>
      have : joinWith sep (a :: b :: r') = a ++ sep :: joinWith sep (b :: r') := by simp [joinWith]
      rw [this, splitOn_append_sep sep a _ (h a (by simp)), ih (by simp) (fun p hp => h p (by simp [hp]))]

/-- the context written beside the log is read back exactly, for keys and values free of `&` and `=` -/
theorem decode_encode_ctx (m : List (Bytes × Bytes))
    (h : ∀ kv ∈ m, (38:UInt8) ∉ kv.1 ∧ (61:UInt8) ∉ kv.1 ∧ (38:UInt8) ∉ kv.2 ∧ (61:UInt8) ∉ kv.2) :
    decodeCtx (encodeCtx m) = m := by
  cases hm : m with
  | nil => simp [encodeCtx, decodeCtx, joinWith, splitOn]
  | cons kv0 r0 =>
    rw [← hm]
    unfold decodeCtx encodeCtx
    rw [split_join 38 _ (by simp [hm])]
    · -- each pair decodes to itself
      clear hm
      induction m with
      | nil => rfl
      | cons kv r ih =>
        obtain ⟨k, v⟩ := kv
        have hk := h (k, v) (by simp)
        simp only [List.map_cons, List.filterMap_cons]
        have hne : (k ++ [61] ++ v).isEmpty = false := by
          cases k <;> simp
        rw [hne]
        simp only [Bool.false_eq_true, if_false]
        have hs : splitOn 61 (k ++ [61] ++ v) = [k, v] := by
          have : k ++ [61] ++ v = k ++ (61:UInt8) :: v := by simp
          rw [this, splitOn_append_sep 61 k v hk.2.1, splitOn_nosep 61 v hk.2.2.2]
        rw [hs]
        simp only
        rw [ih (fun kv hkv => h kv (by simp [hkv]))]
    · intro p hp
      simp only [List.mem_map] at hp
      obtain ⟨⟨k, v⟩, hkv, rfl⟩ := hp
      have hk := h (k, v) hkv
      simp [hk.1, hk.2.2.1]

end Seata.UndoLog
