import SeataModel.UndoLog.Log
import SeataModel.Lemmas.Codec
namespace Seata.UndoLog
open Seata

theorem timeOfText_marshal (ns : Int) (h1 : -9223372036854775808 ≤ ns) (h2 : ns < 9223372036854775808) :
    timeOfText (putBE 8 (ns % 18446744073709551616).toNat) = some ns := by
  unfold timeOfText
  have := getBE_putBE 8 (ns % 18446744073709551616).toNat []
  simp only [List.append_nil] at this
  rw [this]
  have hp : (256:Nat) ^ 8 = 18446744073709551616 := by decide
  rw [hp]
  simp only
  congr 1
  omega

theorem b64val_b64char_fin : ∀ n : Fin 64, b64val (b64char n.val) = some n.val := by decide +kernel
theorem b64char_ne61_fin : ∀ n : Fin 64, b64char n.val ≠ 61 := by decide +kernel

theorem b64val_b64char (n : Nat) (h : n < 64) : b64val (b64char n) = some n := b64val_b64char_fin ⟨n, h⟩
theorem b64char_ne61 (n : Nat) (h : n < 64) : b64char n ≠ 61 := b64char_ne61_fin ⟨n, h⟩

theorem b64dec_four (a b c d : UInt8) (r : Bytes) (hd : d ≠ 61) :
    b64dec (a :: b :: c :: d :: r) = (do
      let x ← b64val a; let y ← b64val b; let z ← b64val c; let w ← b64val d
      let n := x * 262144 + y * 4096 + z * 64 + w
      let t ← b64dec r
      pure (UInt8.ofNat (n / 65536 % 256) :: UInt8.ofNat (n / 256 % 256) :: UInt8.ofNat (n % 256) :: t)) := by
  rw [b64dec]
  · intro _ h _; exact hd h
  · intro h _; exact hd h

theorem u8_ofNat_of_eq (a : UInt8) (n : Nat) (h : n = a.toNat) : UInt8.ofNat n = a := by
  subst h; simp

theorem b64dec_b64enc_aux : ∀ (b : Bytes), b64dec (b64enc b) = some b
  | [] => by simp [b64enc, b64dec]
  | [a] => by
    have ha := UInt8.toNat_lt a
    simp only [b64enc]
    rw [b64dec]
    simp only [b64val_b64char _ (Nat.mod_lt _ (by decide : 64 > 0)), Option.bind_eq_bind, Option.bind_some, Option.pure_def]
    congr 2
    apply u8_ofNat_of_eq
    omega
  | [a, b] => by
    have ha := UInt8.toNat_lt a
    have hb := UInt8.toNat_lt b
    simp only [b64enc]
    rw [b64dec]
    · simp only [b64val_b64char _ (Nat.mod_lt _ (by decide : 64 > 0)), Option.bind_eq_bind, Option.bind_some, Option.pure_def]
      congr 2
      · apply u8_ofNat_of_eq; omega
      · congr 1; apply u8_ofNat_of_eq; omega
    · intro h; exact b64char_ne61 _ (Nat.mod_lt _ (by decide)) h
  | a :: b :: c :: r => by
    have ha := UInt8.toNat_lt a
    have hb := UInt8.toNat_lt b
    have hc := UInt8.toNat_lt c
    simp only [b64enc]
    rw [b64dec_four _ _ _ _ _ (b64char_ne61 _ (Nat.mod_lt _ (by decide)))]
    simp only [b64val_b64char _ (Nat.mod_lt _ (by decide : 64 > 0)), Option.bind_eq_bind, Option.bind_some, Option.pure_def, b64dec_b64enc_aux r]
    congr 2
    · apply u8_ofNat_of_eq; omega
    · congr 1
      · apply u8_ofNat_of_eq; omega
      · congr 1; apply u8_ofNat_of_eq; omega

/-- base64: decoding what was encoded gives the bytes back, for every byte string -/
theorem b64dec_b64enc (b : Bytes) : b64dec (b64enc b) = some b := b64dec_b64enc_aux b

theorem rt_supported (ser : Serializer) (jdbc : Int) (v : GoVal) (h : supported ser jdbc v = true) :
    ∃ v', roundtripVal ser jdbc v = .ok v' ∧ undoEq v' v = true := by
  cases ser <;> cases v <;> cases hc : classOf jdbc <;>
    simp only [supported, hc] at h <;>
    (try (simp at h; done))
  all_goals (try (simp_all [roundtripVal, marshalJson, marshalVal, unmarshalJson, unmarshalPb, unmarshalC, passThrough, undoEq, b64dec_b64enc]; done))
  · rename_i s
    refine ⟨.str s, ?_, by simp [undoEq]⟩
    simp only [roundtripVal, marshalJson, unmarshalJson, hc]
    cases hb : b64dec s with
    | none => simp [unmarshalC, hb]
    | some b => simp [unmarshalC, b64dec_b64enc]
  · rename_i ns
    simp only [Bool.and_eq_true, decide_eq_true_eq] at h
    refine ⟨.time ns, ?_, by simp [undoEq]⟩
    simp [roundtripVal, marshalJson, marshalVal, unmarshalJson, hc, unmarshalC, timeOfText_marshal ns h.1 h.2]
  · rename_i ns
    simp only [Bool.and_eq_true, decide_eq_true_eq] at h
    refine ⟨.time ns, ?_, by simp [undoEq]⟩
    simp [roundtripVal, marshalVal, unmarshalPb, hc, unmarshalC, timeOfText_marshal ns h.1 h.2]

/-- lifting a per-element round trip through `mapE` -/
theorem mapE_ok {α ε : Type} (f : α → Except ε α) (eq : α → α → Bool) (l : List α)
    (h : ∀ a ∈ l, ∃ b, f a = .ok b ∧ eq b a = true) :
    ∃ l', mapE f l = .ok l' ∧ all2 eq l' l = true := by
  induction l with
  | nil => exact ⟨[], rfl, rfl⟩
  | cons a r ih =>
    obtain ⟨b, hb, heq⟩ := h a (by simp)
    obtain ⟨r', hr, hreq⟩ := ih (fun x hx => h x (by simp [hx]))
    exact ⟨b :: r', by simp [mapE, hb, hr], by simp [all2, heq, hreq]⟩

theorem rtCol_ok (ser : Serializer) (c : Col) (h : supported ser c.jdbc c.val = true) :
    ∃ c', rtCol ser c = .ok c' ∧ eqCol c' c = true := by
  obtain ⟨v', hv, he⟩ := rt_supported ser c.jdbc c.val h
  exact ⟨{ c with val := v' }, by simp [rtCol, hv], by simp [eqCol, he]⟩

theorem rtImage_ok (ser : Serializer) (im : Image) (h : ∀ c ∈ colsOfImage im, supported ser c.jdbc c.val = true) :
    ∃ im', rtImage ser im = .ok im' ∧ eqImage im' im = true := by
  have hrows : ∀ row ∈ im.rows, ∃ row', mapE (rtCol ser) row = .ok row' ∧ all2 eqCol row' row = true := by
    intro row hrow
    apply mapE_ok
    intro c hc
    exact rtCol_ok ser c (h c (by simp only [colsOfImage, List.mem_flatten]; exact ⟨row, hrow, hc⟩))
  obtain ⟨rows', h1, h2⟩ := mapE_ok (mapE (rtCol ser)) (all2 eqCol) im.rows hrows
  exact ⟨{ im with rows := rows' }, by simp [rtImage, h1], by simp [eqImage, h2]⟩

theorem rtOpt_ok (ser : Serializer) (o : Option Image) (h : ∀ c ∈ colsOfOpt o, supported ser c.jdbc c.val = true) :
    ∃ o', rtOpt ser o = .ok o' ∧ eqOpt o' o = true := by
  cases o with
  | none => exact ⟨none, rfl, rfl⟩
  | some im =>
    obtain ⟨im', h1, h2⟩ := rtImage_ok ser im h
    exact ⟨some im', by simp [rtOpt, h1], by simp [eqOpt, h2]⟩

theorem rtLog_ok (ser : Serializer) (l : Log) (h : ∀ c ∈ colsOfLog l, supported ser c.jdbc c.val = true) :
    ∃ l', rtLog ser l = .ok l' ∧ eqLog l' l = true := by
  have hl : ∀ s ∈ l.logs, ∃ s', rtSqlLog ser s = .ok s' ∧ eqSqlLog s' s = true := by
    intro s hs
    have hb : ∀ c ∈ colsOfOpt s.before, supported ser c.jdbc c.val = true := fun c hc =>
      h c (by simp only [colsOfLog, List.mem_flatMap]; exact ⟨s, hs, by simp [hc]⟩)
    have ha : ∀ c ∈ colsOfOpt s.after, supported ser c.jdbc c.val = true := fun c hc =>
      h c (by simp only [colsOfLog, List.mem_flatMap]; exact ⟨s, hs, by simp [hc]⟩)
    obtain ⟨b', hb1, hb2⟩ := rtOpt_ok ser s.before hb
    obtain ⟨a', ha1, ha2⟩ := rtOpt_ok ser s.after ha
    exact ⟨{ s with before := b', after := a' }, by simp [rtSqlLog, hb1, ha1], by simp [eqSqlLog, hb2, ha2]⟩
  obtain ⟨ls', h1, h2⟩ := mapE_ok (rtSqlLog ser) eqSqlLog l.logs hl
  exact ⟨{ l with logs := ls' }, by simp [rtLog, h1], by simp [eqLog, h2]⟩

/-! context -/

theorem splitOn_nosep (sep : UInt8) (a : Bytes) (h : sep ∉ a) : splitOn sep a = [a] := by
  induction a with
  | nil => rfl
  | cons c r ih =>
    have hc : (c == sep) = false := by
      simp only [beq_eq_false_iff_ne]; intro hcs; exact h (by simp [hcs])
    have := ih (fun hm => h (by simp [hm]))
    simp [splitOn, hc, this]

theorem splitOn_append_sep (sep : UInt8) (a rest : Bytes) (h : sep ∉ a) :
    splitOn sep (a ++ sep :: rest) = a :: splitOn sep rest := by
  induction a with
  | nil => simp [splitOn]
  | cons c r ih =>
    have hc : (c == sep) = false := by
      simp only [beq_eq_false_iff_ne]; intro hcs; exact h (by simp [hcs])
    have := ih (fun hm => h (by simp [hm]))
    simp [splitOn, hc, this]

theorem split_join (sep : UInt8) (parts : List Bytes) (hne : parts ≠ []) (h : ∀ p ∈ parts, sep ∉ p) :
    splitOn sep (joinWith sep parts) = parts := by
  induction parts with
  | nil => exact absurd rfl hne
  | cons a r ih =>
    cases r with
    | nil => simpa [joinWith] using splitOn_nosep sep a (h a (by simp))
    | cons b r' =>
      have : joinWith sep (a :: b :: r') = a ++ sep :: joinWith sep (b :: r') := by simp [joinWith]
      rw [this, splitOn_append_sep sep a _ (h a (by simp)), ih (by simp) (fun p hp => h p (by simp [hp]))]

/-- the context written beside the log is read back exactly, for keys and values free of `&` and `=` -/
theorem decode_encode_ctx (m : List (Bytes × Bytes))
    (h : ∀ kv ∈ m, (38:UInt8) ∉ kv.1 ∧ (61:UInt8) ∉ kv.1 ∧ (38:UInt8) ∉ kv.2 ∧ (61:UInt8) ∉ kv.2) :
    decodeCtx (encodeCtx m) = m := by
  cases hm : m with
  | nil => simp [encodeCtx, decodeCtx, joinWith, splitOn]
  | cons kv0 r0 =>
    rw [← hm]
    unfold decodeCtx encodeCtx
    rw [split_join 38 _ (by simp [hm])]
    · -- each pair decodes to itself
      clear hm
      induction m with
      | nil => rfl
      | cons kv r ih =>
        obtain ⟨k, v⟩ := kv
        have hk := h (k, v) (by simp)
        simp only [List.map_cons, List.filterMap_cons]
        have hne : (k ++ [61] ++ v).isEmpty = false := by
          cases k <;> simp
        rw [hne]
        simp only [Bool.false_eq_true, if_false]
        have hs : splitOn 61 (k ++ [61] ++ v) = [k, v] := by
          have : k ++ [61] ++ v = k ++ (61:UInt8) :: v := by simp
          rw [this, splitOn_append_sep 61 k v hk.2.1, splitOn_nosep 61 v hk.2.2.2]
        rw [hs]
        simp only
        rw [ih (fun kv hkv => h kv (by simp [hkv]))]
    · intro p hp
      simp only [List.mem_map] at hp
      obtain ⟨⟨k, v⟩, hkv, rfl⟩ := hp
      have hk := h (k, v) hkv
      simp [hk.1, hk.2.2.1]

end Seata.UndoLog
