import SeataModel.Codec.V1Table
namespace Seata.Codec
open Seata

theorem getStr_put (w : Nat) (b rest : Bytes) (h : b.length < 256 ^ w) :
    getStr w (putBE w b.length ++ b ++ rest) = some (b, rest) := by
  unfold getStr
  rw [List.append_assoc, getBE_putBE, Nat.mod_eq_of_lt h]
  simp

theorem i64_roundtrip (i : Int) (h1 : -9223372036854775808 ≤ i) (h2 : i < 9223372036854775808) :
    natToI64 (i64ToNat i % 256 ^ 8) = i := by
  unfold natToI64 i64ToNat
  have hp : (256:Nat) ^ 8 = 18446744073709551616 := by decide
  rw [hp]
  omega

theorem decodeF_encodeF (f : Bool) (fd : Field) (v : FVal) (rest : Bytes)
    (hwf : wfF fd = true) (hin : withinF fd v = true) :
    decodeF f fd (encodeF f fd v ++ rest) = some (normalizeF f fd v, rest) := by
  cases fd <;> cases v <;> simp [withinF] at hin <;>
    simp only [encodeF, decodeF, normalizeF, getBE_putBE, Option.map_some]
  case rc.nat n => rw [Nat.mod_eq_of_lt (by simpa using hin)]
  case u8.nat n => rw [Nat.mod_eq_of_lt (by simpa using hin)]
  case u16.nat n => rw [Nat.mod_eq_of_lt (by simpa using hin)]
  case u32.nat n => rw [Nat.mod_eq_of_lt (by simpa using hin)]
  case i64.int i => rw [i64_roundtrip i hin.1 hin.2]
  case str.bytes w b => rw [getStr_put w b rest hin]; rfl
  case msg.bytes w cap b =>
    cases f
    · simp
    · simp only [if_true]
      have hc : cap < 256 ^ w := by simpa [wfF] using hwf
      have hl : (b.take cap).length < 256 ^ w := by
        have := List.length_take_le cap b; omega
      rw [getStr_put w (b.take cap) rest hl]; rfl
  case bool8.bool b => cases b <;> simp
  case bool16.bool b => cases b <;> simp
  case ms32.nat ns => rw [Nat.mod_eq_of_lt (by simpa using hin)]

/-- after a round trip the "failed" flag is the same -/
theorem nextFailed_normalize (f : Bool) (fd : Field) (v : FVal) :
    nextFailed f fd (normalizeF f fd v) = nextFailed f fd v := by
  cases fd <;> cases v <;> simp [nextFailed, normalizeF]
  all_goals (split <;> rfl)

theorem decode_encode (f : Bool) (L : Layout) (vs : List FVal) (rest : Bytes)
    (hwf : wf L = true) (hin : within L vs = true) :
    decode f L (encode f L vs ++ rest) = some (normalize f L vs, rest) := by
  induction L generalizing f vs with
  | nil =>
    cases vs with
    | nil => simp [encode, decode, normalize]
    | cons _ _ => simp [within] at hin
  | cons fd L ih =>
    cases vs with
    | nil => simp [within] at hin
    | cons v vs =>
      simp only [within, Bool.and_eq_true] at hin
      simp only [wf, List.all_cons, Bool.and_eq_true] at hwf
      simp only [encode, decode, normalize, List.append_assoc]
      rw [decodeF_encodeF f fd v _ hwf.1 hin.1]
      simp only [nextFailed_normalize]
      rw [ih _ vs hwf.2 hin.2]

end Seata.Codec
