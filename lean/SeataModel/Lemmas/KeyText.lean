/-
  Helper lemmas about SeataModel/AT/KeyText.lean (`splitOn`, `joinWith`) used by SeataModel/Props/C03Text.lean.
-/
import SeataModel.AT.KeyText
namespace Seata.Lemmas.KeyText
open Seata.AT.KeyText

theorem splitOn_nil (sep : Char) : splitOn sep [] = [[]] := rfl

theorem splitOn_cons_sep (sep : Char) (rest : List Char) :
    splitOn sep (sep :: rest) = [] :: splitOn sep rest := by
  simp only [splitOn, if_true]

theorem splitOn_cons_ne (sep c : Char) (rest p : List Char) (ps : List (List Char)) (h : c ≠ sep)
    (hr : splitOn sep rest = p :: ps) : splitOn sep (c :: rest) = (c :: p) :: ps := by
  simp only [splitOn, if_neg h, hr]

/-- `splitOn` always yields at least one part -/
theorem splitOn_ne_nil (sep : Char) (l : List Char) : splitOn sep l ≠ [] := by
  induction l with
  | nil => rw [splitOn_nil]; exact List.cons_ne_nil _ _
  | cons c rest ih =>
    by_cases hc : c = sep
    · subst hc
      rw [splitOn_cons_sep]; exact List.cons_ne_nil _ _
    · cases hr : splitOn sep rest with
      | nil => exact absurd hr ih
      | cons p ps => rw [splitOn_cons_ne sep c rest p ps hc hr]; exact List.cons_ne_nil _ _

/-- a separator-free prefix followed by the separator is the first part -/
theorem splitOn_append_sep (sep : Char) (p rest : List Char) (h : sep ∉ p) :
    splitOn sep (p ++ sep :: rest) = p :: splitOn sep rest := by
  induction p with
  | nil => rw [List.nil_append, splitOn_cons_sep]
  | cons c p ih =>
    have hc : c ≠ sep := fun e => h (e ▸ List.mem_cons_self)
    have hp : sep ∉ p := fun hm => h (List.mem_cons_of_mem _ hm)
    rw [List.cons_append, splitOn_cons_ne sep c _ p (splitOn sep rest) hc (ih hp)]

/-- a separator-free text is its own single part -/
theorem splitOn_of_not_mem (sep : Char) (p : List Char) (h : sep ∉ p) :
    splitOn sep p = [p] := by
  induction p with
  | nil => rfl
  | cons c p ih =>
    have hc : c ≠ sep := fun e => h (e ▸ List.mem_cons_self)
    have hp : sep ∉ p := fun hm => h (List.mem_cons_of_mem _ hm)
    rw [splitOn_cons_ne sep c _ p [] hc (ih hp)]

theorem joinWith_nil (sep : Char) : joinWith sep [] = [] := rfl

theorem joinWith_singleton (sep : Char) (p : List Char) : joinWith sep [p] = p := rfl

theorem joinWith_cons_cons (sep : Char) (p q : List Char) (rest : List (List Char)) :
    joinWith sep (p :: q :: rest) = p ++ sep :: joinWith sep (q :: rest) := rfl

end Seata.Lemmas.KeyText
