/-
  Helper lemmas for C03 (global lock keys cover every written row; isolation under the
  coordinator's lock table): `find?` under map / filter / append, the lock keys of one statement,
  and the lock table (`holder`, `acquire`, `release`).
-/
import SeataModel.AT.Locks
import SeataModel.Lemmas.Store
namespace Seata.Lemmas.Locks
open Seata Seata.DB Seata.AT Seata.AT.Locks Seata.Lemmas.Store

/-! ### `find?` on lists -/

section Find
variable {α : Type _}

/-- mapping with a function that keeps the predicate and fixes the elements satisfying it does not
    change what `find?` returns -/
theorem find?_map_fix (p : α → Bool) (g : α → α) : ∀ (l : List α),
    (∀ a ∈ l, p (g a) = p a ∧ (p a = true → g a = a)) → (l.map g).find? p = l.find? p := by
  intro l
  induction l with
  | nil => intro _; rfl
  | cons a l ih =>
    intro h
    obtain ⟨h1, h2⟩ := h a (by simp)
    have ih' := ih (fun b hb => h b (by simp [hb]))
    simp only [List.map_cons, List.find?_cons, h1]
    cases hp : p a with
    | true => simp [h2 hp]
    | false => simpa using ih'

/-- filtering with a predicate that keeps every element satisfying `p` does not change `find? p` -/
theorem find?_filter_keep (p q : α → Bool) : ∀ (l : List α),
    (∀ a ∈ l, p a = true → q a = true) → (l.filter q).find? p = l.find? p := by
  intro l
  induction l with
  | nil => intro _; rfl
  | cons a l ih =>
    intro h
    have ih' := ih (fun b hb => h b (by simp [hb]))
    cases hp : p a with
    | true =>
      have hq := h a (by simp) hp
      simp [hq, hp]
    | false =>
      cases hq : q a with
      | true => simp [hq, hp, ih']
      | false => simp [hq, hp, ih']

/-- if `find? p` returns `a` and `a` passes the filter, `find? p` on the filtered list returns `a` -/
theorem find?_filter_some (p q : α → Bool) (a : α) : ∀ (l : List α),
    l.find? p = some a → q a = true → (l.filter q).find? p = some a := by
  intro l
  induction l with
  | nil => intro h; simp at h
  | cons b l ih =>
    intro h hq
    cases hp : p b with
    | true =>
      simp only [List.find?_cons, hp, Option.some.injEq] at h
      subst h
      simp [hq, hp]
    | false =>
      simp only [List.find?_cons, hp] at h
      have ih' := ih h hq
      cases hqb : q b with
      | true => simp [hqb, hp, ih']
      | false => simp [hqb, ih']

end Find

/-! ### `lookup` after each kind of statement -/

/-- UPDATE that keeps keys: a key that no selected row carries is looked up as before -/
theorem lookup_update (sc : Schema) (t : Table) (m : Row → Bool) (f : Row → Row) (k : Key)
    (hkey : ∀ r ∈ t, keyOf sc (f r) = keyOf sc r)
    (hk : k ∉ (t.filter m).map (keyOf sc)) :
    lookup sc (t.map fun r => if m r then f r else r) k = lookup sc t k := by
  unfold lookup
  apply find?_map_fix
  intro r hr
  cases hm : m r with
  | false => simp
  | true =>
    simp only [if_true, hkey r hr, true_and]
    intro hp
    have : keyOf sc r = k := by simpa using hp
    exact absurd (List.mem_map.2 ⟨r, List.mem_filter.2 ⟨hr, hm⟩, this⟩) hk

/-- DELETE: a key that no selected row carries is looked up as before -/
theorem lookup_delete (sc : Schema) (t : Table) (m : Row → Bool) (k : Key)
    (hk : k ∉ (t.filter m).map (keyOf sc)) :
    lookup sc (t.filter fun r => !m r) k = lookup sc t k := by
  unfold lookup
  apply find?_filter_keep
  intro r hr hp
  have hkr : keyOf sc r = k := by simpa using hp
  cases hm : m r with
  | false => rfl
  | true => exact absurd (List.mem_map.2 ⟨r, List.mem_filter.2 ⟨hr, hm⟩, hkr⟩) hk

/-- INSERT: a key that no new row carries is looked up as before -/
theorem lookup_insert (sc : Schema) (t news : Table) (k : Key)
    (hk : k ∉ news.map (keyOf sc)) :
    lookup sc (t ++ news) k = lookup sc t k := by
  unfold lookup
  have hn : news.find? (fun r => keyOf sc r == k) = none := by
    apply find?_key_none
    intro x hx hxk
    exact hk (List.mem_map.2 ⟨x, hx, hxk⟩)
  simp [List.find?_append, hn]

/-! ### the result of `stmtPhase1`, per statement kind -/

theorem stmtPhase1_update (sc : Schema) (cfg : Cfg) (t : Table) (args : Args)
    (sets : List (Nat × SetE)) (w : Cond) (t' : Table) (item : Item) (keys : List Key)
    (h : stmtPhase1 sc cfg t args (.update sets w) = .ok (t', item, keys)) :
    t' = (t.map fun r => if matches_ r args w then applySets args sets r else r) ∧
    keys = (t.filter fun r => matches_ r args w).map (keyOf sc) := by
  replace h := (stmtPhase1_update_ok h).2
  simp only [updatePhase1, apply] at h
  split at h
  · cases h
  · simp only [Except.ok.injEq, Prod.mk.injEq] at h
    exact ⟨h.1.symm, h.2.2.symm⟩

theorem stmtPhase1_delete (sc : Schema) (cfg : Cfg) (t : Table) (args : Args)
    (w : Cond) (t' : Table) (item : Item) (keys : List Key)
    (h : stmtPhase1 sc cfg t args (.delete w) = .ok (t', item, keys)) :
    t' = (t.filter fun r => !matches_ r args w) ∧
    keys = (t.filter fun r => matches_ r args w).map (keyOf sc) := by
  simp only [stmtPhase1, apply, Except.ok.injEq, Prod.mk.injEq] at h
  exact ⟨h.1.symm, h.2.2.symm⟩

theorem stmtPhase1_insert (sc : Schema) (cfg : Cfg) (t : Table) (args : Args)
    (rows : List (List Expr)) (t' : Table) (item : Item) (keys : List Key)
    (hu : PkUnique sc t)
    (h : stmtPhase1 sc cfg t args (.insert rows) = .ok (t', item, keys)) :
    t' = t ++ rows.map (fun es => es.map (evalE [] args)) ∧
    keys = (rows.map fun es => es.map (evalE [] args)).map (keyOf sc) := by
  simp only [stmtPhase1, apply] at h
  generalize hg : apply.go sc t (rows.map fun es => es.map (evalE [] args)) = g at h
  cases g with
  | none => simp at h
  | some t1 =>
    simp only [Except.ok.injEq, Prod.mk.injEq] at h
    obtain ⟨h1, _⟩ := go_some sc _ t t1 hg hu
    exact ⟨h.1 ▸ h1, h.2.2.symm⟩

/-- the keys of INSERT do not need the uniqueness of the table -/
theorem stmtPhase1_insert_keys (sc : Schema) (cfg : Cfg) (t : Table) (args : Args)
    (rows : List (List Expr)) (t' : Table) (item : Item) (keys : List Key)
    (h : stmtPhase1 sc cfg t args (.insert rows) = .ok (t', item, keys)) :
    keys = (rows.map fun es => es.map (evalE [] args)).map (keyOf sc) := by
  simp only [stmtPhase1, apply] at h
  generalize apply.go sc t (rows.map fun es => es.map (evalE [] args)) = g at h
  cases g with
  | none => simp at h
  | some t1 =>
    simp only [Except.ok.injEq, Prod.mk.injEq] at h
    exact h.2.2.symm

theorem stmtPhase1_updateLim (sc : Schema) (cfg : Cfg) (t : Table) (args : Args)
    (sets : List (Nat × SetE)) (w : Cond) (ord : List (Nat × Bool)) (lim : Nat)
    (t' : Table) (item : Item) (keys : List Key)
    (h : stmtPhase1 sc cfg t args (.updateLim sets w ord lim) = .ok (t', item, keys)) :
    t' = (t.map fun r => if (limitedKeys sc t args w ord lim).contains (keyOf sc r)
      then applySets args sets r else r) ∧
    keys = (t.filter fun r => (limitedKeys sc t args w ord lim).contains (keyOf sc r)).map (keyOf sc) := by
  simp only [stmtPhase1, apply] at h
  split at h
  · cases h
  · simp only [Except.ok.injEq, Prod.mk.injEq] at h
    exact ⟨h.1.symm, h.2.2.symm⟩

theorem stmtPhase1_deleteLim (sc : Schema) (cfg : Cfg) (t : Table) (args : Args)
    (w : Cond) (ord : List (Nat × Bool)) (lim : Nat) (t' : Table) (item : Item) (keys : List Key)
    (h : stmtPhase1 sc cfg t args (.deleteLim w ord lim) = .ok (t', item, keys)) :
    t' = (t.filter fun r => !(limitedKeys sc t args w ord lim).contains (keyOf sc r)) ∧
    keys = (t.filter fun r => (limitedKeys sc t args w ord lim).contains (keyOf sc r)).map (keyOf sc) := by
  simp only [stmtPhase1, apply, Except.ok.injEq, Prod.mk.injEq] at h
  exact ⟨h.1.symm, h.2.2.symm⟩

/-- INSERT … ON DUPLICATE KEY UPDATE: the new table is the old rows, changed only under the new rows'
    keys and never in their key, followed by inserted rows; the lock keys are the keys of every row now
    stored under one of the new rows' keys -/
theorem stmtPhase1_upsert (sc : Schema) (cfg : Cfg) (t : Table) (args : Args)
    (rows : List (List Expr)) (assign : List (Nat × UpSrc)) (t' : Table) (item : Item) (keys : List Key)
    (ha : ∀ p ∈ assign, p.1 ∉ sc.pk)
    (h : stmtPhase1 sc cfg t args (.upsert rows assign) = .ok (t', item, keys)) :
    ∃ (g : Row → Row) (ins : List Row) (K : List Key), t' = t.map g ++ ins ∧
      (∀ r, keyOf sc (g r) = keyOf sc r) ∧ (∀ r, keyOf sc r ∉ K → g r = r) ∧
      (∀ x ∈ ins, keyOf sc x ∈ K) ∧
      keys = ((t.filter fun r => K.contains (keyOf sc r)).map g ++ ins).map (keyOf sc) := by
  have hany : (assign.any fun a => sc.pk.contains a.1) = false := by
    cases hb : (assign.any fun a => sc.pk.contains a.1) with
    | false => rfl
    | true => simp only [stmtPhase1] at h; rw [if_pos hb] at h; cases h
  simp only [stmtPhase1, hany, Bool.false_eq_true, if_false, apply, Except.ok.injEq, Prod.mk.injEq] at h
  obtain ⟨rfl, _, rfl⟩ := h
  generalize rows.map (fun es => es.map (evalE [] args)) = news
  obtain ⟨g, ins, h1, h2, h3, h4, _⟩ := upsert_fold sc assign ha news t
  refine ⟨g, ins, news.map (keyOf sc), h1, fun r => (h2 r).1, h3, fun x hx => (h4 x hx).1, ?_⟩
  rw [h1, ups_filter_sel sc t _ g ins (fun r => (h2 r).1) (fun x hx => (h4 x hx).1)]

/-- a table of that shape: a key that is not among those lock keys is looked up as before -/
theorem lookup_upsert (sc : Schema) (t : Table) (g : Row → Row) (ins : List Row) (K : List Key) (k : Key)
    (hg : ∀ r, keyOf sc (g r) = keyOf sc r) (hfix : ∀ r, keyOf sc r ∉ K → g r = r)
    (hk : k ∉ ((t.filter fun r => K.contains (keyOf sc r)).map g ++ ins).map (keyOf sc)) :
    lookup sc (t.map g ++ ins) k = lookup sc t k := by
  simp only [List.map_append, List.mem_append, not_or] at hk
  unfold lookup
  have hn : ins.find? (fun r => keyOf sc r == k) = none := by
    apply find?_key_none
    intro x hx hxk
    exact hk.2 (List.mem_map.2 ⟨x, hx, hxk⟩)
  have hm : (t.map g).find? (fun r => keyOf sc r == k) = t.find? (fun r => keyOf sc r == k) := by
    apply find?_map_fix
    intro r hr
    refine ⟨by rw [hg r], ?_⟩
    intro hp
    have hrk : keyOf sc r = k := by simpa using hp
    apply hfix
    intro hmem
    apply hk.1
    refine List.mem_map.2 ⟨g r, List.mem_map.2 ⟨r, List.mem_filter.2 ⟨hr, by simpa using hmem⟩, rfl⟩, ?_⟩
    rw [hg r, hrk]
  simp [List.find?_append, hn, hm]

/-- one statement: a key outside the lock keys is looked up as before -/
theorem stmt_lookup_unchanged (sc : Schema) (cfg : Cfg) (t : Table) (args : Args) (s : Stmt)
    (t' : Table) (item : Item) (keys : List Key)
    (hu : PkUnique sc t) (hs : StmtWF sc s)
    (h : stmtPhase1 sc cfg t args s = .ok (t', item, keys)) (k : Key) (hk : k ∉ keys) :
    lookup sc t' k = lookup sc t k := by
  cases s with
  | update sets w =>
    obtain ⟨rfl, rfl⟩ := stmtPhase1_update sc cfg t args sets w t' item keys h
    exact lookup_update sc t _ _ k
      (fun r _ => applySets_keyOf sc args sets r (fun p hp => (hs p hp).2)) hk
  | delete w =>
    obtain ⟨rfl, rfl⟩ := stmtPhase1_delete sc cfg t args w t' item keys h
    exact lookup_delete sc t _ k hk
  | insert rows =>
    obtain ⟨rfl, rfl⟩ := stmtPhase1_insert sc cfg t args rows t' item keys hu h
    exact lookup_insert sc t _ k hk
  | failing s => simp [stmtPhase1] at h
  | upsert rows assign =>
    obtain ⟨g, ins, K, rfl, hg, hfix, _, rfl⟩ :=
      stmtPhase1_upsert sc cfg t args rows assign t' item keys (fun p hp => (hs.2 p hp).2) h
    exact lookup_upsert sc t g ins K k hg hfix hk
  | updateLim sets w ord lim =>
    obtain ⟨rfl, rfl⟩ := stmtPhase1_updateLim sc cfg t args sets w ord lim t' item keys h
    exact lookup_update sc t _ _ k
      (fun r _ => applySets_keyOf sc args sets r (fun p hp => (hs p hp).2)) hk
  | deleteLim w ord lim =>
    obtain ⟨rfl, rfl⟩ := stmtPhase1_deleteLim sc cfg t args w ord lim t' item keys h
    exact lookup_delete sc t _ k hk

/-- a whole local transaction: a key outside the lock keys is looked up as before -/
theorem local_lookup_unchanged (sc : Schema) (cfg : Cfg) : ∀ (ltx : LocalTx) (t t' : Table) (b : Branch),
    PkUnique sc t → (∀ r ∈ t, r.length = sc.ncols) → (∀ p ∈ ltx, StmtWF sc p.1) →
    localPhase1 sc cfg t ltx = .ok (t', b) → ∀ k : Key, k ∉ b.lockKeys →
    lookup sc t' k = lookup sc t k := by
  intro ltx
  induction ltx with
  | nil =>
    intro t t' b _ _ _ h k _
    simp only [localPhase1, Except.ok.injEq, Prod.mk.injEq] at h
    rw [h.1]
  | cons p rest ih =>
    intro t t' b hu hsh hs h k hk
    obtain ⟨s, args⟩ := p
    simp only [localPhase1] at h
    split at h
    · cases h
    · rename_i t1 item keys h1
      split at h
      · cases h
      · rename_i t2 b2 h2
        simp only [Except.ok.injEq, Prod.mk.injEq] at h
        obtain ⟨rfl, rfl⟩ := h
        simp only [List.mem_append, not_or] at hk
        have hs1 : StmtWF sc s := hs (s, args) (by simp)
        obtain ⟨hu1, hsh1⟩ := stmt_wf_after sc cfg t args s t1 item keys hu hsh hs1 h1
        rw [ih t1 t2 b2 hu1 hsh1 (fun q hq => hs q (by simp [hq])) h2 k hk.2]
        exact stmt_lookup_unchanged sc cfg t args s t1 item keys hu hs1 h1 k hk.1

/-! ### the lock table -/

theorem holder_append (lt : LockTable) (k' : Key) (x : Xid) (k : Key) :
    holder (lt ++ [(k', x)]) k = (holder lt k).or (if k' = k then some x else none) := by
  unfold holder
  rw [List.find?_append]
  cases h : lt.find? (fun p => p.1 == k) with
  | some a => simp
  | none =>
    by_cases hk : k' = k
    · simp [hk]
    · simp [hk]

/-- the holder of a key after `acquire`: the previous holder if any, else `x` for the acquired keys -/
theorem holder_acquire (x : Xid) (k : Key) : ∀ (keys : List Key) (lt : LockTable),
    holder (acquire lt x keys) k = (holder lt k).or (if k ∈ keys then some x else none) := by
  intro keys
  induction keys with
  | nil => intro lt; simp [acquire]
  | cons k' ks ih =>
    intro lt
    have hstep : acquire lt x (k' :: ks) =
        acquire (if (holder lt k').isSome then lt else lt ++ [(k', x)]) x ks := by
      simp [acquire]
    rw [hstep, ih]
    by_cases hh : (holder lt k').isSome = true
    · simp only [hh, if_true]
      by_cases hk : k = k'
      · subst hk
        obtain ⟨y, hy⟩ := Option.isSome_iff_exists.1 hh
        simp [hy]
      · simp [hk]
    · rw [if_neg hh, holder_append]
      by_cases hk : k' = k
      · subst hk
        cases hl : holder lt k' <;> simp
      · have hk' : ¬ k = k' := fun e => hk e.symm
        simp [hk, hk']

theorem holder_acquire_of_some (lt : LockTable) (x y : Xid) (keys : List Key) (k : Key)
    (h : holder lt k = some y) : holder (acquire lt x keys) k = some y := by
  rw [holder_acquire, h]; rfl

theorem holder_acquire_of_lockable (lt : LockTable) (x : Xid) (keys : List Key) (k : Key)
    (hl : lockable lt x keys = true) (hk : k ∈ keys) : holder (acquire lt x keys) k = some x := by
  rw [holder_acquire]
  have := List.all_eq_true.1 hl k hk
  cases hh : holder lt k with
  | none => simp [hk]
  | some y =>
    rw [hh] at this
    have : y = x := by simpa using this
    simp [this]

theorem holder_release (lt : LockTable) (x y : Xid) (k : Key)
    (h : holder lt k = some y) (hne : y ≠ x) : holder (release lt x) k = some y := by
  unfold holder at h ⊢
  cases hf : lt.find? (fun p => p.1 == k) with
  | none => simp [hf] at h
  | some a =>
    simp only [hf, Option.map_some, Option.some.injEq] at h
    have hq : (fun p : Key × Xid => p.2 != x) a = true := by
      simp [h, hne]
    unfold release
    rw [find?_filter_some _ _ a lt hf hq]
    simp [h]

end Seata.Lemmas.Locks
