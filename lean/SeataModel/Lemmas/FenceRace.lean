/- The finite check behind C06_race_serializable: all 5 states x 9 phase pairs x 256 schedules, evaluated by
   the kernel (`decide +kernel`: no axiom beyond propext, no native code). -/
import SeataModel.TCC.FenceRace
namespace Seata.Lemmas.FenceRace
open Seata.Fence Seata.Fence.Race

theorem allSerializable_8 : allSerializable 8 = true := by decide +kernel

/-- every list of `n` choices is one of `allScheds n` -/
theorem mem_allScheds (n : Nat) (ws : List Bool) (h : ws.length = n) : ws ∈ allScheds n := by
  induction n generalizing ws with
  | zero =>
    cases ws with
    | nil => simp [allScheds]
    | cons _ _ => simp at h
  | succ n ih =>
    cases ws with
    | nil => simp at h
    | cons w rest =>
      have hr : rest.length = n := by simpa using h
      have := ih rest hr
      simp only [allScheds, List.mem_flatMap]
      refine ⟨rest, this, ?_⟩
      cases w <;> simp

end Seata.Lemmas.FenceRace
