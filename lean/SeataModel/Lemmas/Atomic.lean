/-
  Helper lemmas for C02 (AT phase-one trace model).
-/
import SeataModel.AT.Atomic
namespace Seata.AT.Atomic

/-! ### `cut` -/

theorem reg_acc (reg : Bool) (e : Ev) (l : List Ev) :
    ((reg || e == Ev.register) || l.contains Ev.register) = (reg || (e :: l).contains Ev.register) := by
  cases e <;> cases reg <;> simp

/-- the fault was reached: the output is a strict prefix of the clean trace followed by the failed event -/
theorem cut_reached (clean : List Ev) (f : Fault) (n : Nat) (reg : Bool)
    (h : (cut clean f n reg).2.2 = true) :
    ∃ pre e post, clean = pre ++ e :: post ∧ (cut clean f n reg).1 = pre ++ [.failed e] ∧
      (cut clean f n reg).2.1 = (reg || pre.contains .register) := by
  induction clean generalizing n reg with
  | nil => simp [cut] at h
  | cons e rest ih =>
    unfold cut at h ⊢
    by_cases hr : isReport e = true
    · simp [hr] at h
    · by_cases hh : hits f n e = true
      · refine ⟨[], e, rest, ?_⟩
        simp [hr, hh]
      · simp only [hr, hh, Bool.false_eq_true, if_false] at h ⊢
        obtain ⟨pre, e', post, h1, h2, h3⟩ := ih _ _ h
        refine ⟨e :: pre, e', post, ?_, ?_, ?_⟩
        · simp [h1]
        · simp [h2]
        · rw [h3]
          exact reg_acc reg e _

/-- no report event in the clean trace and the fault not reached: the whole clean trace is output -/
theorem cut_not_reached (clean : List Ev) (f : Fault) (n : Nat) (reg : Bool)
    (hrep : ∀ e ∈ clean, isReport e = false)
    (h : (cut clean f n reg).2.2 = false) :
    (cut clean f n reg).1 = clean ∧ (cut clean f n reg).2.1 = (reg || clean.contains .register) := by
  induction clean generalizing n reg with
  | nil => simp [cut]
  | cons e rest ih =>
    unfold cut at h ⊢
    have hr : isReport e = false := hrep e (by simp)
    by_cases hh : hits f n e = true
    · simp [hr, hh] at h
    · simp only [hr, hh, Bool.false_eq_true, if_false] at h ⊢
      obtain ⟨h2, h3⟩ := ih _ _ (fun x hx => hrep x (by simp [hx])) h
      refine ⟨by simp [h2], ?_⟩
      rw [h3]
      exact reg_acc reg e _

/-! ### the connection state machine -/

theorem execFrom_append (d : Db) (a b : List Ev) : execFrom d (a ++ b) = execFrom (execFrom d a) b := by
  simp [execFrom, List.foldl_append]

theorem execFrom_cons (d : Db) (e : Ev) (t : List Ev) : execFrom d (e :: t) = execFrom (d.step e) t := rfl

/-- inside a transaction, a trace without COMMIT / ROLLBACK changes nothing durable and stays inside -/
theorem execFrom_inTx (t : List Ev) (d : Db) (hin : d.inTx = true)
    (h : ∀ e ∈ t, e ≠ .commit ∧ e ≠ .rollback) :
    (execFrom d t).inTx = true ∧ (execFrom d t).durBiz = d.durBiz ∧ (execFrom d t).durUndo = d.durUndo := by
  induction t generalizing d with
  | nil => simp [execFrom, hin]
  | cons e rest ih =>
    rw [execFrom_cons]
    have he := h e (by simp)
    have hrest : ∀ x ∈ rest, x ≠ .commit ∧ x ≠ .rollback := fun x hx => h x (by simp [hx])
    have key : (d.step e).inTx = true ∧ (d.step e).durBiz = d.durBiz ∧ (d.step e).durUndo = d.durUndo := by
      cases e <;> simp_all [Db.step]
    obtain ⟨k1, k2, k3⟩ := key
    obtain ⟨r1, r2, r3⟩ := ih (d.step e) k1 hrest
    exact ⟨r1, r2.trans k2, r3.trans k3⟩

/-- pending counts inside a transaction -/
theorem execFrom_inTx_pend (t : List Ev) (d : Db) (hin : d.inTx = true)
    (h : ∀ e ∈ t, e ≠ .commit ∧ e ≠ .rollback) :
    (execFrom d t).pendBiz = d.pendBiz + t.count .biz ∧ (execFrom d t).pendUndo = d.pendUndo + t.count .undo := by
  induction t generalizing d with
  | nil => simp [execFrom]
  | cons e rest ih =>
    rw [execFrom_cons]
    have he := h e (by simp)
    have hrest : ∀ x ∈ rest, x ≠ .commit ∧ x ≠ .rollback := fun x hx => h x (by simp [hx])
    have k1 : (d.step e).inTx = true := by cases e <;> simp_all [Db.step]
    obtain ⟨r1, r2⟩ := ih (d.step e) k1 hrest
    rw [r1, r2]
    cases e <;> simp_all [Db.step] <;> omega

/-- reports do not touch the database connection -/
theorem execFrom_reports (d : Db) (t : List Ev) (h : ∀ e ∈ t, isReport e = true) : execFrom d t = d := by
  induction t generalizing d with
  | nil => rfl
  | cons e rest ih =>
    rw [execFrom_cons]
    have he := h e (by simp)
    have : d.step e = d := by cases e <;> simp_all [Db.step, isReport]
    rw [this]
    exact ih d (fun x hx => h x (by simp [hx]))

theorem reports_isReport (ok : Bool) (lost : Nat) : ∀ e ∈ reports ok lost, isReport e = true := by
  intro e he
  unfold reports at he
  split at he
  · rw [List.mem_replicate] at he; rw [he.2]; rfl
  · rw [List.mem_append] at he
    cases he with
    | inl h => rw [List.mem_replicate] at h; rw [h.2]; rfl
    | inr h => simp at h; rw [h]; rfl

theorem reports_shape (ok : Bool) (lost : Nat) :
    (reports ok lost) ≠ [] ∧ (reports ok lost).length ≤ 5 ∧
    (∀ e ∈ reports ok lost, ∃ d, e = .report ok d) ∧
    (lost < 5 → (reports ok lost).getLast? = some (.report ok true)) := by
  unfold reports
  split
  · refine ⟨by simp, by simp, ?_, by omega⟩
    intro e he; rw [List.mem_replicate] at he; exact ⟨false, he.2⟩
  · refine ⟨by simp, by simp; omega, ?_, by simp⟩
    intro e he; rw [List.mem_append] at he
    cases he with
    | inl h => rw [List.mem_replicate] at h; exact ⟨false, h.2⟩
    | inr h => simp at h; exact ⟨true, h⟩

/-- an element that occurs once splits a list in one way only -/
theorem split_unique {α} (a : α) (p q p' q' : List α) (hp : a ∉ p') (hq : a ∉ q')
    (h : p ++ a :: q = p' ++ a :: q') : p = p' := by
  induction p generalizing p' with
  | nil =>
    cases p' with
    | nil => rfl
    | cons x xs =>
      simp at h
      exact absurd (by simp [h.1]) hp
  | cons y ys ih =>
    cases p' with
    | nil =>
      simp at h
      obtain ⟨h1, h2⟩ := h
      exfalso; apply hq; rw [← h2]; simp
    | cons x xs =>
      simp at h
      obtain ⟨h1, h2⟩ := h
      rw [h1, ih xs (fun hm => hp (by simp [hm])) h2]

end Seata.AT.Atomic

namespace Seata.AT.Atomic

theorem bodyEv_facts {e : Ev} (h : bodyEv e = true) :
    isDb e = true ∧ isReport e = false ∧ e ≠ .register ∧ e ≠ .commit ∧ e ≠ .rollback ∧ e ≠ .begin ∧ e ≠ .undo := by
  cases e <;> simp_all [bodyEv, isDb, isReport]

/-- the fault lies beyond the body: the body is copied and the walk goes on -/
theorem cut_body_skip (body tail : List Ev) (f : Fault) (n : Nat) (reg : Bool)
    (hb : ∀ e ∈ body, bodyEv e = true)
    (hskip : ∀ k, f = .db k → k ≤ n ∨ n + body.length < k) :
    cut (body ++ tail) f n reg =
      (body ++ (cut tail f (n + body.length) reg).1, (cut tail f (n + body.length) reg).2.1,
        (cut tail f (n + body.length) reg).2.2) := by
  induction body generalizing n with
  | nil => simp
  | cons e rest ih =>
    obtain ⟨h1, h2, h3, -⟩ := bodyEv_facts (hb e (by simp))
    have hh : hits f n e = false := by
      cases hf : f with
      | db k =>
        have := hskip k hf
        have hne : k ≠ n + 1 := by simp at this; omega
        cases e <;> simp_all [hits, isDb, bodyEv]
      | _ => cases e <;> simp_all [hits, isDb, bodyEv]
    have hreg : (reg || e == Ev.register) = reg := by cases e <;> simp_all
    rw [List.cons_append, cut]
    simp only [h2, hh, h1, Bool.false_eq_true, if_false, if_true, hreg]
    rw [ih (n + 1) (fun x hx => hb x (by simp [hx]))
      (fun k hk => by have := hskip k hk; simp at this; omega)]
    simp [Nat.add_assoc, Nat.add_comm 1]

/-- the fault hits the i-th body statement -/
theorem cut_body_hit (body tail : List Ev) (f : Fault) (n : Nat) (reg : Bool) (i : Nat)
    (hb : ∀ e ∈ body, bodyEv e = true) (hi : i < body.length) (hf : f = .db (n + i + 1)) :
    cut (body ++ tail) f n reg = (body.take i ++ [.failed body[i]], reg, true) := by
  induction body generalizing n i with
  | nil => simp at hi
  | cons e rest ih =>
    obtain ⟨h1, h2, h3, -⟩ := bodyEv_facts (hb e (by simp))
    have hreg : (reg || e == Ev.register) = reg := by cases e <;> simp_all
    rw [List.cons_append, cut]
    cases i with
    | zero =>
      have hh : hits f n e = true := by subst hf; cases e <;> simp_all [hits, isDb, bodyEv]
      simp [h2, hh]
    | succ j =>
      have hh : hits f n e = false := by
        subst hf; cases e <;> simp_all [hits, isDb, bodyEv] <;> omega
      simp only [h2, hh, h1, Bool.false_eq_true, if_false, if_true, hreg]
      rw [ih (n + 1) j (fun x hx => hb x (by simp [hx])) (by simpa using hi) (by rw [hf]; congr 1; omega)]
      simp

end Seata.AT.Atomic
