/-
  Helper lemmas for C09 (data validation before the compensation of an undo item).
-/
import SeataModel.AT.World
namespace Seata.AT
open Seata Seata.DB

/-! ### `cellsEq` -/

theorem cellsEq_sound (a b : List (Nat × Val)) (h : cellsEq a b = true) :
    ∀ p ∈ a, ∃ q ∈ b, q.1 = p.1 ∧ q.2 = p.2 := by
  intro p hp
  unfold cellsEq at h
  rw [List.all_eq_true] at h
  have h1 := h p hp
  cases hf : b.find? (fun q => q.1 == p.1) with
  | none => simp [hf] at h1
  | some q =>
    have hm := List.mem_of_find?_eq_some hf
    have hq := List.find?_some hf
    simp [hf] at h1
    exact ⟨q, hm, by simpa using hq, h1⟩

theorem cellsEq_detects (a b : List (Nat × Val)) (c : Nat) (v v' : Val)
    (hc : (c, v) ∈ a) (hb : b.find? (fun q => q.1 == c) = some (c, v')) (hne : v ≠ v') :
    cellsEq a b = false := by
  cases h : cellsEq a b with
  | false => rfl
  | true =>
    exfalso
    unfold cellsEq at h
    rw [List.all_eq_true] at h
    have h1 := h (c, v) hc
    simp [hb] at h1
    exact hne h1.symm

/-! ### `recordsEq` -/

theorem recordsEq_length (old new : List IRow) (h : recordsEq old new = true) :
    old.length = new.length := by
  unfold recordsEq at h
  simp only [Bool.and_eq_true, beq_iff_eq] at h
  exact h.1

theorem recordsEq_of_length_ne (old new : List IRow) (h : old.length ≠ new.length) :
    recordsEq old new = false := by
  cases h' : recordsEq old new with
  | false => rfl
  | true => exact absurd (recordsEq_length _ _ h') h

theorem recordsEq_row (old new : List IRow) (h : recordsEq old new = true) (o : IRow) (ho : o ∈ old) :
    ∃ n, new.find? (fun n => n.key == o.key) = some n ∧ cellsEq o.cells n.cells = true := by
  unfold recordsEq at h
  simp only [Bool.and_eq_true, List.all_eq_true] at h
  have h1 := h.2 o ho
  cases hf : new.find? (fun n => n.key == o.key) with
  | none => simp [hf] at h1
  | some n => simp only [hf] at h1; exact ⟨n, rfl, h1⟩

theorem recordsEq_sound' (old new : List IRow) (h : recordsEq old new = true) :
    old.length = new.length ∧
    ∀ o ∈ old, ∃ n ∈ new, n.key = o.key ∧
      ∀ p ∈ o.cells, ∃ q ∈ n.cells, q.1 = p.1 ∧ q.2 = p.2 := by
  refine ⟨recordsEq_length _ _ h, ?_⟩
  intro o ho
  obtain ⟨n, hf, hc⟩ := recordsEq_row old new h o ho
  refine ⟨n, List.mem_of_find?_eq_some hf, ?_, cellsEq_sound _ _ hc⟩
  have := List.find?_some hf
  simpa using this

theorem recordsEq_detects' (old new : List IRow) (o n : IRow) (c : Nat) (v v' : Val)
    (ho : o ∈ old) (hfind : new.find? (fun x => x.key == o.key) = some n)
    (hc : (c, v) ∈ o.cells) (hn : n.cells.find? (fun q => q.1 == c) = some (c, v')) (hne : v ≠ v') :
    recordsEq old new = false := by
  cases h : recordsEq old new with
  | false => rfl
  | true =>
    exfalso
    obtain ⟨n', hf, hce⟩ := recordsEq_row old new h o ho
    rw [hfind] at hf
    cases hf
    rw [cellsEq_detects _ _ c v v' hc hn hne] at hce
    exact Bool.false_ne_true hce

/-! ### `validate` -/

theorem validate_skip_same (sc : Schema) (cfg : Cfg) (t : Table) (it : Item) (rows : List IRow)
    (hv : cfg.validate = true) (h : recordsEq it.before it.after = true) :
    validate sc cfg t it rows = .skip := by
  simp [validate, hv, h]

theorem validate_goOn (sc : Schema) (cfg : Cfg) (t : Table) (it : Item) (rows : List IRow)
    (hv : cfg.validate = true) (h : recordsEq it.before it.after = false)
    (ha : recordsEq it.after (currentOf sc t rows) = true) :
    validate sc cfg t it rows = .goOn := by
  simp [validate, hv, h, ha]

theorem validate_skip_before (sc : Schema) (cfg : Cfg) (t : Table) (it : Item) (rows : List IRow)
    (hv : cfg.validate = true) (h : recordsEq it.before it.after = false)
    (ha : recordsEq it.after (currentOf sc t rows) = false)
    (hb : recordsEq it.before (currentOf sc t rows) = true) :
    validate sc cfg t it rows = .skip := by
  simp [validate, hv, h, ha, hb]

theorem validate_dirty (sc : Schema) (cfg : Cfg) (t : Table) (it : Item) (rows : List IRow)
    (hv : cfg.validate = true) (h : recordsEq it.before it.after = false)
    (ha : recordsEq it.after (currentOf sc t rows) = false)
    (hb : recordsEq it.before (currentOf sc t rows) = false) :
    validate sc cfg t it rows = .dirty := by
  simp [validate, hv, h, ha, hb]

/-! ### `undoItem` by verdict -/

/-- the rows the compensation of `it` validates against -/
def undoRows (it : Item) : List IRow :=
  match it.kind with
  | .delete => it.before
  | _ => it.after

theorem undoItem_skip (sc : Schema) (cfg : Cfg) (t : Table) (it : Item)
    (h : validate sc cfg t it (undoRows it) = .skip) : undoItem sc cfg t it = (t, .skipped) := by
  unfold undoItem
  unfold undoRows at h
  cases hk : it.kind <;> simp only [hk] at h <;> simp [h]

theorem undoItem_dirty (sc : Schema) (cfg : Cfg) (t : Table) (it : Item)
    (h : validate sc cfg t it (undoRows it) = .dirty) : undoItem sc cfg t it = (t, .dirty) := by
  unfold undoItem
  unfold undoRows at h
  cases hk : it.kind <;> simp only [hk] at h <;> simp [h]

theorem undoItem_goOn (sc : Schema) (cfg : Cfg) (t : Table) (it : Item)
    (h : validate sc cfg t it (undoRows it) = .goOn) :
    (undoItem sc cfg t it).2 = .done ∨ (undoItem sc cfg t it).2 = .sqlError := by
  unfold undoItem
  unfold undoRows at h
  cases hk : it.kind <;> simp only [hk] at h <;> simp only [h]
  · by_cases he : it.after.isEmpty = true <;> simp [he]
  · by_cases he : it.before.isEmpty = true <;> simp [he]
  · by_cases he : it.before.isEmpty = true
    · simp [he]
    · simp only [he, Bool.false_eq_true, if_false]
      split <;> simp

/-! ### the fold over a branch's items -/

theorem undoStep_false (sc : Schema) (cfg : Cfg) (t : Table) (items : List Item) :
    items.foldl (undoStep sc cfg) (t, false) = (t, false) := by
  induction items with
  | nil => rfl
  | cons it rest ih => simpa [List.foldl_cons, undoStep] using ih

theorem undoStep_dirty (sc : Schema) (cfg : Cfg) (t : Table) (it : Item)
    (h : (undoItem sc cfg t it).2 = .dirty) : undoStep sc cfg (t, true) it = (t, false) := by
  unfold undoStep
  generalize hr : undoItem sc cfg t it = r at h
  obtain ⟨t', res⟩ := r
  simp only at h
  subst h
  simp

theorem undoFold_dirty (sc : Schema) (cfg : Cfg) (t : Table) (pre post : List Item) (it : Item)
    (hpre : (undoFold sc cfg t pre).2 = true)
    (hdirty : (undoItem sc cfg (undoFold sc cfg t pre).1 it).2 = .dirty) :
    (undoFold sc cfg t (pre ++ it :: post)).2 = false := by
  unfold undoFold at *
  rw [List.foldl_append, List.foldl_cons]
  generalize hr : List.foldl (undoStep sc cfg) (t, true) pre = r at hpre hdirty
  obtain ⟨t1, b⟩ := r
  simp only at hpre hdirty
  subst hpre
  rw [undoStep_dirty sc cfg t1 it hdirty, undoStep_false]

theorem undoBranch_dirty (sc : Schema) (cfg : Cfg) (t : Table) (b : Branch) (pre post : List Item) (it : Item)
    (hitems : b.items.reverse = pre ++ it :: post)
    (hpre : (undoFold sc cfg t pre).2 = true)
    (hdirty : (undoItem sc cfg (undoFold sc cfg t pre).1 it).2 = .dirty) :
    undoBranch sc cfg t b = (t, false) := by
  unfold undoBranch
  simp only [hitems, undoFold_dirty sc cfg t pre post it hpre hdirty]
  simp

end Seata.AT
