import SeataModel.Codec.Frame
import SeataModel.Lemmas.Codec
namespace Seata.Frame
open Seata Seata.Codec

theorem field_skip (a b : Bytes) (off w : Nat) (h : a.length ≤ off) :
    field (a ++ b) off w = field b (off - a.length) w := by
  unfold field
  rw [List.drop_append]; simp [List.drop_eq_nil_of_le h]

theorem field_here (w n : Nat) (rest : Bytes) : field (putBE w n ++ rest) 0 w = n % 256 ^ w := by
  unfold field
  simp only [List.drop_zero]
  rw [List.take_append_of_le_length (by simp), List.take_of_length_le (by simp), valBE_putBE]

@[simp] theorem header_length (m : RpcMsg) : (header m).length = 16 := by
  simp [header]

theorem encodeHM_length_cons (k v : Bytes) (r : List (Bytes × Bytes)) :
    (encodeHM ((k, v) :: r)).length = 4 + k.length + v.length + (encodeHM r).length := by
  simp [encodeHM]; omega

theorem decodeHM_encodeHM (kvs : List (Bytes × Bytes)) (f : Nat) (hf : kvs.length ≤ f)
    (h : ∀ kv ∈ kvs, kv.1.length < 256 ^ 2 ∧ kv.2.length < 256 ^ 2) :
    decodeHM f (encodeHM kvs) = some kvs := by
  induction kvs generalizing f with
  | nil => cases f <;> simp [decodeHM, encodeHM]
  | cons kv r ih =>
    obtain ⟨k, v⟩ := kv
    cases f with
    | zero => simp at hf
    | succ f =>
      have hk := (h (k, v) (by simp)).1
      have hv := (h (k, v) (by simp)).2
      have hne : (encodeHM ((k, v) :: r)).isEmpty = false := by
        have := encodeHM_length_cons k v r
        cases hh : encodeHM ((k, v) :: r) with
        | nil => rw [hh] at this; simp at this; omega
        | cons _ _ => rfl
      unfold decodeHM
      rw [hne]
      simp only [Bool.false_eq_true, if_false]
      have e1 : encodeHM ((k, v) :: r) = putBE 2 k.length ++ k ++ (putBE 2 v.length ++ v ++ encodeHM r) := by
        simp [encodeHM, List.append_assoc]
      rw [e1, getStr_put 2 k _ hk]
      simp only
      rw [getStr_put 2 v _ hv]
      simp only
      rw [ih f (by simpa using hf) (fun kv hkv => h kv (by simp [hkv]))]
      rfl

end Seata.Frame

namespace Seata.Frame
open Seata Seata.Codec

theorem field_skip_put (w n : Nat) (b : Bytes) (off k : Nat) (h : w ≤ off) :
    field (putBE w n ++ b) off k = field b (off - w) k := by
  have := field_skip (putBE w n) b off k (by simpa using h)
  simpa using this

theorem field_skip3 (x y z : UInt8) (b : Bytes) (off k : Nat) (h : 3 ≤ off) :
    field (x :: y :: z :: b) off k = field b (off - 3) k := by
  have := field_skip [x, y, z] b off k (by simpa using h)
  simpa using this

/-- the six header fields read back from `header m ++ X` -/
theorem header_fields (m : RpcMsg) (X : Bytes) :
    field (header m ++ X) 3 4 = totalLen m % 256 ^ 4 ∧
    field (header m ++ X) 7 2 = headLen m % 256 ^ 2 ∧
    field (header m ++ X) 9 1 = m.type % 256 ^ 1 ∧
    field (header m ++ X) 10 1 = m.codec % 256 ^ 1 ∧
    field (header m ++ X) 11 1 = m.comp % 256 ^ 1 ∧
    field (header m ++ X) 12 4 = m.id % 256 ^ 4 := by
  simp only [header, List.append_assoc, List.cons_append, List.nil_append]
  refine ⟨?_, ?_, ?_, ?_, ?_, ?_⟩
  · rw [field_skip3 _ _ _ _ _ _ (by decide)]; exact field_here _ _ _
  · rw [field_skip3 _ _ _ _ _ _ (by decide), field_skip_put _ _ _ _ _ (by decide)]; exact field_here _ _ _
  · rw [field_skip3 _ _ _ _ _ _ (by decide), field_skip_put _ _ _ _ _ (by decide),
        field_skip_put _ _ _ _ _ (by decide)]; exact field_here _ _ _
  · rw [field_skip3 _ _ _ _ _ _ (by decide), field_skip_put _ _ _ _ _ (by decide),
        field_skip_put _ _ _ _ _ (by decide), field_skip_put _ _ _ _ _ (by decide)]; exact field_here _ _ _
  · rw [field_skip3 _ _ _ _ _ _ (by decide), field_skip_put _ _ _ _ _ (by decide),
        field_skip_put _ _ _ _ _ (by decide), field_skip_put _ _ _ _ _ (by decide),
        field_skip_put _ _ _ _ _ (by decide)]; exact field_here _ _ _
  · rw [field_skip3 _ _ _ _ _ _ (by decide), field_skip_put _ _ _ _ _ (by decide),
        field_skip_put _ _ _ _ _ (by decide), field_skip_put _ _ _ _ _ (by decide),
        field_skip_put _ _ _ _ _ (by decide), field_skip_put _ _ _ _ _ (by decide)]; exact field_here _ _ _

theorem magicOK_header (m : RpcMsg) (X : Bytes) : magicOK (header m ++ X) = true := by
  simp [header, magicOK]

theorem readFrame_whole (m : RpcMsg) (rest : Bytes) (hwf : WF m) :
    readFrame (writeFrame m ++ rest) = .frame m (totalLen m) := by
  obtain ⟨hid, hty, hco, hcm, hhd, hhl, htl⟩ := hwf
  have e : writeFrame m ++ rest = header m ++ (encodeHM m.head ++ (m.body ++ rest)) := by
    simp [writeFrame, List.append_assoc]
  obtain ⟨f1, f2, f3, f4, f5, f6⟩ := header_fields m (encodeHM m.head ++ (m.body ++ rest))
  unfold readFrame
  rw [e, magicOK_header]
  simp only [Bool.not_true, Bool.false_eq_true, if_false, f1, f2, f3, f4, f5, f6]
  rw [Nat.mod_eq_of_lt htl, Nat.mod_eq_of_lt hhl, Nat.mod_eq_of_lt hid,
      Nat.mod_eq_of_lt (by simpa using hty), Nat.mod_eq_of_lt (by simpa using hco),
      Nat.mod_eq_of_lt (by simpa using hcm)]
  have hlen : ¬ (header m ++ (encodeHM m.head ++ (m.body ++ rest))).length < 16 := by simp
  have h16 : ¬ (headLen m < 16) := by unfold headLen; omega
  have htot : ¬ (totalLen m < headLen m) := by unfold totalLen; omega
  have hlen2 : ¬ (header m ++ (encodeHM m.head ++ (m.body ++ rest))).length < totalLen m := by
    simp [totalLen, headLen]; omega
  simp only [hlen, if_false, h16, htot, hlen2, decide_false, Bool.or_self, Bool.false_eq_true]
  have hd16 : (header m ++ (encodeHM m.head ++ (m.body ++ rest))).drop 16 = encodeHM m.head ++ (m.body ++ rest) := by
    have := @List.drop_append_length _ (header m) (encodeHM m.head ++ (m.body ++ rest))
    rw [header_length] at this; exact this
  have hsub : headLen m - 16 = (encodeHM m.head).length := by unfold headLen; omega
  rw [hd16, hsub, List.take_append_of_le_length (Nat.le_refl _), List.take_length]
  rw [decodeHM_encodeHM m.head _ (by
        -- each entry takes ≥ 4 bytes, so the byte length bounds the entry count
        clear hd16 hsub hlen hlen2 h16 htot f1 f2 f3 f4 f5 f6 e
        induction m.head with
        | nil => simp
        | cons kv r ih => obtain ⟨k, v⟩ := kv; rw [encodeHM_length_cons]; simp; omega) hhd]
  simp only
  have hdh : (header m ++ (encodeHM m.head ++ (m.body ++ rest))).drop (headLen m) = m.body ++ rest := by
    have : headLen m = (header m ++ encodeHM m.head).length := by simp [headLen]
    rw [this, ← List.append_assoc (header m), List.drop_append_length]
  have hb : totalLen m - headLen m = m.body.length := by unfold totalLen; omega
  rw [hdh, hb, List.take_append_of_le_length (Nat.le_refl _), List.take_length]

end Seata.Frame

namespace Seata.Frame
open Seata Seata.Codec

theorem writeFrame_length (m : RpcMsg) : (writeFrame m).length = totalLen m := by
  simp [writeFrame, totalLen, headLen]; omega

theorem writeFrame_eq (m : RpcMsg) : writeFrame m = header m ++ (encodeHM m.head ++ m.body) := by
  simp [writeFrame, List.append_assoc]

/-- a strict prefix of a frame is answered "need more": nothing consumed, nothing fabricated -/
theorem readFrame_prefix (m : RpcMsg) (p s : Bytes) (hwf : WF m) (hps : p ++ s = writeFrame m) (hs : s ≠ []) :
    readFrame p = .needMore := by
  obtain ⟨hid, hty, hco, hcm, hhd, hhl, htl⟩ := hwf
  have hslen : 0 < s.length := List.length_pos_iff.mpr hs
  have hplen : p.length < totalLen m := by
    have := congrArg List.length hps
    rw [writeFrame_length] at this; simp at this; omega
  by_cases h16 : p.length < 16
  · -- inside the header: every byte so far matches the magic
    have hm : magicOK p = true := by
      rw [writeFrame_eq] at hps
      simp only [header, List.append_assoc, List.cons_append, List.nil_append] at hps
      match p, hps with
      | [], _ => rfl
      | [a], h => simp at h; simp [magicOK, h.1]
      | a :: b :: _, h => simp at h; simp [magicOK, h.1, h.2.1]
    unfold readFrame
    simp [hm, h16]
  · have h16' : 16 ≤ p.length := by omega
    -- p = header m ++ p.drop 16
    have hp : p = header m ++ p.drop 16 := by
      have h1 : (p ++ s).take 16 = p.take 16 := List.take_append_of_le_length h16'
      have h2 : (writeFrame m).take 16 = header m := by
        rw [writeFrame_eq, List.take_append_of_le_length (by simp), List.take_of_length_le (by simp)]
      rw [hps, h2] at h1
      conv => lhs; rw [← List.take_append_drop 16 p]
      rw [← h1]
    obtain ⟨f1, f2, _, _, _, _⟩ := header_fields m (p.drop 16)
    rw [← hp] at f1 f2
    unfold readFrame
    have hm : magicOK p = true := by rw [hp]; exact magicOK_header _ _
    rw [hm]
    simp only [Bool.not_true, Bool.false_eq_true, if_false, f1, f2, h16]
    rw [Nat.mod_eq_of_lt htl, Nat.mod_eq_of_lt hhl]
    have a1 : ¬ (headLen m < 16) := by unfold headLen; omega
    have a2 : ¬ (totalLen m < headLen m) := by unfold totalLen; omega
    simp [a1, a2, hplen]

/-- the empty buffer and strict prefixes are "quiet" for the loop -/
theorem drain_quiet (fuel : Nat) (m : RpcMsg) (p s : Bytes) (hwf : WF m) (hps : p ++ s = writeFrame m)
    (hs : s ≠ []) : drain fuel p = ([], p, false) := by
  cases fuel with
  | zero => rfl
  | succ f =>
    unfold drain
    by_cases he : p.isEmpty
    · simp [he]
    · simp only [he, Bool.false_eq_true, if_false]
      rw [readFrame_prefix m p s hwf hps hs]

theorem drain_nil (fuel : Nat) : drain fuel [] = ([], [], false) := by
  cases fuel <;> simp [drain]

theorem totalLen_pos (m : RpcMsg) : 16 ≤ totalLen m := by unfold totalLen headLen; omega

/-- complete frames followed by a quiet tail are all delivered, in order, and the tail is kept -/
theorem drain_frames (ms : List RpcMsg) (tail : Bytes) (fuel : Nat) (hf : ms.length < fuel)
    (hwf : ∀ m ∈ ms, WF m)
    (htail : ∀ f, drain f tail = ([], tail, false)) :
    drain fuel ((ms.map writeFrame).flatten ++ tail) = (ms, tail, false) := by
  induction ms generalizing fuel with
  | nil => simpa using htail fuel
  | cons m r ih =>
    cases fuel with
    | zero => simp at hf
    | succ f =>
      have hw := hwf m (by simp)
      have e : ((m :: r).map writeFrame).flatten ++ tail
          = writeFrame m ++ ((r.map writeFrame).flatten ++ tail) := by simp [List.append_assoc]
      unfold drain
      have hne : (((m :: r).map writeFrame).flatten ++ tail).isEmpty = false := by
        rw [e]
        have h1 := writeFrame_length m
        have h2 := totalLen_pos m
        cases hh : writeFrame m ++ ((r.map writeFrame).flatten ++ tail) with
        | nil =>
          have h3 := congrArg List.length hh
          rw [List.length_append, h1] at h3
          simp only [List.length_nil] at h3
          omega
        | cons _ _ => rfl
      rw [hne]
      simp only [Bool.false_eq_true, if_false]
      rw [e, readFrame_whole m _ hw]
      simp only
      have hd : (writeFrame m ++ ((r.map writeFrame).flatten ++ tail)).drop (totalLen m)
          = (r.map writeFrame).flatten ++ tail := by
        rw [← writeFrame_length m, List.drop_append_length]
      rw [hd, ih f (by simpa using hf) (fun x hx => hwf x (by simp [hx]))]

end Seata.Frame

namespace Seata.Frame
open Seata Seata.Codec

def frames (ms : List RpcMsg) : Bytes := (ms.map writeFrame).flatten

/-- a buffer on which the receive loop delivers nothing and waits -/
def Quiet (p : Bytes) : Prop := ∀ f, drain f p = ([], p, false)

theorem quiet_nil : Quiet [] := fun f => drain_nil f

theorem frames_cons (m : RpcMsg) (r : List RpcMsg) : frames (m :: r) = writeFrame m ++ frames r := by
  simp [frames]

theorem frames_append (a b : List RpcMsg) : frames (a ++ b) = frames a ++ frames b := by
  simp [frames]

theorem frames_length_ge (ms : List RpcMsg) : ms.length ≤ (frames ms).length := by
  induction ms with
  | nil => simp [frames]
  | cons m r ih =>
    rw [frames_cons, List.length_append, writeFrame_length]
    have := totalLen_pos m
    simp; omega

/-- any prefix of a frame stream is some complete frames followed by a quiet remainder -/
theorem split_prefix (rem : List RpcMsg) (hwf : ∀ m ∈ rem, WF m) (Q S : Bytes)
    (h : Q ++ S = frames rem) :
    ∃ done rest p, rem = done ++ rest ∧ Q = frames done ++ p ∧ Quiet p ∧ p ++ S = frames rest := by
  induction rem generalizing Q with
  | nil =>
    have : Q = [] := by
      have := congrArg List.length h; simp [frames] at this; exact this.1
    subst this
    exact ⟨[], [], [], rfl, by simp [frames], quiet_nil, by simpa [frames] using h⟩
  | cons m r ih =>
    rw [frames_cons] at h
    have hw := hwf m (by simp)
    rcases List.append_eq_append_iff.mp h with ⟨a', hW, hS⟩ | ⟨c', hQ, hF⟩
    · -- Q is a prefix of the first frame
      by_cases ha : a' = []
      · -- Q is exactly the first frame
        subst ha
        simp at hW hS
        obtain ⟨done, rest, p, h1, h2, h3, h4⟩ := ih (fun x hx => hwf x (by simp [hx])) [] (by simpa using hS)
        refine ⟨m :: done, rest, p, by simp [h1], ?_, h3, h4⟩
        rw [frames_cons, ← hW]
        simp at h2
        simp [h2]
      · refine ⟨[], m :: r, Q, rfl, by simp [frames], ?_, ?_⟩
        · intro f; exact drain_quiet f m Q a' hw hW.symm ha
        · rw [frames_cons]; exact h
    · obtain ⟨done, rest, p, h1, h2, h3, h4⟩ := ih (fun x hx => hwf x (by simp [hx])) c' hF.symm
      refine ⟨m :: done, rest, p, by simp [h1], ?_, h3, h4⟩
      rw [frames_cons, hQ, h2, List.append_assoc]

theorem feed_invariant (chunks : List Bytes) (d : List RpcMsg) (b : Bytes) (rem : List RpcMsg)
    (hwf : ∀ m ∈ rem, WF m) (hq : Quiet b) (h : b ++ chunks.flatten = frames rem) :
    chunks.foldl recv { delivered := d, buf := b, closed := false }
      = { delivered := d ++ rem, buf := [], closed := false } := by
  induction chunks generalizing d b rem with
  | nil =>
    simp at h
    have h1 := drain_frames rem [] (rem.length + 1) (by omega) hwf (fun f => drain_nil f)
    have h2 := hq (rem.length + 1)
    rw [h] at h2
    simp only [frames, List.append_nil] at h1 h2
    rw [h1] at h2
    have hr : rem = [] := by injection h2
    subst hr
    simp [frames] at h
    simp [h]
  | cons c cs ih =>
    simp only [List.foldl_cons]
    have h' : (b ++ c) ++ cs.flatten = frames rem := by simpa [List.append_assoc] using h
    obtain ⟨done, rest, p, h1, h2, h3, h4⟩ := split_prefix rem hwf (b ++ c) cs.flatten h'
    have hstep : recv { delivered := d, buf := b, closed := false } c
        = { delivered := d ++ done, buf := p, closed := false } := by
      unfold recv
      simp only [Bool.false_eq_true, if_false]
      rw [h2]
      have hfuel : done.length < (frames done ++ p).length + 1 := by
        have := frames_length_ge done
        simp; omega
      have := drain_frames done p ((frames done ++ p).length + 1) hfuel
        (fun x hx => hwf x (by simp [h1, hx])) h3
      simp only [frames] at this ⊢
      rw [this]
    rw [hstep, ih (d ++ done) p rest (fun x hx => hwf x (by simp [h1, hx])) h3 h4, h1]
    simp

end Seata.Frame

namespace Seata.Frame
open Seata Seata.Codec

theorem recv_step (d : List RpcMsg) (b c : Bytes) (done : List RpcMsg) (p : Bytes)
    (hwf : ∀ m ∈ done, WF m) (hq : Quiet p) (h : b ++ c = frames done ++ p) :
    recv { delivered := d, buf := b, closed := false } c
      = { delivered := d ++ done, buf := p, closed := false } := by
  unfold recv
  simp only [Bool.false_eq_true, if_false]
  rw [h]
  have hfuel : done.length < (frames done ++ p).length + 1 := by
    have := frames_length_ge done
    simp; omega
  have := drain_frames done p ((frames done ++ p).length + 1) hfuel hwf hq
  simp only [frames] at this ⊢
  rw [this]

/-- General invariant of the receive loop on a (possibly truncated) frame stream. -/
theorem feed_general (chunks : List Bytes) (S : Bytes) (d : List RpcMsg) (b : Bytes) (rem : List RpcMsg)
    (hwf : ∀ m ∈ rem, WF m) (hq : Quiet b) (h : b ++ chunks.flatten ++ S = frames rem) :
    ∃ done rest p, rem = done ++ rest ∧ Quiet p ∧ p ++ S = frames rest ∧
      chunks.foldl recv { delivered := d, buf := b, closed := false }
        = { delivered := d ++ done, buf := p, closed := false } := by
  induction chunks generalizing d b rem with
  | nil => exact ⟨[], rem, b, rfl, hq, by simpa using h, by simp⟩
  | cons c cs ih =>
    have h' : (b ++ c) ++ (cs.flatten ++ S) = frames rem := by simpa [List.append_assoc] using h
    obtain ⟨done1, rest1, p1, g1, g2, g3, g4⟩ := split_prefix rem hwf (b ++ c) (cs.flatten ++ S) h'
    have hstep := recv_step d b c done1 p1 (fun x hx => hwf x (by simp [g1, hx])) g3 g2
    obtain ⟨done2, rest2, p2, k1, k2, k3, k4⟩ :=
      ih (d ++ done1) p1 rest1 (fun x hx => hwf x (by simp [g1, hx])) g3 (by simpa [List.append_assoc] using g4)
    refine ⟨done1 ++ done2, rest2, p2, by simp [g1, k1], k2, k3, ?_⟩
    simp only [List.foldl_cons]
    rw [hstep, k4]
    simp

/-- a quiet buffer that is a whole frame stream is empty -/
theorem quiet_frames_nil (p : Bytes) (rest : List RpcMsg) (hwf : ∀ m ∈ rest, WF m) (hq : Quiet p)
    (h : p = frames rest) : rest = [] ∧ p = [] := by
  have h1 := drain_frames rest [] (rest.length + 1) (by omega) hwf (fun f => drain_nil f)
  have h2 := hq (rest.length + 1)
  rw [h] at h2
  simp only [frames, List.append_nil] at h1 h2
  rw [h1] at h2
  have hr : rest = [] := by injection h2
  subst hr
  exact ⟨rfl, by simp [h, frames]⟩

end Seata.Frame
