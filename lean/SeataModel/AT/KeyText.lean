/-
  The text of the lock keys a branch registration carries (`TABLE:k1_k2,k1_k2;`), at the level of the
  characters: pkg/datasource/sql/exec/at/base_executor.go buildLockKey writes the table name, a colon, and for
  every row the values of the key columns (in key order, printed with %v) joined by '_', rows joined by ','.
  The coordinator splits that text at ',' and '_' again.  The model works on the texts of the key parts (how a
  value is printed is the harness's business); what it proves is that splitting gives back exactly the parts
  that were joined — the same row always has the same text and different rows have different texts — PROVIDED no
  part contains a separator, and that this proviso is needed (the open finding C03-lock-key-separators-not-escaped).
-/
namespace Seata.AT.KeyText

/-- join the parts with a separator character between them -/
def joinWith (sep : Char) : List (List Char) → List Char
  | [] => []
  | [p] => p
  | p :: q :: rest => p ++ sep :: joinWith sep (q :: rest)

/-- split at every occurrence of the separator (always yields at least one part) -/
def splitOn (sep : Char) : List Char → List (List Char)
  | [] => [[]]
  | c :: rest =>
    if c = sep then [] :: splitOn sep rest
    else match splitOn sep rest with
      | [] => [[c]]            -- unreachable: splitOn never yields []
      | p :: ps => (c :: p) :: ps

/-- the text of one key: its parts joined by '_' -/
def keyText (parts : List (List Char)) : List Char := joinWith '_' parts

/-- the text of the keys of one table in one registration: keys joined by ',' -/
def keysText (keys : List (List (List Char))) : List Char := joinWith ',' (keys.map keyText)

/-- the registration text for one table -/
def lockKeyText (table : List Char) (keys : List (List (List Char))) : List Char :=
  table ++ ':' :: keysText keys

/-- reading the keys back, as the coordinator does -/
def parseKeys (txt : List Char) : List (List (List Char)) :=
  (splitOn ',' txt).map (splitOn '_')

/-- a key part free of the separators of the syntax -/
def Clean (p : List Char) : Prop := '_' ∉ p ∧ ',' ∉ p ∧ ';' ∉ p

end Seata.AT.KeyText
