/-
  Global locks: the coordinator's lock table as the client relies on it, and SELECT ... FOR UPDATE.
  Models pkg/datasource/sql/tx.go register (lock keys sent with BranchRegister), exec/at/
  select_for_update_executor.go (savepoint / local lock / GlobalLockQuery / release on conflict) and
  the coordinator's grant rule (a key is granted to a global transaction unless another one holds it).
-/
import SeataModel.AT.Phase1
namespace Seata.AT.Locks
open Seata Seata.DB Seata.AT

abbrev Xid := Nat

/-- the coordinator's lock table: key ↦ holder -/
abbrev LockTable := List (Key × Xid)

def holder (lt : LockTable) (k : Key) : Option Xid := (lt.find? fun p => p.1 == k).map (·.2)

/-- can global transaction `x` lock all of `keys`? -/
def lockable (lt : LockTable) (x : Xid) (keys : List Key) : Bool :=
  keys.all fun k => match holder lt k with
    | none => true
    | some y => y == x

def acquire (lt : LockTable) (x : Xid) (keys : List Key) : LockTable :=
  keys.foldl (fun acc k => if (holder acc k).isSome then acc else acc ++ [(k, x)]) lt

def release (lt : LockTable) (x : Xid) : LockTable := lt.filter fun p => p.2 != x

/-- events of a history of several global transactions on one table -/
inductive Ev
  | local_ (x : Xid) (ltx : LocalTx)        -- a local transaction of `x` (phase one)
  | finish (x : Xid)                        -- `x` committed or rolled back globally: its locks go
  deriving Repr

structure St where
  t : Table
  locks : LockTable := []
  wrote : List (Xid × Key) := []            -- keys written by still-active global transactions
  deriving Repr

/-- phase one of a local transaction under the lock table: it commits locally only when the
    registration (carrying the lock keys of everything it wrote) is granted -/
def step (sc : Schema) (cfg : Cfg) (s : St) : Ev → St × Bool
  | .local_ x ltx =>
    match localPhase1 sc cfg s.t ltx with
    | .error _ => (s, false)
    | .ok (t', b) =>
      if lockable s.locks x b.lockKeys then
        ({ t := t', locks := acquire s.locks x b.lockKeys, wrote := s.wrote ++ b.lockKeys.map fun k => (x, k) }, true)
      else (s, false)                        -- refused: nothing committed (C02)
  | .finish x => ({ s with locks := release s.locks x, wrote := s.wrote.filter fun p => p.1 != x }, true)

def run (sc : Schema) (cfg : Cfg) (s : St) : List Ev → St × List Bool
  | [] => (s, [])
  | e :: rest =>
    let r := step sc cfg s e
    let r2 := run sc cfg r.1 rest
    (r2.1, r.2 :: r2.2)

/-! ### SELECT ... FOR UPDATE inside a global transaction -/

inductive Reply | lockable | conflict | failed
  deriving Repr, DecidableEq

structure SfuOutcome where
  rowsReturned : Bool      -- the caller gets the rows
  error : Bool
  queried : Bool           -- a GlobalLockQuery was sent
  localLocksKept : Bool    -- the local row locks taken by the statement are still held afterwards
  deriving Repr, DecidableEq

/-- `explicit`: inside a caller-managed local transaction (savepoint path); otherwise the statement
    runs in its own local transaction.  `matched`: number of rows selected.
    On InnoDB `ROLLBACK TO SAVEPOINT` does not release row locks taken after the savepoint. -/
def selectForUpdate (explicit : Bool) (matched : Nat) (r : Reply) : SfuOutcome :=
  match r with
  | .lockable => { rowsReturned := true, error := false, queried := true, localLocksKept := explicit && matched > 0 }
  | _ => { rowsReturned := false, error := true, queried := true, localLocksKept := explicit && matched > 0 }

end Seata.AT.Locks
