/-
  A locking read with a wait option through the AT proxy: TWO queries reach the database, the executor's key query
  (whose rows are named to the coordinator) and the statement itself (whose rows the application gets).  Between
  the two, other local transactions may let go of rows.  Models select_for_update_executor.go (buildSelectPKSQL,
  doExecContext) at HEAD, and the alternative a seeded change proposed (the key query inherits SKIP LOCKED).
  Rows are numbered; `held1` / `held2` say which rows another local transaction holds when the key query and when
  the statement runs.
-/
namespace Seata.AT.SfuGap

inductive Mode | plain | nowait | skipLocked
  deriving Repr, DecidableEq

/-- what a locking read does with the rows that match, under the lock state `held` (rows it holds itself do not
    stand in its way): the rows it returns, `none` when it fails at once, and whether it had to wait -/
structure Outcome where
  rows : Option (List Nat)
  waited : Bool
  deriving Repr, DecidableEq

def lockingRead (m : Mode) (matching : List Nat) (held : Nat → Bool) (mine : List Nat) : Outcome :=
  let blocked := matching.filter (fun r => held r && !mine.contains r)
  match m with
  | .plain => { rows := some matching, waited := !blocked.isEmpty }      -- waits until the holder lets go
  | .nowait => if blocked.isEmpty then { rows := some matching, waited := false } else { rows := none, waited := false }
  | .skipLocked => { rows := some (matching.filter (fun r => !(held r && !mine.contains r))), waited := false }

/-- the mode of the key query, as coded: NOWAIT is inherited, SKIP LOCKED is not -/
def keyMode : Mode → Mode
  | .nowait => .nowait
  | _ => .plain

/-- the alternative: the key query inherits every wait option -/
def keyModeInherit : Mode → Mode := id

/-- the two queries: the rows named to the coordinator, the rows returned to the application, and whether the
    proxy waited where the statement alone would not have -/
structure Result where
  named : List Nat
  returned : Option (List Nat)
  extraWait : Bool
  deriving Repr, DecidableEq

def through (km : Mode → Mode) (m : Mode) (matching : List Nat) (held1 held2 : Nat → Bool) : Result :=
  match (lockingRead (km m) matching held1 []).rows with
  | none => { named := [], returned := none, extraWait := false }
  | some k =>
    let key := lockingRead (km m) matching held1 []
    let stmt := lockingRead m matching held2 k          -- the rows of the key query are ours by now
    { named := k, returned := stmt.rows, extraWait := key.waited && !(lockingRead m matching held1 []).waited }

end Seata.AT.SfuGap
