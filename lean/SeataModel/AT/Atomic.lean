/-
  AT phase one as a trace of database statements on the business connection and of coordinator
  messages, with one fault.  Models pkg/datasource/sql/tx_at.go (commitOnAT: register → flush undo
  log → local commit → report), conn_at.go (createNewTxOnExecIfNeed), tx.go (register, report with
  its 5 attempts), rm_remoting.go.  The database side is a small connection state machine (`Db`)
  that says what is durable and whether the connection is inside a transaction after a trace.
-/
namespace Seata.AT.Atomic

/-- events of one local transaction inside a global transaction -/
inductive Ev
  | begin            -- BEGIN on the business connection
  | sel              -- image query (before / after)
  | biz              -- the business statement
  | register         -- BranchRegister answered with a branch id
  | undo             -- INSERT into undo_log (same connection, same local transaction)
  | commit           -- COMMIT
  | rollback         -- ROLLBACK
  | report (ok : Bool) (delivered : Bool)   -- BranchReport(PhaseoneDone / PhaseoneFailed), delivered or lost
  | failed (e : Ev)  -- the statement / request that failed
  deriving Repr, DecidableEq

inductive Fault
  | none
  | db (k : Nat)            -- the k-th database statement of the transaction fails (1-based, BEGIN is 1)
  | regRefused              -- the coordinator refuses the registration (lock conflict)
  | regTransport            -- the registration request gets a transport error
  deriving Repr, DecidableEq

def isDb : Ev → Bool
  | .begin | .sel | .biz | .undo | .commit | .rollback => true
  | _ => false

def isReport : Ev → Bool
  | .report _ _ => true
  | _ => false

/-- report attempts: `lost` attempts get a transport error first (at most 5 attempts in all) -/
def reports (ok : Bool) (lost : Nat) : List Ev :=
  if lost ≥ 5 then List.replicate 5 (.report ok false)
  else List.replicate lost (.report ok false) ++ [.report ok true]

/-- does the fault hit event `e`, the database statement counter being `n` before it -/
def hits (f : Fault) (n : Nat) (e : Ev) : Bool :=
  match e with
  | .register => f == .regRefused || f == .regTransport
  | e => isDb e && f == .db (n + 1)

/-- walk the clean trace until the fault; returns the events so far, whether a branch is registered,
    and whether the fault was reached -/
def cut : List Ev → Fault → Nat → Bool → List Ev × Bool × Bool
  | [], _, _, reg => ([], reg, false)
  | e :: rest, f, n, reg =>
    if isReport e then ([], reg, false)                    -- the clean tail (report) is rebuilt by `run`
    else if hits f n e then ([.failed e], reg, true)
    else
      let r := cut rest f (if isDb e then n + 1 else n) (reg || e == .register)
      (e :: r.1, r.2.1, r.2.2)

structure Outcome where
  trace : List Ev
  error : Bool          -- the caller gets an error
  deriving Repr, DecidableEq

/-- the run with a fault, predicted from the fault-free trace `clean` (which ends with COMMIT);
    `lost` report attempts are lost -/
def run (clean : List Ev) (f : Fault) (lost : Nat) : Outcome :=
  let c := cut clean f 0 false
  if !c.2.2 then
    { trace := c.1 ++ (if c.2.1 then reports true lost else []), error := false }
  else
    let beginFailed := c.1 == [.failed .begin]
    let tail := (if beginFailed then [] else [.rollback]) ++ (if c.2.1 then reports false lost else [])
    { trace := c.1 ++ tail, error := true }

/-! ### the database connection -/

structure Db where
  inTx : Bool := false
  pendBiz : Nat := 0
  pendUndo : Nat := 0
  durBiz : Nat := 0        -- business statements whose effect is durable
  durUndo : Nat := 0       -- undo_log rows that are durable
  deriving Repr, DecidableEq

def Db.step (d : Db) : Ev → Db
  | .begin => { d with inTx := true }
  | .biz => if d.inTx then { d with pendBiz := d.pendBiz + 1 } else { d with durBiz := d.durBiz + 1 }
  | .undo => if d.inTx then { d with pendUndo := d.pendUndo + 1 } else { d with durUndo := d.durUndo + 1 }
  | .commit => { inTx := false, pendBiz := 0, pendUndo := 0, durBiz := d.durBiz + d.pendBiz, durUndo := d.durUndo + d.pendUndo }
  | .rollback => { d with inTx := false, pendBiz := 0, pendUndo := 0 }
  | _ => d

def execFrom (d : Db) (t : List Ev) : Db := t.foldl Db.step d
def exec (t : List Ev) : Db := execFrom {} t

/-! ### well-formed fault-free traces -/

def bodyEv : Ev → Bool
  | .sel | .biz => true
  | _ => false

/-- the fault-free trace of a local transaction that changes rows:
    BEGIN, image queries and business statements (at least one), registration, the undo-log insert, COMMIT -/
def WF (clean : List Ev) : Prop :=
  ∃ body, (∀ e ∈ body, bodyEv e = true) ∧ Ev.biz ∈ body ∧ clean = .begin :: body ++ [.register, .undo, .commit]

def wfb (clean : List Ev) : Bool :=
  match clean with
  | .begin :: rest =>
    let body := rest.take (rest.length - 3)
    rest.drop (rest.length - 3) == [.register, .undo, .commit] && body.all bodyEv && body.contains .biz
  | _ => false

theorem wfb_sound {clean : List Ev} (h : wfb clean = true) : WF clean := by
  unfold wfb at h
  split at h
  · rename_i rest
    simp only [Bool.and_eq_true, beq_iff_eq, List.all_eq_true, List.contains_iff_mem] at h
    refine ⟨rest.take (rest.length - 3), h.1.2, h.2, ?_⟩
    rw [← h.1.1, List.cons_append, List.take_append_drop]
  · cases h

end Seata.AT.Atomic
