/-
  Phase two of AT mode at the level of branches: which branches have an undo-log row, which have a
  "global finished" marker, and what a branch-rollback delivery does.  Models
  pkg/datasource/sql/undo/base/undo.go Undo (select undo log FOR UPDATE → replay items in reverse →
  delete undo log → commit; no undo log → insert the marker row) and
  pkg/datasource/sql/at_resource_manager.go BranchRollback (status mapping).
-/
import SeataModel.AT.Phase1
namespace Seata.AT
open Seata Seata.DB

structure BranchSt where
  b : Branch
  hasLog : Bool          -- an undo_log row exists (status normal)
  marker : Bool := false -- a GlobalFinished marker row exists
  deriving Repr, DecidableEq

structure World where
  t : Table
  branches : List BranchSt := []
  deriving Repr, DecidableEq

/-- one delivery of BranchRollback for branch `i`; `true` = answered PhaseTwo_Rollbacked -/
def rollbackBranch (sc : Schema) (cfg : Cfg) (w : World) (i : Nat) : World × Bool :=
  match w.branches[i]? with
  | none => (w, false)
  | some bs =>
    if !bs.hasLog then
      -- no undo log: a marker is inserted (or is already there: the insert hits the unique key, which
      -- is accepted)
      ({ w with branches := w.branches.set i { bs with marker := true } }, true)
    else
      let r := undoBranch sc cfg w.t bs.b
      if r.2 then ({ t := r.1, branches := w.branches.set i { bs with hasLog := false } }, true)
      else (w, false)

/-- a delivery during which a database statement fails: the undo transaction is rolled back as a
    whole, nothing changes, the branch is not answered rollbacked -/
def rollbackBranchFaulted (w : World) : World × Bool := (w, false)

/-- a local transaction whose branch is rolled back by the coordinator BETWEEN its registration and
    its undo-log flush: the rollback finds no undo log and leaves the marker; the late flush of a
    non-empty undo log then hits the marker's unique key and the local transaction commits nothing.
    `true` = the late local commit went through (only possible when there was nothing to flush) -/
def earlyRollbackThenCommit (sc : Schema) (cfg : Cfg) (w : World) (ltx : LocalTx) : Option (World × Bool) :=
  match localPhase1 sc cfg w.t ltx with
  | .error _ => none
  | .ok (_, b) =>
    some ({ w with branches := w.branches ++ [{ b := { items := [], lockKeys := b.lockKeys }, hasLog := false, marker := true }] },
          b.items.isEmpty)

/-- global rollback: every branch, last registered first -/
def rollbackAll (sc : Schema) (cfg : Cfg) (w : World) : World × Bool :=
  (List.range w.branches.length).reverse.foldl
    (fun acc i => let r := rollbackBranch sc cfg acc.1 i; (r.1, acc.2 && r.2)) (w, true)

/-- phase one of a local transaction in the world -/
def runLocalTx (sc : Schema) (cfg : Cfg) (w : World) (ltx : LocalTx) : Option World :=
  match localPhase1 sc cfg w.t ltx with
  | .error _ => none
  | .ok (t', b) =>
    if ltx.isEmpty then some { w with t := t' }
    else some { t := t', branches := w.branches ++ [{ b := b, hasLog := !b.items.isEmpty }] }

/-- phase one of a local transaction that ignores failed statements and commits; a branch is
    registered when at least one statement went through -/
def runLocalTxLenient (sc : Schema) (cfg : Cfg) (w : World) (ltx : LocalTx) : World :=
  let r := localPhase1Lenient sc cfg w.t ltx
  if r.2.2 == 0 then { w with t := r.1 }
  else { t := r.1, branches := w.branches ++ [{ b := r.2.1, hasLog := !r.2.1.items.isEmpty }] }

end Seata.AT
