/-
  Phase-two commit of AT branches: the asynchronous worker that deletes undo-log rows.
  Models pkg/datasource/sql/async_worker.go (BranchCommit → queue → batches grouped by resource →
  per-request delete; a request whose resource is unknown, whose connection cannot be acquired or
  whose DELETE fails goes back to the queue) and undo/base/undo.go BatchDeleteUndoLog.
-/
namespace Seata.AT.AsyncCommit

structure Req where
  res : Nat
  xid : Nat
  branch : Nat
  deriving Repr, DecidableEq

/-- an undo-log row lives in the database of one resource -/
abbrev Row := Req

structure St where
  queue : List Req := []
  rows : List Row
  accepted : List Req := []
  deriving Repr, DecidableEq

inductive Ev
  | accept (r : Req)       -- BranchCommit accepted (answered PhaseTwo_Committed)
  | proc (ok : Bool)       -- the worker takes the next queued request: the delete goes through, or a
                           -- transient failure (unknown resource, no connection, failed DELETE) re-queues it
  deriving Repr, DecidableEq

def step (s : St) : Ev → St
  | .accept r => { s with queue := s.queue ++ [r], accepted := s.accepted ++ [r] }
  | .proc ok =>
    match s.queue with
    | [] => s
    | r :: rest =>
      if ok then { s with queue := rest, rows := s.rows.filter fun row => row != r }
      else { s with queue := rest ++ [r] }

def run (s : St) (es : List Ev) : St := es.foldl step s

/-- the eventual outcome when every accepted request finally goes through -/
def settle (rows : List Row) (accepted : List Req) : List Row := rows.filter fun row => !accepted.contains row

end Seata.AT.AsyncCommit
