/-
  Phase-two commit of AT branches: the asynchronous worker that deletes undo-log rows.
  Models pkg/datasource/sql/async_worker.go (BranchCommit → queue → batches grouped by resource →
  per-request delete; a request whose resource is unknown, whose connection cannot be acquired or
  whose DELETE fails goes back to the queue) and undo/base/undo.go BatchDeleteUndoLog.
-/
namespace Seata.AT.AsyncCommit

structure Req where
  res : Nat
  xid : Nat
  branch : Nat
  deriving Repr, DecidableEq

/-- an undo-log row lives in the database of one resource -/
abbrev Row := Req

structure St where
  queue : List Req := []
  rows : List Row
  accepted : List Req := []
  deriving Repr, DecidableEq

inductive Ev
  | accept (r : Req)       -- BranchCommit accepted (answered PhaseTwo_Committed)
  | proc (ok : Bool)       -- the worker takes the next queued request: the delete goes through, or a
                           -- transient failure (unknown resource, no connection, failed DELETE) re-queues it
  | batch (noConn : List Nat) (failed : List Req)
                           -- the worker takes the WHOLE queue as one batch, grouped by resource: a resource in
                           -- `noConn` gives no connection (its requests go back), a request in `failed` fails its
                           -- DELETE (goes back), everything else is deleted — whatever happens to the other groups
  deriving Repr, DecidableEq

def step (s : St) : Ev → St
  | .accept r => { s with queue := s.queue ++ [r], accepted := s.accepted ++ [r] }
  | .proc ok =>
    match s.queue with
    | [] => s
    | r :: rest =>
      if ok then { s with queue := rest, rows := s.rows.filter fun row => row != r }
      else { s with queue := rest ++ [r] }
  | .batch noConn failed =>
    let back := s.queue.filter fun r => noConn.contains r.res || failed.contains r
    let done := s.queue.filter fun r => !(noConn.contains r.res || failed.contains r)
    { s with queue := back, rows := s.rows.filter fun row => !done.contains row }

/-- the batch before the repair (finding C11-outage-of-one-resource-loses-the-others): the groups are visited in
    the order a map gives them out; the first resource without a connection has its requests put back, and the
    panic that follows ends the batch — the groups not visited yet are neither processed nor put back -/
def batchBeforeFix (s : St) (order : List Nat) (noConn : List Nat) : St :=
  let visited := order.takeWhile fun res => !noConn.contains res
  let done := s.queue.filter fun r => visited.contains r.res
  match (order.dropWhile fun res => !noConn.contains res).head? with
  | none => { s with queue := [], rows := s.rows.filter fun row => !done.contains row }
  | some bad => { s with queue := s.queue.filter (fun r => r.res == bad), rows := s.rows.filter fun row => !done.contains row }

def run (s : St) (es : List Ev) : St := es.foldl step s

/-- the eventual outcome when every accepted request finally goes through -/
def settle (rows : List Row) (accepted : List Req) : List Row := rows.filter fun row => !accepted.contains row

end Seata.AT.AsyncCommit
