/-
  An AT connection the application keeps (db.Conn) or that comes out of the pool: the flag that decides whether
  the next statement opens a branch transaction of its own (`autoCommit`), whether a local transaction is open on
  the database, and whether that local transaction was begun under a global transaction. For every statement that
  reaches the database: does it belong to a global transaction, is it inside a local transaction, is it recorded
  (images, lock keys, undo log)?
  Models conn_at.go (BeginTx, execWith → statementContext, createNewTxOnExecIfNeed) and tx_at.go at HEAD; the
  behaviour before the repairs 1fc86ee and 5d1c0ee is kept beside it.
-/
namespace Seata.AT.Conn

structure St where
  autoCommit : Bool := true
  open_ : Bool := false          -- a local transaction is open on the database
  underGlobal : Bool := false    -- … and it was begun with the context of a global transaction
  deriving Repr, DecidableEq

/-- what the application does on the connection; `g`: the context of the call carries a global transaction -/
inductive Op
  | stmt (g : Bool) (beginFails : Bool)   -- conn.ExecContext / tx.ExecContext (beginFails: the driver refuses the
                                          -- BEGIN of the branch transaction an auto-commit statement opens)
  | begin (g : Bool) (fails : Bool)       -- conn.BeginTx
  | end_                                  -- tx.Commit / tx.Rollback
  deriving Repr, DecidableEq

/-- one statement at the database -/
structure Seen where
  belongs : Bool     -- it belongs to a global transaction: its own context says so, or the local transaction it
                     -- runs in was begun under one
  inTx : Bool        -- inside BEGIN … COMMIT
  recorded : Bool    -- images and lock keys taken, undo log written with it
  deriving Repr, DecidableEq

def cstep (s : St) : Op → St × List Seen
  | .stmt g beginFails =>
    if s.autoCommit then
      if g then
        -- a branch transaction of its own; when it cannot be begun nothing runs and the flag is as it was
        if beginFails then (s, []) else (s, [⟨true, true, true⟩])
      else (s, [⟨false, false, false⟩])            -- a plain statement outside any global transaction
    else
      let belongs := g || s.underGlobal
      (s, [⟨belongs, s.open_, belongs⟩])
  | .begin g fails =>
    if !s.autoCommit then (s, [])
    else if fails then (s, [])
    else ({ autoCommit := false, open_ := true, underGlobal := g }, [])
  | .end_ => ({}, [])

/-- before the repairs: a BEGIN the driver refused left auto-commit cleared with no transaction open, and whether
    a statement was recorded depended on its own context alone -/
def cstepBeforeFix (s : St) : Op → St × List Seen
  | .stmt g beginFails =>
    if s.autoCommit then
      if g then
        if beginFails then ({ s with autoCommit := false }, []) else (s, [⟨true, true, true⟩])
      else (s, [⟨false, false, false⟩])
    else
      (s, [⟨g || s.underGlobal, s.open_, g⟩])
  | .begin g fails =>
    if !s.autoCommit then (s, [])
    else if fails then ({ s with autoCommit := false, underGlobal := g }, [])
    else ({ autoCommit := false, open_ := true, underGlobal := g }, [])
  | .end_ => ({}, [])

def crun (stepf : St → Op → St × List Seen) : St → List Op → St × List Seen
  | s, [] => (s, [])
  | s, op :: rest =>
    let r := stepf s op
    let r' := crun stepf r.1 rest
    (r'.1, r.2 ++ r'.2)

/-- out of auto-commit mode means a local transaction is open -/
def CInv (s : St) : Prop := s.autoCommit = false → s.open_ = true

end Seata.AT.Conn
