/-
  AT mode, phase one and phase two (undo).  Models
  pkg/datasource/sql/exec/at/{update,delete,insert}_executor.go + base_executor.go (images, lock keys),
  pkg/datasource/sql/tx_at.go / tx.go (register → flush undo log → local commit → report),
  pkg/datasource/sql/undo/base/undo.go (Undo) and undo/executor/* (compensating statements, data
  validation), at_resource_manager.go (BranchRollback status mapping).
-/
import SeataModel.DB.Store
namespace Seata.AT
open Seata Seata.DB

structure Cfg where
  validate : Bool      -- undo.data-validation
  onlyCare : Bool      -- undo.only-care-update-columns
  deriving Repr, DecidableEq

inductive Kind | insert | update | delete
  deriving Repr, DecidableEq

/-- an image row: the key and the tracked (column, value) pairs -/
structure IRow where
  key : Key
  cells : List (Nat × Val)
  deriving Repr, DecidableEq

/-- one SQLUndoLog: statement kind, before and after image -/
structure Item where
  kind : Kind
  before : List IRow
  after : List IRow
  deriving Repr, DecidableEq

def project (sc : Schema) (cols : List Nat) (r : Row) : IRow :=
  { key := keyOf sc r, cells := cols.map fun c => (c, r.getD c .null) }

def allCols (sc : Schema) : List Nat := List.range sc.ncols

/-- columns tracked for an UPDATE: all, or the updated columns followed by the key columns -/
def updateCols (sc : Schema) (cfg : Cfg) (sets : List (Nat × SetE)) : List Nat :=
  if cfg.onlyCare then sets.map (·.1) ++ sc.pk else allCols sc

inductive P1Err | sql (e : SqlErr) | pkChanged
  deriving Repr, DecidableEq

/-- phase one of an UPDATE that names no key column -/
def updatePhase1 (sc : Schema) (cfg : Cfg) (t : Table) (args : Args) (sets : List (Nat × SetE)) (w : Cond) :
    Except P1Err (Table × Item × List Key) :=
  let cols := updateCols sc cfg sets
  let hit := t.filter fun r => matches_ r args w
  match apply sc t args (.update sets w) with
  | .error e => .error (.sql e)
  | .ok (t', _) =>
    let keys := hit.map (keyOf sc)
    let after := t'.filter fun r => keys.contains (keyOf sc r)
    if hit.length != after.length then .error .pkChanged
    else .ok (t', { kind := .update, before := hit.map (project sc cols), after := after.map (project sc cols) }, keys)

/-- does the SET list name a key column? -/
def namesKey (sc : Schema) (sets : List (Nat × SetE)) : Bool := sets.any fun p => sc.pk.contains p.1

/-- phase one of ONE statement inside a local transaction: the new table, the undo item and the
    keys to lock -/
def stmtPhase1 (sc : Schema) (cfg : Cfg) (t : Table) (args : Args) (s : Stmt) :
    Except P1Err (Table × Item × List Key) :=
  match s with
  | .update sets w =>
    -- an UPDATE that names a key column is refused before it runs
    if namesKey sc sets then .error .pkChanged else updatePhase1 sc cfg t args sets w
  | .delete w =>
    let hit := t.filter fun r => matches_ r args w
    match apply sc t args s with
    | .error e => .error (.sql e)
    | .ok (t', _) => .ok (t', { kind := .delete, before := hit.map (project sc (allCols sc)), after := [] }, hit.map (keyOf sc))
  | .insert rows =>
    match apply sc t args s with
    | .error e => .error (.sql e)
    | .ok (t', _) =>
      let news := rows.map fun es => es.map (evalE [] args)
      .ok (t', { kind := .insert, before := [], after := news.map (project sc (allCols sc)) }, news.map (keyOf sc))
  | .failing _ => .error (.sql .other)
  | .updateLim sets w ord lim =>
    if namesKey sc sets then .error .pkChanged else
    let sel := limitedKeys sc t args w ord lim
    let cols := updateCols sc cfg sets
    let hit := t.filter fun r => sel.contains (keyOf sc r)
    match apply sc t args s with
    | .error e => .error (.sql e)
    | .ok (t', _) =>
      let after := t'.filter fun r => sel.contains (keyOf sc r)
      .ok (t', { kind := .update, before := hit.map (project sc cols), after := after.map (project sc cols) }, hit.map (keyOf sc))
  | .deleteLim w ord lim =>
    let sel := limitedKeys sc t args w ord lim
    let hit := t.filter fun r => sel.contains (keyOf sc r)
    match apply sc t args s with
    | .error e => .error (.sql e)
    | .ok (t', _) => .ok (t', { kind := .delete, before := hit.map (project sc (allCols sc)), after := [] }, hit.map (keyOf sc))
  | .upsert rows asg =>
    -- an ON DUPLICATE KEY UPDATE clause that names a key column is refused before the statement runs
    if asg.any (fun a => sc.pk.contains a.1) then .error .pkChanged else
    -- before / after image: the rows stored under the new rows' keys, before and after the statement.
    -- No key existed: an INSERT item.  Some existed: an UPDATE item for those (the rows that were
    -- inserted by the same statement get an INSERT item of their own, `extraItems`).
    let news := rows.map fun es => es.map (evalE [] args)
    let keys := news.map (keyOf sc)
    let hit := t.filter fun r => keys.contains (keyOf sc r)
    match apply sc t args s with
    | .error e => .error (.sql e)
    | .ok (t', _) =>
      let after := t'.filter fun r => keys.contains (keyOf sc r)
      let hitKeys := hit.map (keyOf sc)
      let item : Item :=
        if hit.isEmpty then { kind := .insert, before := [], after := after.map (project sc (allCols sc)) }
        else { kind := .update, before := hit.map (project sc (allCols sc)),
               after := (after.filter fun r => hitKeys.contains (keyOf sc r)).map (project sc (allCols sc)) }
      .ok (t', item, after.map (keyOf sc))

theorem stmtPhase1_update_ok {sc : Schema} {cfg : Cfg} {t : Table} {args : Args} {sets : List (Nat × SetE)} {w : Cond}
    {r : Table × Item × List Key} (h : stmtPhase1 sc cfg t args (.update sets w) = .ok r) :
    namesKey sc sets = false ∧ updatePhase1 sc cfg t args sets w = .ok r := by
  simp only [stmtPhase1] at h
  split at h
  · cases h
  · rename_i hn
    exact ⟨by simpa using hn, h⟩

theorem stmtPhase1_update_of_noKey {sc : Schema} {cfg : Cfg} {t : Table} {args : Args} {sets : List (Nat × SetE)} {w : Cond}
    (hn : namesKey sc sets = false) :
    stmtPhase1 sc cfg t args (.update sets w) = updatePhase1 sc cfg t args sets w := by
  simp [stmtPhase1, hn]

theorem namesKey_false_of {sc : Schema} {sets : List (Nat × SetE)} (hs : ∀ p ∈ sets, p.1 ∉ sc.pk) :
    namesKey sc sets = false := by
  simp only [namesKey, List.any_eq_false]
  intro p hp
  simpa using hs p hp

/-- undo items a statement records besides its main one: the rows an INSERT … ON DUPLICATE KEY UPDATE
    inserted while other rows of the same batch existed -/
def extraItems (sc : Schema) (t t' : Table) (args : Args) : Stmt → List Item
  | .upsert rows _ =>
    let keys := (rows.map fun es => es.map (evalE [] args)).map (keyOf sc)
    let hitKeys := (t.filter fun r => keys.contains (keyOf sc r)).map (keyOf sc)
    let inserted := t'.filter fun r => keys.contains (keyOf sc r) && !hitKeys.contains (keyOf sc r)
    if hitKeys.isEmpty || inserted.isEmpty then []
    else [{ kind := .insert, before := [], after := inserted.map (project sc (allCols sc)) }]
  | _ => []

/-- a local transaction (one branch): statements with their arguments -/
abbrev LocalTx := List (Stmt × Args)

structure Branch where
  items : List Item
  lockKeys : List Key
  deriving Repr, DecidableEq

def Item.nonEmpty (it : Item) : Bool := !(it.before.isEmpty && it.after.isEmpty)

/-- phase one of a whole local transaction; any failing statement aborts it (nothing committed).
    A statement that touched no row leaves no undo item (FlushUndoLog skips it). -/
def localPhase1 (sc : Schema) (cfg : Cfg) : Table → LocalTx → Except P1Err (Table × Branch)
  | t, [] => .ok (t, { items := [], lockKeys := [] })
  | t, (s, args) :: rest =>
    match stmtPhase1 sc cfg t args s with
    | .error e => .error e
    | .ok (t1, item, keys) =>
      match localPhase1 sc cfg t1 rest with
      | .error e => .error e
      | .ok (t2, b) =>
        .ok (t2, { items := (if item.nonEmpty then [item] else []) ++ extraItems sc t t1 args s ++ b.items,
                   lockKeys := keys ++ b.lockKeys })

/-- lock keys a statement leaves behind although it failed: an UPDATE / DELETE the database fails has
    already had its before image taken, and with it its lock keys (over-locking, never under-locking) -/
def failedKeys (sc : Schema) (t : Table) (args : Args) : Stmt → List Key
  | .failing (.update sets w) => if namesKey sc sets then [] else (t.filter fun r => matches_ r args w).map (keyOf sc)
  | .failing (.delete w) => (t.filter fun r => matches_ r args w).map (keyOf sc)
  | .failing (.updateLim sets w ord lim) => if namesKey sc sets then [] else limitedKeys sc t args w ord lim
  | .failing (.deleteLim w ord lim) => limitedKeys sc t args w ord lim
  | _ => []   -- a failing INSERT / upsert takes its keys from the after image, which it never reaches

/-- a local transaction whose application carries on after a failed statement (the database has
    rolled that statement back; the transaction stays open) and commits: the failed statements
    contribute no undo item -/
def localPhase1Lenient (sc : Schema) (cfg : Cfg) : Table → LocalTx → Table × Branch × Nat
  | t, [] => (t, { items := [], lockKeys := [] }, 0)
  | t, (s, args) :: rest =>
    match stmtPhase1 sc cfg t args s with
    | .error _ =>
      let r := localPhase1Lenient sc cfg t rest
      (r.1, { items := r.2.1.items, lockKeys := failedKeys sc t args s ++ r.2.1.lockKeys }, r.2.2)
    | .ok (t1, item, keys) =>
      let r := localPhase1Lenient sc cfg t1 rest
      (r.1, { items := (if item.nonEmpty then [item] else []) ++ extraItems sc t t1 args s ++ r.2.1.items,
              lockKeys := keys ++ r.2.1.lockKeys },
        r.2.2 + 1)

/-! Undo -/

def cellsEq (a b : List (Nat × Val)) : Bool := a.all fun p => (b.find? (fun q => q.1 == p.1)).map (·.2) == some p.2

/-- executor/utils.go compareRows: every old row has a new row with the same key whose tracked
    fields are equal (asymmetric; IsRecordsEquals adds the row-count check) -/
def recordsEq (old new : List IRow) : Bool :=
  old.length == new.length &&
  old.all fun o => match new.find? (fun n => n.key == o.key) with
    | some n => cellsEq o.cells n.cells
    | none => false

def setCells (r : Row) (cells : List (Nat × Val)) (pk : List Nat) : Row :=
  cells.foldl (fun acc p => if pk.contains p.1 then acc else acc.set p.1 p.2) r

inductive UndoRes | done | skipped | dirty | sqlError
  deriving Repr, DecidableEq

inductive Verdict | goOn | skip | dirty
  deriving Repr, DecidableEq

/-- the rows currently stored under the keys of `rows`, projected on the columns those rows track -/
def currentOf (sc : Schema) (t : Table) (rows : List IRow) : List IRow :=
  let cols := (rows.head?.map (·.cells.map (·.1))).getD []
  (t.filter fun r => (rows.map (·.key)).contains (keyOf sc r)).map (project sc cols)

/-- executor.go dataValidationAndGoOn: three-way comparison of before image, after image and the
    rows as they are now (`undoRows`: after image for INSERT/UPDATE, before image for DELETE) -/
def validate (sc : Schema) (cfg : Cfg) (t : Table) (it : Item) (undoRows : List IRow) : Verdict :=
  if !cfg.validate then .goOn
  else if recordsEq it.before it.after then .skip
  else
    let current := currentOf sc t undoRows
    if recordsEq it.after current then .goOn
    else if recordsEq it.before current then .skip
    else .dirty

/-- the compensating action of one undo item on the current table -/
def undoItem (sc : Schema) (cfg : Cfg) (t : Table) (it : Item) : Table × UndoRes :=
  match it.kind with
  | .update =>
    match validate sc cfg t it it.after with
    | .skip => (t, .skipped)
    | .dirty => (t, .dirty)
    | .goOn =>
      if it.before.isEmpty then (t, .sqlError)
      else (t.map fun r =>
        match it.before.find? (fun b => b.key == keyOf sc r) with
        | some b => setCells r b.cells sc.pk
        | none => r, .done)
  | .insert =>
    match validate sc cfg t it it.after with
    | .skip => (t, .skipped)
    | .dirty => (t, .dirty)
    | .goOn =>
      if it.after.isEmpty then (t, .sqlError)
      else (t.filter (fun r => !(it.after.map (·.key)).contains (keyOf sc r)), .done)
  | .delete =>
    match validate sc cfg t it it.before with
    | .skip => (t, .skipped)
    | .dirty => (t, .dirty)
    | .goOn =>
      if it.before.isEmpty then (t, .sqlError)
      else
        let rows : List Row := it.before.map fun b => (List.range sc.ncols).map fun c => ((b.cells.find? (·.1 == c)).map (·.2)).getD .null
        if rows.any fun r => (lookup sc t (keyOf sc r)).isSome then (t, .sqlError)
        else (t ++ rows, .done)

def undoStep (sc : Schema) (cfg : Cfg) (acc : Table × Bool) (it : Item) : Table × Bool :=
  if !acc.2 then acc
  else match undoItem sc cfg acc.1 it with
    | (t', .done) => (t', true)
    | (t', .skipped) => (t', true)
    | (_, _) => (acc.1, false)

def undoFold (sc : Schema) (cfg : Cfg) (t : Table) (items : List Item) : Table × Bool :=
  items.foldl (undoStep sc cfg) (t, true)

/-- Undo of a branch: its items in reverse order inside one local transaction; any failure rolls
    the transaction back (table unchanged) and the branch is NOT reported rollbacked -/
def undoBranch (sc : Schema) (cfg : Cfg) (t : Table) (b : Branch) : Table × Bool :=
  let r := undoFold sc cfg t b.items.reverse
  if r.2 then r else (t, false)

end Seata.AT
