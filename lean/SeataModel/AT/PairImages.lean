/-
  `pairByTable` (pkg/datasource/sql/exec/at/multi_executor.go): the multi-statement executor walks a map of
  tables twice, once for the before and once for the after images, and the two walks need not agree. Before the
  images are paired by position the after images are put into the order of the before images, table by table;
  lists it cannot pair (another length, a table twice, a table without partner) are left as they are.
  An image is modelled by the (lower-cased) name of its table and a payload.
-/
namespace Seata.AT.PairImages

abbrev Image (α : Type) := String × α

def pairByTable {α : Type} (before after : List (Image α)) : List (Image α) :=
  if before.length ≠ after.length then after
  else if ¬ (after.map Prod.fst).Nodup then after
  else match before.mapM (fun b => after.find? (fun a => a.1 == b.1)) with
    | some paired => paired
    | none => after

end Seata.AT.PairImages
