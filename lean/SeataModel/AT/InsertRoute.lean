/-
  Which executor records an INSERT-like statement inside a global transaction, or that it is refused before it
  runs.  Models at_executor.go (ExecWithNamedValue, case SQLTypeInsert), insert_executor.go
  (checkKeysGivenOrGenerated, insertGivesUniqueValues) and insert_on_update_executor.go (rowsWithUniqueValues,
  beforeImage) at HEAD.  A row is described by what it gives: a value of its own for the primary key (not NULL,
  DEFAULT, an expression, or 0 for an AUTO_INCREMENT column), and the values of some other unique index.
-/
namespace Seata.AT.InsertRoute

structure RowInfo where
  keyGiven : Bool
  otherUniqueGiven : Bool
  deriving Repr, DecidableEq

inductive Verb | insert | ignore | replace | onDuplicate
  deriving Repr, DecidableEq

inductive Route
  | plain      -- the plain insert executor: every row is new, its key is given or reported by the result
  | upsert     -- the insert-on-duplicate executor: rows are looked up by the unique values they give
  | refuse     -- not supported: refused before the statement runs
  deriving Repr, DecidableEq

/-- the image queries can find the row: it gives the values of some unique index -/
def identifiable (r : RowInfo) : Bool := r.keyGiven || r.otherUniqueGiven

def allB (p : RowInfo → Bool) (rows : List RowInfo) : Bool := rows.all p
def noneB (p : RowInfo → Bool) (rows : List RowInfo) : Bool := rows.all (fun r => !p r)

def route (v : Verb) (rows : List RowInfo) : Route :=
  match v with
  | .insert =>
    -- a plain INSERT: its keys all given, or all left to the database (the result reports the first of them)
    if allB (·.keyGiven) rows || noneB (·.keyGiven) rows then .plain else .refuse
  | .ignore | .replace =>
    if noneB identifiable rows then
      -- no row can meet a row that exists; as for a plain INSERT
      (if allB (·.keyGiven) rows || noneB (·.keyGiven) rows then .plain else .refuse)
    else if allB identifiable rows then .upsert else .refuse
  | .onDuplicate =>
    if allB identifiable rows && !rows.isEmpty then .upsert else .refuse

/-- before the repairs of the review rounds: INSERT IGNORE / REPLACE went by the primary key alone, a plain INSERT
    by its first row -/
def routeBeforeFix (v : Verb) (rows : List RowInfo) : Route :=
  match v with
  | .insert => .plain
  | .ignore | .replace => if allB (·.keyGiven) rows then .upsert else .plain
  | .onDuplicate => if rows.any identifiable then .upsert else .refuse

end Seata.AT.InsertRoute
