/-
  The plain driver: what a program of DML statements does to a table without any proxy — the
  reference the proxy drivers are compared with (C16).
-/
import SeataModel.AT.Phase1
namespace Seata.AT.Plain
open Seata Seata.DB Seata.AT

/-- a local transaction on the plain driver: statements in order, the first failure aborts it -/
def applyAll (sc : Schema) : Table → LocalTx → Except SqlErr Table
  | t, [] => .ok t
  | t, (s, args) :: rest =>
    match apply sc t args s with
    | .error e => .error e
    | .ok (t1, _) => applyAll sc t1 rest

inductive Step
  | exec (s : Stmt) (args : Args)
  | begin
  | commit
  | rollback
  deriving Repr

inductive Out
  | ok (affected : Nat)
  | err
  | done                 -- BEGIN / COMMIT / ROLLBACK
  deriving Repr, DecidableEq

structure PSt where
  t : Table                       -- what the connection sees
  saved : Option Table := none    -- the committed table while a transaction is open
  deriving Repr

/-- one step on the plain driver; a failing statement changes nothing (statement-level rollback) and
    leaves the transaction open -/
def pstep (sc : Schema) (st : PSt) : Step → PSt × Out
  | .exec s args =>
    match apply sc st.t args s with
    | .ok (t', n) => ({ st with t := t' }, .ok n)
    | .error _ => (st, .err)
  | .begin => (match st.saved with | none => { st with saved := some st.t } | some _ => st, .done)
  | .commit => ({ st with saved := none }, .done)
  | .rollback => (match st.saved with | some t0 => { t := t0, saved := none } | none => st, .done)

def prun (sc : Schema) (st : PSt) : List Step → PSt × List Out
  | [] => (st, [])
  | x :: rest =>
    let r := pstep sc st x
    let r2 := prun sc r.1 rest
    (r2.1, r.2 :: r2.2)

end Seata.AT.Plain
