/-
  Session selection.  Models pkg/remoting/loadbalance/*.go over the session registry of
  pkg/remoting/getty/session_manager.go.  Random choices and sync.Map iteration order are not
  modelled as functions: `allowed` is the SET of results a policy may return in a state, and the
  property is proved for every member of that set (hence for every random choice and every order).
-/
namespace Seata.LB

structure Sess where
  id : Nat
  addr : String          -- remote address "ip:port"
  closed : Bool
  deriving Repr, DecidableEq

inductive Policy | random | xid | roundRobin | leastActive | consistentHash
  deriving Repr, DecidableEq

/-- registry state: registered sessions (the sync.Map), round-robin sequence, in-flight counters per
    address, and the consistent-hash ring (ids captured when the ring was built; none = not built) -/
structure State where
  sessions : List Sess := []
  seq : Nat := 0
  active : List (String × Nat) := []
  ring : Option (List Nat) := none
  deriving Repr

def openS (ss : List Sess) : List Sess := ss.filter (fun s => !s.closed)

def activeOf (st : State) (addr : String) : Nat :=
  match st.active.find? (fun p => p.1 == addr) with
  | some p => p.2
  | none => 0

def splitOnChar (c : Char) : List Char → List (List Char)
  | [] => [[]]
  | x :: r =>
    if x == c then [] :: splitOnChar c r
    else match splitOnChar c r with
      | [] => [[x]]
      | h :: t => (x :: h) :: t

/-- ip:port of an xid of the form ip:port:id (exactly three `:`-separated parts) -/
def xidAddr (xid : String) : Option String :=
  match splitOnChar ':' xid.toList with
  | [ip, port, _] => some (String.ofList (ip ++ [':'] ++ port))
  | _ => none

def insertSorted (a : String) : List String → List String
  | [] => [a]
  | b :: r => if a ≤ b then a :: b :: r else b :: insertSorted a r
def sortStrings (l : List String) : List String := l.foldr insertSorted []

/-- number of distinct elements of a sorted list -/
def distinctCount : List String → Nat
  | [] => 0
  | [_] => 1
  | a :: b :: r => (if a == b then 0 else 1) + distinctCount (b :: r)

def minNat : List Nat → Nat
  | [] => 0
  | a :: r => r.foldl Nat.min a

/-- the sessions a policy may return (empty list = it returns nil) -/
def allowed (p : Policy) (st : State) (xid : String) : List Sess :=
  let o := openS st.sessions
  match p with
  | .random => o
  | .xid =>
    match xidAddr xid with
    | some a => let m := o.filter (fun s => s.addr == a); if m.isEmpty then o else m
    | none => o
  | .roundRobin =>
    let addrs := sortStrings (o.map (·.addr))
    let distinct := distinctCount addrs
    if distinct == 0 then []
    else
      match addrs[st.seq % distinct]? with
      | some a => o.filter (fun s => s.addr == a)
      | none => []
  | .leastActive =>
    let m := minNat (o.map (fun s => activeOf st s.addr))
    o.filter (fun s => activeOf st s.addr == m)
  | .consistentHash => o       -- ring hit on an open session, or the random fallback (after the fix)

/-- the shape at c3b0bd5: a ring hit on a CLOSED session answered with the ring's first key, whatever
    its state — any session captured in the ring may come back -/
def allowedAsCoded_c3b0bd5 (st : State) : List Sess :=
  match st.ring with
  | none => openS st.sessions
  | some ids => st.sessions.filter (fun s => ids.contains s.id)

inductive Op
  | open_ (id : Nat) (addr : String)      -- OnOpen: register
  | close (id : Nat)                      -- connection lost: marked closed, still in the map until swept
  | release (id : Nat)                    -- releaseSession: removed from the map and closed
  | busy (addr : String) (n : Nat)        -- n requests in flight towards addr
  | select (p : Policy) (xid : String)
  deriving Repr

/-- every selection sweeps closed sessions out of the map; round robin advances the sequence;
    the first consistent-hash selection builds the ring -/
def step (st : State) : Op → State
  | .open_ id addr => { st with sessions := st.sessions ++ [{ id := id, addr := addr, closed := false }] }
  | .close id => { st with sessions := st.sessions.map (fun s => if s.id == id then { s with closed := true } else s) }
  | .release id => { st with sessions := st.sessions.filter (fun s => s.id != id) }
  | .busy addr n => { st with active := (addr, n) :: st.active }
  | .select p _ =>
    let swept := openS st.sessions
    match p with
    | .roundRobin => { st with sessions := swept, seq := if swept.isEmpty then st.seq else st.seq + 1 }   -- the sequence advances only when a session is chosen
    | .consistentHash =>
      { st with ring := match st.ring with | none => some (swept.map (·.id)) | some r => some r,
                sessions := match st.ring with | none => swept | some _ => st.sessions }
    | .xid => st          -- sweeps only what it meets before a match; irrelevant for `allowed`
    | _ => { st with sessions := swept }

def runOps (st : State) (ops : List Op) : State := ops.foldl step st


/-! A request issued while no session is open waits: at every tick it looks through the registry (as it is
    at that tick) and takes the first open session; closed ones it meets are released. -/

def firstOpen (reg : List Sess) : Option Sess := reg.find? (fun s => !s.closed)

/-- `selectSession`'s wait loop over the registries seen at successive ticks -/
def waitPick : List (List Sess) → Option Sess
  | [] => none
  | reg :: rest => match firstOpen reg with
    | some s => some s
    | none => waitPick rest

/-- before the repair the loop variable kept the last session looked at: a tick that saw only closed sessions
    ended the wait with the last of them -/
def waitPickBeforeFix : List (List Sess) → Option Sess
  | [] => none
  | reg :: rest => match firstOpen reg with
    | some s => some s
    | none => match reg.getLast? with
      | some s => some s
      | none => waitPickBeforeFix rest

/-- the wait loop at HEAD: at every tick the configured policy chooses among the sessions of the registry as it
    is then; the first tick at which it can choose ends the wait. (The sessions a waiting request may be handed:
    empty = nil after the last tick.) -/
def waitAllowed (p : Policy) (xid : String) : List (List Sess) → List Sess
  | [] => []
  | reg :: rest =>
    let a := allowed p { sessions := reg } xid
    if a.isEmpty then waitAllowed p xid rest else a

/-- before the repair the loop took the first open session of the registry, whatever the policy -/
def waitAllowedBeforeFix (ticks : List (List Sess)) : List Sess :=
  match waitPick ticks with
  | some s => [s]
  | none => []

end Seata.LB
