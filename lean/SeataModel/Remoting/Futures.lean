/-
  The pending-request table.  Models pkg/remoting/getty/getty_remoting.go (sendAsync,
  NotifyRpcMessageResponse), getty_client.go (SendSyncRequest / syncCallback with its timeout,
  SendAsyncResponse), processor/client/client_on_response_processor.go.
-/
namespace Seata.Futures

/-- what a caller ends up with -/
inductive Result
  | reply (forId : Nat)       -- a response, tagged with the request id it answers
  | timeout
  | writeError
  deriving Repr, DecidableEq

inductive Ev
  | send (caller id : Nat) (writeOk : Bool)   -- SendSyncRequest: store future, WritePkg
  | reply (id : Nat)                           -- a response frame with this request id arrives
  | timeout (caller : Nat)                     -- the caller's wait expires
  | respond (id : Nat)                         -- SendAsyncResponse (phase-two answer under the server's id)
  | heartbeat                                  -- heart-beat ping
  | close                                      -- connection lost
  deriving Repr, DecidableEq

structure State where
  table : List (Nat × Nat) := []               -- request id ↦ waiting caller
  results : List (Nat × Result) := []          -- caller ↦ what it returned
  blocked : Nat := 0                           -- processor goroutines parked in response delivery
  deriving Repr, DecidableEq

def lookup (t : List (Nat × Nat)) (id : Nat) : Option Nat := (t.find? (fun p => p.1 == id)).map (·.2)
def erase (t : List (Nat × Nat)) (id : Nat) : List (Nat × Nat) := t.filter (fun p => p.1 != id)
def idOf (t : List (Nat × Nat)) (caller : Nat) : Option Nat := (t.find? (fun p => p.2 == caller)).map (·.1)

/-- the code at HEAD (after the `fix:` commits) -/
def step (s : State) : Ev → State
  | .send c id true => { s with table := (id, c) :: erase s.table id }
  | .send c _ false => { s with results := (c, .writeError) :: s.results }
  | .reply id =>
    match lookup s.table id with
    | some c => { s with table := erase s.table id, results := (c, .reply id) :: s.results }
    | none => s                                  -- straggler: discarded, nothing blocks
  | .timeout c =>
    match idOf s.table c with
    | some id => { s with table := erase s.table id, results := (c, .timeout) :: s.results }
    | none => s
  | .respond _ => s
  | .heartbeat => s
  | .close => s

def run (evs : List Ev) : State := evs.foldl step {}

/-- The shape at c3b0bd5: a timeout removed the entry from the MERGED-message table, so the future
    stayed; a reply whose caller has left then parks the processor goroutine on an unbuffered channel
    forever; SendAsyncResponse and heart-beats stored futures nobody ever removes. `gone` lists the
    ids whose caller has timed out. -/
structure StateAsCoded where
  table : List (Nat × Nat) := []
  gone : List Nat := []
  results : List (Nat × Result) := []
  blocked : Nat := 0
  deriving Repr, DecidableEq

def stepAsCoded_c3b0bd5 (s : StateAsCoded) : Ev → StateAsCoded
  | .send c id true => { s with table := (id, c) :: erase s.table id }
  | .send c _ false => { s with results := (c, .writeError) :: s.results }
  | .reply id =>
    match lookup s.table id with
    | some c =>
      if s.gone.contains id then { s with blocked := s.blocked + 1 }   -- Done <- with no receiver
      else { s with table := erase s.table id, results := (c, .reply id) :: s.results }
    | none => s
  | .timeout c =>
    match idOf s.table c with
    | some id => if s.gone.contains id then s else { s with gone := id :: s.gone, results := (c, .timeout) :: s.results }
    | none => s
  | .respond id => { s with table := (id, 0) :: erase s.table id, gone := id :: s.gone }
  | .heartbeat => s
  | .close => s

def runAsCoded_c3b0bd5 (evs : List Ev) : StateAsCoded := evs.foldl stepAsCoded_c3b0bd5 {}

end Seata.Futures
