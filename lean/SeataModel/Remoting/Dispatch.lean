/-
  Phase-two dispatch on the client.  Models pkg/remoting/processor/client/rm_branch_commit_processor.go,
  rm_branch_rollback_processor.go, pkg/rm/rm_cache.go (GetResourceManager) and the reply path
  (GettyRemotingClient.SendAsyncResponse).
-/
namespace Seata.Dispatch

inductive Kind | commit | rollback
  deriving Repr, DecidableEq

structure Request where
  kind : Kind
  msgId : Nat
  xid : String
  branchId : Int
  branchType : Int          -- AT 0, TCC 1, SAGA 2, XA 3, anything else unknown
  resource : String
  session : Nat := 0        -- the session (coordinator connection) the request arrived on
  deriving Repr, DecidableEq

/-- what the resource manager returned: a status byte, or an error -/
inductive Outcome | status (s : Nat) | error
  deriving Repr, DecidableEq

structure Response where
  kind : Kind               -- BranchCommitResponse / BranchRollbackResponse
  msgId : Nat
  xid : String
  branchId : Int
  status : Nat
  session : Nat := 0        -- the session the response is written to
  deriving Repr, DecidableEq

/-- registry: which branch types have a manager, and what that manager answers for a request -/
structure Registry where
  has : Int → Bool
  answer : Int → Request → Outcome      -- indexed by the manager's branch type

/-- one request: routed by its branch type; a status is echoed in exactly one response addressed with
    the request's message id, xid and branch id and written to the session the request arrived on
    (SendAsyncResponseTo); a manager error or a missing manager yields no
    response (the coordinator retries) -/
def process (reg : Registry) (r : Request) : List Response :=
  if reg.has r.branchType then
    match reg.answer r.branchType r with
    | .status s => [{ kind := r.kind, msgId := r.msgId, xid := r.xid, branchId := r.branchId, status := s,
                      session := r.session }]
    | .error => []
  else []

def processAll (reg : Registry) (rs : List Request) : List Response := rs.flatMap (process reg)

end Seata.Dispatch
