/-
  An XA connection the application keeps (db.Conn) across several statements and local transactions of ONE
  global transaction: the two flags of `XAConn` that decide whether the next statement opens a branch
  (`autoCommit`) and whether one is open (`xaActive`), and for every statement that reaches the database whether
  it does so inside a branch (between XA START and XA END).
  Models conn_xa.go (BeginTx, createNewTxOnExecIfNeed) and tx_xa.go (XATx.Commit / Rollback) at HEAD; the
  behaviour before the repairs is kept beside it.
-/
import SeataModel.XA.Branch
namespace Seata.XA

structure Conn where
  autoCommit : Bool := true
  active : Bool := false
  deriving Repr, DecidableEq

/-- what the application does on the connection -/
inductive COp
  | stmt (f : Fault)        -- conn.ExecContext / tx.ExecContext
  | begin (f : Fault)       -- conn.BeginTx
  | commitTx (f : Fault)    -- tx.Commit (XA END, XA PREPARE)
  | rollbackTx              -- tx.Rollback
  deriving Repr, DecidableEq

/-- does opening a branch fail under this fault? -/
def openFails : Fault → Bool
  | .registerRefused => true
  | .start => true
  | _ => false

/-- one operation: the connection afterwards, and for each statement that reached the database whether it was
    inside a branch -/
def cstep (c : Conn) : COp → Conn × List Bool
  | .stmt f =>
    if c.autoCommit then
      -- a branch of its own: BeginTx, the statement, Commit or Rollback; the flag is restored on every path
      if openFails f then (c, []) else (c, [true])
    else
      -- a statement of a local transaction the application manages: it runs in whatever is open; a failure
      -- leaves the branch as it is
      (c, [c.active])
  | .begin f =>
    if !c.autoCommit then (c, [])                    -- database/sql lets no transaction begin inside another
    else if openFails f then (c, [])                 -- the mode the connection was in is restored
    else ({ autoCommit := false, active := true }, [])
  | .commitTx _ => ({ autoCommit := true, active := false }, [])
  | .rollbackTx => ({ autoCommit := true, active := false }, [])

/-- before the repairs: a branch that could not be opened left auto-commit cleared; a statement that failed in a
    managed local transaction rolled the branch back at once -/
def cstepBeforeFix (c : Conn) : COp → Conn × List Bool
  | .stmt f =>
    if c.autoCommit then
      if openFails f then ({ c with autoCommit := false }, []) else (c, [true])
    else
      ({ c with active := c.active && f != .stmt }, [c.active])
  | .begin f =>
    if !c.autoCommit then (c, [])
    else if openFails f then ({ c with autoCommit := false }, [])
    else ({ autoCommit := false, active := true }, [])
  | .commitTx _ => ({ autoCommit := true, active := false }, [])
  | .rollbackTx => ({ autoCommit := true, active := false }, [])

def crun (stepf : Conn → COp → Conn × List Bool) : Conn → List COp → Conn × List Bool
  | c, [] => (c, [])
  | c, op :: rest =>
    let r := stepf c op
    let r' := crun stepf r.1 rest
    (r'.1, r.2 ++ r'.2)

/-- whenever the connection is not in auto-commit mode, a branch is open on it -/
def CInv (c : Conn) : Prop := c.autoCommit = false → c.active = true

end Seata.XA
