/-
  The keeper of an XA data source: which branch identifiers it keeps a connection for, until phase two.
  One physical connection may hold several branches: on a session whose last branch is PREPARED the next
  branch may start (MySQL >= 8.0.29), so database/sql hands the connection out again.
  Models conn_xa.go keepIfNecessary / release / releaseAll / markPrepared / heldLongerThan and
  xa_resource_manager.go xaTwoPhaseTimeoutChecker at HEAD (a kept connection is out of database/sql's pool since
  41823e5: several branches on one connection are the case of a connection the application keeps, db.Conn); the
  bookkeeping before the repair 7b62be0
  (one remembered branch per connection, `xaBranchXid` + `isConnKept`) is kept beside it.
-/
namespace Seata.XA.Keeper

/-- what happens on ONE pooled connection -/
inductive Op
  | begin (x : Nat)     -- BeginTx of a branch: registered, kept, XA START
  | prepare             -- XA END, XA PREPARE of the branch the connection works on
  | fail                -- the branch the connection works on fails in phase one: rolled back, released
  | finish (x : Nat)    -- phase two for branch x: XA COMMIT / XA ROLLBACK, released
  | tick                -- the two-phase timeout checker looks at the connection (every hold time has expired)
  deriving Repr, DecidableEq

/-- the connection: the branches it holds with their prepared flag (the time of the prepare, once there is
    one), the branch it works on, and whether the checker has closed it -/
structure St where
  held : List (Nat × Bool) := []
  cur : Option Nat := none
  closed : Bool := false
  deriving Repr, DecidableEq

def markPrepared (x : Nat) : List (Nat × Bool) → List (Nat × Bool)
  | [] => []
  | (y, p) :: r => if y = x then (y, true) :: markPrepared x r else (y, p) :: markPrepared x r

def step (s : St) : Op → St
  | .begin x => if s.held.any (·.1 = x) then { s with cur := some x }
                else { s with held := s.held ++ [(x, false)], cur := some x }
  | .prepare => match s.cur with
      | some x => { s with held := markPrepared x s.held, cur := none }
      | none => s
  | .fail => match s.cur with
      | some x => { s with held := s.held.filter (·.1 ≠ x), cur := none }
      | none => s
  | .finish x => { s with held := s.held.filter (·.1 ≠ x) }
  | .tick =>
    -- (a connection the application is working a branch on is not taken away for the sake of an older one)
    if s.cur.isSome then s
    else if s.held.any (·.2) then { held := [], cur := none, closed := true } else s

def run (s : St) (ops : List Op) : St := ops.foldl step s

/-- the keeper of the data source, as far as this connection is concerned -/
def kept (s : St) : List Nat := s.held.map (·.1)

/-- before the repair: the connection remembers ONE branch; the keeper is the data source's map -/
structure StOld where
  keeper : List Nat := []
  cur : Option Nat := none        -- xaBranchXid
  isKept : Bool := false          -- isConnKept
  closed : Bool := false
  deriving Repr, DecidableEq

def stepOld (s : StOld) : Op → StOld
  | .begin x => { s with keeper := if x ∈ s.keeper then s.keeper else s.keeper ++ [x], cur := some x, isKept := true }
  | .prepare => s                                     -- (a kept connection keeps its xid for phase two)
  | .fail => match s.cur with
      | some x => if s.isKept then { s with keeper := s.keeper.filter (· ≠ x), isKept := false, cur := none } else s
      | none => s
  | .finish _ => match s.cur with                     -- releaseIfNecessary: the CURRENT branch, whatever was asked
      | some y => if s.isKept then { s with keeper := s.keeper.filter (· ≠ y), isKept := false } else s
      | none => s
  | .tick => { s with closed := true }                -- the prepare time is stale or zero: every connection looks expired

def runOld (s : StOld) (ops : List Op) : StOld := ops.foldl stepOld s

/-- the branches an operation sequence begins on the connection -/
def begun : List Op → List Nat
  | [] => []
  | .begin x :: r => x :: begun r
  | _ :: r => begun r

end Seata.XA.Keeper
