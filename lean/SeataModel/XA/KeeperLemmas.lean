/- helper lemmas about the keeper model (XA/Keeper.lean); the property theorems are in Props/C17.lean -/
import SeataModel.XA.Keeper
namespace Seata.XA.Keeper

theorem kept_markPrepared (x : Nat) (l : List (Nat × Bool)) : (markPrepared x l).map (·.1) = l.map (·.1) := by
  induction l with
  | nil => rfl
  | cons a r ih =>
    obtain ⟨y, p⟩ := a
    unfold markPrepared
    split <;> simp [ih]

theorem map_filter_fst (l : List (Nat × Bool)) (x : Nat) :
    (l.filter (·.1 ≠ x)).map (·.1) = (l.map (·.1)).filter (· ≠ x) := by
  rw [List.filter_map]; rfl

/-- phase two of branch x takes x, and nothing else, out of the keeper: "phase two addresses the prepared
    branch" for the bookkeeping as well as for the command -/
theorem finish_kept (s : St) (x : Nat) :
    kept (step s (.finish x)) = (kept s).filter (· ≠ x) := by
  simp only [kept, step]
  exact map_filter_fst s.held x

/-- the finished branch is gone from the keeper -/
theorem finished_released (s : St) (x : Nat) : x ∉ kept (step s (.finish x)) := by
  rw [finish_kept]
  simp [List.mem_filter]

/-- the checker leaves a connection alone none of whose branches is prepared: an application's local transaction
    may take as long as it likes -/
theorem tick_spares (s : St) (h : ∀ e ∈ s.held, e.2 = false) : step s .tick = s := by
  have : s.held.any (·.2) = false := by
    simp only [List.any_eq_false]
    intro e he; simp [h e he]
  simp only [step, this]
  split <;> simp

/-- a branch just begun is not prepared -/
theorem begin_unprepared (s : St) (x : Nat) (h : ∀ e ∈ s.held, e.2 = false) :
    ∀ e ∈ (step s (.begin x)).held, e.2 = false := by
  simp only [step]
  split
  · exact h
  · intro e he
    simp only [List.mem_append, List.mem_singleton] at he
    rcases he with he | he
    · exact h e he
    · simp [he]

theorem ticks_spare (n : Nat) (s : St) (hh : ∀ e ∈ s.held, e.2 = false) :
    run s (List.replicate n .tick) = s := by
  induction n with
  | zero => simp [run]
  | succ k ih =>
    simp only [run, List.replicate_succ, List.foldl_cons]
    rw [tick_spares s hh]
    exact ih

theorem kept_step_subset (s : St) (o : Op) (y : Nat) (hy : y ∈ kept (step s o)) :
    y ∈ kept s ∨ o = .begin y := by
  cases o with
  | begin x =>
    simp only [kept, step] at hy ⊢
    split at hy
    · exact Or.inl hy
    · simp only [List.map_append, List.map_cons, List.map_nil, List.mem_append, List.mem_singleton] at hy
      rcases hy with hy | hy
      · exact Or.inl hy
      · exact Or.inr (by rw [hy])
  | prepare =>
    simp only [kept, step] at hy ⊢
    split at hy
    · rw [kept_markPrepared] at hy; exact Or.inl hy
    · exact Or.inl hy
  | fail =>
    simp only [kept, step] at hy ⊢
    split at hy
    · rw [map_filter_fst] at hy; exact Or.inl (List.mem_filter.mp hy).1
    · exact Or.inl hy
  | finish x =>
    rw [finish_kept] at hy
    exact Or.inl (List.mem_filter.mp hy).1
  | tick =>
    simp only [kept, step] at hy ⊢
    split at hy
    · exact Or.inl hy
    · split at hy
      · simp at hy
      · exact Or.inl hy

end Seata.XA.Keeper
