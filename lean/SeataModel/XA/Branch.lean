/-
  One XA branch: the commands that reach the database, the coordinator messages, the identifier.
  Models pkg/datasource/sql/conn_xa.go (BeginTx: register → XA START; createNewTxOnExecIfNeed:
  statement → Commit = XA END + XA PREPARE, Rollback = XA END(TMFAIL) + XA ROLLBACK),
  xa_resource_manager.go (phase two: XA COMMIT / XA ROLLBACK on the kept or a fresh connection),
  xa_branch_xid.go (identifier = xid ++ "-" ++ branch id).
-/
namespace Seata.XA

/-! ### the identifier -/

def digits (n : Nat) : List Char := Nat.toDigits 10 n

/-- the branch identifier text -/
def xaId (xid : List Char) (branch : Nat) : List Char := xid ++ '-' :: digits branch

/-- split at the LAST '-' -/
def splitLast : List Char → Option (List Char × List Char)
  | [] => none
  | c :: rest =>
    match splitLast rest with
    | some (a, b) => some (c :: a, b)
    | none => if c == '-' then some ([], rest) else none

/-! ### the protocol -/

inductive Cmd
  | start | stmt | end_ | endFail | prepare | commit | rollback
  deriving Repr, DecidableEq

inductive Ev
  | register (ok : Bool)
  | cmd (c : Cmd) (ok : Bool)       -- a command sent to the database and whether it succeeded
  | report (ok : Bool)              -- phase-one status report
  deriving Repr, DecidableEq

/-- the database's view of the branch (MySQL XA states) -/
inductive XSt
  | none | active | idle | prepared | committed | rolledBack | illegal
  deriving Repr, DecidableEq

def xstep : XSt → Cmd → XSt
  | .none, .start => .active
  | .active, .stmt => .active
  | .active, .end_ => .idle
  | .active, .endFail => .idle
  | .idle, .prepare => .prepared
  | .idle, .rollback => .rolledBack
  | .prepared, .commit => .committed
  | .prepared, .rollback => .rolledBack
  | _, _ => .illegal

/-- replay the SUCCESSFUL commands of a trace -/
def dbState (t : List Ev) : XSt :=
  t.foldl (fun s e => match e with | .cmd c true => xstep s c | _ => s) .none

/-- where one step of phase one fails (0 = nothing fails) -/
inductive Fault
  | none | registerRefused | start | stmt | end_ | prepare
  deriving Repr, DecidableEq

structure Outcome where
  trace : List Ev
  error : Bool          -- the caller gets an error
  prepared : Bool       -- phase one succeeded: the branch waits for phase two
  deriving Repr, DecidableEq

/-- phase one of an autocommit statement in XA mode under one fault -/
def phaseOne (f : Fault) : Outcome :=
  match f with
  | .registerRefused => { trace := [.register false], error := true, prepared := false }
  | .start => { trace := [.register true, .cmd .start false], error := true, prepared := false }
  | .stmt =>
    { trace := [.register true, .cmd .start true, .cmd .stmt false, .cmd .endFail true, .cmd .rollback true],
      error := true, prepared := false }
  | .end_ =>
    -- XA END failed: the branch is still ACTIVE; it is ended for failure and rolled back
    { trace := [.register true, .cmd .start true, .cmd .stmt true, .cmd .end_ false, .cmd .endFail true, .cmd .rollback true],
      error := true, prepared := false }
  | .prepare =>
    { trace := [.register true, .cmd .start true, .cmd .stmt true, .cmd .end_ true, .cmd .prepare false, .cmd .rollback true],
      error := true, prepared := false }
  | .none =>
    { trace := [.register true, .cmd .start true, .cmd .stmt true, .cmd .end_ true, .cmd .prepare true],
      error := false, prepared := true }

/-- phase two (only for a prepared branch): commit or rollback -/
def phaseTwo (commit : Bool) : List Ev := [.cmd (if commit then .commit else .rollback) true]

def whole (f : Fault) (commit : Bool) : List Ev :=
  let o := phaseOne f
  if o.prepared then o.trace ++ phaseTwo commit else o.trace

end Seata.XA
