import SeataModel.Driver.ATParse
import SeataModel.AT.AsyncCommit
namespace Seata.Driver.C11
open Seata.AT.AsyncCommit Seata.Driver Seata.Driver.ATParse

def parseReq (tok : String) : Option Req :=
  match (sdrop tok 0).splitOn "." with
  | [a, b, c] => match a.toNat?, b.toNat?, c.toNat? with
    | some r, some x, some br => some { res := r, xid := x, branch := br }
    | _, _, _ => none
  | _ => none

def showReq (r : Req) : String := s!"{r.res}.{r.xid}.{r.branch}"

/-- `ac <row>… | <accepted request>…` : the undo-log rows left once every accepted request has gone
    through (rows and requests are `res.xid.branch`) -/
def handle (ws : List String) : String :=
  match ws with
  | "ac" :: rest =>
    let rowToks := rest.takeWhile (· != "|")
    let reqToks := (rest.dropWhile (· != "|")).drop 1
    match rowToks.mapM parseReq, reqToks.mapM parseReq with
    | some rows, some reqs =>
      let s := run { rows := rows } (reqs.map .accept ++ (reqs.map fun _ => Ev.proc true))
      let left := sortStrs (s.rows.map showReq)
      if left.isEmpty then "left=-" else "left=" ++ ",".intercalate left
    | _, _ => "bad-op"
  | _ => "bad-op"

end Seata.Driver.C11
