import SeataModel.AT.SfuGap
import SeataModel.Driver.AT
import SeataModel.AT.Locks
import SeataModel.AT.KeyText
namespace Seata.Driver.C03
open Seata Seata.DB Seata.AT Seata.AT.Locks Seata.Driver Seata.Driver.ATParse

/-- events: `E<x>` starts a local transaction of global transaction x (statement tokens follow),
    `Z<x>` finishes x -/
partial def parseEvents : List String → Option (List Ev)
  | [] => some []
  | tok :: rest =>
    if tok.startsWith "E" then
      match (sdrop tok 1).toNat? with
      | none => none
      | some x =>
        let stmts := rest.takeWhile fun t => !(t.startsWith "E") && !(t.startsWith "Z")
        let rest' := rest.drop stmts.length
        match stmts.mapM parseStmt, parseEvents rest' with
        | some ltx, some evs => some (.local_ x ltx :: evs)
        | _, _ => none
    else if tok.startsWith "Z" then
      match (sdrop tok 1).toNat?, parseEvents rest with
      | some x, some evs => some (.finish x :: evs)
      | _, _ => none
    else none

/-- `keytext <hex of the registration text>`: the keys the coordinator reads out of the text a registration
    carried (`TABLE:k_k,k_k;TABLE:…;`), by `KeyText.parseKeys`, sorted -/
def keyTextOf (txt : List Char) : String :=
  let segs := (Seata.AT.KeyText.splitOn ';' txt).filter (· != [])
  let keys := segs.foldl (fun acc seg =>
    match seg.dropWhile (· != ':') with
    | [] => acc ++ ["?" ++ String.ofList seg]
    | _ :: body =>
      acc ++ ((Seata.AT.KeyText.parseKeys body).filter (· != [[]])).map
        fun k => "_".intercalate (k.map String.ofList)) []
  if keys.isEmpty then "-" else ",".intercalate (sortStrs keys).eraseDups

def handle (ws : List String) : String :=
  match ws with
  | "at" :: _ => Seata.Driver.AT.handle ws
  | ["keytext", h] =>
    (match ofHex h with
     | some bs => keyTextOf (bs.map fun b => Char.ofNat b.toNat)
     | none => "bad-hex")
  | ["skip"] => "skip"      -- a case decided by the oracle on the implementation alone
  | ["sfugap", m, matching, held1, held2] =>
    -- a locking read with a wait option: the rows that match, the rows another transaction holds when the key
    -- query runs and when the statement runs (comma lists, `-` for none)
    let nums (t : String) : List Nat := if t == "-" then [] else (t.splitOn ",").filterMap (·.toNat?)
    let mode : Option SfuGap.Mode := match m with
      | "plain" => some .plain | "nowait" => some .nowait | "skiplocked" => some .skipLocked | _ => none
    match mode with
    | none => "bad-op"
    | some md =>
      let h1 := nums held1
      let h2 := nums held2
      let r := SfuGap.through SfuGap.keyMode md (nums matching) (fun x => h1.contains x) (fun x => h2.contains x)
      let showL (l : List Nat) : String := if l.isEmpty then "-" else ",".intercalate (l.map toString)
      s!"named={showL r.named} returned={match r.returned with | some l => showL l | none => "error"}"
  | ["sfu", e, m, r] =>
    let reply : Option Reply := if r == "lockable" then some .lockable else if r == "conflict" then some .conflict
      else if r == "failed" then some .failed else none
    match m.toNat?, reply with
    | some n, some rp =>
      let o := selectForUpdate (e == "1") n rp
      let b (x : Bool) : String := if x then "1" else "0"
      s!"rows={b o.rowsReturned} err={b o.error} queried={b o.queried} locks={b o.localLocksKept}"
    | _, _ => "bad-op"
  | "hist" :: cfgS :: scS :: rest =>
    let cfgC := cfgS.toList
    let cfg : Cfg := { validate := cfgC.getD 1 '0' == '1', onlyCare := cfgC.getD 3 '0' == '1' }
    match parseSchema scS with
    | none => "bad-schema"
    | some sc =>
      let rowToks := rest.takeWhile (· != "|")
      let script := (rest.dropWhile (· != "|")).drop 1
      match rowToks.mapM parseRow, parseEvents script with
      | some rows, some evs =>
        let r := run sc cfg { t := rows } evs
        joinSp (r.2.map fun b => if b then "ok" else "no") ++ s!" t={showTable r.1.t}"
      | _, _ => "bad-hist"
  | _ => "bad-op"

end Seata.Driver.C03
