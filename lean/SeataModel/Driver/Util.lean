/- Line-protocol helpers shared by the per-property driver glue (not used in theorems). -/
import SeataModel.Basic.Bytes
namespace Seata.Driver
open Seata

def sdrop (s : String) (n : Nat) : String := String.ofList (s.toList.drop n)

def stripNl (s : String) : String :=
  String.ofList ((s.toList.reverse.dropWhile fun c => c == '\n' || c == '\r' || c == ' ').reverse)

def words (s : String) : List String := (s.splitOn " ").filter (· ≠ "")

def parseInt? (s : String) : Option Int :=
  if s.startsWith "-" then (sdrop s 1).toNat?.map fun n => - (n : Int)
  else s.toNat?.map fun n => (n : Int)

def joinSp (xs : List String) : String := " ".intercalate xs

end Seata.Driver
