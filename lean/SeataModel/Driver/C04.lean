import SeataModel.Driver.Util
import SeataModel.TM.Executor
namespace Seata.Driver.C04
open Seata.TM Seata.Driver

/-- `ok`, `failed`, `transport`, or a wire form `w<result code 0|1>.<global status>` -/
def parseReply (t : String) : Option Reply :=
  match t with
  | "ok" => some .ok | "failed" => some .failed | "transport" => some .transport
  -- a reply the request cannot be answered with (a begin acknowledged without an xid, a body of another
  -- message type) is no acknowledgement
  | "emptyxid" => some .failed | "wrongtype" => some .failed
  | _ =>
    if t.startsWith "w" then
      match (sdrop t 1).splitOn "." with
      | [rc, st] =>
        match rc.toNat?, st.toNat? with
        | some 0, some st => some (replyOf .failed st)
        | some 1, some st => some (replyOf .success st)
        | _, _ => none
      | _ => none
    else none
def parseOutcome : String → Option Outcome
  | "nil" => some .ok | "err" => some .err | "panic" => some .panic | _ => none
def showReq : Req → String | .begin => "B" | .commit => "C" | .rollback => "R"
def showRet : Ret → String | .ok => "nil" | .err => "error" | .crash => "crash"

/-- `run <retries> <beginReply> <callback> <script: r,r,… or -> <cancelAt: n or none>` -/
def handle (ws : List String) : String :=
  match ws with
  | ["run", n, b, cb, sc, ca] =>
    let script := if sc == "-" then some [] else (sc.splitOn ",").mapM parseReply
    let cancel : Option (Option Nat) := if ca == "none" then some none else ca.toNat?.map some
    match n.toNat?, parseReply b, parseOutcome cb, script, cancel with
    | some n, some b, some cb, some script, some cancel =>
      let r := withGlobalTx n b cb script cancel
      s!"reqs={",".intercalate (r.1.map showReq)} ret={showRet r.2}"
    | _, _, _, _, _ => "bad-op"
  -- `rollback <rc 0|1> <status>`: GlobalTransactionManager.Rollback called directly, its one request answered
  | ["rollback", rc, st] =>
    match rc.toNat?, st.toNat? with
    | some 0, some st => s!"ret={if rollbackAcknowledged .failed st then "nil" else "error"}"
    | some 1, some st => s!"ret={if rollbackAcknowledged .success st then "nil" else "error"}"
    | _, _ => "bad-op"
  | _ => "bad-op"

end Seata.Driver.C04
