import SeataModel.Driver.ATParse
import SeataModel.AT.Plain
namespace Seata.Driver.C16
open Seata Seata.DB Seata.AT Seata.AT.Plain Seata.Driver Seata.Driver.ATParse

def parseStep (tok : String) : Option Step :=
  if tok == "B" then some .begin else if tok == "C" then some .commit else if tok == "R" then some .rollback
  else (parseStmt tok).map fun p => .exec p.1 p.2

def showOut : Out → String
  | .ok n => s!"ok:{n}"
  | .err => "err"
  | .done => "-"

/-- `tr <ncols>:<pk,..> r:… | steps…` ; `skip` for programs outside the modelled fragment -/
def handle (ws : List String) : String :=
  match ws with
  | ["skip"] => "skip"
  | "tr" :: scS :: rest =>
    match parseSchema scS with
    | none => "bad-schema"
    | some sc =>
      let rowToks := rest.takeWhile (· != "|")
      let script := (rest.dropWhile (· != "|")).drop 1
      match rowToks.mapM parseRow, script.mapM parseStep with
      | some rows, some steps =>
        let r := prun sc { t := rows } steps
        -- an unfinished transaction is rolled back when the connection is closed
        let final := match r.1.saved with | some t0 => t0 | none => r.1.t
        joinSp (r.2.map showOut) ++ s!" t={showTable final}"
      | _, _ => "bad-program"
  | _ => "bad-op"

end Seata.Driver.C16
