import SeataModel.Driver.ATParse
namespace Seata.Driver.AT
open Seata Seata.DB Seata.AT Seata.Driver Seata.Driver.ATParse

def showCells (cells : List (Nat × Val)) : String :=
  ",".intercalate (sortStrs (cells.map fun p => s!"{p.1}={showVal p.2}")).eraseDups

def showIRows (rs : List IRow) : String :=
  if rs.isEmpty then "-" else ";".intercalate (sortStrs (rs.map fun r => s!"{showKey r.key}:{showCells r.cells}"))

def showItem (it : Item) : String :=
  let k := match it.kind with | .insert => "I" | .update => "U" | .delete => "D"
  s!"{k}[{showIRows it.before}|{showIRows it.after}]"

structure BranchSt where
  b : Branch
  hasLog : Bool          -- an undo_log row exists (status normal)
  marker : Bool := false -- a GlobalFinished marker row exists
  deriving Repr

structure St where
  sc : Schema
  cfg : Cfg
  t : Table
  branches : List BranchSt := []
  out : List String := []

/-- run one local transaction (tokens already parsed) -/
def runLocal (st : St) (ltx : LocalTx) : St :=
  match localPhase1 st.sc st.cfg st.t ltx with
  | .error _ => { st with out := st.out ++ ["L:err"] }
  | .ok (t', b) =>
    -- a branch is registered when there is at least one image and one lock key entry
    if ltx.isEmpty then { st with t := t', out := st.out ++ ["L:ok:nobranch"] }
    else
      let hasLog := !b.items.isEmpty
      let img := if hasLog then "+".intercalate (b.items.map showItem) else "noundolog"
      { st with t := t', branches := st.branches ++ [{ b := b, hasLog := hasLog }],
                out := st.out ++ [s!"L:ok:k={showKeys b.lockKeys}:img={img}"] }

def rollbackBranch (st : St) (i : Nat) : St :=
  match st.branches[i]? with
  | none => { st with out := st.out ++ ["rb:nobranch"] }
  | some bs =>
    if !bs.hasLog then
      -- no undo log: a marker is inserted (or is already there: then the insert fails on the unique key)
      if bs.marker then { st with out := st.out ++ ["rb:ok"] }
      else { st with branches := st.branches.set i { bs with marker := true }, out := st.out ++ ["rb:ok"] }
    else
      let r := undoBranch st.sc st.cfg st.t bs.b
      if r.2 then { st with t := r.1, branches := st.branches.set i { bs with hasLog := false }, out := st.out ++ ["rb:ok"] }
      else { st with out := st.out ++ ["rb:fail"] }

def showFinal (st : St) : String :=
  let logs := (st.branches.zipIdx.filter fun p => p.1.hasLog).map fun p => toString (p.2 + 1)
  s!"t={showTable st.t} undo={if logs.isEmpty then "-" else ",".intercalate logs}"

instance : Inhabited St := ⟨{ sc := { ncols := 0, pk := [] }, cfg := { validate := false, onlyCare := false }, t := [] }⟩

/-- script interpreter -/
partial def runScript (st : St) : List String → Option LocalTx → St
  | [], cur => match cur with | some l => runLocal st l | none => st
  | tok :: rest, cur =>
    let flush (st : St) : St := match cur with | some l => runLocal st l | none => st
    if tok == "L" then runScript (flush st) rest (some [])
    else if tok == "END" then runScript (flush st) rest none
    else if tok.startsWith "F" then
      let st1 := flush st
      match parseStmt (sdrop tok 1) with
      | some (s, a) => match apply st1.sc st1.t a s with
        | .ok (t', _) => runScript { st1 with t := t', out := st1.out ++ ["F:ok"] } rest none
        | .error _ => runScript { st1 with out := st1.out ++ ["F:err"] } rest none
      | none => { st1 with out := st1.out ++ ["bad-foreign"] }
    else if tok == "RB" then
      let st1 := flush st
      let n := st1.branches.length
      let st2 := (List.range n).reverse.foldl rollbackBranch st1
      runScript { st2 with out := st2.out ++ [showFinal st2] } rest none
    else if tok.startsWith "RBx" then
      -- a rollback delivery during which a database statement fails: the undo transaction is rolled
      -- back as a whole, the branch is not answered rollbacked, nothing changes
      let st1 := flush st
      runScript { st1 with out := st1.out ++ ["rb:fail", showFinal st1] } rest none
    else if tok == "LR" then
      -- the coordinator rolls the NEXT local transaction's branch back between its registration and
      -- its undo-log flush: a marker row is left, the late flush hits the unique key, nothing commits
      let st1 := flush st
      let stmts := rest.takeWhile fun t => t != "L" && t != "LR" && t != "END" && !(t.startsWith "RB") && t != "SNAP" && !(t.startsWith "F")
      let rest' := rest.drop stmts.length
      match stmts.mapM parseStmt with
      | none => { st1 with out := st1.out ++ ["bad-stmt-in-LR"] }
      | some ltx =>
        match localPhase1 st1.sc st1.cfg st1.t ltx with
        | .error _ => runScript { st1 with out := st1.out ++ ["L:err"] } rest' none
        | .ok (_, b) =>
          if b.items.isEmpty then
            -- nothing to flush: the local commit goes through, the marker stays
            runScript { st1 with out := st1.out ++ ["L:early-rb:ok:committed"],
                                 branches := st1.branches ++ [{ b := { items := [], lockKeys := b.lockKeys }, hasLog := false, marker := true }] } rest' none
          else
            runScript { st1 with out := st1.out ++ ["L:early-rb:ok:late-commit-refused"],
                                 branches := st1.branches ++ [{ b := { items := [], lockKeys := b.lockKeys }, hasLog := false, marker := true }] } rest' none
    else if tok.startsWith "RB" then
      let st1 := flush st
      match (sdrop tok 2).toNat? with
      | some i => let st2 := rollbackBranch st1 (i - 1); runScript { st2 with out := st2.out ++ [showFinal st2] } rest none
      | none => { st1 with out := st1.out ++ ["bad-rb"] }
    else if tok == "SNAP" then
      let st1 := flush st
      runScript { st1 with out := st1.out ++ [showFinal st1] } rest none
    else
      match parseStmt tok, cur with
      | some sa, some l => runScript st rest (some (l ++ [sa]))
      | some sa, none => runScript st rest (some [sa])
      | none, _ => { st with out := st.out ++ [s!"bad-stmt({tok})"] }

/-- `at v<0|1>o<0|1> <ncols>:<pk,..> r:… r:… | script…` -/
def handle (ws : List String) : String :=
  match ws with
  | "at" :: cfgS :: scS :: rest =>
    let cfgC := cfgS.toList
    let cfg : Cfg := { validate := cfgC.getD 1 '0' == '1', onlyCare := cfgC.getD 3 '0' == '1' }
    match parseSchema scS with
    | none => "bad-schema"
    | some sc =>
      let rowToks := rest.takeWhile (· != "|")
      let script := (rest.dropWhile (· != "|")).drop 1
      match rowToks.mapM parseRow with
      | none => "bad-rows"
      | some rows =>
        let st := runScript { sc := sc, cfg := cfg, t := rows } script none
        joinSp st.out
  | _ => "bad-op"

end Seata.Driver.AT
