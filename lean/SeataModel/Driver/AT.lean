import SeataModel.Driver.ATParse
import SeataModel.AT.World
import SeataModel.AT.InsertRoute
namespace Seata.Driver.AT
open Seata Seata.DB Seata.AT Seata.Driver Seata.Driver.ATParse

def showCells (cells : List (Nat × Val)) : String :=
  ",".intercalate (sortStrs (cells.map fun p => s!"{p.1}={showVal p.2}")).eraseDups

def showIRows (rs : List IRow) : String :=
  if rs.isEmpty then "-" else ";".intercalate (sortStrs (rs.map fun r => s!"{showKey r.key}:{showCells r.cells}"))

def showItem (it : Item) : String :=
  let k := match it.kind with | .insert => "I" | .update => "U" | .delete => "D"
  s!"{k}[{showIRows it.before}|{showIRows it.after}]"

structure St where
  sc : Schema
  cfg : Cfg
  w : World
  out : List String := []
  autoNext : Nat := 0         -- next auto-increment value of the key column (0: the table has none)
  autoStep : Nat := 1         -- auto_increment_increment of the server the table lives on
  lenient : Bool := false     -- the local transaction being collected carries on after failed statements

/-- the auto-increment marker the parser leaves for `A.` -/
def autoMark : Val := .str [255, 65, 85, 84, 79]

/-- glue, not model: replace the auto-increment markers of INSERT rows by the values the database will
    assign (the counter never goes back and jumps past explicitly inserted larger values) -/
def alignAuto (step n : Nat) : Nat :=
  if step ≤ 1 then n else if n % step == 1 % step then n else n + ((step + 1 % step - n % step) % step)

def substAuto (step : Nat) (next : Nat) : LocalTx → LocalTx × Nat
  | [] => ([], next)
  | (s, a) :: rest =>
    let fixRows (rows : List (List Expr)) (n : Nat) : List (List Expr) × Nat :=
      rows.foldl (fun (acc : List (List Expr) × Nat) row =>
        match row with
        | .lit v :: tl =>
          if v == autoMark then
            -- the server hands out values congruent to 1 modulo its auto_increment_increment
            let g := alignAuto step acc.2
            (acc.1 ++ [Expr.lit (.int g) :: tl], g + 1)
          else match v with
            | .int i => (acc.1 ++ [row], if i.toNat + 1 > acc.2 then i.toNat + 1 else acc.2)
            | _ => (acc.1 ++ [row], acc.2)
        | .par i :: _ =>
          (match a.getD i .null with
           | .int v => (acc.1 ++ [row], if v.toNat + 1 > acc.2 then v.toNat + 1 else acc.2)
           | _ => (acc.1 ++ [row], acc.2))
        | _ => (acc.1 ++ [row], acc.2)) ([], n)
    match s with
    | .insert rows =>
      let r := fixRows rows next
      let r2 := substAuto step r.2 rest
      ((.insert r.1, a) :: r2.1, r2.2)
    | .upsert rows asg =>
      -- explicit keys of an upsert move the counter too
      let r := fixRows rows next
      let r2 := substAuto step r.2 rest
      ((.upsert r.1 asg, a) :: r2.1, r2.2)
    | _ =>
      let r2 := substAuto step next rest
      ((s, a) :: r2.1, r2.2)

/-- run one local transaction (tokens already parsed) -/
def runLocal (st0 : St) (ltx0 : LocalTx) : St :=
  let sub := if st0.autoNext == 0 then (ltx0, 0) else substAuto st0.autoStep st0.autoNext ltx0
  let ltx := sub.1
  let st := { st0 with autoNext := sub.2 }
  match runLocalTx st.sc st.cfg st.w ltx with
  | none => { st with out := st.out ++ ["L:err"] }
  | some w' =>
    if ltx.isEmpty then { st with w := w', out := st.out ++ ["L:ok:nobranch"] }
    else
      match w'.branches.getLast? with
      | none => { st with w := w', out := st.out ++ ["L:ok:nobranch"] }
      | some bs =>
        let img := if bs.hasLog then "+".intercalate (bs.b.items.map showItem) else "noundolog"
        { st with w := w', out := st.out ++ [s!"L:ok:k={showKeys bs.b.lockKeys}:img={img}"] }

def runLocalLenient (st0 : St) (ltx0 : LocalTx) : St :=
  let sub := if st0.autoNext == 0 then (ltx0, 0) else substAuto st0.autoStep st0.autoNext ltx0
  let ltx := sub.1
  let st := { st0 with autoNext := sub.2 }
  let w' := runLocalTxLenient st.sc st.cfg st.w ltx
  if w'.branches.length == st.w.branches.length then { st with w := w', out := st.out ++ ["L:ok:nobranch"] }
  else
    match w'.branches.getLast? with
    | none => { st with w := w', out := st.out ++ ["L:ok:nobranch"] }
    | some bs =>
      let img := if bs.hasLog then "+".intercalate (bs.b.items.map showItem) else "noundolog"
      { st with w := w', out := st.out ++ [s!"L:ok:k={showKeys bs.b.lockKeys}:img={img}"] }

def rollbackBranchS (st : St) (i : Nat) : St :=
  match st.w.branches[i]? with
  | none => { st with out := st.out ++ ["rb:nobranch"] }
  | some _ =>
    let r := rollbackBranch st.sc st.cfg st.w i
    { st with w := r.1, out := st.out ++ [if r.2 then "rb:ok" else "rb:fail"] }

def showFinal (st : St) : String :=
  let logs := (st.w.branches.zipIdx.filter fun p => p.1.hasLog).map fun p => toString (p.2 + 1)
  s!"t={showTable st.w.t} undo={if logs.isEmpty then "-" else ",".intercalate logs}"

instance : Inhabited St := ⟨{ sc := { ncols := 0, pk := [] }, cfg := { validate := false, onlyCare := false }, w := { t := [] } }⟩

/-- script interpreter -/
partial def runScript (st : St) : List String → Option LocalTx → St
  | [], cur => match cur with | some l => (if st.lenient then runLocalLenient st l else runLocal st l) | none => st
  | tok :: rest, cur =>
    let flush (st : St) : St :=
      match cur with
      | some l => { (if st.lenient then runLocalLenient st l else runLocal st l) with lenient := false }
      | none => st
    if tok == "L" then runScript (flush st) rest (some [])
    else if tok == "Lc" then runScript { flush st with lenient := true } rest (some [])
    else if tok == "END" then runScript (flush st) rest none
    else if tok.startsWith "F" then
      let st1 := flush st
      match parseStmt (sdrop tok 1) with
      | some (s, a) => match apply st1.sc st1.w.t a s with
        | .ok (t', _) => runScript { st1 with w := { st1.w with t := t' }, out := st1.out ++ ["F:ok"] } rest none
        | .error _ => runScript { st1 with out := st1.out ++ ["F:err"] } rest none
      | none => { st1 with out := st1.out ++ ["bad-foreign"] }
    else if tok == "RB" then
      let st1 := flush st
      let n := st1.w.branches.length
      let st2 := (List.range n).reverse.foldl rollbackBranchS st1
      runScript { st2 with out := st2.out ++ [showFinal st2] } rest none
    else if tok.startsWith "RBx" then
      -- a rollback delivery during which a database statement fails: the undo transaction is rolled
      -- back as a whole, the branch is not answered rollbacked, nothing changes
      let st1 := flush st
      runScript { st1 with out := st1.out ++ ["rb:fail", showFinal st1] } rest none
    else if tok == "LR" then
      -- the coordinator rolls the NEXT local transaction's branch back between its registration and
      -- its undo-log flush: a marker row is left, the late flush hits the unique key, nothing commits
      let st1 := flush st
      let stmts := rest.takeWhile fun t => t != "L" && t != "Lc" && t != "LR" && t != "END" && !(t.startsWith "RB") && t != "SNAP" && !(t.startsWith "F")
      let rest' := rest.drop stmts.length
      match stmts.mapM parseStmt with
      | none => { st1 with out := st1.out ++ ["bad-stmt-in-LR"] }
      | some ltx =>
        match earlyRollbackThenCommit st1.sc st1.cfg st1.w ltx with
        | none => runScript { st1 with out := st1.out ++ ["L:err"] } rest' none
        | some (w', committed) =>
          runScript { st1 with w := w', out := st1.out ++ [if committed then "L:early-rb:ok:committed" else "L:early-rb:ok:late-commit-refused"] } rest' none
    else if tok.startsWith "RB" then
      let st1 := flush st
      match (sdrop tok 2).toNat? with
      | some i => let st2 := rollbackBranchS st1 (i - 1); runScript { st2 with out := st2.out ++ [showFinal st2] } rest none
      | none => { st1 with out := st1.out ++ ["bad-rb"] }
    else if tok == "SNAP" then
      let st1 := flush st
      runScript { st1 with out := st1.out ++ [showFinal st1] } rest none
    else
      match parseStmt tok, cur with
      | some sa, some l => runScript st rest (some (l ++ [sa]))
      | some sa, none => runScript st rest (some [sa])
      | none, _ => { st with out := st.out ++ [s!"bad-stmt({tok})"] }

/-- `at v<0|1>o<0|1> <ncols>:<pk,..> r:… r:… | script…` -/
def handle (ws : List String) : String :=
  match ws with
  | "at" :: cfgS :: scS :: rest =>
    let cfgC := cfgS.toList
    let cfg : Cfg := { validate := cfgC.getD 1 '0' == '1', onlyCare := cfgC.getD 3 '0' == '1' }
    let autoC := cfgC.getD 5 '0'            -- '1' / '2': the first key column is AUTO_INCREMENT, the digit is the server's step
    let auto := autoC == '1' || autoC == '2'
    match parseSchema scS with
    | none => "bad-schema"
    | some sc =>
      let rowToks := rest.takeWhile (· != "|")
      let script := (rest.dropWhile (· != "|")).drop 1
      match rowToks.mapM parseRow with
      | none => "bad-rows"
      | some rows =>
        let maxId := rows.foldl (fun m r => match r.head? with | some (.int i) => max m i.toNat | _ => m) 0
        let st := runScript { sc := sc, cfg := cfg, w := { t := rows }, autoNext := if auto then maxId + 1 else 0, autoStep := if autoC == '2' then 2 else 1 } script none
        joinSp st.out
  | "route" :: verb :: rowToks =>
    -- which executor records an INSERT-like statement, or that it is refused: every row as `k` (gives its key), `u`
    -- (gives the values of another unique index), `ku`, or `-` (neither)
    let v : Option InsertRoute.Verb := match verb with
      | "insert" => some .insert | "ignore" => some .ignore | "replace" => some .replace | "onduplicate" => some .onDuplicate
      | _ => none
    let row (t : String) : InsertRoute.RowInfo := { keyGiven := t.contains 'k', otherUniqueGiven := t.contains 'u' }
    match v with
    | none => "bad-op"
    | some v => match InsertRoute.route v (rowToks.map row) with
      | .refuse => "refused"
      | _ => "runs"
  | _ => "bad-op"

end Seata.Driver.AT
