import SeataModel.Driver.Util
import SeataModel.TCC.Fence
import SeataModel.TCC.FenceRace
namespace Seata.Driver.C06
open Seata.Fence Seata.Driver

def showStatus : Option Status → String
  | none => "-" | some .tried => "tried" | some .committed => "committed"
  | some .rollbacked => "rollbacked" | some .suspended => "suspended"

/-- delivery token: `<branch><P|C|R>[f<k>][x]` e.g. `1P`, `2Rf3`, `1Cx` (x = callback returns an error) -/
def parseDelivery (t : String) : Option Delivery :=
  let cs := t.toList
  let bd := cs.takeWhile Char.isDigit
  let rest := cs.dropWhile Char.isDigit
  match (String.ofList bd).toNat?, rest with
  | some b, ph :: tl =>
    let phase := match ph with | 'P' => some Phase.prepare | 'C' => some .commit | 'R' => some .rollback | _ => none
    let cb := tl.contains 'x'
    let tl' := tl.filter (· != 'x')
    let fault : Option (Option Nat) := match tl' with
      | [] => some none
      | 'f' :: ds => (String.ofList ds).toNat?.map some
      | _ => none
    match phase, fault with
    | some p, some f => some { branch := b, phase := p, fault := f, cbFails := cb }
    | _, _ => none
  | _, _ => none

/-- `seq d d …` → after each delivery: `<ok|refused>:<row>:<tries>/<confirms>/<cancels>` of the delivered branch -/
def handle (ws : List String) : String :=
  match ws with
  | ["skip"] => "skip"      -- a case decided by the oracle on the implementation alone
  | ["race", pfx, a, b, k] =>
    -- two deliveries racing after a prefix of clean deliveries: a is held up at its k-th statement (BEGIN
    -- is the first), b runs from start to end in the gap.  Output: the outcome of exactly that interleaving,
    -- then every outcome the property allows.
    let ph (c : Char) : Option Phase := match c with | 'P' => some .prepare | 'C' => some .commit | 'R' => some .rollback | _ => none
    let pre := if pfx == "-" then some [] else pfx.toList.mapM ph
    (match pre, a.toList.head? >>= ph, b.toList.head? >>= ph, k.toNat? with
     | some pre, some pa, some pb, some k =>
       let db := pre.foldl (fun s p => (deliver p none false s).1) ({} : BranchSt)
       let ws := List.replicate (k - 2) true ++ List.replicate 4 false ++ List.replicate (8 - 4 - (k - 2)) true
       let showO (o : BranchSt × Option Res × Option Res) : String :=
         let r (x : Option Res) := match x with | some .ok => "ok" | _ => "refused"
         s!"{showStatus o.1.row}:{o.1.tries}/{o.1.confirms}/{o.1.cancels} {r o.2.1} {r o.2.2}"
       let exp := showO (Race.outcome pa pb db ws)
       let all := ((Race.allowed pa pb db).map showO).eraseDups
       s!"exp=[{exp}] allowed=[{"|".intercalate all}]"
     | _, _, _, _ => "bad-op")
  | "seq" :: toks =>
    match toks.mapM parseDelivery with
    | none => "bad-op"
    | some ds =>
      let (_, outs) := ds.foldl (fun (acc : Store × List String) d =>
        let (st, outs) := acc
        let r := deliver d.phase d.fault d.cbFails (get st d.branch)
        let st' := put st d.branch r.1
        let s := r.1
        (st', outs ++ [s!"{if r.2 == .ok then "ok" else "refused"}:{showStatus s.row}:{s.tries}/{s.confirms}/{s.cancels}"])) ([], [])
      joinSp outs
  | _ => "bad-op"

end Seata.Driver.C06
