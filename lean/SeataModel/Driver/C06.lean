import SeataModel.Driver.Util
import SeataModel.TCC.Fence
namespace Seata.Driver.C06
open Seata.Fence Seata.Driver

def showStatus : Option Status → String
  | none => "-" | some .tried => "tried" | some .committed => "committed"
  | some .rollbacked => "rollbacked" | some .suspended => "suspended"

/-- delivery token: `<branch><P|C|R>[f<k>][x]` e.g. `1P`, `2Rf3`, `1Cx` (x = callback returns an error) -/
def parseDelivery (t : String) : Option Delivery :=
  let cs := t.toList
  let bd := cs.takeWhile Char.isDigit
  let rest := cs.dropWhile Char.isDigit
  match (String.ofList bd).toNat?, rest with
  | some b, ph :: tl =>
    let phase := match ph with | 'P' => some Phase.prepare | 'C' => some .commit | 'R' => some .rollback | _ => none
    let cb := tl.contains 'x'
    let tl' := tl.filter (· != 'x')
    let fault : Option (Option Nat) := match tl' with
      | [] => some none
      | 'f' :: ds => (String.ofList ds).toNat?.map some
      | _ => none
    match phase, fault with
    | some p, some f => some { branch := b, phase := p, fault := f, cbFails := cb }
    | _, _ => none
  | _, _ => none

/-- `seq d d …` → after each delivery: `<ok|refused>:<row>:<tries>/<confirms>/<cancels>` of the delivered branch -/
def handle (ws : List String) : String :=
  match ws with
  | ["skip"] => "skip"      -- a case decided by the oracle on the implementation alone
  | "seq" :: toks =>
    match toks.mapM parseDelivery with
    | none => "bad-op"
    | some ds =>
      let (_, outs) := ds.foldl (fun (acc : Store × List String) d =>
        let (st, outs) := acc
        let r := deliver d.phase d.fault d.cbFails (get st d.branch)
        let st' := put st d.branch r.1
        let s := r.1
        (st', outs ++ [s!"{if r.2 == .ok then "ok" else "refused"}:{showStatus s.row}:{s.tries}/{s.confirms}/{s.cancels}"])) ([], [])
      joinSp outs
  | _ => "bad-op"

end Seata.Driver.C06
