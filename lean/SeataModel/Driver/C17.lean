import SeataModel.Driver.Util
import SeataModel.XA.Branch
import SeataModel.XA.Conn
import SeataModel.XA.Keeper
namespace Seata.Driver.C17
open Seata.XA Seata.Driver

def showCmd : Cmd → String
  | .start => "S" | .stmt => "x" | .end_ => "E" | .endFail => "E" | .prepare => "P" | .commit => "C" | .rollback => "R"

def showEv : Ev → String
  | .register ok => if ok then "g" else "g!"
  | .cmd c ok => showCmd c ++ (if ok then "" else "!")
  | .report ok => if ok then "p1" else "p0"

def showSt : XSt → String
  | .none => "gone" | .active => "active" | .idle => "idle" | .prepared => "prepared"
  | .committed => "committed" | .rolledBack => "gone" | .illegal => "illegal"

def parseFault (s : String) : Option Fault :=
  if s == "none" then some .none else if s == "register" then some .registerRefused else if s == "start" then some .start
  else if s == "stmt" then some .stmt else if s == "end" then some .end_ else if s == "prepare" then some .prepare else none

/-- `s:<fault>` a statement, `b:<fault>` BeginTx, `c:<fault>` tx.Commit, `r` tx.Rollback -/
def parseCOp (t : String) : Option COp :=
  if t == "r" then some .rollbackTx
  else match t.splitOn ":" with
    | ["s", f] => (parseFault f).map .stmt
    | ["b", f] => (parseFault f).map .begin
    | ["c", f] => (parseFault f).map .commitTx
    | _ => none

/-- `xa <fault> <commit|rollback>` ; `id <xid text> <branch>` ; `xaconn <op>…` -/
def handle (ws : List String) : String :=
  match ws with
  | ["skip"] => "skip"      -- a case decided by the oracle on the implementation alone
  | ["xa", f, p2] =>
    match parseFault f with
    | none => "bad-fault"
    | some fl =>
      let o := phaseOne fl
      let t := whole fl (p2 == "commit")
      s!"{joinSp (t.map showEv)} | err={if o.error then 1 else 0} state={showSt (dbState t)}"
  | ["xa2", d1, d2, order] =>
    -- two branches prepared one after the other (on one pooled connection), then phase two for both
    let c1 := d1 == "commit"
    let c2 := d2 == "commit"
    let p1 := (phaseOne .none).trace
    let two := if order == "12" then phaseTwo c1 ++ phaseTwo c2 else phaseTwo c2 ++ phaseTwo c1
    let st (c : Bool) : String := showSt (dbState (whole .none c))
    s!"{joinSp ((p1 ++ p1 ++ two).map showEv)} | err=0 state={st c1},{st c2}"
  | "xaconn" :: toks =>
    -- a connection the application keeps: for every statement that reaches the database, was it inside a branch?
    match toks.mapM parseCOp with
    | none => "bad-op"
    | some ops =>
      let r := crun cstep {} ops
      let flags := r.2.map fun b => if b then "1" else "0"
      s!"inside={if flags.isEmpty then "-" else ",".intercalate flags}"
  | "keeper" :: toks =>
    -- one pooled connection: `b<n>` BeginTx of branch n, `p` prepare, `x` the branch fails in phase one,
    -- `f<n>` phase two of branch n, `t` a look of the timeout checker after every hold time has expired
    let parse (t : String) : Option Keeper.Op :=
      if t == "p" then some .prepare else if t == "x" then some .fail else if t == "t" then some .tick
      else if t.startsWith "b" then (sdrop t 1).toNat?.map .begin
      else if t.startsWith "f" then (sdrop t 1).toNat?.map .finish
      else none
    match toks.mapM parse with
    | none => "bad-op"
    | some ops =>
      let r := Keeper.run {} ops
      let ks := (Keeper.kept r).map toString
      s!"kept={if ks.isEmpty then "-" else ",".intercalate ks} closed={if r.closed then 1 else 0}"
  | ["id", xid, br] =>
    match br.toNat? with
    | none => "bad-id"
    | some b =>
      let idt := xaId xid.toList b
      match splitLast idt with
      | some (x, d) => s!"{String.ofList idt} {String.ofList x} {String.ofList d}"
      | none => "nosplit"
  | _ => "bad-op"

end Seata.Driver.C17
