import SeataModel.Driver.Util
import SeataModel.TM.Propagation
namespace Seata.Driver.C07
open Seata.TM.Prop Seata.Driver

def modeOf : Char → Option Mode
  | 'R' => some .required | 'N' => some .requiresNew | 'X' => some .notSupported
  | 'S' => some .supports | 'V' => some .never | 'M' => some .mandatory | _ => none

/-- prog := scope* ; scope := Mode ('+'|'-') digits '[' prog ']' -/
def parseProg : Nat → List Char → Option (Prog × List Char)
  | 0, _ => none
  | fuel+1, cs =>
    match cs with
    | [] => some (.done, [])
    | ']' :: _ => some (.done, cs)
    | m :: s :: rest =>
      match modeOf m with
      | none => none
      | some mode =>
        let ok := s == '+'
        let digits := rest.takeWhile Char.isDigit
        let after := rest.dropWhile Char.isDigit
        match (String.ofList digits).toNat?, after with
        | some id, '[' :: r1 =>
          match parseProg fuel r1 with
          | some (body, ']' :: r2) =>
            match parseProg fuel r2 with
            | some (next, r3) => some (.scope mode ok id body next, r3)
            | none => none
          | _ => none
        | _, _ => none
    | _ => none

def showXid : Option Nat → String | none => "-" | some x => toString x
def showRole : Role → String | .unknown => "U" | .launcher => "L" | .participant => "P"
def showEv : Ev → String
  | .begin s x => s!"B{s}:{x}"
  | .commit x => s!"c{x}"
  | .rollback x => s!"r{x}"
  | .enter s x => s!"E{s}:{showXid x}"
  | .exit s v => s!"X{s}:{showXid v.xid}/{showRole v.role}/{showXid v.name}"
  | .refuse s => s!"F{s}"

def handle (ws : List String) : String :=
  match ws with
  | ["run", sh, prog] =>
    let sharing := if sh == "fresh" then Sharing.fresh else Sharing.shared
    match parseProg (prog.length + 2) prog.toList with
    | some (p, []) =>
      let st := run sharing p { var := {}, next := 0, trace := [] }
      joinSp (st.trace.map showEv)
    | _ => "bad-op"
  | ["carry", _] =>
    -- a carried xid arrives unchanged and the callee's Required scope joins it: one fresh scope on a
    -- context carrying xid 0 emits no begin/commit/rollback (C07_callee_never_ends)
    let st := run .fresh (.scope .required true 1 .done .done) { var := { xid := some 0 }, next := 1, trace := [] }
    let reqs := st.trace.filter fun e => match e with | .begin _ _ => true | .commit _ => true | .rollback _ => true | _ => false
    s!"arrived=true role=Participant coordinator-requests={reqs.length}"
  | _ => "bad-op"

end Seata.Driver.C07
