import SeataModel.Driver.Util
import SeataModel.TCC.Action
namespace Seata.Driver.C05
open Seata.TCC Seata.Driver

def insertKV (a : String × String) : List (String × String) → List (String × String)
  | [] => [a]
  | b :: r => if a.1 ≤ b.1 then a :: b :: r else b :: insertKV a r

def showCtx (m : List (String × String)) : String :=
  if m.isEmpty then "-" else ",".intercalate ((m.foldr insertKV []).map fun (k, v) => s!"{k}={v}")

def parseField (t : String) : Option Field :=
  match t.splitOn ":" with
  | ["f", e, tag, val] => some { exported := e == "e", tag := if tag == "-none-" then "" else tag, value := val }
  | _ => none

structure ReqTok where
  msgId : Nat
  commit : Bool
  resource : String
  data : String
  user : Seata.TCC.UserOutcome

def parseReq (t : String) : Option ReqTok :=
  match t.splitOn ":" with
  | ["q", mid, k, res, d, uf] => mid.toNat?.map fun m => { msgId := m, commit := k == "C", resource := res, data := d, user := if uf == "1" then .fails else if uf == "2" then .alreadyApplied else .ok }
  | _ => none

def showEv : Ev → String
  | .register res ctx => s!"reg:{res}:{showCtx ctx}"
  | .tryRun => "try"
  | .invoke c x b ctx => s!"inv:{if c then "C" else "R"}:{x}:{b}:{match ctx with | some m => showCtx m | none => "nil"}"
  | .respond i c x b s => s!"resp:{i}:{if c then "C" else "R"}:{x}:{b}:{if s then "ok" else "failed"}"

/-- `tcc <action> <ok|refused|transport> <known actions, comma> f:… f:… q:… q:…` -/
def handle (ws : List String) : String :=
  match ws with
  | "tcc" :: action :: reg :: knownS :: rest =>
    let fields := rest.filterMap parseField
    let reqs := rest.filterMap parseReq
    let regO := if reg == "ok" then RegOutcome.ok 1 else if reg == "refused" then .refused else .transport
    let (tr, ran) := prepare action fields regO
    let cap := captured fields
    let registered := knownS.splitOn ","
    let p2 := phaseTwoAll registered (reqs.map fun q =>
      { msgId := q.msgId, commit := q.commit, xid := "X", branchId := 1, resource := q.resource,
        data := (match q.data with | "c" => AppData.ctx cap | "e" => .empty | "n" => .noKey | _ => .malformed),
        user := q.user })
    let _ := ran
    joinSp ((tr ++ p2).map showEv)
  | _ => "bad-op"

end Seata.Driver.C05
