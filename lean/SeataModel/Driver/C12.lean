import SeataModel.Driver.Util
import SeataModel.Codec.V1Table
namespace Seata.Driver.C12
open Seata Seata.Codec Seata.Driver

def parseVal (s : String) : Option FVal :=
  if s.startsWith "n:" then (sdrop s 2).toNat?.map .nat
  else if s.startsWith "i:" then (parseInt? (sdrop s 2)).map .int
  else if s.startsWith "b:" then (ofHex (sdrop s 2)).map .bytes
  else if s.startsWith "t:" then some (.bool (sdrop s 2 == "1"))
  else none

def showVal : FVal → String
  | .nat n => s!"n:{n}"
  | .int i => s!"i:{i}"
  | .bytes b => s!"b:{hexOrDash b}"
  | .bool b => if b then "t:1" else "t:0"

def showVals (vs : List FVal) : String := joinSp (vs.map showVal)

/-- `enc <Kind> vals…`  →  `<hex> | <normalised vals> | within=<0/1>`
    `dec <hex>`         →  `<Kind> vals… | rest=<n>`  or `none` -/
def handle (ws : List String) : String :=
  match ws with
  | "enc" :: kn :: vals =>
    match MsgKind.ofName kn, vals.mapM parseVal with
    | some k, some vs =>
      let bs := encodeMsg k vs
      let w := within (v1 k) vs
      s!"{toHex bs} | {if w then showVals (normalize false (v1 k) vs) else "-"} | within={if w then 1 else 0}"
    | _, _ => "bad-op"
  | ["dec", hx] =>
    match ofHex hx with
    | none => "bad-op"
    | some bs =>
      match decodeMsg bs with
      | none => "none"
      | some (k, vs, r) => s!"{k.name} {showVals vs} | rest={r.length}"
  | ["reg", kn] =>
    match MsgKind.ofName kn with
    | some k => if k ∈ registered then s!"{k.name}={typeCode k}" else s!"{k.name} unregistered"
    | none => "bad-op"
  | ["table"] =>
    joinSp (MsgKind.all.map fun k => s!"{k.name}={typeCode k}")
  | _ => "bad-op"

end Seata.Driver.C12
