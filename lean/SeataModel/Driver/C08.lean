import SeataModel.Driver.Util
import SeataModel.UndoLog.Log
namespace Seata.Driver.C08
open Seata Seata.UndoLog Seata.Driver

def parseVal (s : String) : Option GoVal :=
  if s == "nil" then some .nil
  else if s.startsWith "i:" then (parseInt? (sdrop s 2)).map .int
  else if s.startsWith "f:" then
    match (sdrop s 2).splitOn ":" with
    | [t, f] => t.toNat?.map fun n => .float n (f == "1")
    | _ => none
  else if s.startsWith "s:" then (ofHex (sdrop s 2)).map .str
  else if s.startsWith "b:" then (ofHex (sdrop s 2)).map .bytes
  else if s.startsWith "t:" then (parseInt? (sdrop s 2)).map .time
  else none

def showVal : GoVal → String
  | .nil => "nil"
  | .int i => s!"i:{i}"
  | .float t _ => s!"f:{t}"
  | .f32 t => s!"g:{t}"
  | .str s => s!"s:{hexOrDash s}"
  | .bytes b => s!"b:{hexOrDash b}"
  | .time ns => s!"t:{ns}"

def insertKV (a : Bytes × Bytes) : List (Bytes × Bytes) → List (Bytes × Bytes)
  | [] => [a]
  | b :: r => if toHex a.1 ++ "=" ++ toHex a.2 ≤ toHex b.1 ++ "=" ++ toHex b.2 then a :: b :: r else b :: insertKV a r

/-- `col <json|protobuf> <jdbc> <val>` → `<decoded|panic|error> eq=<0/1> supported=<0/1>`
    `ctx k=v,k=v` (hex) → decoded pairs, sorted -/
def handle (ws : List String) : String :=
  match ws with
  | ["col", ser, jdbc, val] =>
    let s := if ser == "protobuf" then Serializer.protobuf else Serializer.json
    match parseInt? jdbc, parseVal val with
    | some j, some v =>
      let sup := if supported s j v then 1 else 0
      match roundtripVal s j v with
      | .ok v' => s!"{showVal v'} eq={if undoEq v' v then 1 else 0} supported={sup}"
      | .error .panic => s!"panic eq=0 supported={sup}"
      | .error .error => s!"error eq=0 supported={sup}"
    | _, _ => "bad-op"
  | ["ctx", pairs] =>
    let ps : Option (List (Bytes × Bytes)) :=
      if pairs == "-" then some []
      else (pairs.splitOn ",").mapM fun e =>
        match e.splitOn "=" with
        | [k, v] => do let kb ← ofHex k; let vb ← ofHex v; pure (kb, vb)
        | _ => none
    match ps with
    | none => "bad-op"
    | some m =>
      let d := (decodeCtx (encodeCtx m)).foldr insertKV []
      if d.isEmpty then "-" else ",".intercalate (d.map fun (k, v) => s!"{hexOrDash k}={hexOrDash v}")
  | _ => "bad-op"

end Seata.Driver.C08
