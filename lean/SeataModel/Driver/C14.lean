import SeataModel.Driver.Util
import SeataModel.Remoting.Futures
namespace Seata.Driver.C14
open Seata.Futures Seata.Driver

/-- events: s<i> send ok, w<i> send with write error, r<i> reply to caller i's request, t<i> caller
    i's wait expires, x<k> SendAsyncResponse under server id 900+k, h heart-beat, c connection lost -/
def parseEv (t : String) : Option Ev :=
  let n := (sdrop t 1).toNat?
  match t.toList.head?, n with
  | some 's', some i => some (.send i (100 + i) true)
  | some 'w', some i => some (.send i (100 + i) false)
  | some 'r', some i => some (.reply (100 + i))
  | some 't', some i => some (.timeout i)
  | some 'x', some k => some (.respond (900 + k))
  | some 'h', _ => some .heartbeat
  | some 'c', _ => some .close
  | _, _ => none

def showRes (n : Nat) (st : State) : String :=
  let per := (List.range n).map fun i0 =>
    let i := i0 + 1
    match st.results.find? (fun p => p.1 == i) with
    | some (_, .reply id) => if id == 100 + i then s!"c{i}=own" else s!"c{i}=foreign({id})"
    | some (_, .timeout) => s!"c{i}=timeout"
    | some (_, .writeError) => s!"c{i}=write-error"
    | none => s!"c{i}=pending"
  joinSp per ++ s!" residue={st.table.length} blocked={st.blocked}"

def handle (ws : List String) : String :=
  match ws with
  | "sched" :: n :: evs =>
    match n.toNat?, evs.mapM parseEv with
    | some n, some es => showRes n (run es)
    | _, _ => "bad-op"
  | _ => "bad-op"

end Seata.Driver.C14
