import SeataModel.Driver.Util
import SeataModel.Remoting.Dispatch
namespace Seata.Driver.C15
open Seata.Dispatch Seata.Driver

structure Tok where
  req : Request
  out : Option Outcome      -- none = no manager registered for the branch type

def parseTok (t : String) : Option Tok :=
  match t.splitOn "," with
  | [k, mid, xid, bid, bt, res, oc] =>
    let kind := if k == "C" then Kind.commit else Kind.rollback
    let out : Option (Option Outcome) :=
      if oc == "e" then some (some .error)
      else if oc == "n" then some none
      else if oc.startsWith "s" then (sdrop oc 1).toNat?.map fun s => some (.status s)
      else none
    match mid.toNat?, parseInt? bid, parseInt? bt, out with
    | some mid, some bid, some bt, some out =>
      some { req := { kind := kind, msgId := mid, xid := xid, branchId := bid, branchType := bt, resource := res }, out := out }
    | _, _, _, _ => none
  | _ => none

def insertResp (a : Response) : List Response → List Response
  | [] => [a]
  | b :: r => if a.msgId ≤ b.msgId then a :: b :: r else b :: insertResp a r

def showResp (r : Response) : String :=
  s!"{if r.kind == .commit then "C" else "R"},{r.msgId},{r.xid},{r.branchId},{r.status}"

def handle (ws : List String) : String :=
  match ws with
  | "stream" :: toks =>
    match toks.mapM parseTok with
    | none => "bad-op"
    | some ts =>
      -- the registry of the case: a manager exists unless some request of that type says `n`;
      -- a manager's answer for a request is the outcome scripted for it
      let reg : Registry :=
        { has := fun t => !(ts.any fun k => k.req.branchType == t && k.out.isNone),
          answer := fun _ r => match ts.find? (fun k => k.req.msgId == r.msgId) with
            | some k => k.out.getD .error
            | none => .error }
      let resps := (processAll reg (ts.map (·.req))).foldr insertResp []
      if resps.isEmpty then "-" else joinSp (resps.map showResp)
  | ["asked", sess, xid] =>
    -- sessions to several coordinators are open; a commit request arrives on session `sess` for a branch whose
    -- manager answers with a status: on which session does the reply go out?
    match sess.toNat? with
    | none => "bad-op"
    | some n =>
      let r : Request := { kind := .commit, msgId := 1, xid := xid, branchId := 9, branchType := 1, resource := "res0", session := n }
      let reg : Registry := { has := fun _ => true, answer := fun _ _ => .status 0 }
      match process reg r with
      | [resp] => if resp.session == n then "answered-on=asker" else "answered-on=other"
      | _ => "answered-on=none"
  | _ => "bad-op"

end Seata.Driver.C15
