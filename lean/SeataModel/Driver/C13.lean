import SeataModel.Driver.Util
import SeataModel.Codec.Frame
namespace Seata.Driver.C13
open Seata Seata.Codec Seata.Frame Seata.Driver

def parseHM (s : String) : Option (List (Bytes × Bytes)) :=
  if s == "-" then some []
  else (s.splitOn ",").mapM fun e =>
    match e.splitOn "=" with
    | [k, v] => do
      let kb ← ofHex k
      let vb ← ofHex v
      pure (kb, vb)
    | _ => none

def bytesLt : Bytes → Bytes → Bool
  | [], [] => false
  | [], _ => true
  | _, [] => false
  | a :: r, b :: s => a < b || (a == b && bytesLt r s)

def insertSorted (e : Bytes × Bytes) : List (Bytes × Bytes) → List (Bytes × Bytes)
  | [] => [e]
  | x :: r => if bytesLt e.1 x.1 || (e.1 == x.1 && bytesLt e.2 x.2) then e :: x :: r else x :: insertSorted e r

def sortHM (l : List (Bytes × Bytes)) : List (Bytes × Bytes) := l.foldl (fun acc e => insertSorted e acc) []

def showHM (l : List (Bytes × Bytes)) : String :=
  if l.isEmpty then "-" else ",".intercalate ((sortHM l).map fun (k, v) => s!"{hexOrDash k}={hexOrDash v}")

def showMsg (garbage : Bool) (m : RpcMsg) : String :=
  if garbage then s!"{m.id}:{m.type}:{m.codec}:{m.comp}"
  else s!"{m.id}:{m.type}:{m.codec}:{m.comp}:{showHM m.head}:{hexOrDash m.body}"

/-- did the stream end on a head-map irregularity (the only place where the contract model is
    stricter than the implementation on non-frame bytes)? -/
def hmIrregular (bs : Bytes) : Bool :=
  if !magicOK bs || bs.length < 16 then false
  else
    let total := field bs 3 4
    let hl := field bs 7 2
    if hl < 16 || total < hl || bs.length < total then false
    else (decodeHM (hl - 16) ((bs.drop 16).take (hl - 16))).isNone

def showState (garbage : Bool) (s : RxState) : String :=
  let ms := if s.delivered.isEmpty then "-" else ";".intercalate (s.delivered.map (showMsg garbage))
  let tail := if s.closed && hmIrregular s.buf then " hm-irregular" else ""
  s!"msgs={ms} rest={s.buf.length} closed={if s.closed then 1 else 0}{tail}"

def handle (ws : List String) : String :=
  match ws with
  | ["write", id, ty, co, cm, hm, body] =>
    match id.toNat?, ty.toNat?, co.toNat?, cm.toNat?, parseHM hm, ofHex body with
    | some id, some ty, some co, some cm, some hm, some body =>
      toHex (writeFrame { id := id, type := ty, codec := co, comp := cm, head := hm, body := body })
    | _, _, _, _, _, _ => "bad-op"
  | "feed" :: chunks =>
    match chunks.mapM ofHex with
    | some cs => showState false (feed cs)
    | none => "bad-op"
  | "feedg" :: chunks =>
    match chunks.mapM ofHex with
    | some cs => showState true (feed cs)
    | none => "bad-op"
  | _ => "bad-op"

end Seata.Driver.C13
