import SeataModel.Driver.Util
import SeataModel.Remoting.LoadBalance
import SeataModel.Props.C19
namespace Seata.Driver.C19
open Seata.LB Seata.Driver

def policyOf : String → Option Policy
  | "RandomLoadBalance" => some .random | "XID" => some .xid | "RoundRobinLoadBalance" => some .roundRobin
  | "LeastActiveLoadBalance" => some .leastActive | "ConsistentHashLoadBalance" => some .consistentHash
  | _ => some .random      -- unknown spellings fall back to random (loadbalance.Select default)

def parseOp (t : String) : Option Op :=
  match t.splitOn "@" with
  | ["o", id, addr] => id.toNat?.map fun i => .open_ i addr
  | ["c", id] => id.toNat?.map .close
  | ["r", id] => id.toNat?.map .release
  | ["b", addr, n] => n.toNat?.map fun k => .busy addr k
  | ["s", p, xid] => (policyOf p).map fun q => .select q xid
  | ["s", p] => (policyOf p).map fun q => .select q ""
  | _ => none

def insertNat (a : Nat) : List Nat → List Nat
  | [] => [a]
  | b :: r => if a ≤ b then a :: b :: r else b :: insertNat a r

def showSet (ss : List Sess) : String :=
  if ss.isEmpty then "nil" else "{" ++ ",".intercalate ((ss.map (·.id)).foldr insertNat [] |>.map toString) ++ "}"

/-- `hist op op …` → for every select, the set of sessions the policy may return in that state -/
def handle (ws : List String) : String :=
  match ws with
  | "hist" :: toks =>
    match toks.mapM parseOp with
    | none => "bad-op"
    | some ops =>
      let (_, outs) := ops.foldl (fun (acc : State × List String) op =>
        let (st, outs) := acc
        let outs' := match op with
          | .select p xid => outs ++ [showSet (allowed p st xid)]
          | _ => outs
        (step st op, outs')) ({}, [])
      joinSp outs
  | ["reconnect", names, point] =>
    -- what the client announces on a new session (listener.go OnOpen + the rm hook), and both directions
    -- working again; the resource managers' announcements are compared as a sorted list (sync.Map order)
    let resources := Seata.LB.sortStrings (names.splitOn ",")
    let ann := (Seata.Props.C19.announce resources).map fun a =>
      match a with | .tm => "TM" | .rm r => s!"RM({r})"
    s!"announce={",".intercalate ann} begin=ok phase2={if point == "between-phases" then "ok" else "n/a"}"
  | "waitx" :: p :: xid :: ticks =>
    -- a request that waits under a policy: every further token is the registry at one tick, `-` for empty or
    -- `id@addr@o|c` joined by commas
    let parseSess (t : String) : Option Sess :=
      match t.splitOn "@" with
      | [id, addr, fl] => id.toNat?.map fun i => { id := i, addr := addr, closed := fl == "c" }
      | _ => none
    let parseTick (t : String) : Option (List Sess) := if t == "-" then some [] else (t.splitOn ",").mapM parseSess
    match policyOf p, ticks.mapM parseTick with
    | some q, some regs => showSet (waitAllowed q (if xid == "-" then "" else xid) regs)
    | _, _ => "bad-op"
  | ["wait", n] =>
    -- a request waiting while no session is open: n closed sessions appear in the registry, later an open one
    let dead := (List.range (n.toNat?.getD 0)).map fun i => ({ id := 7000 + i, addr := "a:1", closed := true } : Sess)
    match waitPick [[], dead, [], [], [{ id := 1, addr := "a:1", closed := false }]] with
    | none => "nil"
    | some s => if s.closed then "closed" else "open"
  | _ => "bad-op"

end Seata.Driver.C19
