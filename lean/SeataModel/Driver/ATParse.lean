/- Parser for the AT case language of the harness (glue, not used in theorems). -/
import SeataModel.Driver.Util
import SeataModel.AT.Phase1
namespace Seata.Driver.ATParse
open Seata Seata.DB Seata.AT Seata.Driver

abbrev P (α : Type) := List Char → Option (α × List Char)

def pNat : P Nat := fun cs =>
  let ds := cs.takeWhile Char.isDigit
  if ds.isEmpty then none else (String.ofList ds).toNat?.map fun n => (n, cs.dropWhile Char.isDigit)

def pInt : P Int := fun cs =>
  match cs with
  | '-' :: r => (pNat r).map fun (n, r') => (-(n : Int), r')
  | _ => (pNat cs).map fun (n, r') => ((n : Int), r')

def pChar (c : Char) : P Unit := fun cs => match cs with | x :: r => if x == c then some ((), r) else none | [] => none

/-- val := 'N.' | 'i' int '.' | 's' hex '.' -/
def pVal : P Val := fun cs =>
  match cs with
  | 'N' :: '.' :: r => some (.null, r)
  | 'A' :: '.' :: r => some (.str [255, 65, 85, 84, 79], r)   -- "the database assigns the next auto-increment value"
  | 'i' :: r => match pInt r with
    | some (i, '.' :: r') => some (.int i, r')
    | _ => none
  | 's' :: r =>
    let hs := r.takeWhile (· != '.')
    match ofHex (String.ofList (if hs.isEmpty then ['-'] else hs)), r.dropWhile (· != '.') with
    | some b, '.' :: r' => some (.str b, r')
    | _, _ => none
  | _ => none

/-- expr := 'c' nat '.' | 'a' nat '.' | 'l' val -/
def pExpr : P Expr := fun cs =>
  match cs with
  | 'c' :: r => match pNat r with | some (n, '.' :: r') => some (.col n, r') | _ => none
  | 'a' :: r => match pNat r with | some (n, '.' :: r') => some (.par n, r') | _ => none
  | 'l' :: r => (pVal r).map fun (v, r') => (.lit v, r')
  | _ => none

def pMany {α : Type} (p : P α) : Nat → P (List α)
  | 0 => fun cs => some ([], cs)
  | n+1 => fun cs => match p cs with
    | none => none
    | some (a, r) => match pMany p n r with
      | none => none
      | some (as, r') => some (a :: as, r')

def opOf : Char → Option CmpOp
  | 'e' => some .eq | 'n' => some .ne | 'l' => some .lt | 'm' => some .le | 'g' => some .gt | 'h' => some .ge | _ => none

def pCond : Nat → P Cond
  | 0 => fun _ => none
  | f+1 => fun cs =>
    match cs with
    | 'T' :: r => some (.tt, r)
    | 'C' :: o :: r =>
      match opOf o, pExpr r with
      | some op, some (a, r1) => (pExpr r1).map fun (b, r2) => (.cmp op a b, r2)
      | _, _ => none
    | 'A' :: r => match pCond f r with
      | some (a, r1) => (pCond f r1).map fun (b, r2) => (.and a b, r2)
      | none => none
    | 'O' :: r => match pCond f r with
      | some (a, r1) => (pCond f r1).map fun (b, r2) => (.or a b, r2)
      | none => none
    | '!' :: r => (pCond f r).map fun (a, r1) => (.not a, r1)
    | 'P' :: r => (pCond f r).map fun (a, r1) => (.paren a, r1)
    | 'Z' :: r => (pExpr r).map fun (e, r1) => (.isNull e, r1)
    | 'B' :: r => match pExpr r with
      | some (e, r1) => match pExpr r1 with
        | some (lo, r2) => (pExpr r2).map fun (hi, r3) => (.between e lo hi, r3)
        | none => none
      | none => none
    | 'I' :: r => match pExpr r with
      | some (e, r1) => match pNat r1 with
        | some (n, ':' :: r2) => (pMany pExpr n r2).map fun (l, r3) => (.inList e l, r3)
        | _ => none
      | none => none
    | _ => none

def pSet : P (Nat × SetE) := fun cs =>
  match pNat cs with
  | some (c, ':' :: 'v' :: r) => (pExpr r).map fun (e, r') => ((c, .val e), r')
  | some (c, ':' :: 'p' :: r) => match pNat r with
    | some (c2, ':' :: r1) => (pExpr r1).map fun (e, r') => ((c, .plus c2 e), r')
    | _ => none
  | _ => none

/-- upsert assignment := col ':V' | col ':l' val -/
def pUpAssign : P (Nat × UpSrc) := fun cs =>
  match pNat cs with
  | some (c, ':' :: 'V' :: r) => some ((c, .values), r)
  | some (c, ':' :: 'l' :: r) => (pVal r).map fun (v, r') => ((c, .lit v), r')
  | _ => none

/-- order item := col ('a' | 'd') -/
def pOrdItem : P (Nat × Bool) := fun cs =>
  match pNat cs with
  | some (c, 'a' :: r) => some ((c, false), r)
  | some (c, 'd' :: r) => some ((c, true), r)
  | _ => none

/-- 'o' k ':' item* 'n' lim '.' -/
def pOrdLim : P (List (Nat × Bool) × Nat) := fun cs =>
  match cs with
  | 'o' :: r => match pNat r with
    | some (k, ':' :: r1) => match pMany pOrdItem k r1 with
      | some (items, 'n' :: r2) => match pNat r2 with
        | some (lim, '.' :: r3) => some ((items, lim), r3)
        | _ => none
      | _ => none
    | _ => none
  | _ => none

def pArgs : P Args := fun cs =>
  match cs with
  | 'G' :: r => match pNat r with
    | some (n, ':' :: r1) => pMany pVal n r1
    | _ => none
  | _ => none

/-- stmt := 'U' n ':' set* cond | 'D' cond | 'X' nrows ':' ncols ':' expr* ; followed by args -/
def pStmt : P (Stmt × Args) := fun cs =>
  let body : Option (Stmt × List Char) :=
    match cs with
    | 'U' :: r => match pNat r with
      | some (n, ':' :: r1) => match pMany pSet n r1 with
        | some (sets, r2) => (pCond (r2.length + 2) r2).map fun (w, r3) => (.update sets w, r3)
        | none => none
      | _ => none
    | 'D' :: r => (pCond (r.length + 2) r).map fun (w, r1) => (.delete w, r1)
    | 'W' :: r => match pNat r with          -- UPDATE … ORDER BY … LIMIT
      | some (n, ':' :: r1) => match pMany pSet n r1 with
        | some (sets, r2) => match pCond (r2.length + 2) r2 with
          | some (w, r3) => (pOrdLim r3).map fun ((ord, lim), r4) => (.updateLim sets w ord lim, r4)
          | none => none
        | none => none
      | _ => none
    | 'K' :: r => match pCond (r.length + 2) r with   -- DELETE … ORDER BY … LIMIT
      | some (w, r1) => (pOrdLim r1).map fun ((ord, lim), r2) => (.deleteLim w ord lim, r2)
      | none => none
    | 'X' :: r => match pNat r with
      | some (nr, ':' :: r1) => match pNat r1 with
        | some (nc, ':' :: r2) => (pMany (pMany pExpr nc) nr r2).map fun (rows, r3) => (.insert rows, r3)
        | _ => none
      | _ => none
    | 'Y' :: r => match pNat r with       -- 'Y' nrows ':' ncols ':' expr* 'A' n ':' assign*
      | some (nr, ':' :: r1) => match pNat r1 with
        | some (nc, ':' :: r2) => match pMany (pMany pExpr nc) nr r2 with
          | some (rows, 'A' :: r3) => match pNat r3 with
            | some (na, ':' :: r4) => (pMany pUpAssign na r4).map fun (asg, r5) => (.upsert rows asg, r5)
            | _ => none
          | _ => none
        | _ => none
      | _ => none
    | _ => none
  match body with
  | none => none
  | some (s, r) => (pArgs r).map fun (a, r') => ((s, a), r')

def parseStmt (tok : String) : Option (Stmt × Args) :=
  -- a leading `!` marks a statement the database is made to fail
  match tok.toList with
  | '!' :: rest =>
    (match pStmt rest with
     | some ((s, a), []) => some (.failing s, a)
     | _ => none)
  | cs =>
    match pStmt cs with
    | some (x, []) => some x
    | _ => none

def parseRow (tok : String) : Option Row :=
  -- r:<val><val>…
  if !tok.startsWith "r:" then none
  else
    let cs := (sdrop tok 2).toList
    let rec go (fuel : Nat) (cs : List Char) (acc : Row) : Option Row :=
      match fuel with
      | 0 => none
      | f+1 => if cs.isEmpty then some acc.reverse else match pVal cs with
        | some (v, r) => go f r (v :: acc)
        | none => none
    go (cs.length + 1) cs []

def parseSchema (tok : String) : Option Schema :=
  match tok.splitOn ":" with
  | [n, pk] => match n.toNat?, (pk.splitOn ",").mapM String.toNat? with
    | some n, some pks => some { ncols := n, pk := pks }
    | _, _ => none
  | _ => none

def showVal : Val → String
  | .null => "N"
  | .int i => s!"i{i}"
  | .str s => s!"s{hexOrDash s}"

def showRow (r : Row) : String := ",".intercalate (r.map showVal)

def insertStr (a : String) : List String → List String
  | [] => [a]
  | b :: r => if a ≤ b then a :: b :: r else b :: insertStr a r
def sortStrs (l : List String) : List String := l.foldr insertStr []

def showTable (t : Table) : String :=
  if t.isEmpty then "-" else ";".intercalate (sortStrs (t.map showRow))

def showKey (k : Key) : String := "_".intercalate (k.map fun v => match v with | .null => "<nil>" | .int i => toString i | .str s => String.ofList (s.map fun b => Char.ofNat b.toNat))

def showKeys (ks : List Key) : String :=
  if ks.isEmpty then "-" else ",".intercalate (sortStrs (ks.map showKey)).eraseDups

end Seata.Driver.ATParse
