import SeataModel.Driver.Util
import SeataModel.AT.Atomic
import SeataModel.AT.Conn
namespace Seata.Driver.C02
open Seata.AT.Atomic Seata.Driver

def parseEv : String → Option Ev
  | "B" => some .begin | "q" => some .sel | "x" => some .biz | "g" => some .register
  | "u" => some .undo | "C" => some .commit | "R" => some .rollback
  | "p1" => some (.report true true) | "p0" => some (.report false true)
  | _ => none

def showEv : Ev → String
  | .begin => "B" | .sel => "q" | .biz => "x" | .register => "g" | .undo => "u" | .commit => "C" | .rollback => "R"
  | .report ok d => s!"p{if ok then 1 else 0}{if d then "" else "!"}"
  | .failed e => match e with
    | .begin => "B!" | .sel => "q!" | .biz => "x!" | .register => "g!" | .undo => "u!" | .commit => "C!" | .rollback => "R!"
    | _ => "?!"

/-- `s:<g>:<beginFails>` a statement, `b:<g>:<fails>` BeginTx, `e` tx.Commit / tx.Rollback (g: the call's context
    carries the global transaction) -/
def parseConnOp (t : String) : Option Seata.AT.Conn.Op :=
  let bit (x : String) : Option Bool := if x == "1" then some true else if x == "0" then some false else none
  match t.splitOn ":" with
  | ["e"] => some .end_
  | ["s", g, f] => match bit g, bit f with | some g, some f => some (.stmt g f) | _, _ => none
  | ["b", g, f] => match bit g, bit f with | some g, some f => some (.begin g f) | _, _ => none
  | _ => none

/-- `p1 <fault: none|db:k|reg:refused|reg:transport> <lost> <clean tokens…>` ; `atconn <op>…` -/
def handle (ws : List String) : String :=
  match ws with
  | "p1" :: fs :: lost :: toks =>
    let f : Option Fault :=
      if fs == "none" then some .none
      else if fs == "reg:refused" then some .regRefused
      else if fs == "reg:transport" then some .regTransport
      else if fs.startsWith "db:" then (sdrop fs 3).toNat?.map .db
      else none
    match f, lost.toNat?, toks.mapM parseEv with
    | some f, some l, some clean =>
      let o := run clean f l
      let d := exec o.trace
      s!"{joinSp (o.trace.map showEv)} | durable={if d.durBiz > 0 then 1 else 0} undo={if d.durUndo > 0 then 1 else 0} err={if o.error then 1 else 0} open={if d.inTx then 1 else 0} wf={if wfb clean then 1 else 0}"
    | _, _, _ => "bad-op"
  | "atconn" :: toks =>
    -- a connection over a sequence of statements and local transactions: for every statement at the database,
    -- belongs to a global transaction / inside a local transaction / recorded
    match toks.mapM parseConnOp with
    | none => "bad-op"
    | some ops =>
      let seen := (Seata.AT.Conn.crun Seata.AT.Conn.cstep {} ops).2
      let b (x : Bool) := if x then "1" else "0"
      if seen.isEmpty then "seen=-" else s!"seen={",".intercalate (seen.map fun x => b x.belongs ++ b x.inTx ++ b x.recorded)}"
  | _ => "bad-op"

end Seata.Driver.C02
