/-
  Propagation of global-transaction scopes.  `run` follows the code (pkg/tm/transaction_executor.go:
  WithGlobalTx, begin, useExistGtx, clearTxConf, commitOrRollback; pkg/tm/context.go: one mutable
  ContextVariable per context) threading the context variable through nested and sequential scopes;
  `spec` is the documented semantics written with lexical scoping and no mutable variable.
-/
namespace Seata.TM.Prop

inductive Mode | required | requiresNew | notSupported | supports | never | mandatory
  deriving Repr, DecidableEq
inductive Role | unknown | launcher | participant
  deriving Repr, DecidableEq

/-- A program: a sequence of scopes; each scope has a mode, the outcome of its own callback, a body
    (the scopes its callback opens, in order) and is followed by its later siblings. -/
inductive Prog
  | done
  | scope (mode : Mode) (ok : Bool) (id : Nat) (body : Prog) (next : Prog)
  deriving Repr

/-- the context variable (tm.ContextVariable.GlobalTransaction): xid, role, transaction name -/
structure Var where
  xid : Option Nat := none
  role : Role := .unknown
  name : Option Nat := none
  deriving Repr, DecidableEq

inductive Ev
  | begin (scope xid : Nat)                       -- GlobalBegin sent for `scope`, coordinator answered `xid`
  | commit (xid : Nat)
  | rollback (xid : Nat)
  | enter (scope : Nat) (xid : Option Nat)        -- xid visible inside the callback
  | exit (scope : Nat) (v : Var)                  -- context variable once the scope has returned
  | refuse (scope : Nat)                          -- Mandatory/Never precondition unmet: callback not run
  deriving Repr, DecidableEq

inductive Sharing | shared | fresh              -- local call on the same context / remote call: new context carrying the xid
  deriving Repr, DecidableEq

structure St where
  var : Var
  next : Nat            -- next xid the coordinator hands out
  trace : List Ev
  deriving Repr

/-- what `begin(ctx, gc)` does to the (already cleared) variable: error, or new variable with an
    optional new transaction -/
inductive BeginRes
  | refuse
  | cont (v : Var) (began : Bool)

def beginAsCoded (m : Mode) (id : Nat) (v : Var) (next : Nat) : BeginRes :=
  let useExist : Var := { xid := v.xid, role := .participant, name := some id }
  let newTx : Var := { xid := some next, role := .launcher, name := some id }
  match m, v.xid with
  | .notSupported, _ => .cont { v with xid := none } false           -- UnbindXid
  | .supports, some _ => .cont useExist false
  | .supports, none => .cont v false
  | .requiresNew, _ => .cont newTx true                              -- UnbindXid; beginNewGtx
  | .required, some _ => .cont useExist false
  | .required, none => .cont newTx true
  | .never, some _ => .refuse
  | .never, none => .cont v false
  | .mandatory, some _ => .cont useExist false
  | .mandatory, none => .refuse

/-- second phase from the variable as it is when the callback has returned -/
def secondPhase (v : Var) (ok : Bool) : List Ev :=
  match v.xid, v.role with
  | some x, .launcher => [if ok then .commit x else .rollback x]
  | _, _ => []

/-- clearTxConf: keep the xid, forget role and name -/
def clearConf (v : Var) : Var := if v.xid.isSome then { xid := v.xid } else v

/-- the callee's context in a remote call: a new variable carrying only the xid -/
def carried (v : Var) : Var := { xid := v.xid }

/-- The code at HEAD: one mutable variable threaded through; each scope restores, when it ends, the
    variable it found on entry (the `fix:` commit). -/
def run (sh : Sharing) : Prog → St → St
  | .done, st => st
  | .scope m ok id body next, st =>
    let entry := st.var
    let start := match sh with | .shared => entry | .fresh => carried entry
    let st1 : St :=
      match beginAsCoded m id (clearConf start) st.next with
      | .refuse => { st with trace := st.trace ++ [.refuse id] }
      | .cont v began =>
        let tr := st.trace ++ (if began then [.begin id st.next] else []) ++ [.enter id v.xid]
        let inner := run sh body { var := v, next := if began then st.next + 1 else st.next, trace := tr }
        { inner with trace := inner.trace ++ secondPhase inner.var ok }
    -- restore the caller's variable (shared) / the caller's own context was never touched (fresh)
    let st2 : St := { var := entry, next := st1.next, trace := st1.trace ++ [.exit id entry] }
    run sh next st2

/-- The shape at c3b0bd5 for a shared context: nothing is restored. -/
def runAsCoded_c3b0bd5 : Prog → St → St
  | .done, st => st
  | .scope m ok id body next, st =>
    let st1 : St :=
      match beginAsCoded m id (clearConf st.var) st.next with
      | .refuse => { var := clearConf st.var, next := st.next, trace := st.trace ++ [.refuse id] }
      | .cont v began =>
        let tr := st.trace ++ (if began then [.begin id st.next] else []) ++ [.enter id v.xid]
        let inner := runAsCoded_c3b0bd5 body { var := v, next := if began then st.next + 1 else st.next, trace := tr }
        { inner with trace := inner.trace ++ secondPhase inner.var ok }
    runAsCoded_c3b0bd5 next { st1 with trace := st1.trace ++ [.exit id st1.var] }

/-! The documented semantics, lexically scoped: `enc` is the enclosing transaction context, which a
    scope never changes for its siblings or its parent. -/

inductive Decision | refuse | join | noTx | newTx
  deriving Repr, DecidableEq

def decide (m : Mode) (hasTx : Bool) : Decision :=
  match m, hasTx with
  | .required, true => .join | .required, false => .newTx
  | .supports, true => .join | .supports, false => .noTx
  | .mandatory, true => .join | .mandatory, false => .refuse
  | .requiresNew, _ => .newTx
  | .notSupported, _ => .noTx
  | .never, true => .refuse | .never, false => .noTx

def seenVar (sh : Sharing) (enc : Var) : Var := match sh with | .shared => enc | .fresh => carried enc
def joinVar (seen : Var) (id : Nat) : Var := { xid := seen.xid, role := .participant, name := some id }
/-- Supports/Never without a transaction leave the (empty) context as it is; NotSupported unbinds -/
def noTxVar (m : Mode) (seen : Var) : Var :=
  if m = .notSupported then { clearConf seen with xid := none } else clearConf seen
def newVar (next id : Nat) : Var := { xid := some next, role := .launcher, name := some id }

/-- returns (events, next xid) -/
def spec (sh : Sharing) : Prog → (enc : Var) → (next : Nat) → List Ev × Nat
  | .done, _, next => ([], next)
  | .scope m ok id body rest, enc, next =>
    let r : List Ev × Nat :=
      match decide m (seenVar sh enc).xid.isSome with
      | .refuse => ([.refuse id], next)
      | .join =>
        let b := spec sh body (joinVar (seenVar sh enc) id) next
        ([.enter id (seenVar sh enc).xid] ++ b.1, b.2)
      | .noTx =>
        let b := spec sh body (noTxVar m (seenVar sh enc)) next
        ([.enter id none] ++ b.1, b.2)
      | .newTx =>
        let b := spec sh body (newVar next id) (next + 1)
        ([.begin id next, .enter id (some next)] ++ b.1 ++ [if ok then .commit next else .rollback next], b.2)
    let s := spec sh rest enc r.2
    (r.1 ++ [.exit id enc] ++ s.1, s.2)

end Seata.TM.Prop
