/-
  The transaction initiator: tm.WithGlobalTx for a scope that begins its own global transaction
  (propagation Required with no enclosing transaction), GlobalTransactionManager.Begin/Commit/Rollback
  and the backoff loop.  Models pkg/tm/transaction_executor.go, pkg/tm/global_transaction.go,
  pkg/util/backoff/backoff.go (Ongoing / Err / Wait as a retry counter with a cancellation point).
-/
namespace Seata.TM

inductive Outcome | ok | err | panic            -- what the business callback did
  deriving Repr, DecidableEq
inductive Reply | ok | failed | transport       -- coordinator behaviour for one request attempt:
  deriving Repr, DecidableEq                     -- success result / Failed result code / transport error (incl. no reply)
inductive Req | begin | commit | rollback
  deriving Repr, DecidableEq
inductive Ret | ok | err | crash                -- nil / error returned / panic escaped WithGlobalTx
  deriving Repr, DecidableEq
inductive P2 | acked | refused | exhausted | cancelled
  deriving Repr, DecidableEq

/-- is the caller's context cancelled before second-phase attempt `i` (0-based)? -/
def cancelled (cancelAt : Option Nat) (i : Nat) : Bool :=
  match cancelAt with
  | none => false
  | some j => j ≤ i

/-- how often a second-phase request is sent at most (`secondPhaseAttempts`): the configured count, and
    once when that count is zero -/
def attempts (retries : Nat) : Nat := if retries = 0 then 1 else retries

/-- the second-phase loop `for bf.Ongoing() { send; if err == nil break; bf.Wait() }` with
    `MaxRetries = attempts retries`.  The script lists the coordinator's behaviour per attempt; when it
    runs out the context is cancelled (the harness does exactly that).
    Returns (number of requests sent, how the loop ended). -/
def phase2 (retries : Nat) (cancelAt : Option Nat) : Nat → List Reply → Nat × P2
  | i, script =>
    if cancelled cancelAt i then (0, .cancelled)
    else if attempts retries ≤ i then (0, .exhausted)
    else match script with
      | [] => (0, .cancelled)
      | .ok :: _ => (1, .acked)
      | .failed :: _ => (1, .refused)
      | .transport :: rest =>
        let r := phase2 retries cancelAt (i + 1) rest
        (r.1 + 1, r.2)

/-- the loop before the repair of finding C04-retry-zero-unbounded: the configured count went to the
    backoff as it was, and the backoff takes zero for "retry for ever" -/
def phase2BeforeFix (retries : Nat) (cancelAt : Option Nat) : Nat → List Reply → Nat × P2
  | i, script =>
    if cancelled cancelAt i then (0, .cancelled)
    else if retries ≠ 0 ∧ retries ≤ i then (0, .exhausted)
    else match script with
      | [] => (0, .cancelled)
      | .ok :: _ => (1, .acked)
      | .failed :: _ => (1, .refused)
      | .transport :: rest =>
        let r := phase2BeforeFix retries cancelAt (i + 1) rest
        (r.1 + 1, r.2)

/-- the wire form of a coordinator's answer to GlobalCommit: result code and global status (0 … 15) -/
inductive RC | failed | success
  deriving Repr, DecidableEq

/-- the statuses that say the transaction is not going to be committed: Rollbacking, RollbackRetrying,
    TimeoutRollbacking, TimeoutRollbackRetrying, CommitFailed, Rollbacked, RollbackFailed, TimeoutRollbacked,
    TimeoutRollbackFailed -/
def rollbackFamily (st : Nat) : Bool := st ∈ [4, 5, 6, 7, 10, 11, 12, 13, 14]
/-- Committing, CommitRetrying, AsyncCommitting, Committed -/
def commitFamily (st : Nat) : Bool := st ∈ [2, 3, 8, 9]

/-- `commitRefusal resp == nil` -/
def acknowledged (_ : RC) (st : Nat) : Bool :=
  -- a status that says the commit is decided, whatever the result code; nothing else is an acknowledgement:
  -- not the rollback family, and not Begin, UnKnown or Finished (the coordinator no longer knows the transaction:
  -- it may have committed it, or rolled it back after a timeout)
  commitFamily st

/-- `commitRefusal resp == nil` as it stood before the repair: a status outside both families was an
    acknowledgement when the result code said Success -/
def acknowledgedBeforeFix (rc : RC) (st : Nat) : Bool :=
  if rollbackFamily st then false
  else if commitFamily st then true
  else rc == .success

def replyOf (rc : RC) (st : Nat) : Reply := if acknowledged rc st then .ok else .failed

/-- the statuses that say a rollback is under way or done: Rollbacking, RollbackRetrying, TimeoutRollbacking,
    TimeoutRollbackRetrying, Rollbacked, TimeoutRollbacked -/
def rollingBack (st : Nat) : Bool := st ∈ [4, 5, 6, 7, 11, 13]
/-- the statuses that say the transaction is not (going to be) rolled back: the commit family, CommitFailed,
    RollbackFailed, TimeoutRollbackFailed -/
def notRolledBack (st : Nat) : Bool := st ∈ [2, 3, 8, 9, 10, 12, 14]

/-- `rollbackRefusal resp == nil`: the answer to a GlobalRollback request is an acknowledgement -/
def rollbackAcknowledged (rc : RC) (st : Nat) : Bool :=
  if notRolledBack st then false
  else if rollingBack st then true
  else rc == .success

/-- `GlobalTransactionManager.Rollback` of a launcher with one answered request, before the repair: every
    answer was a success -/
def rollbackAcknowledgedBeforeFix (_ : RC) (_ : Nat) : Bool := true

def decision (cb : Outcome) : Req := if cb = .ok then .commit else .rollback

/-- WithGlobalTx for a launcher, as the code stands at HEAD (after the `fix:` commits).
    A reply `.ok` is an ACKNOWLEDGEMENT in the sense of `commitRefusal`: a reply whose status says the commit is
    decided (Committing, CommitRetrying, AsyncCommitting, Committed), whatever its result code.  A reply `.failed`
    is anything else the coordinator answers. -/
def withGlobalTx (retries : Nat) (beginReply : Reply) (cb : Outcome) (script : List Reply)
    (cancelAt : Option Nat) : List Req × Ret :=
  match beginReply with
  | .ok =>
    let r := phase2 retries cancelAt 0 script
    (.begin :: List.replicate r.1 (decision cb),
     if cb = .ok ∧ r.2 = .acked then .ok else .err)
  | _ => ([.begin], .err)

/-- before the repair of finding C04-refused-commit: the commit reply's result code and status were stored
    and not looked at, so a refusal still counted as success -/
def withGlobalTxBeforeFix (retries : Nat) (beginReply : Reply) (cb : Outcome) (script : List Reply)
    (cancelAt : Option Nat) : List Req × Ret :=
  match beginReply with
  | .ok =>
    let r := phase2 retries cancelAt 0 script
    (.begin :: List.replicate r.1 (decision cb),
     if cb = .ok ∧ (r.2 = .acked ∨ r.2 = .refused) then .ok else .err)
  | _ => ([.begin], .err)

/-- The shape at the pinned commit c3b0bd5, kept for the machine-checked counter-examples:
    a recovered panic did not set the result; a context cancelled before the loop made Commit return
    `errors.Wrap(nil, …) = nil` and made Rollback type-assert a nil reply; a Failed commit result
    was not looked at. -/
def withGlobalTxAsCoded_c3b0bd5 (retries : Nat) (beginReply : Reply) (cb : Outcome) (script : List Reply)
    (cancelAt : Option Nat) : List Req × Ret :=
  match beginReply with
  | .ok =>
    let r := phase2 retries cancelAt 0 script
    let reqs := .begin :: List.replicate r.1 (decision cb)
    match cb, r.2, r.1 with
    | .ok, .acked, _ => (reqs, .ok)
    | .ok, .refused, _ => (reqs, .ok)            -- Failed result code ignored
    | .ok, .cancelled, 0 => (reqs, .ok)          -- errors.Wrap(nil, ctx.Err().Error()) == nil
    | .ok, _, _ => (reqs, .err)
    | .err, .cancelled, 0 => (reqs, .crash)      -- res.(GlobalRollbackResponse) on a nil interface
    | .err, _, _ => (reqs, .err)
    | .panic, .cancelled, 0 => (reqs, .crash)
    | .panic, .acked, _ => (reqs, .ok)           -- recovered panic, `re` stays nil
    | .panic, .refused, _ => (reqs, .ok)
    | .panic, _, _ => (reqs, .err)
  | _ => ([.begin], .err)

end Seata.TM
