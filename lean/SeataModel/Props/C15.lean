/-
  C15 — every coordinator phase-two request gets one correctly addressed, truthful reply.
-/
import SeataModel.Remoting.Dispatch
namespace Seata.Props.C15
open Seata.Dispatch

/-- routed by branch type: the reply is determined by the manager registered for the REQUEST's branch
    type alone — two registries that agree on that one type give the same replies -/
theorem C15_routed (reg reg' : Registry) (r : Request)
    (h1 : reg.has r.branchType = reg'.has r.branchType)
    (h2 : reg.answer r.branchType r = reg'.answer r.branchType r) :
    process reg r = process reg' r := by
  simp [process, h1, h2]

/-- when the manager returns a status there is exactly one response, carrying the request's message
    id, xid, branch id, the matching response kind and precisely that status -/
theorem C15_echo (reg : Registry) (r : Request) (s : Nat)
    (hh : reg.has r.branchType = true) (ha : reg.answer r.branchType r = .status s) :
    process reg r =
      [{ kind := r.kind, msgId := r.msgId, xid := r.xid, branchId := r.branchId, status := s, session := r.session }] := by
  simp [process, hh, ha]

/-- when the manager fails (or none is registered) no response at all is sent — in particular none
    with a success status -/
theorem C15_never_success_on_failure (reg : Registry) (r : Request)
    (h : reg.has r.branchType = false ∨ reg.answer r.branchType r = .error) :
    process reg r = [] := by
  rcases h with h | h
  · simp [process, h]
  · simp only [process]; split
    · simp [h]
    · rfl

/-- the reply goes to the coordinator that asked: whatever the xid says and whichever sessions are open, a
    response is written to the session its request arrived on -/
theorem C15_answered_where_asked (reg : Registry) (r : Request) :
    ∀ resp ∈ process reg r, resp.session = r.session := by
  intro resp h
  unfold process at h
  split at h
  · split at h
    · simp at h; subst h; rfl
    · simp at h
  · simp at h

/-- at most one response per request, and every response answers ITS request -/
theorem C15_at_most_one (reg : Registry) (r : Request) :
    (process reg r).length ≤ 1 ∧ ∀ x ∈ process reg r, x.msgId = r.msgId ∧ x.xid = r.xid ∧ x.branchId = r.branchId ∧ x.kind = r.kind := by
  simp only [process]
  split
  · split <;> simp
  · simp

/-- requests for different branches do not influence each other: the responses to a stream are the
    per-request responses, whatever else is in the stream … -/
theorem C15_independent (reg : Registry) (a b : List Request) :
    processAll reg (a ++ b) = processAll reg a ++ processAll reg b := by
  simp [processAll]

/-- … and in whatever order the requests are processed: the set of responses is the same -/
theorem C15_order_irrelevant (reg : Registry) (rs rs' : List Request) (h : rs.Perm rs') :
    (processAll reg rs).Perm (processAll reg rs') := by
  unfold processAll
  exact List.Perm.flatMap_right (process reg) h

/-! Non-vacuity -/
def sampleReg : Registry :=
  { has := fun t => t == 0 || t == 1 || t == 3,
    answer := fun t r => if t == 1 && r.branchId == 7 then .error else .status (if r.kind == .commit then 8 else 10) }

example : processAll sampleReg
    [{ kind := .commit, msgId := 5, xid := "x", branchId := 1, branchType := 0, resource := "r" },
     { kind := .rollback, msgId := 6, xid := "x", branchId := 7, branchType := 1, resource := "a" },
     { kind := .rollback, msgId := 7, xid := "y", branchId := 2, branchType := 2, resource := "s" }]
    = [{ kind := .commit, msgId := 5, xid := "x", branchId := 1, status := 8 }] := by decide

end Seata.Props.C15
