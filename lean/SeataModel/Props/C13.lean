/-
  C13 — the frame reader survives any fragmentation of the byte stream.
  Property theorems only; lemmas are in Lemmas/Frame.lean.
-/
import SeataModel.Lemmas.Frame
namespace Seata.Props.C13
open Seata Seata.Codec Seata.Frame

/-- A complete frame (followed by anything) is delivered as the original message with exactly its
    own length consumed. -/
theorem C13_whole (m : RpcMsg) (rest : Bytes) (hwf : WF m) :
    readFrame (writeFrame m ++ rest) = .frame m (writeFrame m).length := by
  rw [writeFrame_length]; exact readFrame_whole m rest hwf

/-- EVERY strict prefix of a frame — a cut inside the 16-byte header, inside the head map or inside
    the body — is answered "need more data": nothing consumed, nothing fabricated, no error. -/
theorem C13_prefix (m : RpcMsg) (p s : Bytes) (hwf : WF m) (hps : p ++ s = writeFrame m) (hs : s ≠ []) :
    readFrame p = .needMore :=
  readFrame_prefix m p s hwf hps hs

/-- For ALL message sequences and ALL partitions of the concatenated bytes into chunks (including
    empty chunks), the receive loop delivers exactly the original messages, in order, leaves no
    residue and never closes the session. -/
theorem C13_any_partition (ms : List RpcMsg) (chunks : List Bytes) (hwf : ∀ m ∈ ms, WF m)
    (h : chunks.flatten = (ms.map writeFrame).flatten) :
    feed chunks = { delivered := ms, buf := [], closed := false } := by
  have := feed_invariant chunks [] [] ms hwf quiet_nil (by simpa [frames] using h)
  simpa [feed] using this

/-- A truncated stream: whatever has arrived so far (cut anywhere, in any chunks) yields exactly
    the frames that are complete, in order, and keeps the incomplete tail buffered untouched, on
    which the loop stays quiet (no delivery, no error, no consumption) until more bytes arrive. -/
theorem C13_truncated (ms : List RpcMsg) (chunks : List Bytes) (S : Bytes) (hwf : ∀ m ∈ ms, WF m)
    (h : chunks.flatten ++ S = (ms.map writeFrame).flatten) :
    ∃ done rest p, ms = done ++ rest ∧ Quiet p ∧ p ++ S = frames rest ∧
      feed chunks = { delivered := done, buf := p, closed := false } := by
  have := feed_general chunks S [] [] ms hwf quiet_nil (by simpa [frames] using h)
  simpa [feed] using this

/-- progress: a delivered frame always consumes at least the 16-byte header and never more than is
    buffered — the transport loop cannot spin on a zero-length delivery. -/
theorem C13_progress (bs : Bytes) (m : RpcMsg) (n : Nat) (h : readFrame bs = .frame m n) :
    16 ≤ n ∧ n ≤ bs.length := by
  unfold readFrame at h
  split at h; · cases h
  split at h; · cases h
  simp only at h
  split at h; · cases h
  split at h; · cases h
  split at h; · cases h
  rename_i h1 h2 _ _ _
  injection h with hm hn
  simp only [Bool.or_eq_true, decide_eq_true_eq, not_or, Nat.not_lt] at h1
  subst hn
  omega

/-- bytes that do not start with the magic are rejected (session closed), never delivered -/
theorem C13_bad_magic (a b : UInt8) (r : Bytes) (h : ¬ (a = 0xda ∧ b = 0xda)) :
    readFrame (a :: b :: r) = .bad := by
  unfold readFrame magicOK
  have : (a == 0xda && b == 0xda) = false := by
    simp only [Bool.and_eq_false_imp, beq_iff_eq]
    intro ha
    simp only [beq_eq_false_iff_ne]
    exact fun hb => h ⟨ha, hb⟩
  simp [this]

/-- head-map entries — including empty keys and empty values — survive a write/read round trip -/
theorem C13_headmap_roundtrip (kvs : List (Bytes × Bytes))
    (h : ∀ kv ∈ kvs, kv.1.length < 256 ^ 2 ∧ kv.2.length < 256 ^ 2) :
    decodeHM (encodeHM kvs).length (encodeHM kvs) = some kvs := by
  apply decodeHM_encodeHM kvs _ _ h
  induction kvs with
  | nil => simp
  | cons kv r ih =>
    obtain ⟨k, v⟩ := kv
    rw [encodeHM_length_cons]
    have := ih (fun kv hkv => h kv (by simp [hkv]))
    simp; omega

/-! The reader as coded at the pinned commit c3b0bd5 (before the `fix:`): the header was parsed from
    whatever bytes were present, short reads yielding zeros.  Its length logic alone already
    fabricates a zero-length delivery from a 3-byte input, on which the transport loop spins. -/
def readLenAsCoded_c3b0bd5 (bs : Bytes) : Option Nat :=
  let padded := bs ++ List.replicate 16 0
  if !(padded.take 2 == [0xda, 0xda]) then none        -- error
  else
    let total := field padded 3 4
    if bs.length < total then none                     -- need more
    else some total                                    -- deliver, consume `total`

theorem C13_asCoded_c3b0bd5_spins : readLenAsCoded_c3b0bd5 [0xda, 0xda, 1] = some 0 := by decide

/-! Non-vacuity -/
example : WF { id := 7, type := 0, codec := 1, comp := 0, head := [([], [0x61]), ([0x6b], [])], body := [0, 3, 1, 2] } := by
  refine ⟨by decide, by decide, by decide, by decide, ?_, by decide, by decide⟩
  intro kv hkv
  simp at hkv
  rcases hkv with h | h <;> subst h <;> decide

example : feed [[0xda], [0xda, 1, 0, 0, 0], [16, 0, 16, 3, 1, 0, 0, 0, 0, 9, 0xda]]
    = { delivered := [{ id := 9, type := 3, codec := 1, comp := 0, head := [], body := [] }], buf := [0xda], closed := false } := by
  decide +kernel

end Seata.Props.C13
