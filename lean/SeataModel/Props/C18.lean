/-
  C18 — captured images equal the rows the statement actually changed.

  `stmtPhase1` (AT/Phase1.lean) is what the executors record for one statement; the theorems relate
  its images to the table just before (`t`) and just after (`t'`) the statement.
-/
import SeataModel.AT.Phase1
import SeataModel.Lemmas.Store
namespace Seata.Props.C18
open Seata Seata.DB Seata.AT Seata.Lemmas.Store

/-- the before image of an UPDATE is the projection (on the tracked columns) of exactly the rows the
    WHERE clause selects, as they are before the statement; its lock keys are those rows' keys -/
theorem C18_update_before (sc : Schema) (cfg : Cfg) (t : Table) (args : Args) (sets : List (Nat × SetE)) (w : Cond)
    (t' : Table) (item : Item) (keys : List Key)
    (h : stmtPhase1 sc cfg t args (.update sets w) = .ok (t', item, keys)) :
    item.before = (t.filter fun r => matches_ r args w).map (project sc (updateCols sc cfg sets)) ∧
    keys = (t.filter fun r => matches_ r args w).map (keyOf sc) ∧ item.kind = .update := by
  replace h := (stmtPhase1_update_ok h).2
  simp only [updatePhase1, apply] at h
  split at h
  · cases h
  · simp only [Except.ok.injEq, Prod.mk.injEq] at h
    rw [← h.2.1, ← h.2.2]; exact ⟨rfl, rfl, rfl⟩

/-- DELETE: all columns of exactly the selected rows, no after image -/
theorem C18_delete_images (sc : Schema) (cfg : Cfg) (t : Table) (args : Args) (w : Cond)
    (t' : Table) (item : Item) (keys : List Key)
    (h : stmtPhase1 sc cfg t args (.delete w) = .ok (t', item, keys)) :
    item.before = (t.filter fun r => matches_ r args w).map (project sc (allCols sc)) ∧ item.after = [] ∧
    keys = (t.filter fun r => matches_ r args w).map (keyOf sc) ∧ item.kind = .delete := by
  simp only [stmtPhase1, apply, Except.ok.injEq, Prod.mk.injEq] at h
  rw [← h.2.1, ← h.2.2]; exact ⟨rfl, rfl, rfl, rfl⟩

/-- INSERT: no before image, all columns of exactly the new rows -/
theorem C18_insert_images (sc : Schema) (cfg : Cfg) (t : Table) (args : Args) (rows : List (List Expr))
    (t' : Table) (item : Item) (keys : List Key)
    (h : stmtPhase1 sc cfg t args (.insert rows) = .ok (t', item, keys)) :
    item.before = [] ∧
    item.after = (rows.map fun es => es.map (evalE [] args)).map (project sc (allCols sc)) ∧
    keys = (rows.map fun es => es.map (evalE [] args)).map (keyOf sc) ∧ item.kind = .insert := by
  simp only [stmtPhase1] at h
  split at h
  · cases h
  · simp only [Except.ok.injEq, Prod.mk.injEq] at h
    rw [← h.2.1, ← h.2.2]; exact ⟨rfl, rfl, rfl, rfl⟩

/-- UPDATE that assigns no key column, on a table with unique keys: the statement succeeds; the new
    table is the old one with the SET clauses applied to exactly the selected rows; the after image is
    the projection of exactly those rows as they are after the statement, in the same order as the
    before image; every other row is untouched and absent from both images. -/
theorem C18_update_after (sc : Schema) (cfg : Cfg) (t : Table) (args : Args) (sets : List (Nat × SetE)) (w : Cond)
    (hu : PkUnique sc t) (hs : ∀ p ∈ sets, p.1 ∉ sc.pk) :
    ∃ item keys,
      stmtPhase1 sc cfg t args (.update sets w) =
        .ok (t.map (fun r => if matches_ r args w then applySets args sets r else r), item, keys) ∧
      item.before = (t.filter fun r => matches_ r args w).map (project sc (updateCols sc cfg sets)) ∧
      item.after = ((t.filter fun r => matches_ r args w).map (applySets args sets)).map
        (project sc (updateCols sc cfg sets)) := by
  have hkey : ∀ r ∈ t, keyOf sc (applySets args sets r) = keyOf sc r :=
    fun r _ => applySets_keyOf sc args sets r hs
  have hafter := update_after sc t (fun r => matches_ r args w) (applySets args sets) hu hkey
  simp only [updated] at hafter
  rw [stmtPhase1_update_of_noKey (namesKey_false_of hs)]
  simp only [updatePhase1, apply]
  rw [hafter]
  simp

/-- columns recorded for an UPDATE: every column, or — with only-care-update-columns — the assigned
    columns and the key columns -/
theorem C18_update_columns (sc : Schema) (cfg : Cfg) (sets : List (Nat × SetE)) (r : Row) :
    (project sc (updateCols sc cfg sets) r).cells.map (·.1) =
      if cfg.onlyCare then sets.map (·.1) ++ sc.pk else List.range sc.ncols := by
  simp only [project, updateCols, allCols, List.map_map]
  split <;> simp [Function.comp_def]

/-- INSERT on a table with unique keys succeeds exactly when no new key exists yet (nor twice among
    the new rows); the new rows are appended, nothing else changes -/
theorem C18_insert_table (sc : Schema) (cfg : Cfg) (t : Table) (args : Args) (rows : List (List Expr))
    (t' : Table) (item : Item) (keys : List Key) (hu : PkUnique sc t)
    (h : stmtPhase1 sc cfg t args (.insert rows) = .ok (t', item, keys)) :
    t' = t ++ rows.map (fun es => es.map (evalE [] args)) ∧ PkUnique sc t' := by
  simp only [stmtPhase1, apply] at h
  split at h
  · cases h
  · rename_i t1 n hap
    split at hap
    · rename_i t2 hgo
      simp only [Except.ok.injEq, Prod.mk.injEq] at hap h
      obtain ⟨hg1, hg2⟩ := go_some sc _ t t2 hgo hu
      rw [← h.1, ← hap.1, hg1]
      exact ⟨rfl, hg2⟩
    · cases hap

/-- DELETE removes exactly the selected rows -/
theorem C18_delete_table (sc : Schema) (cfg : Cfg) (t : Table) (args : Args) (w : Cond)
    (t' : Table) (item : Item) (keys : List Key)
    (h : stmtPhase1 sc cfg t args (.delete w) = .ok (t', item, keys)) :
    t' = t.filter (fun r => !matches_ r args w) := by
  simp only [stmtPhase1, apply, Except.ok.injEq, Prod.mk.injEq] at h
  exact h.1.symm

/-- INSERT … ON DUPLICATE KEY UPDATE: the before image is the projection (all columns) of exactly the
    stored rows whose key is among the statement's keys; with none of them the item is an INSERT item
    with an empty before image, otherwise an UPDATE item whose after image holds the same keys (the rows
    the same statement inserted are recorded by `extraItems` as an INSERT item of their own); the lock
    keys are the keys of all rows stored under the statement's keys afterwards -/
theorem C18_upsert_images (sc : Schema) (cfg : Cfg) (t : Table) (args : Args) (rows : List (List Expr))
    (asg : List (Nat × UpSrc)) (t' : Table) (item : Item) (keys : List Key)
    (h : stmtPhase1 sc cfg t args (.upsert rows asg) = .ok (t', item, keys)) :
    let newKeys := (rows.map fun es => es.map (evalE [] args)).map (keyOf sc)
    let hit := t.filter fun r => newKeys.contains (keyOf sc r)
    keys = (t'.filter fun r => newKeys.contains (keyOf sc r)).map (keyOf sc) ∧
    (hit = [] → item.kind = .insert ∧ item.before = []) ∧
    (hit ≠ [] → item.kind = .update ∧ item.before = hit.map (project sc (allCols sc)) ∧
      item.after = ((t'.filter fun r => newKeys.contains (keyOf sc r)).filter
        fun r => (hit.map (keyOf sc)).contains (keyOf sc r)).map (project sc (allCols sc))) := by
  intro newKeys hit
  have hany : (asg.any fun a => sc.pk.contains a.1) = false := by
    cases hb : (asg.any fun a => sc.pk.contains a.1) with
    | false => rfl
    | true => simp only [stmtPhase1] at h; rw [if_pos hb] at h; cases h
  simp only [stmtPhase1, hany, Bool.false_eq_true, if_false, apply, Except.ok.injEq, Prod.mk.injEq] at h
  obtain ⟨ht, hi, hk⟩ := h
  subst ht
  refine ⟨hk.symm, ?_, ?_⟩
  · intro hh
    have hE : hit.isEmpty = true := by simp [hh]
    rw [← hi]
    show (if hit.isEmpty = true then _ else _ : Item).kind = _ ∧ (if hit.isEmpty = true then _ else _ : Item).before = _
    rw [if_pos hE]
    exact ⟨rfl, rfl⟩
  · intro hh
    have hE : ¬ hit.isEmpty = true := by
      cases hx : hit with
      | nil => exact absurd hx hh
      | cons a b => simp
    rw [← hi]
    show (if hit.isEmpty = true then _ else _ : Item).kind = _ ∧ (if hit.isEmpty = true then _ else _ : Item).before = _ ∧
      (if hit.isEmpty = true then _ else _ : Item).after = _
    rw [if_neg hE]
    exact ⟨rfl, rfl, rfl⟩

/-! ### non-vacuity -/

example : ∃ item keys, stmtPhase1 { ncols := 2, pk := [0] } ⟨true, true⟩ [[.int 1, .int 5], [.int 2, .int 6]] [.int 2]
    (.update [(1, .plus 1 (.lit (.int 1)))] (.cmp .eq (.col 0) (.par 0))) = .ok ([[.int 1, .int 5], [.int 2, .int 7]], item, keys) ∧
    item.before = [⟨[.int 2], [(1, .int 6), (0, .int 2)]⟩] ∧ item.after = [⟨[.int 2], [(1, .int 7), (0, .int 2)]⟩] :=
  ⟨_, _, rfl, rfl, rfl⟩
/-- an UPDATE that names a key column is rejected before it runs -/
example : stmtPhase1 { ncols := 2, pk := [0] } ⟨true, false⟩ [[.int 1, .int 5]] []
    (.update [(0, .val (.lit (.int 9)))] .tt) = .error .pkChanged := rfl

/-- **key-changing statements are rejected**: every UPDATE whose SET list names a key column fails
    with `pkChanged`, whatever the table, and nothing is recorded -/
theorem C18_key_update_rejected (sc : Schema) (cfg : Cfg) (t : Table) (args : Args) (sets : List (Nat × SetE)) (w : Cond)
    (h : ∃ p ∈ sets, p.1 ∈ sc.pk) : stmtPhase1 sc cfg t args (.update sets w) = .error .pkChanged := by
  obtain ⟨p, hp, hk⟩ := h
  have : namesKey sc sets = true := by
    simp only [namesKey, List.any_eq_true]
    exact ⟨p, hp, by simpa using hk⟩
  simp [stmtPhase1, this]

/-- the same for INSERT … ON DUPLICATE KEY UPDATE: a clause that names a key column is rejected before the
    statement runs, whatever the table and the rows -/
theorem C18_upsert_key_update_rejected (sc : Schema) (cfg : Cfg) (t : Table) (args : Args)
    (rows : List (List Expr)) (asg : List (Nat × UpSrc))
    (h : ∃ p ∈ asg, p.1 ∈ sc.pk) : stmtPhase1 sc cfg t args (.upsert rows asg) = .error .pkChanged := by
  obtain ⟨p, hp, hk⟩ := h
  have : (asg.any fun a => sc.pk.contains a.1) = true := by
    simp only [List.any_eq_true]
    exact ⟨p, hp, by simpa using hk⟩
  simp only [stmtPhase1]
  rw [if_pos this]

example : stmtPhase1 { ncols := 2, pk := [0] } ⟨true, false⟩ [[.int 1, .int 5]] []
    (.upsert [[.lit (.int 1), .lit (.int 7)]] [(1, .values), (0, .values)]) = .error .pkChanged := rfl

end Seata.Props.C18
