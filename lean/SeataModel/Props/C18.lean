/-
  C18 — captured images equal the rows the statement actually changed.  (theorems being added)
-/
import SeataModel.AT.Phase1
namespace Seata.Props.C18
open Seata Seata.DB Seata.AT

/-- the before image of an UPDATE is the projection (on the tracked columns) of exactly the rows the
    WHERE clause selects, as they are before the statement; its lock keys are those rows' keys -/
theorem C18_update_before (sc : Schema) (cfg : Cfg) (t : Table) (args : Args) (sets : List (Nat × SetE)) (w : Cond)
    (t' : Table) (item : Item) (keys : List Key)
    (h : stmtPhase1 sc cfg t args (.update sets w) = .ok (t', item, keys)) :
    item.before = (t.filter fun r => matches_ r args w).map (project sc (updateCols sc cfg sets)) ∧
    keys = (t.filter fun r => matches_ r args w).map (keyOf sc) ∧ item.kind = .update := by
  simp only [stmtPhase1, apply] at h
  split at h
  · cases h
  · simp only [Except.ok.injEq, Prod.mk.injEq] at h
    rw [← h.2.1, ← h.2.2]; exact ⟨rfl, rfl, rfl⟩

/-- DELETE: all columns of exactly the selected rows, no after image -/
theorem C18_delete_images (sc : Schema) (cfg : Cfg) (t : Table) (args : Args) (w : Cond)
    (t' : Table) (item : Item) (keys : List Key)
    (h : stmtPhase1 sc cfg t args (.delete w) = .ok (t', item, keys)) :
    item.before = (t.filter fun r => matches_ r args w).map (project sc (allCols sc)) ∧ item.after = [] ∧
    keys = (t.filter fun r => matches_ r args w).map (keyOf sc) ∧ item.kind = .delete := by
  simp only [stmtPhase1, apply, Except.ok.injEq, Prod.mk.injEq] at h
  rw [← h.2.1, ← h.2.2]; exact ⟨rfl, rfl, rfl, rfl⟩

/-- INSERT: no before image, all columns of exactly the new rows -/
theorem C18_insert_images (sc : Schema) (cfg : Cfg) (t : Table) (args : Args) (rows : List (List Expr))
    (t' : Table) (item : Item) (keys : List Key)
    (h : stmtPhase1 sc cfg t args (.insert rows) = .ok (t', item, keys)) :
    item.before = [] ∧
    item.after = (rows.map fun es => es.map (evalE [] args)).map (project sc (allCols sc)) ∧
    keys = (rows.map fun es => es.map (evalE [] args)).map (keyOf sc) ∧ item.kind = .insert := by
  simp only [stmtPhase1] at h
  split at h
  · cases h
  · simp only [Except.ok.injEq, Prod.mk.injEq] at h
    rw [← h.2.1, ← h.2.2]; exact ⟨rfl, rfl, rfl, rfl⟩

end Seata.Props.C18
