/-
  C12 — wire codec matches the Seata v1 message layout and round-trips every message.
  Property theorems only; helper lemmas live in Lemmas/Codec.lean.
-/
import SeataModel.Lemmas.Codec
namespace Seata.Props.C12
open Seata Seata.Codec

/-- Round trip for EVERY well-formed layout, every value list within the wire limits, any trailing
    bytes: decoding the encoding yields the normalised message and consumes exactly the body. -/
theorem C12_roundtrip (f : Bool) (L : Layout) (vs : List FVal) (rest : Bytes)
    (hwf : wf L = true) (hin : within L vs = true) :
    decode f L (encode f L vs ++ rest) = some (normalize f L vs, rest) :=
  decode_encode f L vs rest hwf hin

/-- All 24 rows of the v1 table are well-formed (each message cap fits its length prefix). -/
theorem C12_v1_wf : ∀ k ∈ MsgKind.all, wf (v1 k) = true := by decide

theorem C12_all_complete (k : MsgKind) : k ∈ MsgKind.all := by cases k <;> decide

theorem C12_typecode_injective : ∀ a ∈ MsgKind.all, ∀ b ∈ MsgKind.all, typeCode a = typeCode b → a = b := by
  decide

theorem find_typeCode (k : MsgKind) :
    MsgKind.all.find? (fun k' => typeCode k' == typeCode k) = some k := by
  cases k <;> rfl

theorem typeCode_lt (k : MsgKind) : typeCode k < 256 ^ 2 := by cases k <;> decide

/-- Whole-message round trip (type code + body) for each of the 24 kinds: the decoder picks the
    same kind, returns the normalised fields and consumes the whole message. -/
theorem C12_msg_roundtrip (k : MsgKind) (vs : List FVal) (rest : Bytes)
    (hin : within (v1 k) vs = true) :
    decodeMsg (encodeMsg k vs ++ rest) = some (k, normalize false (v1 k) vs, rest) := by
  unfold decodeMsg encodeMsg
  rw [List.append_assoc, getBE_putBE, Nat.mod_eq_of_lt (typeCode_lt k)]
  simp only [find_typeCode]
  rw [C12_roundtrip false (v1 k) vs rest (C12_v1_wf k (C12_all_complete k)) hin]
  rfl

/-- consumes the whole body: nothing is left over -/
theorem C12_consumes_body (k : MsgKind) (vs : List FVal) (hin : within (v1 k) vs = true) :
    decodeMsg (encodeMsg k vs) = some (k, normalize false (v1 k) vs, []) := by
  have := C12_msg_roundtrip k vs [] hin
  simpa using this

/-- the encoding starts with the kind's 16-bit big-endian type code -/
theorem C12_encode_prefix (k : MsgKind) (vs : List FVal) :
    (encodeMsg k vs).take 2 = putBE 2 (typeCode k) := by
  unfold encodeMsg
  rw [List.take_append_of_le_length (by simp)]
  exact List.take_of_length_le (by simp)

/-- An over-long error message is cut to the cap and every other field survives:
    instance of the round trip for a Failed result with a message of ANY length. -/
theorem C12_truncation_keeps_tail (w cap : Nat) (hc : cap < 256 ^ w) (tail : Layout) (m : Bytes)
    (e : Nat) (he : e < 256) (vs : List FVal) (rest : Bytes)
    (hwf : wf tail = true) (hin : within tail vs = true) :
    decode false (.rc :: .msg w cap :: .u8 :: tail)
        (encode false (.rc :: .msg w cap :: .u8 :: tail) (.nat 0 :: .bytes m :: .nat e :: vs) ++ rest)
      = some (.nat 0 :: .bytes (m.take cap) :: .nat e :: normalize true tail vs, rest) := by
  have hwf' : wf (.rc :: .msg w cap :: .u8 :: tail) = true := by
    simp [wf, wfF, hc] at *; exact hwf
  have hin' : within (.rc :: .msg w cap :: .u8 :: tail) (.nat 0 :: .bytes m :: .nat e :: vs) = true := by
    simp [within, withinF, he, hin]
  rw [C12_roundtrip false _ _ rest hwf' hin']
  simp [normalize, normalizeF, nextFailed]

/-- registry completeness on the model side: every kind has a (unique) code; the tie checks the
    Go registry against this list on every run. -/
theorem C12_registered (k : MsgKind) :
    k ∈ registered ∧ MsgKind.all.find? (fun k' => typeCode k' == typeCode k) = some k :=
  ⟨C12_all_complete k, find_typeCode k⟩

/-! Non-vacuity: concrete messages satisfy the hypotheses, including an over-long message. -/

example : within (v1 .branchCommitResult)
    [.nat 0, .bytes (List.replicate 40000 0x41), .nat 3, .bytes [0xe4, 0xb8, 0xad], .int (-1), .nat 5] = true := by
  decide +kernel

example : decodeMsg (encodeMsg .globalLockQueryResult [.nat 1, .bytes [1,2,3], .nat 0, .bool true])
    = some (.globalLockQueryResult, [.nat 1, .bytes [], .nat 0, .bool true], []) := by
  decide +kernel

example : encodeMsg .globalBegin [.nat 60000999999, .bytes [0x74, 0x78]]
    = [0,1, 0,0,0xea,0x60, 0,2, 0x74,0x78] := by decide +kernel

end Seata.Props.C12
