/-
  C11 — phase-two commit deletes exactly the committed branch's undo log, eventually.
-/
import SeataModel.AT.AsyncCommit
namespace Seata.Props.C11
open Seata.AT.AsyncCommit

/-- invariant of every history: (1) a row no accepted request names is still there; (2) no accepted
    request is lost: it is still queued, or no row for it remains; (3) only accepted requests are queued -/
def Inv (rows0 : List Row) (s : St) : Prop :=
  (∀ row ∈ rows0, row ∉ s.accepted → row ∈ s.rows) ∧
  (∀ q ∈ s.accepted, q ∈ s.queue ∨ q ∉ s.rows) ∧
  (∀ q ∈ s.queue, q ∈ s.accepted) ∧
  (∀ row ∈ s.rows, row ∈ rows0)

theorem inv_init (rows0 : List Row) : Inv rows0 { rows := rows0 } := by
  refine ⟨fun row h _ => h, ?_, ?_, fun row h => h⟩ <;> intro q hq <;> simp at hq

theorem inv_batch (rows0 : List Row) (s : St) (noConn : List Nat) (failed : List Req) (h : Inv rows0 s) :
    Inv rows0 (step s (.batch noConn failed)) := by
  obtain ⟨h1, h2, h3, h4⟩ := h
  simp only [step]
  refine ⟨?_, ?_, ?_, ?_⟩
  · intro row hrow hn
    rw [List.mem_filter]
    refine ⟨h1 row hrow hn, ?_⟩
    simp only [Bool.not_eq_true', List.contains_eq_mem, decide_eq_false_iff_not, List.mem_filter]
    intro hm
    exact hn (h3 row hm.1)
  · intro q hqa
    rcases h2 q hqa with hq | hq
    · by_cases hp : (noConn.contains q.res || failed.contains q) = true
      · left
        exact List.mem_filter.mpr ⟨hq, hp⟩
      · right
        intro hm
        have hd : q ∈ s.queue.filter fun r => !(noConn.contains r.res || failed.contains r) :=
          List.mem_filter.mpr ⟨hq, by simpa using hp⟩
        have := (List.mem_filter.mp hm).2
        simp only [Bool.not_eq_true', List.contains_eq_mem, decide_eq_false_iff_not] at this hd
        exact this hd
    · right
      intro hm
      exact hq (List.mem_filter.mp hm).1
  · intro q hqm
    exact h3 q (List.mem_filter.mp hqm).1
  · intro row hm
    exact h4 row (List.mem_filter.mp hm).1

theorem inv_step (rows0 : List Row) (s : St) (e : Ev) (h : Inv rows0 s) : Inv rows0 (step s e) := by
  obtain ⟨h1, h2, h3, h4⟩ := h
  cases e with
  | accept r =>
    simp only [step]
    refine ⟨?_, ?_, ?_, h4⟩
    · intro row hr hn
      exact h1 row hr (fun hm => hn (List.mem_append_left _ hm))
    · intro q hq
      rw [List.mem_append] at hq
      rcases hq with hq | hq
      · rcases h2 q hq with h | h
        · exact Or.inl (List.mem_append_left _ h)
        · exact Or.inr h
      · simp at hq; subst hq; exact Or.inl (by simp)
    · intro q hq
      rw [List.mem_append] at hq ⊢
      rcases hq with hq | hq
      · exact Or.inl (h3 q hq)
      · exact Or.inr hq
  | batch noConn failed => exact inv_batch rows0 s noConn failed ⟨h1, h2, h3, h4⟩
  | proc ok =>
    simp only [step]
    cases hq : s.queue with
    | nil => simp only []; exact ⟨h1, h2, h3, h4⟩
    | cons r rest =>
      simp only []
      have hr : r ∈ s.accepted := h3 r (by rw [hq]; simp)
      cases ok with
      | true =>
        simp only [if_true]
        refine ⟨?_, ?_, ?_, ?_⟩
        · intro row hrow hn
          rw [List.mem_filter]
          refine ⟨h1 row hrow hn, ?_⟩
          simp only [bne_iff_ne, ne_eq]
          intro he; subst he; exact hn hr
        · intro q hqa
          by_cases hqr : q = r
          · subst hqr
            right
            intro hm
            rw [List.mem_filter] at hm
            simp at hm
          · rcases h2 q hqa with h | h
            · rw [hq] at h
              simp only [List.mem_cons] at h
              rcases h with h | h
              · exact absurd h hqr
              · exact Or.inl h
            · right
              intro hm
              exact h (List.mem_filter.mp hm).1
        · intro q hqm
          exact h3 q (by rw [hq]; exact List.mem_cons_of_mem _ hqm)
        · intro row hm
          exact h4 row (List.mem_filter.mp hm).1
      | false =>
        simp only [Bool.false_eq_true, if_false]
        refine ⟨h1, ?_, ?_, h4⟩
        · intro q hqa
          rcases h2 q hqa with h | h
          · left
            rw [hq] at h
            simp only [List.mem_cons] at h
            rw [List.mem_append]
            rcases h with h | h
            · right; simp [h]
            · left; exact h
          · exact Or.inr h
        · intro q hqm
          rw [List.mem_append] at hqm
          rcases hqm with h | h
          · exact h3 q (by rw [hq]; exact List.mem_cons_of_mem _ h)
          · simp at h; subst h; exact hr

theorem inv_run (rows0 : List Row) (s : St) (es : List Ev) (h : Inv rows0 s) : Inv rows0 (run s es) := by
  induction es generalizing s with
  | nil => exact h
  | cons e rest ih => exact ih (step s e) (inv_step rows0 s e h)

/-- **C11 (safety)**: in every history of accepted requests, successful and failing deletes, no
    other branch's undo log is ever deleted and no accepted request is lost. -/
theorem C11_safety (rows0 : List Row) (es : List Ev) :
    let s := run { rows := rows0 } es
    (∀ row ∈ rows0, row ∉ s.accepted → row ∈ s.rows) ∧ (∀ q ∈ s.accepted, q ∈ s.queue ∨ q ∉ s.rows) := by
  have h := inv_run rows0 { rows := rows0 } es (inv_init rows0)
  exact ⟨h.1, h.2.1⟩

/-- every successful delete shortens the queue, a failure keeps its length -/
theorem queue_length_proc (s : St) (ok : Bool) :
    (step s (.proc ok)).queue.length = if ok then s.queue.length - 1 else s.queue.length := by
  simp only [step]
  cases hq : s.queue with
  | nil => cases ok <;> simp [hq]
  | cons r rest => cases ok <;> simp

/-- **C11 (liveness, under eventual success)**: once no more requests arrive, as soon as the worker has
    had as many successful deletes as there are queued requests — however many transient failures in
    between — the queue is empty … -/
theorem C11_drains (s : St) (oks : List Bool) (h : s.queue.length ≤ oks.count true) :
    (run s (oks.map .proc)).queue = [] := by
  induction oks generalizing s with
  | nil =>
    simp at h
    simpa [run] using h
  | cons ok rest ih =>
    simp only [List.map_cons, run, List.foldl_cons]
    apply ih
    rw [queue_length_proc]
    cases ok
    · simpa using h
    · simp at h ⊢; omega

/-- … and then the remaining undo-log rows are exactly those of `settle`: every accepted request's
    rows are gone and every other row is still there. -/
theorem C11_eventually_exact (rows0 : List Row) (es : List Ev) (oks : List Bool)
    (h : (run { rows := rows0 } es).queue.length ≤ oks.count true) :
    let s := run (run { rows := rows0 } es) (oks.map .proc)
    ∀ row, row ∈ s.rows ↔ row ∈ settle rows0 s.accepted := by
  intro s row
  have hinv : Inv rows0 s := inv_run rows0 _ _ (inv_run rows0 _ es (inv_init rows0))
  have hq : s.queue = [] := C11_drains _ oks h
  obtain ⟨h1, h2, -, h4⟩ := hinv
  simp only [settle, List.mem_filter, Bool.not_eq_true', List.contains_eq_mem, decide_eq_false_iff_not]
  constructor
  · intro hm
    refine ⟨h4 row hm, ?_⟩
    intro ha
    rcases h2 row ha with h | h
    · rw [hq] at h; cases h
    · exact h hm
  · intro ⟨hm, hn⟩
    exact h1 row hm hn

/-- **one resource's outage costs the others nothing**: a batch in which some resources give no connection and
    some deletes fail loses no accepted request and deletes no other row (the batch step is one of the events of
    `C11_safety`); before the repair a request of a resource that had not had its turn was lost for good -/
theorem C11_batch_loses_nothing (rows0 : List Row) (es : List Ev) (noConn : List Nat) (failed : List Req) :
    let s := step (run { rows := rows0 } es) (.batch noConn failed)
    ∀ q ∈ s.accepted, q ∈ s.queue ∨ q ∉ s.rows := by
  have h := inv_step rows0 _ (.batch noConn failed) (inv_run rows0 { rows := rows0 } es (inv_init rows0))
  exact h.2.1

theorem C11_before_fix_batch_loses_a_request :
    let s0 := run { rows := [⟨1, 7, 1⟩, ⟨2, 7, 1⟩] } [.accept ⟨1, 7, 1⟩, .accept ⟨2, 7, 1⟩]
    let s := batchBeforeFix s0 [1, 2] [1]
    (⟨2, 7, 1⟩ : Req) ∈ s.accepted ∧ (⟨2, 7, 1⟩ : Req) ∉ s.queue ∧ (⟨2, 7, 1⟩ : Row) ∈ s.rows := by decide

/-! ### non-vacuity -/

example : (run { rows := [⟨1, 7, 1⟩, ⟨1, 7, 2⟩, ⟨1, 8, 1⟩, ⟨2, 7, 1⟩] }
    [.accept ⟨1, 7, 1⟩, .proc false, .accept ⟨2, 7, 1⟩, .proc false, .proc true, .proc true]).rows =
    [⟨1, 7, 2⟩, ⟨1, 8, 1⟩] := by decide

end Seata.Props.C11
