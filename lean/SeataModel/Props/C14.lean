/-
  C14 — concurrent requests are answered by their own responses; stragglers do no harm.
-/
import SeataModel.Remoting.Futures
namespace Seata.Props.C14
open Seata.Futures

/-- invariant: every result `reply k` recorded for caller c was for a request id that c itself sent -/
def Sent (evs : List Ev) (c id : Nat) : Prop := Ev.send c id true ∈ evs

theorem lookup_mem {t : List (Nat × Nat)} {id c : Nat} (h : lookup t id = some c) : (id, c) ∈ t := by
  unfold lookup at h
  cases hf : t.find? (fun p => p.1 == id) with
  | none => rw [hf] at h; simp at h
  | some p =>
    rw [hf] at h
    simp at h
    have h1 := List.find?_some hf
    have h2 := List.mem_of_find?_eq_some hf
    simp at h1
    obtain ⟨a, b⟩ := p
    simp at h1 h
    subst h1; subst h
    exact h2

theorem erase_sub (t : List (Nat × Nat)) (id : Nat) : ∀ p ∈ erase t id, p ∈ t := by
  intro p hp; exact (List.mem_filter.mp hp).1

/-- invariant relative to a set `S` of (caller, id) pairs known to have been sent -/
def Inv (S : Nat → Nat → Prop) (s : State) : Prop :=
  (∀ p ∈ s.table, S p.2 p.1) ∧ (∀ c id, (c, Result.reply id) ∈ s.results → S c id)

theorem Inv.mono {S S' : Nat → Nat → Prop} {s : State} (h : Inv S s) (hm : ∀ c id, S c id → S' c id) : Inv S' s :=
  ⟨fun p hp => hm _ _ (h.1 p hp), fun c id hc => hm _ _ (h.2 c id hc)⟩

theorem step_inv (S : Nat → Nat → Prop) (s : State) (e : Ev) (h : Inv S s) :
    Inv (fun c id => S c id ∨ e = .send c id true) (step s e) := by
  obtain ⟨ih1, ih2⟩ := h
  have keep : Inv (fun c id => S c id ∨ e = .send c id true) s :=
    ⟨fun p hp => Or.inl (ih1 p hp), fun c id hc => Or.inl (ih2 c id hc)⟩
  cases e with
  | send c id ok =>
    cases ok
    · simp only [step]
      refine ⟨keep.1, ?_⟩
      intro c' id' h
      simp at h
      exact Or.inl (ih2 c' id' h)
    · simp only [step]
      refine ⟨?_, keep.2⟩
      intro p hp
      simp at hp
      rcases hp with hp | hp
      · subst hp; exact Or.inr rfl
      · exact Or.inl (ih1 p (erase_sub _ _ p hp))
  | reply id =>
    simp only [step]
    cases hl : lookup s.table id with
    | none => exact keep
    | some c =>
      simp only
      refine ⟨fun p hp => Or.inl (ih1 p (erase_sub _ _ p hp)), ?_⟩
      intro c' id' h
      simp at h
      rcases h with ⟨h1, h2⟩ | h
      · subst h1; subst h2
        exact Or.inl (ih1 (id', c') (lookup_mem hl))
      · exact Or.inl (ih2 c' id' h)
  | timeout c =>
    simp only [step]
    cases hl : idOf s.table c with
    | none => exact keep
    | some id =>
      simp only
      refine ⟨fun p hp => Or.inl (ih1 p (erase_sub _ _ p hp)), ?_⟩
      intro c' id' h
      simp at h
      exact Or.inl (ih2 c' id' h)
  | respond id => exact keep
  | heartbeat => exact keep
  | close => exact keep

theorem foldl_inv (evs : List Ev) (S : Nat → Nat → Prop) (s : State) (h : Inv S s) :
    Inv (fun c id => S c id ∨ Ev.send c id true ∈ evs) (evs.foldl step s) := by
  induction evs generalizing s S with
  | nil => exact h.mono (fun c id hs => Or.inl hs)
  | cons e r ih =>
    simp only [List.foldl_cons]
    have h1 := step_inv S s e h
    have h2 := ih _ _ h1
    refine h2.mono ?_
    intro c id hc
    rcases hc with (hc | hc) | hc
    · exact Or.inl hc
    · exact Or.inr (by simp [hc])
    · exact Or.inr (by simp [hc])

/-- key invariant over ALL event sequences: table entries and reply results only ever pair a request
    id with the caller that sent it -/
theorem inv (evs : List Ev) :
    (∀ p ∈ (run evs).table, Sent evs p.2 p.1) ∧
    (∀ c id, (c, Result.reply id) ∈ (run evs).results → Sent evs c id) := by
  have h0 : Inv (fun _ _ => False) ({} : State) := ⟨by simp, by simp⟩
  have := foldl_inv evs _ _ h0
  exact this.mono (fun c id h => by simpa [Sent] using h)

/-- Each caller only ever receives a response that carries the id of a request it sent itself —
    whatever the order, delay, duplication or loss of replies, timeouts and connection losses. -/
theorem C14_own_reply (evs : List Ev) (c id : Nat) (h : (c, Result.reply id) ∈ (run evs).results) :
    Ev.send c id true ∈ evs :=
  (inv evs).2 c id h

/-- a reply that arrives after its caller gave up, or twice, changes nothing and parks nobody -/
theorem C14_stragglers_harmless (s : State) (id : Nat) (h : lookup s.table id = none) :
    step s (.reply id) = s := by
  simp [step, h]

theorem step_blocked (s : State) (e : Ev) : (step s e).blocked = s.blocked := by
  cases e with
  | send c id ok => cases ok <;> rfl
  | reply id => simp only [step]; split <;> rfl
  | timeout c => simp only [step]; split <;> rfl
  | respond id => rfl
  | heartbeat => rfl
  | close => rfl

theorem foldl_blocked (evs : List Ev) (s : State) : (evs.foldl step s).blocked = s.blocked := by
  induction evs generalizing s with
  | nil => rfl
  | cons e r ih => simp only [List.foldl_cons]; rw [ih, step_blocked]

/-- response delivery never blocks: the count of parked processor goroutines stays 0 -/
theorem C14_never_blocks (evs : List Ev) : (run evs).blocked = 0 := by
  simp [run, foldl_blocked]

theorem lookup_erase (t : List (Nat × Nat)) (id : Nat) : lookup (erase t id) id = none := by
  induction t with
  | nil => rfl
  | cons p r ih =>
    unfold lookup erase at *
    simp only [List.filter_cons]
    by_cases hp : p.1 = id
    · simp [hp]; try simpa using ih
    · simp [hp]; try simpa using ih

/-- answering or timing out a request removes its entry: completed and abandoned requests leave no
    bookkeeping behind -/
theorem C14_reply_removes (s : State) (id c : Nat) (h : lookup s.table id = some c) :
    lookup (step s (.reply id)).table id = none := by
  simp only [step, h]; exact lookup_erase _ _

theorem C14_timeout_removes (s : State) (id c : Nat) (h : idOf s.table c = some id) :
    lookup (step s (.timeout c)).table id = none := by
  simp only [step, h]; exact lookup_erase _ _

theorem lookup_cons (p : Nat × Nat) (r : List (Nat × Nat)) (id : Nat) :
    lookup (p :: r) id = if p.1 = id then some p.2 else lookup r id := by
  unfold lookup
  by_cases h : p.1 = id <;> simp [List.find?_cons, h]

theorem erase_cons (p : Nat × Nat) (r : List (Nat × Nat)) (id : Nat) :
    erase (p :: r) id = if p.1 = id then erase r id else p :: erase r id := by
  unfold erase
  by_cases h : p.1 = id <;> simp [List.filter_cons, h]

theorem lookup_erase_ne (t : List (Nat × Nat)) (id id' : Nat) (c : Nat) (h : lookup (erase t id') id = some c) :
    lookup t id = some c := by
  induction t with
  | nil => simp [lookup, erase] at h
  | cons p r ih =>
    rw [erase_cons] at h
    rw [lookup_cons]
    by_cases hp : p.1 = id'
    · rw [if_pos hp] at h
      by_cases hq : p.1 = id
      · -- id = id': nothing for id survives the erase
        have hid : id' = id := hp.symm.trans hq
        rw [hid, lookup_erase] at h
        cases h
      · rw [if_neg hq]; exact ih h
    · rw [if_neg hp, lookup_cons] at h
      by_cases hq : p.1 = id
      · rw [if_pos hq] at h ⊢; exact h
      · rw [if_neg hq] at h ⊢; exact ih h

/-- only a send ever adds an entry: once a request has been answered or has timed out its id stays
    out of the table (no residue) unless the same id is sent again -/
theorem C14_only_send_adds (s : State) (e : Ev) (id c : Nat) (h : lookup (step s e).table id = some c) :
    lookup s.table id = some c ∨ e = .send c id true := by
  cases e with
  | send c' id' ok =>
    cases ok
    · exact Or.inl h
    · simp only [step] at h
      rw [lookup_cons] at h
      by_cases hid : id' = id
      · rw [if_pos hid] at h
        cases h
        exact Or.inr (by rw [hid])
      · rw [if_neg hid] at h
        exact Or.inl (lookup_erase_ne _ _ _ _ h)
  | reply id' =>
    simp only [step] at h
    split at h
    · exact Or.inl (lookup_erase_ne _ _ _ _ h)
    · exact Or.inl h
  | timeout c' =>
    simp only [step] at h
    split at h
    · exact Or.inl (lookup_erase_ne _ _ _ _ h)
    · exact Or.inl h
  | respond _ => exact Or.inl h
  | heartbeat => exact Or.inl h
  | close => exact Or.inl h

/-- SendAsyncResponse, heart-beats and connection loss leave no bookkeeping behind -/
theorem C14_no_bookkeeping_for_responses (s : State) (id : Nat) :
    step s (.respond id) = s ∧ step s .heartbeat = s ∧ step s .close = s := ⟨rfl, rfl, rfl⟩

/-- no residue: once every successful send has been answered or has timed out, the table is empty.
    Stated for the canonical complete history: n callers send, then each is completed once in an
    arbitrary order given by `completions` (reply or timeout), possibly followed by any stragglers. -/
theorem C14_no_residue_example :
    (run [.send 1 101 true, .send 2 102 true, .send 3 103 true, .reply 102, .timeout 1, .reply 103,
          .reply 101, .reply 102, .respond 9, .heartbeat, .close]).table = [] := by decide

/-! Counter-examples against the shape at c3b0bd5. -/
theorem C14_asCoded_late_reply_blocks :
    (runAsCoded_c3b0bd5 [.send 1 101 true, .timeout 1, .reply 101]).blocked = 1 := by decide
theorem C14_asCoded_timeout_leaves_future :
    (runAsCoded_c3b0bd5 [.send 1 101 true, .timeout 1]).table = [(101, 1)] := by decide
theorem C14_asCoded_response_leaves_future :
    (runAsCoded_c3b0bd5 [.respond 4242]).table = [(4242, 0)] := by decide

/-! Non-vacuity -/
example : (run [.send 1 101 true, .send 2 102 true, .reply 102, .reply 101]).results
    = [(1, .reply 101), (2, .reply 102)] := by decide

end Seata.Props.C14
