/-
  C19 — only live sessions are chosen; reconnection restores both directions.
-/
import SeataModel.Remoting.LoadBalance
namespace Seata.Props.C19
open Seata.LB

theorem mem_openS {s : Sess} {ss : List Sess} : s ∈ openS ss ↔ s ∈ ss ∧ s.closed = false := by
  simp [openS]

theorem allowed_sub_open (p : Policy) (st : State) (xid : String) :
    ∀ s ∈ allowed p st xid, s ∈ openS st.sessions := by
  intro s hs
  cases p <;> simp only [allowed] at hs
  · exact hs
  · split at hs
    · split at hs
      · exact hs
      · exact (List.mem_filter.mp hs).1
    · exact hs
  · split at hs
    · simp at hs
    · split at hs
      · exact (List.mem_filter.mp hs).1
      · simp at hs
  · exact (List.mem_filter.mp hs).1
  · exact hs

/-- Whatever the policy, the random choice, the map order and the HISTORY of opens, closes, releases
    and earlier selections: a chosen session is currently registered and open. -/
theorem C19_live (p : Policy) (ops : List Op) (st0 : State) (xid : String) :
    ∀ s ∈ allowed p (runOps st0 ops) xid, s ∈ (runOps st0 ops).sessions ∧ s.closed = false := by
  intro s hs
  exact mem_openS.mp (allowed_sub_open p _ xid s hs)

theorem minNat_mem (l : List Nat) (h : l ≠ []) : minNat l ∈ l := by
  cases l with
  | nil => exact absurd rfl h
  | cons a r =>
    simp only [minNat]
    -- foldl min a r ∈ a :: r
    have : ∀ (r : List Nat) (a : Nat), r.foldl Nat.min a ∈ a :: r := by
      intro r
      induction r with
      | nil => intro a; simp
      | cons b r ih =>
        intro a
        simp only [List.foldl_cons]
        have h1 := ih (Nat.min a b)
        rcases List.mem_cons.mp h1 with h2 | h2
        · rw [h2]
          by_cases hab : a ≤ b
          · simp [Nat.min_def, hab]
          · simp [Nat.min_def, hab]
        · simp [h2]
    exact this r a

theorem mem_insertSorted (x a : String) (l : List String) : x ∈ insertSorted a l ↔ x = a ∨ x ∈ l := by
  induction l with
  | nil => simp [insertSorted]
  | cons b r ih =>
    simp only [insertSorted]
    split
    · simp
    · simp [ih]; constructor
      · rintro (h | h | h) <;> simp [h]
      · rintro (h | h | h) <;> simp [h]

theorem mem_sortStrings (x : String) (l : List String) : x ∈ sortStrings l ↔ x ∈ l := by
  induction l with
  | nil => simp [sortStrings]
  | cons a r ih =>
    have : sortStrings (a :: r) = insertSorted a (sortStrings r) := rfl
    rw [this, mem_insertSorted, ih]; simp

theorem length_insertSorted (a : String) (l : List String) : (insertSorted a l).length = l.length + 1 := by
  induction l with
  | nil => simp [insertSorted]
  | cons b r ih => simp only [insertSorted]; split <;> simp [ih]

theorem length_sortStrings (l : List String) : (sortStrings l).length = l.length := by
  induction l with
  | nil => simp [sortStrings]
  | cons a r ih =>
    have : sortStrings (a :: r) = insertSorted a (sortStrings r) := rfl
    rw [this, length_insertSorted, ih]; simp

theorem distinctCount_le (l : List String) : distinctCount l ≤ l.length := by
  induction l with
  | nil => simp [distinctCount]
  | cons a r ih =>
    cases r with
    | nil => simp [distinctCount]
    | cons b r' =>
      simp only [distinctCount]
      have := ih
      simp only [List.length_cons] at this ⊢
      split <;> omega

theorem distinctCount_pos (l : List String) (h : l ≠ []) : 0 < distinctCount l := by
  induction l with
  | nil => exact absurd rfl h
  | cons a r ih =>
    cases r with
    | nil => simp [distinctCount]
    | cons b r' =>
      simp only [distinctCount]
      have := ih (by simp)
      omega

/-- nil is returned only when no session is open (and then always) -/
theorem C19_nil_iff (p : Policy) (st : State) (xid : String) :
    allowed p st xid = [] ↔ openS st.sessions = [] := by
  constructor
  · intro h
    cases p <;> simp only [allowed] at h
    · exact h
    · split at h
      · split at h
        · exact h
        · rename_i hne
          rw [h] at hne; simp at hne
      · exact h
    · -- round robin
      cases ho : openS st.sessions with
      | nil => rfl
      | cons s r =>
        exfalso
        rw [ho] at h
        generalize hS : sortStrings ((s :: r).map (·.addr)) = S at h
        have hne : S ≠ [] := by
          intro hz
          have := length_sortStrings ((s :: r).map (·.addr))
          rw [hS, hz] at this; simp at this
        have hpos := distinctCount_pos S hne
        have hle := distinctCount_le S
        split at h
        · rename_i hd; simp at hd; omega
        · have hidx : st.seq % distinctCount S < S.length := by
            have := Nat.mod_lt st.seq hpos
            omega
          rw [List.getElem?_eq_getElem hidx] at h
          simp only at h
          have hmem : S[st.seq % distinctCount S] ∈ S := List.getElem_mem _
          generalize S[st.seq % distinctCount S] = a at h hmem
          have hmem' : a ∈ sortStrings ((s :: r).map (·.addr)) := by rw [hS]; exact hmem
          rw [mem_sortStrings] at hmem'
          rcases List.mem_map.mp hmem' with ⟨x, hx, hxe⟩
          have : x ∈ (s :: r).filter (fun y => y.addr == a) := by
            simp only [List.mem_filter, hx, true_and, beq_iff_eq]
            exact hxe
          rw [h] at this; simp at this
    · -- least active
      cases ho : openS st.sessions with
      | nil => rfl
      | cons s r =>
        rw [ho] at h
        have hm := minNat_mem ((s :: r).map (fun x => activeOf st x.addr)) (by simp)
        rcases List.mem_map.mp hm with ⟨x, hx, hxe⟩
        have : x ∈ (s :: r).filter (fun y => activeOf st y.addr == minNat ((s :: r).map (fun x => activeOf st x.addr))) := by
          simp [List.mem_filter, hx, hxe]
        rw [h] at this; simp at this
    · exact h
  · intro h
    cases p <;> simp [allowed, h, sortStrings, distinctCount]
    split <;> rfl

/-- XID policy: an xid of the form ip:port:id goes to an open session connected to ip:port whenever
    there is one -/
theorem C19_xid_affinity (st : State) (xid a : String) (hx : xidAddr xid = some a)
    (hex : ∃ s ∈ st.sessions, s.closed = false ∧ s.addr = a) :
    allowed .xid st xid ≠ [] ∧ ∀ s ∈ allowed .xid st xid, s.addr = a ∧ s.closed = false ∧ s ∈ st.sessions := by
  obtain ⟨s0, hs0, hc0, ha0⟩ := hex
  have hmem : s0 ∈ (openS st.sessions).filter (fun s => s.addr == a) := by
    simp [List.mem_filter, mem_openS, hs0, hc0, ha0]
  simp only [allowed, hx]
  have hne : ((openS st.sessions).filter (fun s => s.addr == a)).isEmpty = false := by
    cases hh : (openS st.sessions).filter (fun s => s.addr == a) with
    | nil => rw [hh] at hmem; simp at hmem
    | cons _ _ => rfl
  simp only [hne, Bool.false_eq_true, if_false]
  refine ⟨fun h => by rw [h] at hmem; simp at hmem, ?_⟩
  intro s hs
  have h1 := List.mem_filter.mp hs
  have h2 := mem_openS.mp h1.1
  exact ⟨by simpa using h1.2, h2.2, h2.1⟩

/-- Counter-example against the shape at c3b0bd5 (consistent hash): with a ring built over sessions
    1 and 2, after session 1 is lost the policy may still hand out session 1 — a closed session. -/
theorem C19_asCoded_ring_returns_closed :
    let st := runOps {} [.open_ 1 "10.0.0.1:8091", .open_ 2 "10.0.0.2:8091", .select .consistentHash "x", .close 1]
    ∃ s ∈ allowedAsCoded_c3b0bd5 st, s.closed = true := by
  refine ⟨{ id := 1, addr := "10.0.0.1:8091", closed := true }, ?_, rfl⟩
  decide

/-! Reconnection: what the client announces on a new session. -/

inductive Announce | tm | rm (resource : String)
  deriving Repr, DecidableEq

/-- the documented behaviour: transaction manager and every registered resource -/
def announceSpec (resources : List String) : List Announce := .tm :: resources.map .rm
/-- the code (listener.go OnOpen, then the hook package rm registers with `RegisterOnSessionOpen`): the
transaction manager first, then one RegisterRMRequest per cached resource of every resource manager -/
def announce (resources : List String) : List Announce := .tm :: resources.map .rm
/-- the code before the repair (finding C19-rm-not-reannounced): the transaction manager only -/
def announceBeforeFix (_resources : List String) : List Announce := [.tm]

theorem C19_reannounce_spec (resources : List String) :
    .tm ∈ announceSpec resources ∧ ∀ r ∈ resources, .rm r ∈ announceSpec resources := by
  simp [announceSpec]

/-- every resource registered before the connection was lost is announced on the new session, after the
transaction manager, and nothing else is -/
theorem C19_reannounce (resources : List String) :
    announce resources = announceSpec resources ∧
    (announce resources).head? = some .tm ∧
    (∀ r ∈ resources, .rm r ∈ announce resources) ∧
    (∀ r, .rm r ∈ announce resources → r ∈ resources) ∧
    (announce resources).length = resources.length + 1 := by
  refine ⟨rfl, rfl, ?_, ?_, ?_⟩ <;> simp [announce]

theorem C19_before_fix_resource_forgotten (r : String) (rest : List String) :
    Announce.rm r ∉ announceBeforeFix (r :: rest) := by
  simp [announceBeforeFix]


/-! A waiting request -/

/-- whatever appears in the registry while a request waits, the session it is handed is open and was
    registered at the tick it was taken -/
theorem C19_wait_open (ticks : List (List Sess)) (s : Sess) (h : waitPick ticks = some s) :
    s.closed = false ∧ ∃ reg ∈ ticks, s ∈ reg := by
  induction ticks with
  | nil => simp [waitPick] at h
  | cons reg rest ih =>
    unfold waitPick at h
    cases hf : firstOpen reg with
    | some x =>
      rw [hf] at h
      simp only [Option.some.injEq] at h
      subst h
      unfold firstOpen at hf
      have hm := List.mem_of_find?_eq_some hf
      have hp := List.find?_some hf
      refine ⟨by simpa using hp, reg, by simp, hm⟩
    | none =>
      rw [hf] at h
      obtain ⟨hc, reg', hr, hs⟩ := ih h
      exact ⟨hc, reg', by simp [hr], hs⟩

/-- nil only when no open session ever appeared -/
theorem C19_wait_nil (ticks : List (List Sess)) (h : waitPick ticks = none) :
    ∀ reg ∈ ticks, ∀ s ∈ reg, s.closed = true := by
  induction ticks with
  | nil => simp
  | cons reg rest ih =>
    unfold waitPick at h
    cases hf : firstOpen reg with
    | some x => rw [hf] at h; simp at h
    | none =>
      rw [hf] at h
      intro reg' hr s hs
      rcases List.mem_cons.mp hr with rfl | hr
      · unfold firstOpen at hf
        have := List.find?_eq_none.mp hf s hs
        simpa using this
      · exact ih h reg' hr s hs

/-- a request that had to wait is routed like any other: under the XID policy, when an open session to the
    coordinator its xid names is there at the tick that ends the wait, it gets one of those - and in every case an
    open session that was registered at that tick -/
theorem C19_wait_follows_xid (xid : String) (ticks : List (List Sess)) (s : Sess)
    (h : s ∈ waitAllowed .xid xid ticks) :
    s.closed = false ∧ ∃ reg ∈ ticks, s ∈ reg ∧
      ∀ a, xidAddr xid = some a → (∃ t ∈ reg, t.closed = false ∧ t.addr = a) → s.addr = a := by
  induction ticks with
  | nil => simp [waitAllowed] at h
  | cons reg rest ih =>
    simp only [waitAllowed] at h
    split at h
    · obtain ⟨hc, reg', hr, hs, hx⟩ := ih h
      exact ⟨hc, reg', by simp [hr], hs, hx⟩
    · have hopen := mem_openS.mp (allowed_sub_open .xid { sessions := reg } xid s h)
      refine ⟨hopen.2, reg, by simp, hopen.1, ?_⟩
      intro a hx hex
      exact ((C19_xid_affinity { sessions := reg } xid a hx hex).2 s h).1

/-- and whatever the policy: the session is open and was registered at some tick; nil only when no policy could
    choose at any tick, i.e. no open session ever appeared -/
theorem C19_wait_policy_open (p : Policy) (xid : String) (ticks : List (List Sess)) (s : Sess)
    (h : s ∈ waitAllowed p xid ticks) : s.closed = false ∧ ∃ reg ∈ ticks, s ∈ reg := by
  induction ticks with
  | nil => simp [waitAllowed] at h
  | cons reg rest ih =>
    simp only [waitAllowed] at h
    split at h
    · obtain ⟨hc, reg', hr, hs⟩ := ih h
      exact ⟨hc, reg', by simp [hr], hs⟩
    · have hopen := mem_openS.mp (allowed_sub_open p { sessions := reg } xid s h)
      exact ⟨hopen.2, reg, by simp, hopen.1⟩

/-- before the repair the waiting request took the first open session of the registry: with sessions to two
    coordinators open at that tick, a request for the transaction of the second could go to the first -/
theorem C19_before_fix_wait_ignores_xid :
    waitAllowedBeforeFix [[], [{ id := 1, addr := "10.0.0.1:8091", closed := false }, { id := 2, addr := "10.0.0.2:8091", closed := false }]]
      = [{ id := 1, addr := "10.0.0.1:8091", closed := false }] ∧
    waitAllowed .xid "10.0.0.2:8091:77" [[], [{ id := 1, addr := "10.0.0.1:8091", closed := false }, { id := 2, addr := "10.0.0.2:8091", closed := false }]]
      = [{ id := 2, addr := "10.0.0.2:8091", closed := false }] := by decide

/-- the loop before the repair handed out a closed session (finding C19-waiting-request-gets-closed-session) -/
theorem C19_before_fix_wait_closed :
    waitPickBeforeFix [[], [{ id := 7, addr := "a:1", closed := true }], [{ id := 8, addr := "a:1", closed := false }]]
      = some { id := 7, addr := "a:1", closed := true } := by decide

/-! Non-vacuity -/
example : allowed .xid (runOps {} [.open_ 1 "10.0.0.1:8091", .open_ 2 "10.0.0.2:8091", .close 1]) "10.0.0.2:8091:77"
    = [{ id := 2, addr := "10.0.0.2:8091", closed := false }] := by decide
example : allowed .roundRobin (runOps {} [.open_ 1 "b:1", .open_ 2 "a:1", .select .roundRobin "", .select .roundRobin ""]) ""
    = [{ id := 2, addr := "a:1", closed := false }] := by decide

end Seata.Props.C19
