/-
  C08 — undo-log encoding is lossless under every serializer and compressor setting.
-/
import SeataModel.UndoLog.Lz4Buf
import SeataModel.Lemmas.UndoLog
namespace Seata.Props.C08
open Seata Seata.UndoLog

/-- Lossless (partial): for every branch undo log — any number of statements, images, rows and
    columns — whose column values all lie in the explicit `supported` cell table, and both
    serializers: decoding what was encoded succeeds (no error, no panic) and restores the same tree
    with the same names, key flags, type codes and values up to the undo executors' equality.
    The cells outside `supported` are exactly the known findings listed below. -/
theorem C08_lossless_partial (ser : Serializer) (l : Log)
    (h : ∀ c ∈ colsOfLog l, supported ser c.jdbc c.val = true) :
    ∃ l', rtLog ser l = .ok l' ∧ eqLog l' l = true :=
  rtLog_ok ser l h

/-- per value: a supported cell decodes to an equal value -/
theorem C08_value_lossless (ser : Serializer) (jdbc : Int) (v : GoVal) (h : supported ser jdbc v = true) :
    ∃ v', roundtripVal ser jdbc v = .ok v' ∧ undoEq v' v = true :=
  rt_supported ser jdbc v h

/-- the context stored beside the log is read back exactly (keys/values free of `&` and `=`) -/
theorem C08_ctx_sufficient (m : List (Bytes × Bytes))
    (h : ∀ kv ∈ m, (38:UInt8) ∉ kv.1 ∧ (61:UInt8) ∉ kv.1 ∧ (38:UInt8) ∉ kv.2 ∧ (61:UInt8) ∉ kv.2) :
    decodeCtx (encodeCtx m) = m :=
  decode_encode_ctx m h

/-- Pipeline: for EVERY lawful compressor and text codec that the recorded names resolve to, what
    rollback loads from the (context, rollback_info) pair phase one flushed is the value-level round
    trip of the log — the context is sufficient to pick decompressor and parser, and compression is
    transparent. -/
theorem C08_pipeline (ser : Serializer) (serName compName : Bytes) (tc : TextCodec) (comp : Compressor)
    (lookupComp : Bytes → Compressor) (lookupCodec : Bytes → Option TextCodec) (l : Log)
    (hs : (38:UInt8) ∉ serName ∧ (61:UInt8) ∉ serName) (hc : (38:UInt8) ∉ compName ∧ (61:UInt8) ∉ compName)
    (h1 : lookupComp compName = comp) (h2 : lookupCodec serName = some tc) :
    load ser lookupComp lookupCodec (flush serName compName tc comp l) = rtLog ser l := by
  unfold load flush
  simp only
  rw [decode_encode_ctx]
  · simp [h1, h2, comp.lawful, tc.lawful]
  · intro kv hkv
    simp at hkv
    rcases hkv with h | h <;> subst h <;> simp [hs, hc]

/-- …hence, on supported logs, rollback reads exactly what phase one wrote -/
theorem C08_pipeline_lossless (ser : Serializer) (serName compName : Bytes) (tc : TextCodec) (comp : Compressor)
    (lookupComp : Bytes → Compressor) (lookupCodec : Bytes → Option TextCodec) (l : Log)
    (hs : (38:UInt8) ∉ serName ∧ (61:UInt8) ∉ serName) (hc : (38:UInt8) ∉ compName ∧ (61:UInt8) ∉ compName)
    (h1 : lookupComp compName = comp) (h2 : lookupCodec serName = some tc)
    (h : ∀ c ∈ colsOfLog l, supported ser c.jdbc c.val = true) :
    ∃ l', load ser lookupComp lookupCodec (flush serName compName tc comp l) = .ok l' ∧ eqLog l' l = true := by
  rw [C08_pipeline ser serName compName tc comp lookupComp lookupCodec l hs hc h1 h2]
  exact rtLog_ok ser l h

/-! What the repairs in /repo changed (formerly the open findings C08-varchar-base64, C08-rawbytes,
    C08-protobuf-time, C08-bigint-beyond-2p53), machine-checked on both sides. -/

/-- a text of a character column always comes back as itself under the JSON serializer, whether or not it
    happens to be valid base64 -/
theorem C08_char_text_lossless (jdbc : Int) (hc : classOf jdbc = .char) (s : Bytes) :
    roundtripVal .json jdbc (.str s) = .ok (.str s) := by
  simp only [roundtripVal, marshalJson, unmarshalJson, hc]
  cases hb : b64dec s with
  | none => simp [unmarshalC, hb]
  | some b => simp [unmarshalC, b64dec_b64enc]

/-- before: the VARCHAR value "test" is valid base64 and came back as the bytes b5 eb 2d -/
theorem C08_before_fix_varchar_base64 :
    roundtripValBeforeFix .json jVarchar (.str [116, 101, 115, 116]) = .ok (.str [0xb5, 0xeb, 0x2d]) ∧
    roundtripVal .json jVarchar (.str [116, 101, 115, 116]) = .ok (.str [116, 101, 115, 116]) := by decide

/-- a byte slice of a binary column (BLOB, BINARY, VARBINARY, BIT) comes back as the same bytes, under both
    serializers -/
theorem C08_binary_lossless (ser : Serializer) (jdbc : Int) (hc : classOf jdbc = .bin) (b : Bytes) :
    roundtripVal ser jdbc (.bytes b) = .ok (.bytes b) := by
  cases ser <;>
    simp [roundtripVal, marshalJson, marshalVal, unmarshalJson, unmarshalPb, hc, unmarshalC, b64dec_b64enc]

/-- before: it came back as the base64 TEXT of its bytes, never as the same []byte -/
theorem C08_before_fix_rawbytes (ser : Serializer) (jdbc : Int) (b : Bytes) :
    ∀ v', roundtripValBeforeFix ser jdbc (.bytes b) = .ok v' → (match v' with | .bytes _ => false | _ => true) = true := by
  intro v' hv
  cases ser
  · simp only [roundtripValBeforeFix, marshalVal, unmarshalJsonBeforeFix] at hv
    cases hc : classOfBeforeFix jdbc <;> rw [hc] at hv <;> simp only [unmarshalCBeforeFix] at hv
    all_goals (try (split at hv))
    all_goals (first | (cases hv; rfl) | (simp at hv; done))
  · simp only [roundtripValBeforeFix, marshalVal, unmarshalPbBeforeFix] at hv
    cases hv; rfl

/-- a point in time of a time column comes back as that point in time under the protobuf serializer too -/
theorem C08_protobuf_time_lossless (jdbc : Int) (hc : classOf jdbc = .time) (ns : Int)
    (h1 : -9223372036854775808 ≤ ns) (h2 : ns < 9223372036854775808) :
    roundtripVal .protobuf jdbc (.time ns) = .ok (.time ns) := by
  simp [roundtripVal, marshalVal, unmarshalPb, hc, unmarshalC, timeOfText_marshal ns h1 h2]

/-- before: it came back as a string -/
theorem C08_before_fix_protobuf_time (jdbc ns : Int) :
    ∃ s, roundtripValBeforeFix .protobuf jdbc (.time ns) = .ok (.str s) := ⟨_, rfl⟩

/-- every 64-bit integer of a BIGINT column comes back exactly, under both serializers (the documents are read
    with json.Number) -/
theorem C08_bigint_lossless (ser : Serializer) (i : Int) (h : intKept 64 i = true) :
    roundtripVal ser jBigInt (.int i) = .ok (.int i) := by
  have hc : classOf jBigInt = .intN 64 := by decide
  cases ser <;>
    simp [roundtripVal, marshalJson, marshalVal, unmarshalJson, unmarshalPb, hc, unmarshalC, h]

/-- an UNSIGNED column's value above the signed range of its width (TINYINT UNSIGNED 200, INT UNSIGNED 3·10⁹,
    BIGINT UNSIGNED 2⁶⁴−1) comes back as the number it is -/
theorem C08_unsigned_lossless (ser : Serializer) (jdbc : Int) (bits : Nat) (i : Int)
    (hc : classOf jdbc = .intN bits) (h0 : 0 ≤ i) (h1 : i < 2 ^ (if bits = 64 then 64 else 63)) :
    roundtripVal ser jdbc (.int i) = .ok (.int i) := by
  have hk : intKept bits i = true := by
    unfold intKept
    by_cases hb : bits = 64
    · simp [hb] at h1 ⊢; omega
    · simp [hb] at h1 ⊢; omega
  cases ser <;>
    simp [roundtripVal, marshalJson, marshalVal, unmarshalJson, unmarshalPb, hc, unmarshalC, hk]

/-- before: TINYINT UNSIGNED 200 came back as another number (the code wrapped it to int8(-56); the model of that
    code refused it) -/
theorem C08_before_fix_unsigned : roundtripValBeforeFix .json jTinyInt (.int 200) ≠ .ok (.int 200) := by decide

/-- before: beyond 2^53 the value was refused by the model (the code rounded it through float64) -/
theorem C08_before_fix_bigint : roundtripValBeforeFix .json jBigInt (.int 9007199254740993) = .error .error := by decide

/-- a type code without a rule of its own (JDBC FLOAT 6, NUMERIC 2, BOOLEAN 16) keeps the value; before, it was dropped -/
theorem C08_unhandled_type_keeps_value :
    roundtripVal .json 6 (.float 7 true) = .ok (.float 7 true) ∧ roundtripValBeforeFix .json 6 (.float 7 true) = .ok .nil := by decide

/-! Counter-examples against the shape at c3b0bd5. -/

/-- REAL (MySQL FLOAT): `value.(float32)` on a JSON number panicked -/
def unmarshalRealAsCoded_c3b0bd5 : JVal → Except DecErr GoVal
  | .null => .ok .nil
  | _ => .error .panic
theorem C08_asCoded_real_panics : unmarshalRealAsCoded_c3b0bd5 (marshalVal (.float 1 true)) = .error .panic := rfl

/-- the compress type was recorded but the data stored uncompressed: a compressor that frames its
    output cannot read it back -/
def framing : Compressor :=
  { compress := fun b => 1 :: b,
    decompress := fun b => match b with | 1 :: r => some r | _ => none,
    lawful := fun _ => rfl }
theorem C08_asCoded_uncompressed_unreadable : framing.decompress [123, 125] = none := rfl

/-! Non-vacuity: a log with several statements, NULLs, boundary integers, a float, a time and strings
    that look like numbers / JSON / almost-base64 is within `supported`. -/
def sampleLog : Log :=
  { xid := [49], branch := 7, logs :=
    [{ sqlType := 2, table := [116],
       before := some { table := [116], sqlType := 2, rows :=
         [[{ key := true, name := [105, 100], jdbc := jBigInt, val := .int 9007199254740992 },
           { key := false, name := [110], jdbc := jVarchar, val := .str [49, 50, 51] },
           { key := false, name := [106], jdbc := jVarchar, val := .str [123, 125] },
           { key := false, name := [120], jdbc := jInteger, val := .nil },
           { key := false, name := [116], jdbc := jTimestamp, val := .time 1700000000123456789 },
           { key := false, name := [102], jdbc := jDouble, val := .float 42 false }]] },
       after := none }] }

example : ∀ c ∈ colsOfLog sampleLog, supported .json c.jdbc c.val = true := by decide
example : rtLog .json sampleLog = .ok sampleLog := by decide +kernel


/-! ### the lz4 reader's buffer -/

/-- every block lz4 can produce is read back: whatever `need ≤ 255·n` bytes a block of `n` bytes holds, one of
    the buffers tried is large enough (so the undo log that could be written can be rolled back) -/
theorem C08_lz4_buffer_suffices (n need : Nat) (h : need ≤ 255 * n) :
    ∃ size, lz4Read n need = some size ∧ need ≤ size := by
  unfold lz4Read
  by_cases h0 : need ≤ 100 * n + 64
  · exact ⟨_, by simp [lz4Try, h0], h0⟩
  · by_cases h1 : need ≤ 2 * (100 * n + 64)
    · refine ⟨2 * (100 * n + 64), ?_, h1⟩
      have : ¬ (100 * n + 64 > 255 * n + 64) := by omega
      simp [lz4Try, h0, h1, this]
    · refine ⟨2 * (2 * (100 * n + 64)), ?_, by omega⟩
      have a : ¬ (100 * n + 64 > 255 * n + 64) := by omega
      have b : ¬ (2 * (100 * n + 64) > 255 * n + 64) := by omega
      have c : need ≤ 2 * (2 * (100 * n + 64)) := by omega
      simp [lz4Try, h0, h1, a, b, c]

/-- before the repair a block that shrank below a hundredth was lost (finding C08-lz4-ratio-beyond-hundred) -/
theorem C08_before_fix_lz4 : lz4ReadBeforeFix 1957 300000 = none ∧ (300000 : Nat) ≤ 255 * 1957 := by decide

end Seata.Props.C08
