/-
  C17 — XA branches follow the XA protocol; phase two addresses the prepared branch.

  `XA/Branch.lean`: `phaseOne f` is the trace of one autocommit statement in XA mode under fault `f`
  (registration, XA commands with their outcome), `phaseTwo` the coordinator-driven end, `dbState`
  the database's XA state machine replayed over the successful commands, `xaId` the identifier.
-/
import SeataModel.XA.Branch
import SeataModel.XA.Conn
import SeataModel.XA.KeeperLemmas
namespace Seata.Props.C17
open Seata.XA

/-! ### the identifier is a function of (xid, branch id) that can be inverted -/

theorem digits_no_dash (n : Nat) : '-' ∉ digits n := by
  intro h
  have := Nat.isDigit_of_mem_toDigits (by decide) (by decide) h
  simp [Char.isDigit] at this

theorem splitLast_none (l : List Char) (h : '-' ∉ l) : splitLast l = none := by
  induction l with
  | nil => rfl
  | cons c rest ih =>
    simp only [List.mem_cons, not_or] at h
    simp only [splitLast, ih h.2]
    have : (c == '-') = false := by
      simp only [beq_eq_false_iff_ne, ne_eq]
      exact fun e => h.1 e.symm
    simp [this]

theorem splitLast_append (a l : List Char) (h : '-' ∉ l) : splitLast (a ++ '-' :: l) = some (a, l) := by
  induction a with
  | nil => simp [splitLast, splitLast_none l h]
  | cons c rest ih => simp [splitLast, ih]

/-- **identifier round trip**: the branch identifier determines the global xid and the branch id,
    whatever characters (including '-') the xid contains -/
theorem C17_id_roundtrip (xid : List Char) (branch : Nat) :
    splitLast (xaId xid branch) = some (xid, digits branch) :=
  splitLast_append xid (digits branch) (digits_no_dash branch)

theorem C17_id_injective (x1 x2 : List Char) (b1 b2 : Nat) (h : xaId x1 b1 = xaId x2 b2) :
    x1 = x2 ∧ digits b1 = digits b2 := by
  have h1 := C17_id_roundtrip x1 b1
  rw [h, C17_id_roundtrip x2 b2] at h1
  simp only [Option.some.injEq, Prod.mk.injEq] at h1
  exact ⟨h1.1.symm, h1.2.symm⟩

/-! ### the command sequence -/

/-- **legal sequence**: under every fault and either phase-two decision, the successful commands form
    a legal XA sequence: the database never sees a command that is illegal in the branch's state -/
theorem C17_legal (f : Fault) (commit : Bool) : dbState (whole f commit) ≠ .illegal := by
  cases f <;> cases commit <;> decide

/-- every prefix too (the monitor never passes through `illegal`) -/
theorem C17_legal_prefix (f : Fault) (commit : Bool) (n : Nat) : dbState ((whole f commit).take n) ≠ .illegal := by
  have : ∀ k, k ≤ 8 → dbState ((whole f commit).take k) ≠ .illegal := by
    intro k hk
    cases f <;> cases commit <;>
      (rcases k with _|_|_|_|_|_|_|_|_|k <;> first | decide | omega)
  by_cases hn : n ≤ 8
  · exact this n hn
  · have hlen : (whole f commit).length ≤ 8 := by cases f <;> cases commit <;> decide
    rw [List.take_of_length_le (by omega)]
    have h8 := this 8 (by omega)
    rwa [List.take_of_length_le (by omega)] at h8

/-- registration comes first, and nothing reaches the database unless it was granted -/
theorem C17_register_first (f : Fault) (commit : Bool) :
    (∃ ok rest, whole f commit = .register ok :: rest ∧ (ok = false → rest = [])) := by
  cases f <;> cases commit <;> simp [whole, phaseOne, phaseTwo]

/-- **failure before a successful prepare**: the caller gets an error, the branch is never committed,
    and whatever was started is rolled back (the database ends in `rolledBack`, or never saw the branch) -/
theorem C17_failure (f : Fault) (commit : Bool) (h : f ≠ .none) :
    (phaseOne f).error = true ∧ (phaseOne f).prepared = false ∧
    Ev.cmd .commit true ∉ whole f commit ∧
    (dbState (whole f commit) = .rolledBack ∨ dbState (whole f commit) = .none) := by
  cases f <;> cases commit <;> simp at h <;> decide

/-- **success**: phase two ends the prepared branch with exactly one of commit / rollback -/
theorem C17_success (commit : Bool) :
    (phaseOne .none).error = false ∧
    dbState (phaseOne .none).trace = .prepared ∧
    dbState (whole .none commit) = (if commit then .committed else .rolledBack) := by
  cases commit <;> decide


/-! ### a connection the application keeps, over any sequence of statements and local transactions -/

theorem cstep_inv (c : Conn) (op : COp) (h : CInv c) : CInv (cstep c op).1 := by
  unfold CInv at *
  cases op with
  | stmt f => cases hc : c.autoCommit <;> cases ho : openFails f <;> simp_all [cstep]
  | begin f => cases hc : c.autoCommit <;> cases ho : openFails f <;> simp_all [cstep]
  | commitTx f => simp [cstep]
  | rollbackTx => simp [cstep]

theorem cstep_inside (c : Conn) (op : COp) (h : CInv c) : ∀ b ∈ (cstep c op).2, b = true := by
  unfold CInv at h
  cases op with
  | stmt f => cases hc : c.autoCommit <;> cases ho : openFails f <;> simp_all [cstep]
  | begin f => cases hc : c.autoCommit <;> cases ho : openFails f <;> simp_all [cstep]
  | commitTx f => simp [cstep]
  | rollbackTx => simp [cstep]

/-- **no statement outside a branch**: whatever the application does on the connection — statements on their
    own, local transactions it begins, commits or rolls back — and wherever opening a branch, a statement, XA END
    or XA PREPARE fails, every statement that reaches the database does so inside a branch, and the connection
    never stays out of auto-commit mode without one -/
theorem C17_no_statement_outside_a_branch (ops : List COp) (c : Conn) (h : CInv c) :
    CInv (crun cstep c ops).1 ∧ ∀ b ∈ (crun cstep c ops).2, b = true := by
  induction ops generalizing c with
  | nil => exact ⟨h, by simp [crun]⟩
  | cons op rest ih =>
    have h1 := cstep_inv c op h
    have h2 := cstep_inside c op h
    obtain ⟨i1, i2⟩ := ih (cstep c op).1 h1
    refine ⟨by simpa [crun] using i1, ?_⟩
    intro b hb
    simp only [crun, List.mem_append] at hb
    rcases hb with hb | hb
    · exact h2 b hb
    · exact i2 b hb

/-- a fresh connection meets the premise -/
theorem C17_fresh_connection : CInv {} := by simp [CInv]

/-- before the repairs: a branch that cannot be started, then a statement — which ran bare -/
theorem C17_before_fix_statement_runs_bare :
    (crun cstepBeforeFix {} [.stmt .start, .stmt .none]).2 = [false] ∧
    (crun cstepBeforeFix {} [.begin .registerRefused, .stmt .none]).2 = [false] ∧
    (crun cstepBeforeFix {} [.begin .none, .stmt .stmt, .stmt .none, .commitTx .none]).2 = [true, false] := by decide

example : (crun cstep {} [.begin .none, .stmt .stmt, .stmt .none, .commitTx .none, .stmt .start, .stmt .none]).2
    = [true, true, true] := by decide

/-! ### the keeper: which branches a connection is kept for (XA/Keeper.lean) -/
section keeper
open Seata.XA.Keeper

/-- phase two of branch x takes x, and nothing else, out of the keeper: "phase two addresses the prepared
    branch" for the bookkeeping as well as for the command -/
theorem C17_finish_releases_exactly (s : St) (x : Nat) :
    kept (step s (.finish x)) = (kept s).filter (· ≠ x) := finish_kept s x

/-- another branch the connection holds stays in the keeper -/
theorem C17_other_branches_stay (s : St) (x y : Nat) (h : y ≠ x) (hy : y ∈ kept s) :
    y ∈ kept (step s (.finish x)) := by
  rw [finish_kept]
  simp [List.mem_filter, hy, h]

/-- the finished branch is gone from the keeper -/
theorem C17_finished_branch_released (s : St) (x : Nat) : x ∉ kept (step s (.finish x)) := finished_released s x

/-- the checker leaves a connection alone none of whose branches is prepared: an application's local transaction
    may take as long as it likes -/
theorem C17_checker_spares_unprepared (s : St) (h : ∀ e ∈ s.held, e.2 = false) : step s .tick = s :=
  tick_spares s h

/-- nor does it take a connection away under the branch the application is working on, for the sake of an older
    branch that is prepared on the same session -/
theorem C17_checker_spares_a_working_connection (s : St) (x : Nat) (h : s.cur = some x) : step s .tick = s := by
  simp [step, h]

/-- BeginTx on a connection that holds nothing prepared, then any number of looks of the checker: the connection
    is as it was (in particular not closed, and the branch is still the one it works on) -/
theorem C17_open_transaction_survives_the_checker (s : St) (x n : Nat) (h : ∀ e ∈ s.held, e.2 = false) :
    run (step s (.begin x)) (List.replicate n .tick) = step s (.begin x) :=
  ticks_spare n _ (begin_unprepared s x h)

/-- non-vacuity: a fresh connection meets the hypothesis -/
example : ∀ e ∈ ({} : St).held, e.2 = false := by simp

/-- the situation of the defect, at HEAD: two branches prepared one after the other on one connection, phase
    two for the first, then for the second — the keeper loses exactly the finished branch each time -/
theorem C17_two_branches_one_connection :
    kept (run {} [.begin 1, .prepare, .begin 2, .prepare, .finish 1]) = [2] ∧
    kept (run {} [.begin 1, .prepare, .begin 2, .prepare, .finish 1, .finish 2]) = [] ∧
    kept (run {} [.begin 1, .prepare, .begin 2, .prepare, .finish 2, .finish 1]) = [] := by decide

/-- before the repair 7b62be0: phase two of the first branch released the second; the first stayed for good -/
theorem C17_before_fix_finish_releases_another_branch :
    (runOld {} [.begin 1, .prepare, .begin 2, .prepare, .finish 1]).keeper = [1] ∧
    (runOld {} [.begin 1, .prepare, .begin 2, .prepare, .finish 1, .finish 2]).keeper = [1] := by decide

/-- before the repair: the checker closed a connection whose branch was not prepared -/
theorem C17_before_fix_checker_closes_active_branch :
    (runOld {} [.begin 1, .tick]).closed = true ∧ (run {} [.begin 1, .tick]).closed = false ∧
    (run {} [.begin 1, .prepare, .begin 2, .tick]).closed = false ∧
    (run {} [.begin 1, .prepare, .tick]).closed = true := by decide

/-- nothing is kept that was not begun on this connection (an invariant over ALL operation sequences) -/
theorem C17_kept_only_what_was_begun (ops : List Op) (s : St) (y : Nat) (hy : y ∈ kept (run s ops)) :
    y ∈ kept s ∨ y ∈ begun ops := by
  induction ops generalizing s with
  | nil => exact Or.inl hy
  | cons o r ih =>
    simp only [run, List.foldl_cons] at hy
    rcases ih (step s o) hy with h | h
    · rcases kept_step_subset s o y h with h' | h'
      · exact Or.inl h'
      · subst h'; exact Or.inr (by simp [begun])
    · right
      cases o <;> simp [begun, h]

/-- once a branch has been finished and is not begun again, it is never kept again: no entry survives its
    phase two, whatever else happens on the connection afterwards -/
theorem C17_released_for_good (ops : List Op) (s : St) (x : Nat) (hb : x ∉ begun ops) :
    x ∉ kept (run (step s (.finish x)) ops) := by
  intro h
  rcases C17_kept_only_what_was_begun ops _ x h with h' | h'
  · exact finished_released s x h'
  · exact hb h'

end keeper

end Seata.Props.C17
