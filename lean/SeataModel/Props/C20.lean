/-
  C20 — concurrent use of one client is free of data races and lock-ups (the part a proof can carry:
  the lock discipline of the shared registries and caches, over facts regenerated from the sources).

  `Gen.accesses` is produced by /verif/lockfacts on every run; `Gen.knownSites` lists the sites of open
  known findings (from /verif/known_findings.json).  The race detector run of the harness is the other
  half of the check: it exercises the same registries on the real code.
-/
import SeataModel.Gen.LockFacts
import SeataModel.Gen.KnownSites
namespace Seata.Props.C20
open Seata.Conc Seata.Gen

/-- every access to a guarded field of a shared registry holds the field's lock (constructors and
    open known findings aside) -/
theorem C20_lock_discipline : disciplined knownSites accesses = true := by decide

/-- every field of a shared registry that is accessed under a lock is in the guard table -/
theorem C20_guard_table_covers : covered accesses = true := by decide

/-- consequence, for any two accesses of the generated list -/
theorem C20_every_access_guarded :
    ∀ a ∈ accesses, ∀ g, guardOf a = some g → a.ctor = false → a.site ∉ knownSites → g.lock ∈ a.held :=
  disciplined_sound knownSites accesses C20_lock_discipline

/-- the known sites are violations indeed (a stale entry would make this fail) -/
theorem C20_known_sites_are_violations : knownSites.all (fun s => (violations accesses).any (·.site == s)) = true := by decide

end Seata.Props.C20
