/-
  C10 — branch rollback is idempotent and blocks a late phase one.

  `rollbackBranch` is one delivery of BranchRollback (AT/World.lean); `rollbackBranchFaulted` a
  delivery during which a database statement fails (the harness injects a failure at EVERY statement
  index of the real rollback transaction and checks that the real code behaves like it: nothing
  changes, not answered "rollbacked").
-/
import SeataModel.AT.World
namespace Seata.Props.C10
open Seata Seata.DB Seata.AT

/-- a branch whose undo fails leaves the table exactly as it was (one local transaction) -/
theorem C10_failed_attempt_changes_nothing (sc : Schema) (cfg : Cfg) (t : Table) (b : Branch)
    (h : (undoBranch sc cfg t b).2 = false) : (undoBranch sc cfg t b).1 = t := by
  unfold undoBranch at *
  generalize undoFold sc cfg t b.items.reverse = r at h ⊢
  cases hr : r.2 <;> simp [hr] at h ⊢

/-- a delivery that is not answered "rollbacked" leaves the whole world (table, undo logs, markers)
    as it was: no partial compensation -/
theorem C10_failed_delivery_changes_nothing (sc : Schema) (cfg : Cfg) (w : World) (i : Nat)
    (h : (rollbackBranch sc cfg w i).2 = false) : (rollbackBranch sc cfg w i).1 = w := by
  unfold rollbackBranch at *
  split at h
  · rfl
  · rename_i bs hb
    by_cases hl : bs.hasLog = true
    · simp only [hl, Bool.not_true, Bool.false_eq_true, if_false] at h ⊢
      by_cases hr : (undoBranch sc cfg w.t bs.b).2 = true
      · simp [hr] at h
      · simp [hr]
    · simp [hl] at h

/-- a faulted delivery followed by a clean one is the clean one -/
theorem C10_retry_after_fault (sc : Schema) (cfg : Cfg) (w : World) (i : Nat) :
    rollbackBranch sc cfg (rollbackBranchFaulted w).1 i = rollbackBranch sc cfg w i ∧
    (rollbackBranchFaulted w).2 = false := ⟨rfl, rfl⟩

/-- after a delivery answered "rollbacked" the branch has no undo log any more -/
theorem rolledBack_noLog (sc : Schema) (cfg : Cfg) (w : World) (i : Nat)
    (h : (rollbackBranch sc cfg w i).2 = true) :
    ∃ bs, (rollbackBranch sc cfg w i).1.branches[i]? = some bs ∧ bs.hasLog = false := by
  unfold rollbackBranch at *
  split at h
  · cases h
  · rename_i bs hb
    have hlen : i < w.branches.length := by
      rcases Nat.lt_or_ge i w.branches.length with hlt | hge
      · exact hlt
      · rw [List.getElem?_eq_none hge] at hb; cases hb
    by_cases hl : bs.hasLog = true
    · simp only [hl, Bool.not_true, Bool.false_eq_true, if_false] at h ⊢
      by_cases hr : (undoBranch sc cfg w.t bs.b).2 = true
      · simp only [hr, if_true]
        exact ⟨{ bs with hasLog := false }, by simp [hlen], rfl⟩
      · simp [hr] at h
    · have hl' : bs.hasLog = false := by cases hh : bs.hasLog <;> simp_all
      simp only [hl', Bool.not_false, if_true]
      exact ⟨{ bs with marker := true }, by simp [hlen, hl'], hl'⟩

/-- **C10 (idempotence)**: once a delivery has been answered "rollbacked", every further delivery for
    that branch is answered "rollbacked" again and changes neither the table nor any undo log. -/
theorem C10_idempotent (sc : Schema) (cfg : Cfg) (w : World) (i : Nat)
    (h : (rollbackBranch sc cfg w i).2 = true) :
    let w1 := (rollbackBranch sc cfg w i).1
    (rollbackBranch sc cfg w1 i).2 = true ∧
    (rollbackBranch sc cfg w1 i).1.t = w1.t ∧
    (rollbackBranch sc cfg w1 i).1.branches.map (·.hasLog) = w1.branches.map (·.hasLog) := by
  intro w1
  obtain ⟨bs, hb, hl⟩ := rolledBack_noLog sc cfg w i h
  have hb1 : w1.branches[i]? = some bs := hb
  unfold rollbackBranch
  simp only [hb1, hl, Bool.not_false, if_true]
  refine ⟨trivial, trivial, ?_⟩
  have hlen : i < w1.branches.length := by
    rcases Nat.lt_or_ge i w1.branches.length with hlt | hge
    · exact hlt
    · rw [List.getElem?_eq_none hge] at hb1; cases hb1
  apply List.ext_getElem?
  intro j
  simp only [List.getElem?_map, List.getElem?_set]
  by_cases hij : i = j
  · subst hij
    have hget := (List.getElem?_eq_some_iff.mp hb1).2
    simp [hlen, hget, hl]
  · simp [hij]

/-- any number of repeated deliveries after the first successful one -/
theorem C10_repeated (sc : Schema) (cfg : Cfg) (w : World) (i : Nat) (n : Nat)
    (h : (rollbackBranch sc cfg w i).2 = true) :
    let again := fun (w : World) => (rollbackBranch sc cfg w i).1
    (rollbackBranch sc cfg (Nat.repeat again n (rollbackBranch sc cfg w i).1) i).2 = true ∧
    (Nat.repeat again n (rollbackBranch sc cfg w i).1).t = (rollbackBranch sc cfg w i).1.t := by
  intro again
  have key : ∀ n, ∃ Y, (rollbackBranch sc cfg Y i).2 = true ∧
      Nat.repeat again n (rollbackBranch sc cfg w i).1 = (rollbackBranch sc cfg Y i).1 ∧
      (Nat.repeat again n (rollbackBranch sc cfg w i).1).t = (rollbackBranch sc cfg w i).1.t := by
    intro n
    induction n with
    | zero => exact ⟨w, h, rfl, rfl⟩
    | succ k ih =>
      obtain ⟨Y, hY, hX, ht⟩ := ih
      have idem := C10_idempotent sc cfg Y i hY
      refine ⟨Nat.repeat again k (rollbackBranch sc cfg w i).1, ?_, rfl, ?_⟩
      · rw [hX]; exact idem.1
      · show (rollbackBranch sc cfg (Nat.repeat again k (rollbackBranch sc cfg w i).1) i).1.t = _
        rw [← ht, hX]; exact idem.2.1
  obtain ⟨Y, hY, hX, ht⟩ := key n
  refine ⟨?_, ht⟩
  rw [hX]; exact (C10_idempotent sc cfg Y i hY).1

/-- **C10 (late phase one)**: a rollback that arrives between a branch's registration and its undo-log
    flush leaves a marker; the late local transaction then commits nothing — the table is as before —
    unless it had nothing to log at all, and a further rollback of that branch is answered
    "rollbacked" without touching the table. -/
theorem C10_marker_blocks_late_commit (sc : Schema) (cfg : Cfg) (w : World) (ltx : LocalTx)
    (w' : World) (committed : Bool)
    (h : earlyRollbackThenCommit sc cfg w ltx = some (w', committed)) :
    w'.t = w.t ∧
    (∃ bs, w'.branches = w.branches ++ [bs] ∧ bs.marker = true ∧ bs.hasLog = false) ∧
    (committed = true → ∃ t' b, localPhase1 sc cfg w.t ltx = .ok (t', b) ∧ b.items = []) ∧
    (rollbackBranch sc cfg w' w.branches.length).2 = true ∧
    (rollbackBranch sc cfg w' w.branches.length).1.t = w.t := by
  unfold earlyRollbackThenCommit at h
  split at h
  · cases h
  · rename_i t1 b hp
    simp only [Option.some.injEq, Prod.mk.injEq] at h
    obtain ⟨hw, hc⟩ := h
    subst hw
    refine ⟨rfl, ⟨_, rfl, rfl, rfl⟩, ?_, ?_, ?_⟩
    · intro hcm
      refine ⟨t1, b, hp, ?_⟩
      rw [← hc] at hcm
      simpa using hcm
    · simp [rollbackBranch]
    · simp [rollbackBranch]

/-! ### non-vacuity -/

def sc1 : Schema := { ncols := 2, pk := [0] }
def w0 : World := { t := [[.int 1, .int 10]] }
def ltx1 : LocalTx := [(.update [(1, .val (.lit (.int 11)))] .tt, [])]

example : ∃ w1, runLocalTx sc1 ⟨true, false⟩ w0 ltx1 = some w1 ∧
    (rollbackBranch sc1 ⟨true, false⟩ w1 0).2 = true ∧ (rollbackBranch sc1 ⟨true, false⟩ w1 0).1.t = w0.t := by
  refine ⟨_, rfl, ?_, ?_⟩ <;> decide
example : ∃ w', earlyRollbackThenCommit sc1 ⟨true, false⟩ w0 ltx1 = some (w', false) := ⟨_, rfl⟩

end Seata.Props.C10
