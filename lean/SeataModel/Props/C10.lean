/-
  C10 — branch rollback is idempotent and blocks a late phase one.  (theorems being added)
-/
import SeataModel.AT.Phase1
namespace Seata.Props.C10
open Seata Seata.DB Seata.AT

/-- a branch whose undo fails leaves the table exactly as it was (one local transaction) -/
theorem C10_failed_attempt_changes_nothing (sc : Schema) (cfg : Cfg) (t : Table) (b : Branch)
    (h : (undoBranch sc cfg t b).2 = false) : (undoBranch sc cfg t b).1 = t := by
  unfold undoBranch at *
  generalize undoFold sc cfg t b.items.reverse = r at h ⊢
  cases hr : r.2 <;> simp [hr] at h ⊢

end Seata.Props.C10
