/-
  C03 — global lock keys cover every written row; locking reads consult the coordinator.

  The lock keys of a branch are the `lockKeys` of `localPhase1` (AT/Phase1.lean), sent with the
  registration before the local commit (C02).  `AT/Locks.lean` models the coordinator's grant rule
  and histories of several global transactions.
-/
import SeataModel.AT.SfuGap
import SeataModel.AT.Locks
import SeataModel.Props.C01
import SeataModel.Lemmas.Locks
import SeataModel.AT.KeyText
import SeataModel.Lemmas.KeyText
namespace Seata.Props.C03
open Seata Seata.DB Seata.AT Seata.AT.Locks Seata.Props.C01 Seata.Lemmas.Store Seata.Lemmas.Locks

/-! ### the keys cover what was written -/

/-- one statement: every key under which the table differs after the statement (row inserted,
    deleted, or changed) is among the statement's lock keys -/
theorem C03_keys_cover_stmt (sc : Schema) (cfg : Cfg) (t : Table) (args : Args) (s : Stmt)
    (t' : Table) (item : Item) (keys : List Key)
    (ht : WFTable sc t) (hs : WFStmt sc s)
    (h : stmtPhase1 sc cfg t args s = .ok (t', item, keys)) :
    ∀ k : Key, lookup sc t' k ≠ lookup sc t k → k ∈ keys := by
  intro k hne
  apply Classical.byContradiction
  intro hk
  exact hne (stmt_lookup_unchanged sc cfg t args s t' item keys ht.uniq ((wfStmt_iff sc s).1 hs) h k hk)

/-- the lock keys of a local transaction are the keys of its statements, in order -/
theorem C03_keys_concat (sc : Schema) (cfg : Cfg) (t : Table) (s : Stmt) (args : Args) (rest : LocalTx)
    (t1 : Table) (item : Item) (keys : List Key) (t2 : Table) (b : Branch)
    (h1 : stmtPhase1 sc cfg t args s = .ok (t1, item, keys))
    (h2 : localPhase1 sc cfg t1 rest = .ok (t2, b)) :
    ∃ b', localPhase1 sc cfg t ((s, args) :: rest) = .ok (t2, b') ∧ b'.lockKeys = keys ++ b.lockKeys := by
  simp [localPhase1, h1, h2]

/-- a whole local transaction: every key under which the table differs across the local commit is
    among the lock keys sent with the registration -/
theorem C03_keys_cover_local (sc : Schema) (cfg : Cfg) (t : Table) (ltx : LocalTx) (t' : Table) (b : Branch)
    (ht : WFTable sc t) (hs : ∀ p ∈ ltx, WFStmt sc p.1)
    (h : localPhase1 sc cfg t ltx = .ok (t', b)) :
    ∀ k : Key, lookup sc t' k ≠ lookup sc t k → k ∈ b.lockKeys := by
  intro k hne
  apply Classical.byContradiction
  intro hk
  exact hne (local_lookup_unchanged sc cfg ltx t t' b ht.uniq ht.shape
    (fun p hp => (wfStmt_iff sc p.1).1 (hs p hp)) h k hk)

/-- the key of a row does not depend on the statement form that touched it: an INSERT of row `r`,
    and an UPDATE or DELETE selecting `r`, all record `keyOf sc r` -/
theorem C03_key_canonical (sc : Schema) (cfg : Cfg) (t : Table) (args : Args) (r : Row) :
    (∀ w t' item keys, stmtPhase1 sc cfg t args (.delete w) = .ok (t', item, keys) →
        r ∈ t → matches_ r args w = true → keyOf sc r ∈ keys) ∧
    (∀ sets w t' item keys, stmtPhase1 sc cfg t args (.update sets w) = .ok (t', item, keys) →
        r ∈ t → matches_ r args w = true → keyOf sc r ∈ keys) ∧
    (∀ rows t' item keys, stmtPhase1 sc cfg t args (.insert rows) = .ok (t', item, keys) →
        r ∈ rows.map (fun es => es.map (evalE [] args)) → keyOf sc r ∈ keys) := by
  refine ⟨?_, ?_, ?_⟩
  · intro w t' item keys h hr hm
    obtain ⟨_, rfl⟩ := stmtPhase1_delete sc cfg t args w t' item keys h
    exact List.mem_map.2 ⟨r, List.mem_filter.2 ⟨hr, hm⟩, rfl⟩
  · intro sets w t' item keys h hr hm
    obtain ⟨_, rfl⟩ := stmtPhase1_update sc cfg t args sets w t' item keys h
    exact List.mem_map.2 ⟨r, List.mem_filter.2 ⟨hr, hm⟩, rfl⟩
  · intro rows t' item keys h hr
    rw [stmtPhase1_insert_keys sc cfg t args rows t' item keys h]
    exact List.mem_map.2 ⟨r, hr, rfl⟩

/-! ### isolation under the coordinator's lock table -/

/-- every key written by a still-active global transaction is held by it in the lock table -/
def Inv (s : St) : Prop := ∀ p ∈ s.wrote, holder s.locks p.2 = some p.1

theorem C03_inv_step (sc : Schema) (cfg : Cfg) (s : St) (e : Ev) (h : Inv s) : Inv (step sc cfg s e).1 := by
  cases e with
  | local_ x ltx =>
    simp only [step]
    split
    · exact h
    · rename_i t' b _
      split
      · rename_i hl
        intro p hp
        simp only [List.mem_append, List.mem_map] at hp
        rcases hp with hp | ⟨k, hk, rfl⟩
        · exact holder_acquire_of_some _ _ _ _ _ (h p hp)
        · exact holder_acquire_of_lockable _ _ _ _ hl hk
      · exact h
  | finish x =>
    intro p hp
    simp only [step, List.mem_filter, bne_iff_ne, ne_eq] at hp
    exact holder_release _ _ _ _ (h p hp.1) hp.2

theorem C03_inv_run (sc : Schema) (cfg : Cfg) (s : St) (es : List Ev) (h : Inv s) : Inv (run sc cfg s es).1 := by
  induction es generalizing s with
  | nil => exact h
  | cons e rest ih => exact ih _ (C03_inv_step sc cfg s e h)

/-- **isolation**: in every history that starts with no locks, two different still-active global
    transactions never both have written the same row -/
theorem C03_isolation (sc : Schema) (cfg : Cfg) (t : Table) (es : List Ev) (x y : Xid) (k : Key)
    (hx : (x, k) ∈ (run sc cfg { t := t } es).1.wrote) (hy : (y, k) ∈ (run sc cfg { t := t } es).1.wrote) :
    x = y := by
  have hinv : Inv (run sc cfg { t := t } es).1 :=
    C03_inv_run sc cfg { t := t } es (by intro p hp; simp at hp)
  have h1 := hinv _ hx
  have h2 := hinv _ hy
  simp only [h1, Option.some.injEq] at h2
  exact h2

/-- a local transaction whose keys conflict with another global transaction's commits nothing -/
theorem C03_refused_commits_nothing (sc : Schema) (cfg : Cfg) (s : St) (x : Xid) (ltx : LocalTx)
    (h : (step sc cfg s (.local_ x ltx)).2 = false) : (step sc cfg s (.local_ x ltx)).1 = s := by
  revert h
  simp only [step]
  split
  · intro _; rfl
  · split
    · intro h; cases h
    · intro _; rfl

/-! ### SELECT ... FOR UPDATE -/

/-- rows are returned only after the coordinator has been asked and has answered "lockable";
    otherwise the statement fails -/
theorem C03_sfu_consults (explicit : Bool) (matched : Nat) (r : Reply) :
    ((selectForUpdate explicit matched r).rowsReturned = true → r = .lockable ∧ (selectForUpdate explicit matched r).queried = true) ∧
    (r ≠ .lockable → (selectForUpdate explicit matched r).error = true ∧ (selectForUpdate explicit matched r).rowsReturned = false) := by
  cases r <;> simp [selectForUpdate]

/-- on a conflict outside a caller-managed transaction the local row locks are released -/
theorem C03_sfu_conflict_releases_autocommit (matched : Nat) (r : Reply) (h : r ≠ .lockable) :
    (selectForUpdate false matched r).localLocksKept = false := by
  cases r <;> simp [selectForUpdate] at h ⊢

/-- NOT the property: inside a caller-managed transaction the model (like the code, on InnoDB) keeps
    the local row locks after a conflict — recorded as a known finding, see known_findings.json -/
theorem C03_sfu_conflict_explicit_keeps_locks_FINDING (matched : Nat) (hm : 0 < matched) :
    (selectForUpdate true matched .conflict).localLocksKept = true := by
  simp [selectForUpdate, hm]

/-! ### non-vacuity -/

def sc1 : Schema := { ncols := 2, pk := [0] }
def upd (k : Int) : LocalTx := [(.update [(1, .val (.lit (.int 7)))] (.cmp .eq (.col 0) (.lit (.int k))), [])]

/-- T1 writes row 1; T2's write of row 1 is refused until T1 finishes -/
example : (run sc1 ⟨true, false⟩ { t := [[.int 1, .int 0], [.int 2, .int 0]] }
    [.local_ 1 (upd 1), .local_ 2 (upd 1), .local_ 2 (upd 2), .finish 1, .local_ 2 (upd 1)]).2 =
    [true, false, true, true, true] := by decide

/-! ### the TEXT of the lock keys (AT/KeyText.lean): the same row always has the same key text, different
    rows have different texts — provided no key part contains a separator (open finding
    C03-lock-key-separators-not-escaped) -/
section KeyTextSection
open Seata.AT.KeyText
open Seata.Lemmas.KeyText


/-- a map that fixes every element of the list fixes the list -/
private theorem map_eq_self {α : Type} (f : α → α) (l : List α) (h : ∀ a ∈ l, f a = a) : l.map f = l := by
  induction l with
  | nil => rfl
  | cons a l ih =>
    rw [List.map_cons, h a List.mem_cons_self, ih (fun b hb => h b (List.mem_cons_of_mem _ hb))]

/-- splitting what was joined gives the parts back, when no part contains the separator -/
theorem splitOn_joinWith (sep : Char) (parts : List (List Char)) (hne : parts ≠ [])
    (h : ∀ p ∈ parts, sep ∉ p) : splitOn sep (joinWith sep parts) = parts := by
  induction parts with
  | nil => exact absurd rfl hne
  | cons p rest ih =>
    cases rest with
    | nil =>
      rw [joinWith_singleton]
      exact splitOn_of_not_mem sep p (h p List.mem_cons_self)
    | cons q rest' =>
      rw [joinWith_cons_cons, splitOn_append_sep sep p _ (h p List.mem_cons_self),
        ih (List.cons_ne_nil _ _) (fun r hr => h r (List.mem_cons_of_mem _ hr))]

/-- a joined text contains a character only if some part does or it is the separator -/
theorem mem_joinWith (sep c : Char) (parts : List (List Char)) (hc : c ∈ joinWith sep parts) :
    c = sep ∨ ∃ p ∈ parts, c ∈ p := by
  induction parts with
  | nil => rw [joinWith_nil] at hc; exact absurd hc List.not_mem_nil
  | cons p rest ih =>
    cases rest with
    | nil =>
      rw [joinWith_singleton] at hc
      exact Or.inr ⟨p, List.mem_cons_self, hc⟩
    | cons q rest' =>
      rw [joinWith_cons_cons] at hc
      cases List.mem_append.mp hc with
      | inl hp => exact Or.inr ⟨p, List.mem_cons_self, hp⟩
      | inr hr =>
        cases List.mem_cons.mp hr with
        | inl e => exact Or.inl e
        | inr hr' =>
          cases ih hr' with
          | inl e => exact Or.inl e
          | inr e =>
            cases e with
            | intro r hr'' => exact Or.inr ⟨r, List.mem_cons_of_mem _ hr''.1, hr''.2⟩

/-- the text of a key whose parts are clean contains no ',' -/
private theorem comma_not_mem_keyText (k : List (List Char)) (hc : ∀ p ∈ k, Clean p) : ',' ∉ keyText k := by
  intro hm
  cases mem_joinWith '_' ',' k hm with
  | inl e => exact absurd e (by decide)
  | inr e =>
    cases e with
    | intro p hp => exact (hc p hp.1).2.1 hp.2

/-- **round trip**: the coordinator reads back exactly the keys (as lists of parts) that the client wrote,
    for every number of keys and parts, provided every key has at least one part and every part is clean -/
theorem C03_keys_text_round_trip (keys : List (List (List Char))) (hne : keys ≠ [])
    (hk : ∀ k ∈ keys, k ≠ []) (hc : ∀ k ∈ keys, ∀ p ∈ k, Clean p) :
    parseKeys (keysText keys) = keys := by
  have hne' : keys.map keyText ≠ [] := by
    intro e
    exact hne (List.map_eq_nil_iff.mp e)
  have hsep : ∀ t ∈ keys.map keyText, ',' ∉ t := by
    intro t ht
    cases List.mem_map.mp ht with
    | intro k hk' =>
      rw [← hk'.2]
      exact comma_not_mem_keyText k (hc k hk'.1)
  unfold parseKeys keysText
  rw [splitOn_joinWith ',' (keys.map keyText) hne' hsep, List.map_map]
  apply map_eq_self
  intro k hkm
  show splitOn '_' (joinWith '_' k) = k
  exact splitOn_joinWith '_' k (hk k hkm) (fun p hp => (hc k hkm p hp).1)

/-- **injective**: two registrations with the same text lock the same keys -/
theorem C03_keys_text_injective (ks ks' : List (List (List Char))) (hne : ks ≠ []) (hne' : ks' ≠ [])
    (hk : ∀ k ∈ ks, k ≠ []) (hk' : ∀ k ∈ ks', k ≠ [])
    (hc : ∀ k ∈ ks, ∀ p ∈ k, Clean p) (hc' : ∀ k ∈ ks', ∀ p ∈ k, Clean p)
    (h : keysText ks = keysText ks') : ks = ks' := by
  rw [← C03_keys_text_round_trip ks hne hk hc, ← C03_keys_text_round_trip ks' hne' hk' hc', h]

/-- the proviso is needed (open finding C03-lock-key-separators-not-escaped): a part that contains ',' or '_'
    reads back as other keys -/
theorem C03_FINDING_separator_in_value :
    parseKeys (keysText [[['x', ',']]]) = [[['x']], [[]]] ∧
    parseKeys (keysText [[['a', '_', 'b']]]) = [[['a'], ['b']]] ∧
    keysText [[['a', '_', 'b']]] = keysText [[['a'], ['b']]] := by
  decide

/-! non-vacuity -/
example : parseKeys (keysText [[['1', '3'], ['2', '9']], [['5'], ['2']]]) = [[['1', '3'], ['2', '9']], [['5'], ['2']]] := by
  decide


end KeyTextSection

/-! ### the two queries of a locking read with a wait option (AT/SfuGap.lean) -/
section sfuGap
open Seata.AT.SfuGap

/-- as coded, every row the application gets was named to the coordinator - for every wait option, every set of
    matching rows and every way other transactions hold and release rows between the two queries -/
theorem C03_sfu_returned_rows_are_named (m : Mode) (matching : List Nat) (held1 held2 : Nat → Bool)
    (rows : List Nat) (h : (through keyMode m matching held1 held2).returned = some rows) :
    ∀ r ∈ rows, r ∈ (through keyMode m matching held1 held2).named := by
  intro r hr
  cases m with
  | plain =>
    -- everything that matches is named
    simp only [through, keyMode, lockingRead, Option.some.injEq] at h ⊢
    subst h
    simpa using hr
  | nowait =>
    -- named is everything that matches, or the read failed
    by_cases hb : (matching.filter (fun r => held1 r && !([] : List Nat).contains r)).isEmpty = true
    · simp only [through, keyMode, lockingRead, if_pos hb] at h ⊢
      split at h
      · simp only [Option.some.injEq] at h; subst h; exact hr
      · simp at h
    · simp only [through, keyMode, lockingRead, if_neg hb] at h
      simp at h
  | skipLocked =>
    -- the key query is a plain one, everything that matches is named
    simp only [through, keyMode, lockingRead, Option.some.injEq] at h ⊢
    subst h
    exact (List.mem_filter.mp hr).1

/-- OPEN FINDING C16-skip-locked-waits-inside-global-tx, the price: as coded, a SKIP LOCKED read waits for a held
    row where the statement alone would not -/
theorem C03_sfu_skip_locked_waits_as_coded :
    (through keyMode .skipLocked [1, 2, 3] (fun r => r == 2) (fun r => r == 2)).extraWait = true := by decide

/-- ... and the alternative a seeded change proposed does not wait, but returns a row the coordinator was never
    asked about when its holder lets go between the two queries (why the key query does not inherit SKIP LOCKED) -/
theorem C03_sfu_inherited_skip_locked_returns_unnamed_row :
    let r := through keyModeInherit .skipLocked [1, 2, 3] (fun r => r == 2) (fun _ => false)
    r.extraWait = false ∧ r.named = [1, 3] ∧ r.returned = some [1, 2, 3] := by decide

/-- NOWAIT inherited: fails at once when a row is held, and never waits where the statement would not -/
theorem C03_sfu_nowait_never_waits (matching : List Nat) (held1 held2 : Nat → Bool) :
    (through keyMode .nowait matching held1 held2).extraWait = false := by
  simp only [through, keyMode, lockingRead]
  split <;> simp

end sfuGap

end Seata.Props.C03
