/-
  C03 — global lock keys cover every written row; locking reads consult the coordinator.

  The lock keys of a branch are the `lockKeys` of `localPhase1` (AT/Phase1.lean), sent with the
  registration before the local commit (C02).  `AT/Locks.lean` models the coordinator's grant rule
  and histories of several global transactions.
-/
import SeataModel.AT.Locks
import SeataModel.Props.C01
import SeataModel.Lemmas.Locks
namespace Seata.Props.C03
open Seata Seata.DB Seata.AT Seata.AT.Locks Seata.Props.C01 Seata.Lemmas.Store Seata.Lemmas.Locks

/-! ### the keys cover what was written -/

/-- one statement: every key under which the table differs after the statement (row inserted,
    deleted, or changed) is among the statement's lock keys -/
theorem C03_keys_cover_stmt (sc : Schema) (cfg : Cfg) (t : Table) (args : Args) (s : Stmt)
    (t' : Table) (item : Item) (keys : List Key)
    (ht : WFTable sc t) (hs : WFStmt sc s)
    (h : stmtPhase1 sc cfg t args s = .ok (t', item, keys)) :
    ∀ k : Key, lookup sc t' k ≠ lookup sc t k → k ∈ keys := by
  intro k hne
  apply Classical.byContradiction
  intro hk
  exact hne (stmt_lookup_unchanged sc cfg t args s t' item keys ht.uniq ((wfStmt_iff sc s).1 hs) h k hk)

/-- the lock keys of a local transaction are the keys of its statements, in order -/
theorem C03_keys_concat (sc : Schema) (cfg : Cfg) (t : Table) (s : Stmt) (args : Args) (rest : LocalTx)
    (t1 : Table) (item : Item) (keys : List Key) (t2 : Table) (b : Branch)
    (h1 : stmtPhase1 sc cfg t args s = .ok (t1, item, keys))
    (h2 : localPhase1 sc cfg t1 rest = .ok (t2, b)) :
    ∃ b', localPhase1 sc cfg t ((s, args) :: rest) = .ok (t2, b') ∧ b'.lockKeys = keys ++ b.lockKeys := by
  simp [localPhase1, h1, h2]

/-- a whole local transaction: every key under which the table differs across the local commit is
    among the lock keys sent with the registration -/
theorem C03_keys_cover_local (sc : Schema) (cfg : Cfg) (t : Table) (ltx : LocalTx) (t' : Table) (b : Branch)
    (ht : WFTable sc t) (hs : ∀ p ∈ ltx, WFStmt sc p.1)
    (h : localPhase1 sc cfg t ltx = .ok (t', b)) :
    ∀ k : Key, lookup sc t' k ≠ lookup sc t k → k ∈ b.lockKeys := by
  intro k hne
  apply Classical.byContradiction
  intro hk
  exact hne (local_lookup_unchanged sc cfg ltx t t' b ht.uniq ht.shape
    (fun p hp => (wfStmt_iff sc p.1).1 (hs p hp)) h k hk)

/-- the key of a row does not depend on the statement form that touched it: an INSERT of row `r`,
    and an UPDATE or DELETE selecting `r`, all record `keyOf sc r` -/
theorem C03_key_canonical (sc : Schema) (cfg : Cfg) (t : Table) (args : Args) (r : Row) :
    (∀ w t' item keys, stmtPhase1 sc cfg t args (.delete w) = .ok (t', item, keys) →
        r ∈ t → matches_ r args w = true → keyOf sc r ∈ keys) ∧
    (∀ sets w t' item keys, stmtPhase1 sc cfg t args (.update sets w) = .ok (t', item, keys) →
        r ∈ t → matches_ r args w = true → keyOf sc r ∈ keys) ∧
    (∀ rows t' item keys, stmtPhase1 sc cfg t args (.insert rows) = .ok (t', item, keys) →
        r ∈ rows.map (fun es => es.map (evalE [] args)) → keyOf sc r ∈ keys) := by
  refine ⟨?_, ?_, ?_⟩
  · intro w t' item keys h hr hm
    obtain ⟨_, rfl⟩ := stmtPhase1_delete sc cfg t args w t' item keys h
    exact List.mem_map.2 ⟨r, List.mem_filter.2 ⟨hr, hm⟩, rfl⟩
  · intro sets w t' item keys h hr hm
    obtain ⟨_, rfl⟩ := stmtPhase1_update sc cfg t args sets w t' item keys h
    exact List.mem_map.2 ⟨r, List.mem_filter.2 ⟨hr, hm⟩, rfl⟩
  · intro rows t' item keys h hr
    rw [stmtPhase1_insert_keys sc cfg t args rows t' item keys h]
    exact List.mem_map.2 ⟨r, hr, rfl⟩

/-! ### isolation under the coordinator's lock table -/

/-- every key written by a still-active global transaction is held by it in the lock table -/
def Inv (s : St) : Prop := ∀ p ∈ s.wrote, holder s.locks p.2 = some p.1

theorem C03_inv_step (sc : Schema) (cfg : Cfg) (s : St) (e : Ev) (h : Inv s) : Inv (step sc cfg s e).1 := by
  cases e with
  | local_ x ltx =>
    simp only [step]
    split
    · exact h
    · rename_i t' b _
      split
      · rename_i hl
        intro p hp
        simp only [List.mem_append, List.mem_map] at hp
        rcases hp with hp | ⟨k, hk, rfl⟩
        · exact holder_acquire_of_some _ _ _ _ _ (h p hp)
        · exact holder_acquire_of_lockable _ _ _ _ hl hk
      · exact h
  | finish x =>
    intro p hp
    simp only [step, List.mem_filter, bne_iff_ne, ne_eq] at hp
    exact holder_release _ _ _ _ (h p hp.1) hp.2

theorem C03_inv_run (sc : Schema) (cfg : Cfg) (s : St) (es : List Ev) (h : Inv s) : Inv (run sc cfg s es).1 := by
  induction es generalizing s with
  | nil => exact h
  | cons e rest ih => exact ih _ (C03_inv_step sc cfg s e h)

/-- **isolation**: in every history that starts with no locks, two different still-active global
    transactions never both have written the same row -/
theorem C03_isolation (sc : Schema) (cfg : Cfg) (t : Table) (es : List Ev) (x y : Xid) (k : Key)
    (hx : (x, k) ∈ (run sc cfg { t := t } es).1.wrote) (hy : (y, k) ∈ (run sc cfg { t := t } es).1.wrote) :
    x = y := by
  have hinv : Inv (run sc cfg { t := t } es).1 :=
    C03_inv_run sc cfg { t := t } es (by intro p hp; simp at hp)
  have h1 := hinv _ hx
  have h2 := hinv _ hy
  simp only [h1, Option.some.injEq] at h2
  exact h2

/-- a local transaction whose keys conflict with another global transaction's commits nothing -/
theorem C03_refused_commits_nothing (sc : Schema) (cfg : Cfg) (s : St) (x : Xid) (ltx : LocalTx)
    (h : (step sc cfg s (.local_ x ltx)).2 = false) : (step sc cfg s (.local_ x ltx)).1 = s := by
  revert h
  simp only [step]
  split
  · intro _; rfl
  · split
    · intro h; cases h
    · intro _; rfl

/-! ### SELECT ... FOR UPDATE -/

/-- rows are returned only after the coordinator has been asked and has answered "lockable";
    otherwise the statement fails -/
theorem C03_sfu_consults (explicit : Bool) (matched : Nat) (r : Reply) :
    ((selectForUpdate explicit matched r).rowsReturned = true → r = .lockable ∧ (selectForUpdate explicit matched r).queried = true) ∧
    (r ≠ .lockable → (selectForUpdate explicit matched r).error = true ∧ (selectForUpdate explicit matched r).rowsReturned = false) := by
  cases r <;> simp [selectForUpdate]

/-- on a conflict outside a caller-managed transaction the local row locks are released -/
theorem C03_sfu_conflict_releases_autocommit (matched : Nat) (r : Reply) (h : r ≠ .lockable) :
    (selectForUpdate false matched r).localLocksKept = false := by
  cases r <;> simp [selectForUpdate] at h ⊢

/-- NOT the property: inside a caller-managed transaction the model (like the code, on InnoDB) keeps
    the local row locks after a conflict — recorded as a known finding, see known_findings.json -/
theorem C03_sfu_conflict_explicit_keeps_locks_FINDING (matched : Nat) (hm : 0 < matched) :
    (selectForUpdate true matched .conflict).localLocksKept = true := by
  simp [selectForUpdate, hm]

/-! ### non-vacuity -/

def sc1 : Schema := { ncols := 2, pk := [0] }
def upd (k : Int) : LocalTx := [(.update [(1, .val (.lit (.int 7)))] (.cmp .eq (.col 0) (.lit (.int k))), [])]

/-- T1 writes row 1; T2's write of row 1 is refused until T1 finishes -/
example : (run sc1 ⟨true, false⟩ { t := [[.int 1, .int 0], [.int 2, .int 0]] }
    [.local_ 1 (upd 1), .local_ 2 (upd 1), .local_ 2 (upd 2), .finish 1, .local_ 2 (upd 1)]).2 =
    [true, false, true, true, true] := by decide

end Seata.Props.C03
