/-
  C05 — TCC branches are registered before try and dispatched faithfully in phase two.
-/
import SeataModel.TCC.Action
namespace Seata.Props.C05
open Seata.TCC

/-- exactly one branch is registered (resource = action name, application data = the tagged
    parameters), before try; try runs iff registration succeeded -/
theorem C05_register_before_try (action : String) (fields : List Field) (reg : RegOutcome) :
    let (tr, ran) := prepare action fields reg
    tr.head? = some (.register action (captured fields)) ∧
    (tr.filter (fun e => match e with | .register _ _ => true | _ => false)).length = 1 ∧
    (ran = true ↔ ∃ b, reg = .ok b) ∧
    (Ev.tryRun ∈ tr ↔ ran = true) := by
  cases reg <;> simp [prepare]

/-- only exported, tagged fields (tag ≠ "-") are captured, each under its tag -/
theorem C05_captured_sound (fields : List Field) :
    ∀ p ∈ captured fields, ∃ f ∈ fields, f.exported = true ∧ f.tag = p.1 ∧ f.tag ≠ "" ∧ f.tag ≠ "-" ∧ f.value = p.2 := by
  induction fields with
  | nil => simp [captured]
  | cons f r ih =>
    intro p hp
    simp only [captured] at hp
    split at hp
    · rename_i hc
      simp only [Bool.and_eq_true, bne_iff_ne, ne_eq] at hc
      split at hp
      · obtain ⟨g, hg, h⟩ := ih p hp
        exact ⟨g, by simp [hg], h⟩
      · rcases List.mem_cons.mp hp with h | h
        · subst h
          exact ⟨f, by simp, hc.1.1, rfl, hc.1.2, hc.2, rfl⟩
        · obtain ⟨g, hg, h'⟩ := ih p h
          exact ⟨g, by simp [hg], h'⟩
    · obtain ⟨g, hg, h⟩ := ih p hp
      exact ⟨g, by simp [hg], h⟩

/-- every exported tagged field's tag is present among the captured parameters -/
theorem C05_captured_complete (fields : List Field) (f : Field) (hf : f ∈ fields)
    (h : f.exported = true ∧ f.tag ≠ "" ∧ f.tag ≠ "-") :
    ∃ v, (f.tag, v) ∈ captured fields := by
  induction fields with
  | nil => simp at hf
  | cons g r ih =>
    rcases List.mem_cons.mp hf with hfg | hfr
    · subst hfg
      have hc : (f.exported && f.tag != "" && f.tag != "-") = true := by simp [h.1, h.2.1, h.2.2]
      simp only [captured, hc, if_true]
      by_cases hany : ((captured r).any fun p => p.1 == f.tag) = true
      · simp only [hany, if_true]
        obtain ⟨p, hp, hpt⟩ := List.any_eq_true.mp hany
        have hpe : p.1 = f.tag := by simpa using hpt
        exact ⟨p.2, by rw [← hpe]; exact hp⟩
      · simp only [hany]
        exact ⟨f.value, by simp⟩
    · obtain ⟨v, hv⟩ := ih hfr
      simp only [captured]
      by_cases hg : (g.exported && g.tag != "" && g.tag != "-") = true
      · simp only [hg, if_true]
        by_cases hany : ((captured r).any fun p => p.1 == g.tag) = true
        · simp only [hany, if_true]; exact ⟨v, hv⟩
        · simp only [hany]; exact ⟨v, by simp [hv]⟩
      · simp only [hg]; exact ⟨v, hv⟩

/-- a phase-two request for a registered resource with well-formed application data invokes the
    matching method EXACTLY once, with the request's xid and branch id and the context carried in
    the application data -/
theorem C05_exactly_once (registered : List String) (r : Request) (m : List (String × String))
    (hr : known registered r = true) (hd : r.data = .ctx m) :
    (phaseTwo registered r).filter (fun e => match e with | .invoke _ _ _ _ => true | _ => false)
      = [.invoke r.commit r.xid r.branchId (some m)] := by
  simp only [phaseTwo, hr, hd]
  cases r.user.done <;> simp [ctxOf]

/-- the reply says committed/rollbacked if and only if the user method returned no error — or returned the fence
    driver's "nothing to do" (the phase has been applied before: anything else would make the coordinator repeat
    the delivery for ever); a success status is never reported for a failed method, for an unknown resource or for
    unreadable data -/
theorem C05_status_iff (registered : List String) (r : Request) :
    (∃ e ∈ phaseTwo registered r, ∃ i c x b, e = Ev.respond i c x b true) ↔
    (known registered r = true ∧ r.data ≠ .malformed ∧ (r.user = .ok ∨ r.user = .alreadyApplied)) := by
  simp only [phaseTwo]
  cases hk : known registered r <;> cases hd : r.data <;> cases hu : r.user <;> simp [UserOutcome.done]
  all_goals (exact ⟨r.msgId, by cases r.commit <;> simp⟩)

/-- an unknown resource, or unreadable application data, runs no user code at all -/
theorem C05_unknown_resource (registered : List String) (r : Request)
    (h : known registered r = false ∨ r.data = .malformed) : phaseTwo registered r = [] := by
  simp only [phaseTwo]
  rcases h with h | h
  · simp [h]
  · cases hk : known registered r <;> simp [h]

/-- the reply is addressed with the request's message id, xid and branch id -/
theorem C05_reply_addressed (registered : List String) (r : Request) :
    ∀ e ∈ phaseTwo registered r, ∀ i c x b s, e = Ev.respond i c x b s →
      i = r.msgId ∧ c = r.commit ∧ x = r.xid ∧ b = r.branchId := by
  intro e he i c x b s hr
  subst hr
  simp only [phaseTwo] at he
  cases hk : known registered r <;> cases hd : r.data <;> cases hu : r.user.done <;>
    rw [hk, hd, hu] at he <;> simp at he
  all_goals exact ⟨he.1, he.2.1, he.2.2.1, he.2.2.2.1⟩

/-- requests are handled one by one: repeated requests invoke the method once PER request -/
theorem C05_per_request (registered : List String) (a b : List Request) :
    phaseTwoAll registered (a ++ b) = phaseTwoAll registered a ++ phaseTwoAll registered b := by
  simp [phaseTwoAll]

/-! Non-vacuity -/
example : captured [{ exported := true, tag := "a", value := "1" }, { exported := false, tag := "b", value := "2" },
                    { exported := true, tag := "-", value := "3" }, { exported := true, tag := "", value := "4" },
                    { exported := true, tag := "c", value := "{\"x\":[1]}" }] = [("a", "1"), ("c", "{\"x\":[1]}")] := by decide

end Seata.Props.C05
