/-
  C16 — the proxy driver is transparent apart from its transactional duties.

  On the model: what AT phase one does to the table (`stmtPhase1`, `localPhase1`) is exactly what the
  plain driver does (`apply`, `Plain.applyAll`); the only statements it treats differently are
  UPDATEs that move a row to another key, which it rejects (C18).  On the code: the harness runs
  every generated program through the proxy and through the bare driver and compares results,
  statement journals and coordinator traffic; `Plain.prun` predicts both.
-/
import SeataModel.AT.Plain
namespace Seata.Props.C16
open Seata Seata.DB Seata.AT Seata.AT.Plain

/-- a statement that goes through phase one has changed the table exactly as the plain driver does -/
theorem C16_stmt_transparent (sc : Schema) (cfg : Cfg) (t : Table) (args : Args) (s : Stmt)
    (t' : Table) (item : Item) (keys : List Key)
    (h : stmtPhase1 sc cfg t args s = .ok (t', item, keys)) :
    ∃ n, apply sc t args s = .ok (t', n) := by
  cases s with
  | update sets w =>
    replace h := (stmtPhase1_update_ok h).2
    simp only [updatePhase1, apply] at h ⊢
    split at h
    · cases h
    · simp only [Except.ok.injEq, Prod.mk.injEq] at h
      exact ⟨_, by rw [← h.1]⟩
  | delete w =>
    simp only [stmtPhase1, apply, Except.ok.injEq, Prod.mk.injEq] at h ⊢
    exact ⟨_, h.1, rfl⟩
  | insert rows =>
    simp only [stmtPhase1] at h
    split at h
    · cases h
    · rename_i t1 n hap
      simp only [Except.ok.injEq, Prod.mk.injEq] at h
      exact ⟨n, by rw [hap, ← h.1]⟩
  | failing s => simp [stmtPhase1] at h
  | upsert rows assign =>
    simp only [stmtPhase1] at h
    split at h
    · cases h
    · split at h
      · cases h
      · rename_i t1 n hap
        simp only [Except.ok.injEq, Prod.mk.injEq] at h
        exact ⟨n, by rw [hap, ← h.1]⟩
  | updateLim sets w ord lim =>
    simp only [stmtPhase1] at h
    split at h
    · cases h
    · simp only [apply, Except.ok.injEq, Prod.mk.injEq] at h ⊢
      exact ⟨_, h.1, rfl⟩
  | deleteLim w ord lim =>
    simp only [stmtPhase1, apply, Except.ok.injEq, Prod.mk.injEq] at h ⊢
    exact ⟨_, h.1, rfl⟩

/-- a statement the database refuses is refused through the proxy too, nothing changed: with the same
    error, or (an upsert whose ON DUPLICATE KEY UPDATE clause names a key column) before it reaches the database -/
theorem C16_stmt_error (sc : Schema) (cfg : Cfg) (t : Table) (args : Args) (s : Stmt) (e : SqlErr)
    (h : apply sc t args s = .error e) :
    stmtPhase1 sc cfg t args s = .error (.sql e) ∨ stmtPhase1 sc cfg t args s = .error .pkChanged := by
  cases s with
  | update sets w => simp [apply] at h
  | delete w => simp [apply] at h
  | insert rows => left; simp only [stmtPhase1, h]
  | failing s =>
    simp only [apply, Except.error.injEq] at h
    subst h
    left; rfl
  | upsert rows assign =>
    simp only [stmtPhase1]
    split
    · right; rfl
    · left; simp only [h]
  | updateLim sets w ord lim => simp [apply] at h
  | deleteLim w ord lim => simp [apply] at h

/-- the only statements the proxy refuses on its own account: UPDATEs (plain or with ORDER BY / LIMIT)
    that name a key column or move a row to another key — the database would run them — and upserts
    whose ON DUPLICATE KEY UPDATE clause names a key column -/
theorem C16_only_key_changes_rejected (sc : Schema) (cfg : Cfg) (t : Table) (args : Args) (s : Stmt)
    (h : stmtPhase1 sc cfg t args s = .error .pkChanged) :
    (((∃ sets w, s = .update sets w) ∨ (∃ sets w ord lim, s = .updateLim sets w ord lim)) ∧
      ∃ r, apply sc t args s = .ok r) ∨
    (∃ rows asg, s = .upsert rows asg ∧ (asg.any fun a => sc.pk.contains a.1) = true) := by
  cases s with
  | update sets w => exact Or.inl ⟨Or.inl ⟨sets, w, rfl⟩, _, rfl⟩
  | updateLim sets w ord lim => exact Or.inl ⟨Or.inr ⟨sets, w, ord, lim, rfl⟩, _, rfl⟩
  | deleteLim w ord lim => simp [stmtPhase1, apply] at h
  | delete w => simp [stmtPhase1, apply] at h
  | insert rows =>
    simp only [stmtPhase1] at h
    split at h <;> simp at h
  | failing s => simp [stmtPhase1] at h
  | upsert rows assign =>
    simp only [stmtPhase1] at h
    split at h
    · rename_i hk
      exact Or.inr ⟨rows, assign, rfl, hk⟩
    · split at h <;> simp at h

/-- a local transaction that goes through phase one leaves the table the plain driver leaves -/
theorem C16_local_transparent (sc : Schema) (cfg : Cfg) (t : Table) (ltx : LocalTx) (t' : Table) (b : Branch)
    (h : localPhase1 sc cfg t ltx = .ok (t', b)) : applyAll sc t ltx = .ok t' := by
  induction ltx generalizing t t' b with
  | nil =>
    simp only [localPhase1, Except.ok.injEq, Prod.mk.injEq] at h
    simp [applyAll, h.1]
  | cons p rest ih =>
    obtain ⟨s, args⟩ := p
    simp only [localPhase1] at h
    split at h
    · cases h
    · rename_i t1 item keys h1
      split at h
      · cases h
      · rename_i t2 b' h2
        simp only [Except.ok.injEq, Prod.mk.injEq] at h
        obtain ⟨n, hn⟩ := C16_stmt_transparent sc cfg t args s t1 item keys h1
        simp only [applyAll, hn]
        rw [← h.1]
        exact ih t1 t2 b' h2

/-- and it fails exactly where the plain driver fails, unless a key-changing UPDATE is met -/
theorem C16_local_error (sc : Schema) (cfg : Cfg) (t : Table) (ltx : LocalTx) (e : SqlErr)
    (h : applyAll sc t ltx = .error e) :
    localPhase1 sc cfg t ltx = .error (.sql e) ∨ localPhase1 sc cfg t ltx = .error .pkChanged := by
  induction ltx generalizing t with
  | nil => simp [applyAll] at h
  | cons p rest ih =>
    obtain ⟨s, args⟩ := p
    simp only [applyAll] at h
    split at h
    · rename_i e' he
      simp only [Except.error.injEq] at h
      subst h
      rcases C16_stmt_error sc cfg t args s e' he with h1 | h1
      · left; simp only [localPhase1, h1]
      · right; simp only [localPhase1, h1]
    · rename_i t1 n he
      simp only [localPhase1]
      cases hp : stmtPhase1 sc cfg t args s with
      | error pe =>
        cases pe with
        | sql e2 =>
          -- phase one cannot fail with an SQL error where the plain statement succeeds
          exfalso
          cases s with
          | update sets w =>
            simp only [stmtPhase1] at hp
            split at hp
            · cases hp
            · simp only [updatePhase1, apply] at hp; split at hp <;> simp at hp
          | delete w => simp [stmtPhase1, apply] at hp
          | insert rows => simp only [stmtPhase1, he] at hp; simp at hp
          | failing s => simp [apply] at he
          | upsert rows assign =>
            simp only [stmtPhase1] at hp
            split at hp
            · cases hp
            · simp only [he] at hp; simp at hp
          | updateLim sets w ord lim =>
            simp only [stmtPhase1] at hp
            split at hp
            · cases hp
            · simp [apply] at hp
          | deleteLim w ord lim => simp [stmtPhase1, apply] at hp
        | pkChanged => right; rfl
      | ok r =>
        obtain ⟨t1', item, keys⟩ := r
        obtain ⟨n', hn'⟩ := C16_stmt_transparent sc cfg t args s t1' item keys hp
        rw [he] at hn'
        simp only [Except.ok.injEq, Prod.mk.injEq] at hn'
        obtain ⟨rfl, -⟩ := hn'
        rcases ih t1 h with h' | h' <;> simp [h']

/-! ### non-vacuity -/

example : (prun { ncols := 2, pk := [0] } { t := [[.int 1, .int 5]] }
    [.begin, .exec (.update [(1, .val (.lit (.int 6)))] .tt) [], .exec (.insert [[.lit (.int 1), .lit (.int 0)]]) [], .rollback]).2 =
    [.done, .ok 1, .err, .done] := by decide

end Seata.Props.C16
