/-
  C04 — each global transaction gets exactly one truthful decision from its initiator.
-/
import SeataModel.TM.Executor
namespace Seata.Props.C04
open Seata.TM

theorem phase2_nil_fst (retries : Nat) (c : Option Nat) (i : Nat) : (phase2 retries c i []).1 = 0 := by
  unfold phase2
  split
  · rfl
  · split <;> rfl

theorem phase2_nil_snd (retries : Nat) (c : Option Nat) (i : Nat) : (phase2 retries c i []).2 ≠ .acked := by
  unfold phase2
  split
  · simp
  · split <;> simp

theorem phase2_bound (retries : Nat) (c : Option Nat) (i : Nat) (script : List Reply) :
    (phase2 retries c i script).1 ≤ attempts retries - i := by
  induction script generalizing i with
  | nil => rw [phase2_nil_fst]; omega
  | cons r rest ih =>
    unfold phase2
    split
    · simp
    · split
      · simp
      · rename_i h1 h2
        cases r <;> simp only
        · omega
        · omega
        · have := ih (i + 1); omega

/-- the attempts are exactly: transport failures, then at most one answered attempt -/
theorem phase2_attempts (retries : Nat) (c : Option Nat) (i : Nat) (script : List Reply) :
    (phase2 retries c i script).1 ≤ (script.takeWhile (· = .transport)).length + 1 := by
  induction script generalizing i with
  | nil => rw [phase2_nil_fst]; omega
  | cons r rest ih =>
    unfold phase2
    split
    · simp
    · split
      · simp
      · cases r <;> simp
        have := ih (i + 1); omega

/-- the loop ends `acked`/`refused` only if the first non-transport behaviour is that reply -/
theorem phase2_answered (retries : Nat) (c : Option Nat) (i : Nat) (script : List Reply) :
    ((phase2 retries c i script).2 = .acked → (script.dropWhile (· = .transport)).head? = some .ok) ∧
    ((phase2 retries c i script).2 = .refused → (script.dropWhile (· = .transport)).head? = some .failed) := by
  induction script generalizing i with
  | nil =>
    have h1 := phase2_nil_snd retries c i
    have h2 : (phase2 retries c i []).2 ≠ .refused := by
      unfold phase2; split; · simp
      split <;> simp
    exact ⟨fun h => absurd h h1, fun h => absurd h h2⟩
  | cons r rest ih =>
    unfold phase2
    split
    · simp
    · split
      · simp
      · cases r <;> simp
        exact ih (i + 1)

/-- Exactly one decision: after `begin`, only commits or only rollbacks are ever sent — never both. -/
theorem C04_one_decision (retries : Nat) (b : Reply) (cb : Outcome) (script : List Reply) (c : Option Nat) :
    ∃ n, (withGlobalTx retries b cb script c).1 = .begin :: List.replicate n (decision cb) := by
  unfold withGlobalTx
  cases b
  · exact ⟨_, rfl⟩
  · exact ⟨0, rfl⟩
  · exact ⟨0, rfl⟩

/-- commit is requested only if the callback returned nil; rollback only if it did not -/
theorem C04_commit_iff (retries : Nat) (b : Reply) (cb : Outcome) (script : List Reply) (c : Option Nat) :
    (.commit ∈ (withGlobalTx retries b cb script c).1 → cb = .ok) ∧
    (.rollback ∈ (withGlobalTx retries b cb script c).1 → cb ≠ .ok) := by
  obtain ⟨n, hn⟩ := C04_one_decision retries b cb script c
  rw [hn]
  constructor
  · intro h
    simp [List.mem_replicate, decision] at h
    by_cases hc : cb = .ok
    · exact hc
    · simp [hc] at h
  · intro h hc
    simp [List.mem_replicate, decision, hc] at h

/-- with an answering coordinator (the first attempt is allowed and the script is non-empty) the
    decision IS sent: commit iff the callback returned nil -/
theorem C04_decision_sent (retries : Nat) (cb : Outcome) (r : Reply) (script : List Reply) :
    decision cb ∈ (withGlobalTx retries .ok cb (r :: script) none).1 := by
  unfold withGlobalTx
  simp only
  have h1 : 1 ≤ (phase2 retries none 0 (r :: script)).1 := by
    unfold phase2
    simp only [cancelled, Bool.false_eq_true, if_false]
    have : ¬ (attempts retries ≤ 0) := by unfold attempts; split <;> omega
    simp only [this, if_false]
    cases r <;> simp
  generalize (phase2 retries none 0 (r :: script)).1 = n at h1
  cases n with
  | zero => omega
  | succ n => simp [List.replicate_succ]

/-- at most the configured number of attempts, for every setting of the retry count -/
theorem C04_retry_bound (retries : Nat) (b : Reply) (cb : Outcome) (script : List Reply) (c : Option Nat) :
    (withGlobalTx retries b cb script c).1.length ≤ 1 + attempts retries := by
  unfold withGlobalTx
  cases b <;> simp
  have := phase2_bound retries c 0 script
  omega

/-- retry count 0: the decision is sent once and never repeated -/
theorem C04_retry_zero_once (b : Reply) (cb : Outcome) (script : List Reply) (c : Option Nat) :
    (withGlobalTx 0 b cb script c).1.length ≤ 2 := by
  have := C04_retry_bound 0 b cb script c
  simpa [attempts] using this

/-- before the repair a retry count of 0 bounded nothing: as many requests as the coordinator lets fail -/
theorem C04_before_fix_retry_zero_unbounded (n : Nat) :
    (phase2BeforeFix 0 none 0 (List.replicate n .transport ++ [.ok])).1 = n + 1 := by
  suffices h : ∀ i, (phase2BeforeFix 0 none i (List.replicate n .transport ++ [.ok])).1 = n + 1 from h 0
  induction n with
  | zero => intro i; unfold phase2BeforeFix; simp [cancelled]
  | succ n ih =>
    intro i
    rw [List.replicate_succ, List.cons_append]
    unfold phase2BeforeFix
    simp [cancelled, ih (i + 1)]

/-- an attempt is repeated only after a transport failure of the previous one -/
theorem C04_retry_only_on_transport (retries : Nat) (b : Reply) (cb : Outcome) (script : List Reply) (c : Option Nat) :
    (withGlobalTx retries b cb script c).1.length ≤ 2 + (script.takeWhile (· = .transport)).length := by
  unfold withGlobalTx
  cases b <;> simp
  · have := phase2_attempts retries c 0 script
    omega
  · omega
  · omega

/-- Truthful: nil is returned ONLY IF begin succeeded, the business returned nil (no error, no panic), the
    context was not cancelled before the second phase and the coordinator acknowledged the commit (the first
    reply that is not a transport failure is an acknowledgement). -/
theorem C04_truthful (retries : Nat) (b : Reply) (cb : Outcome) (script : List Reply) (c : Option Nat)
    (h : (withGlobalTx retries b cb script c).2 = .ok) :
    b = .ok ∧ cb = .ok ∧ (script.dropWhile (· = .transport)).head? = some .ok ∧ ¬ cancelled c 0 := by
  unfold withGlobalTx at h
  cases b <;> simp at h
  obtain ⟨h1, h2⟩ := h
  have hc : ¬ cancelled c 0 = true := by
    intro hc
    unfold phase2 at h2
    simp [hc] at h2
  exact ⟨rfl, h1, (phase2_answered retries c 0 script).1 h2, hc⟩

/-- a refused commit always surfaces -/
theorem C04_refusal_surfaces (retries : Nat) (cb : Outcome) (script : List Reply) (c : Option Nat)
    (h : (script.dropWhile (· = .transport)).head? = some .failed) :
    (withGlobalTx retries .ok cb script c).2 = .err := by
  have hne : (withGlobalTx retries .ok cb script c).2 ≠ .ok := by
    intro hok
    have := (C04_truthful retries .ok cb script c hok).2.2.1
    rw [h] at this
    cases this
  unfold withGlobalTx at hne ⊢
  simp only at hne ⊢
  split
  · rename_i hh; simp [hh] at hne
  · rfl

/-- what counts as an acknowledgement on the wire, for every result code and every status: the status says the
    commit is decided - and that only. In particular no status of the rollback family, and none of Begin, UnKnown,
    Finished (with which the coordinator answers for a transaction it no longer knows: committed, or rolled back
    after a timeout) -/
theorem C04_acknowledged_iff (rc : RC) (st : Nat) :
    acknowledged rc st = true ↔ commitFamily st = true := by
  unfold acknowledged; rfl

theorem C04_acknowledged_not_rolled_back (rc : RC) (st : Nat) (h : acknowledged rc st = true) :
    rollbackFamily st = false ∧ st ≠ 0 ∧ st ≠ 1 ∧ st ≠ 15 := by
  unfold acknowledged commitFamily at h
  unfold rollbackFamily
  simp only [List.mem_cons, List.mem_nil_iff, or_false, decide_eq_true_eq] at h
  refine ⟨?_, ?_, ?_, ?_⟩
  · simp only [List.mem_cons, List.mem_nil_iff, or_false, decide_eq_false_iff_not]; omega
  all_goals omega

/-- before the repair a commit answered "Success, Finished" - the coordinator's answer for a transaction it has
    rolled back after a timeout and forgotten - was an acknowledgement -/
theorem C04_before_fix_finished_is_acknowledged :
    acknowledgedBeforeFix .success 15 = true ∧ acknowledged .success 15 = false := by decide

/-- the two families are disjoint, so the order of the two tests in `commitRefusal` does not matter -/
theorem C04_families_disjoint (st : Nat) : ¬ (rollbackFamily st = true ∧ commitFamily st = true) := by
  unfold rollbackFamily commitFamily
  simp only [List.mem_cons, List.mem_nil_iff, or_false, decide_eq_true_eq]
  omega

/-- end to end on the wire: nil only for an acknowledged reply, an error for every other one -/
theorem C04_wire_truthful (retries : Nat) (rc : RC) (st : Nat) :
    (withGlobalTx retries .ok .ok [replyOf rc st] none).2 = (if acknowledged rc st then .ok else .err) := by
  unfold withGlobalTx replyOf
  have ha : ¬ attempts retries ≤ 0 := by unfold attempts; split <;> omega
  cases h : acknowledged rc st <;> simp [phase2, cancelled, ha]

/-- the same for a rollback ("a failed second phase always surfaces to the caller"): the answer to a rollback
    request is an acknowledgement exactly when its status does not say the transaction is committed, committing
    or failed to roll back, and it says a rollback is under way or done, or the result code is Success -/
theorem C04_rollback_acknowledged_iff (rc : RC) (st : Nat) :
    rollbackAcknowledged rc st = true ↔ notRolledBack st = false ∧ (rollingBack st = true ∨ rc = .success) := by
  unfold rollbackAcknowledged
  cases hn : notRolledBack st <;> cases hr : rollingBack st <;> cases rc <;> simp

/-- a rollback answered "Committed" (the transaction the caller believes it is rolling back was committed) or
    "RollbackFailed" is never reported as done, whatever the result code -/
theorem C04_rollback_refusal_surfaces (rc : RC) (st : Nat) (h : notRolledBack st = true) :
    rollbackAcknowledged rc st = false := by
  unfold rollbackAcknowledged; simp [h]

theorem C04_rollback_families_disjoint (st : Nat) : ¬ (notRolledBack st = true ∧ rollingBack st = true) := by
  unfold notRolledBack rollingBack
  simp only [List.mem_cons, List.mem_nil_iff, or_false, decide_eq_true_eq]
  omega

/-- before the repair a rollback the coordinator refused, or answered with "Committed", was a success -/
theorem C04_before_fix_refused_rollback_is_success :
    rollbackAcknowledgedBeforeFix .failed 9 = true ∧ rollbackAcknowledged .failed 9 = false := by decide

/-- before the repair a refused commit was reported as success (finding C04-refused-commit, closed) -/
theorem C04_before_fix_refused_commit_is_success :
    withGlobalTxBeforeFix 5 .ok .ok [.failed] none = ([.begin, .commit], .ok) := by decide

/-- never a crash -/
theorem C04_no_crash (retries : Nat) (b : Reply) (cb : Outcome) (script : List Reply) (c : Option Nat) :
    (withGlobalTx retries b cb script c).2 ≠ .crash := by
  unfold withGlobalTx
  cases b <;> simp
  split <;> simp

/-! Machine-checked counter-examples against the shape at c3b0bd5 (what the `fix:` commits repair). -/
theorem C04_asCoded_panic_is_silent_success :
    (withGlobalTxAsCoded_c3b0bd5 5 .ok .panic [.ok] none) = ([.begin, .rollback], .ok) := by decide
theorem C04_asCoded_cancel_commit_unsent_success :
    (withGlobalTxAsCoded_c3b0bd5 5 .ok .ok [.ok] (some 0)) = ([.begin], .ok) := by decide
theorem C04_asCoded_cancel_rollback_crashes :
    (withGlobalTxAsCoded_c3b0bd5 5 .ok .err [.ok] (some 0)) = ([.begin], .crash) := by decide
theorem C04_asCoded_refused_commit_is_success :
    (withGlobalTxAsCoded_c3b0bd5 5 .ok .ok [.failed] none) = ([.begin, .commit], .ok) := by decide

/-! Non-vacuity -/
example : withGlobalTx 5 .ok .ok [.transport, .transport, .ok] none = ([.begin, .commit, .commit, .commit], .ok) := by decide
example : withGlobalTx 2 .ok .err [.transport, .transport, .ok] none = ([.begin, .rollback, .rollback], .err) := by decide
example : withGlobalTx 5 .ok .ok [.transport, .ok] (some 1) = ([.begin, .commit], .err) := by decide
example : withGlobalTx 5 .ok .ok [.transport, .failed] none = ([.begin, .commit, .commit], .err) := by decide
example : withGlobalTx 0 .ok .ok [.transport, .ok] none = ([.begin, .commit], .err) := by decide

end Seata.Props.C04
