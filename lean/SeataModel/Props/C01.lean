/-
  C01 — AT global rollback restores every row the transaction touched.

  Model: `DB/Store.lean` (tables, statements), `AT/Phase1.lean` (images, undo items, compensation,
  data validation), `AT/World.lean` (branches, undo-log rows, rollback deliveries).  Tables are lists
  of rows; re-inserted rows go to the end, so "the same contents" is `List.Perm`.
-/
import SeataModel.AT.World
import SeataModel.Lemmas.Store
import SeataModel.AT.PairImages
import SeataModel.AT.InsertRoute
namespace Seata.Props.C01
open Seata Seata.DB Seata.AT Seata.Lemmas.Store Seata.AT.PairImages

/-! ### well-formedness (what the database and the SQL layer guarantee) -/

structure WFSchema (sc : Schema) : Prop where
  pk_lt : ∀ i ∈ sc.pk, i < sc.ncols

structure WFTable (sc : Schema) (t : Table) : Prop where
  uniq : PkUnique sc t
  shape : ∀ r ∈ t, r.length = sc.ncols

/-- UPDATE (also with ORDER BY … LIMIT) does not assign primary-key columns (the proxy rejects that:
    `pkChanged`) and only names existing columns; INSERT gives one expression per column; INSERT … ON
    DUPLICATE KEY UPDATE both -/
def WFStmt (sc : Schema) : Stmt → Prop
  | .update sets _ => ∀ p ∈ sets, p.1 < sc.ncols ∧ p.1 ∉ sc.pk
  | .delete _ => True
  | .insert rows => ∀ es ∈ rows, es.length = sc.ncols
  | .failing _ => True
  | .upsert rows assign =>    -- INSERT … ON DUPLICATE KEY UPDATE: full rows, no key column assigned
    (∀ es ∈ rows, es.length = sc.ncols) ∧ ∀ p ∈ assign, p.1 < sc.ncols ∧ p.1 ∉ sc.pk
  | .updateLim sets _ _ _ => ∀ p ∈ sets, p.1 < sc.ncols ∧ p.1 ∉ sc.pk   -- … ORDER BY … LIMIT n
  | .deleteLim _ _ _ => True

theorem wfStmt_iff (sc : Schema) (s : Stmt) : WFStmt sc s ↔ StmtWF sc s := by
  cases s <;> exact Iff.rfl

/-! ### one statement -/

/-- Phase one of one statement followed by the compensation of its undo item gives back the table
    (as a set of rows), under every configuration, also when the table has been permuted meanwhile.
    A statement that touched no row changes nothing and leaves an empty item (which is not logged).
    (`hx`: the statement recorded no further item — true of every statement but an INSERT … ON
    DUPLICATE KEY UPDATE that both updated and inserted rows, see `C01_stmt_restore_extra`.) -/
theorem C01_stmt_restore (sc : Schema) (cfg : Cfg) (t : Table) (args : Args) (s : Stmt)
    (t' : Table) (item : Item) (keys : List Key)
    (hsc : WFSchema sc) (ht : WFTable sc t) (hs : WFStmt sc s)
    (h : stmtPhase1 sc cfg t args s = .ok (t', item, keys))
    (hx : extraItems sc t t' args s = []) :
    WFTable sc t' ∧
    (item.nonEmpty = false → t' = t) ∧
    (item.nonEmpty = true → ∀ u : Table, u.Perm t' →
      ∃ u' res, undoItem sc cfg u item = (u', res) ∧ (res = .done ∨ res = .skipped) ∧ u'.Perm t) := by
  have _ := hsc   -- (not needed: out-of-range key columns read as NULL consistently)
  obtain ⟨⟨h1, h2⟩, h3, h4⟩ :=
    stmt_restore sc cfg t args s t' item keys ht.uniq ht.shape ((wfStmt_iff sc s).1 hs) h hx
  exact ⟨⟨h1, h2⟩, h3, h4⟩

/-- `hx` above holds for every statement that is not an INSERT … ON DUPLICATE KEY UPDATE -/
theorem C01_extraItems_nil (sc : Schema) (t t' : Table) (args : Args) (s : Stmt)
    (hs : ∀ rows assign, s ≠ .upsert rows assign) : extraItems sc t t' args s = [] :=
  extraItems_of_not_upsert sc t t' args s hs

/-- Every statement, including the INSERT … ON DUPLICATE KEY UPDATE that updated some rows and
    inserted others: the items it contributes to the branch (its main item if not empty, then
    `extraItems`), compensated last first as the rollback does, give back the table. -/
theorem C01_stmt_restore_extra (sc : Schema) (cfg : Cfg) (t : Table) (args : Args) (s : Stmt)
    (t' : Table) (item : Item) (keys : List Key)
    (hsc : WFSchema sc) (ht : WFTable sc t) (hs : WFStmt sc s)
    (h : stmtPhase1 sc cfg t args s = .ok (t', item, keys)) :
    WFTable sc t' ∧
    ∀ u : Table, u.Perm t' →
      ∃ u', undoFold sc cfg u
          ((if item.nonEmpty then [item] else []) ++ extraItems sc t t' args s).reverse = (u', true) ∧
        u'.Perm t := by
  have _ := hsc
  have hX := stmt_restore_x sc cfg t args s t' item keys ht.uniq ht.shape ((wfStmt_iff sc s).1 hs) h
  exact ⟨⟨hX.1.1, hX.1.2⟩, fun u hp => restoresX_fold hX u hp⟩

/-! ### one branch (local transaction) -/

/-- Phase one of a local transaction followed by the rollback of its branch restores the table and
    is answered "rollbacked". -/
theorem C01_branch_restore (sc : Schema) (cfg : Cfg) (t : Table) (ltx : LocalTx) (t' : Table) (b : Branch)
    (hsc : WFSchema sc) (ht : WFTable sc t) (hs : ∀ p ∈ ltx, WFStmt sc p.1)
    (h : localPhase1 sc cfg t ltx = .ok (t', b)) :
    WFTable sc t' ∧
    ∀ u : Table, u.Perm t' → ∃ u', undoBranch sc cfg u b = (u', true) ∧ u'.Perm t := by
  have _ := hsc
  obtain ⟨⟨h1, h2⟩, h3⟩ := local_restore sc cfg ltx t t' b ht.uniq ht.shape
    (fun p hp => (wfStmt_iff sc p.1).1 (hs p hp)) h
  refine ⟨⟨h1, h2⟩, fun u hp => ?_⟩
  obtain ⟨u', hf, hp'⟩ := h3 u hp
  exact ⟨u', undoBranch_of_fold sc cfg u u' b hf, hp'⟩

/-- The same when the application ignores failed statements of the local transaction (the database
    undoes a failed statement by itself) and commits what went through. -/
theorem C01_lenient_branch_restore (sc : Schema) (cfg : Cfg) (t : Table) (ltx : LocalTx)
    (hsc : WFSchema sc) (ht : WFTable sc t) (hs : ∀ p ∈ ltx, WFStmt sc p.1) :
    WFTable sc (localPhase1Lenient sc cfg t ltx).1 ∧
    ∀ u : Table, u.Perm (localPhase1Lenient sc cfg t ltx).1 →
      ∃ u', undoBranch sc cfg u (localPhase1Lenient sc cfg t ltx).2.1 = (u', true) ∧ u'.Perm t := by
  have _ := hsc
  obtain ⟨⟨h1, h2⟩, h3⟩ := lenient_restore sc cfg ltx t ht.uniq ht.shape
    (fun p hp => (wfStmt_iff sc p.1).1 (hs p hp))
  refine ⟨⟨h1, h2⟩, fun u hp => ?_⟩
  obtain ⟨u', hf, hp'⟩ := h3 u hp
  exact ⟨u', undoBranch_of_fold sc cfg u u' _ hf, hp'⟩

/-! ### the global transaction -/

/-- phase one of the local transactions of a global transaction, in order -/
def globalPhase1 (sc : Schema) (cfg : Cfg) (w : World) : List LocalTx → Option World
  | [] => some w
  | l :: rest => match runLocalTx sc cfg w l with
    | none => none
    | some w' => globalPhase1 sc cfg w' rest

/-- phase one keeps the table well-formed and every registered branch restores the table the
    previous one left (`Chain`) -/
theorem globalPhase1_chain (sc : Schema) (cfg : Cfg) (t0 : Table) (ltxs : List LocalTx) :
    ∀ (w w' : World), WFTable sc w.t → Chain sc cfg t0 w.branches w.t →
      (∀ l ∈ ltxs, ∀ p ∈ l, WFStmt sc p.1) → globalPhase1 sc cfg w ltxs = some w' →
      Chain sc cfg t0 w'.branches w'.t := by
  induction ltxs with
  | nil =>
    intro w w' _ hc _ h
    simp only [globalPhase1, Option.some.injEq] at h
    exact h ▸ hc
  | cons l rest ih =>
    intro w w' ht hc hs h
    simp only [globalPhase1] at h
    split at h
    · cases h
    · rename_i w1 h1
      obtain ⟨⟨hu1, hsh1⟩, hc1⟩ := runLocalTx_chain sc cfg t0 w w1 l ht.uniq ht.shape
        (fun p hp => (wfStmt_iff sc p.1).1 (hs l (by simp) p hp)) hc h1
      exact ih w1 w' ⟨hu1, hsh1⟩ hc1 (fun l' hl' => hs l' (by simp [hl'])) h

/-- **C01**: after phase one of any number of local transactions, rolling every branch back (last
    first) is answered "rollbacked" by every branch, restores the table it started from and leaves no
    undo-log row. -/
theorem C01_global_restore (sc : Schema) (cfg : Cfg) (t : Table) (ltxs : List LocalTx) (w : World)
    (hsc : WFSchema sc) (ht : WFTable sc t) (hs : ∀ l ∈ ltxs, ∀ p ∈ l, WFStmt sc p.1)
    (h : globalPhase1 sc cfg { t := t, branches := [] } ltxs = some w) :
    ∃ w', rollbackAll sc cfg w = (w', true) ∧ w'.t.Perm t ∧ ∀ bs ∈ w'.branches, bs.hasLog = false := by
  have _ := hsc
  apply rollbackAll_chain sc cfg t w
  exact globalPhase1_chain sc cfg t ltxs { t := t, branches := [] } w ht
    (by simp [Chain, ChainR]) hs h

/-- The branch answers "rollbacked" for a logged branch only if every undo item was compensated (or
    needed no compensation); otherwise the answer is a failure and nothing has changed. -/
theorem C01_answer_sound (sc : Schema) (cfg : Cfg) (w : World) (i : Nat) (bs : BranchSt)
    (hb : w.branches[i]? = some bs) (hl : bs.hasLog = true) :
    ((rollbackBranch sc cfg w i).2 = true → (undoFold sc cfg w.t bs.b.items.reverse).2 = true ∧
        (rollbackBranch sc cfg w i).1.t = (undoFold sc cfg w.t bs.b.items.reverse).1) ∧
    ((rollbackBranch sc cfg w i).2 = false → (rollbackBranch sc cfg w i).1 = w) := by
  rcases hr : undoFold sc cfg w.t bs.b.items.reverse with ⟨u, ok⟩
  cases ok <;> simp [rollbackBranch, hb, hl, undoBranch, hr]

/-- an item that cannot be compensated makes the whole branch fail (never "rollbacked") -/
theorem C01_failure_reported (sc : Schema) (cfg : Cfg) (t : Table) (pre post : List Item) (it : Item)
    (hpre : (undoFold sc cfg t pre).2 = true)
    (hit : (undoItem sc cfg (undoFold sc cfg t pre).1 it).2 = .dirty ∨
           (undoItem sc cfg (undoFold sc cfg t pre).1 it).2 = .sqlError) :
    undoFold sc cfg t (pre ++ it :: post) = ((undoFold sc cfg t pre).1, false) := by
  have hsplit : undoFold sc cfg t (pre ++ it :: post) =
      post.foldl (undoStep sc cfg) (undoStep sc cfg (undoFold sc cfg t pre) it) := by
    simp [undoFold, List.foldl_append]
  have hpair : undoFold sc cfg t pre = ((undoFold sc cfg t pre).1, true) := by rw [← hpre]
  rw [hsplit, hpair, undoStep_fail sc cfg _ it hit, undoFold_false]

/-! ### non-vacuity -/

def sc1 : Schema := { ncols := 2, pk := [0] }
def t1 : Table := [[.int 1, .int 10], [.int 2, .int 20]]
def upd : Stmt := .update [(1, .plus 1 (.lit (.int 5)))] (.cmp .eq (.col 0) (.par 0))

example : WFSchema sc1 := ⟨by decide⟩
example : WFStmt sc1 upd := by simp [WFStmt, upd, sc1]
example : ∃ t' b, localPhase1 sc1 ⟨true, true⟩ t1 [(upd, [.int 2]), (.delete .tt, [])] = .ok (t', b) ∧
    t' = [] ∧ b.items.length = 2 ∧ (undoBranch sc1 ⟨true, true⟩ t' b) = ([[.int 1, .int 10], [.int 2, .int 20]], true) := by
  refine ⟨_, _, rfl, ?_⟩
  decide

example : WFTable sc1 t1 := ⟨by simp [PkUnique, sc1, t1, keyOf], by simp [sc1, t1]⟩
/-- two branches, rolled back last first: the table is back (here even in the original order) -/
example : ∃ w, globalPhase1 sc1 ⟨true, true⟩ { t := t1 } [[(upd, [.int 2])], [(.delete .tt, [])]] = some w ∧
    w.t = [] ∧ w.branches.length = 2 ∧
    (rollbackAll sc1 ⟨true, true⟩ w).2 = true ∧ (rollbackAll sc1 ⟨true, true⟩ w).1.t = t1 := by
  refine ⟨_, rfl, ?_⟩
  decide

/-- UPDATE … ORDER BY c1 DESC LIMIT 1, then DELETE … ORDER BY c0 LIMIT 1, rolled back -/
def updLim : Stmt := .updateLim [(1, .val (.lit (.int 0)))] .tt [(1, true)] 1
def delLim : Stmt := .deleteLim .tt [(0, false)] 1
example : WFStmt sc1 updLim ∧ WFStmt sc1 delLim := by simp [WFStmt, updLim, delLim, sc1]
example : ∃ t' b, localPhase1 sc1 ⟨true, true⟩ t1 [(updLim, []), (delLim, [])] = .ok (t', b) ∧
    t' = [[.int 2, .int 0]] ∧ b.items.length = 2 ∧
    (undoBranch sc1 ⟨true, true⟩ t' b) = ([[.int 2, .int 20], [.int 1, .int 10]], true) := by
  refine ⟨_, _, rfl, ?_⟩
  decide

/-- INSERT … ON DUPLICATE KEY UPDATE that updates key 2 and inserts key 3: two items (UPDATE, INSERT) -/
def ups : Stmt := .upsert [[.lit (.int 2), .lit (.int 21)], [.lit (.int 3), .lit (.int 30)]] [(1, .values)]
example : WFStmt sc1 ups := by simp [WFStmt, ups, sc1]
example : ∃ t' b, localPhase1 sc1 ⟨true, true⟩ t1 [(ups, [])] = .ok (t', b) ∧
    t' = [[.int 1, .int 10], [.int 2, .int 21], [.int 3, .int 30]] ∧ b.items.map (·.kind) = [.update, .insert] ∧
    (undoBranch sc1 ⟨true, true⟩ t' b) = (t1, true) := by
  refine ⟨_, _, rfl, ?_⟩
  decide

/-! ### multi-statement batches over several tables: pairing the images -/


theorem mapM_find_tables {α : Type} (after : List (Image α)) :
    ∀ (before paired : List (Image α)),
      before.mapM (fun b => after.find? (fun a => a.1 == b.1)) = some paired →
      paired.map Prod.fst = before.map Prod.fst ∧ ∀ p ∈ paired, p ∈ after := by
  intro before
  induction before with
  | nil => intro paired h; simp at h; subst h; simp
  | cons b rest ih =>
    intro paired h
    simp only [List.mapM_cons, Option.bind_eq_bind] at h
    cases hf : after.find? (fun a => a.1 == b.1) with
    | none => simp [hf] at h
    | some x =>
      simp only [hf, Option.bind_some] at h
      cases hr : rest.mapM (fun b => after.find? (fun a => a.1 == b.1)) with
      | none => simp [hr] at h
      | some tl =>
        simp only [hr, Option.bind_some, Option.pure_def, Option.some.injEq] at h
        subst h
        obtain ⟨i1, i2⟩ := ih tl hr
        have hx := List.find?_some hf
        have hm := List.mem_of_find?_eq_some hf
        refine ⟨?_, ?_⟩
        · simp only [List.map_cons, i1]
          congr 1
          simpa using hx
        · intro p hp
          rcases List.mem_cons.mp hp with rfl | hp
          · exact hm
          · exact i2 p hp

/-- whatever the two walks over the map gave: the images that come out are after images, and when they were
    re-ordered at all they stand table for table where the before images stand -/
theorem C01_paired_images_are_after_images {α : Type} (before after : List (Image α)) :
    ∀ p ∈ pairByTable before after, p ∈ after := by
  intro p hp
  unfold pairByTable at hp
  split at hp
  · exact hp
  · split at hp
    · exact hp
    · split at hp
      · rename_i paired hm
        exact (mapM_find_tables after before paired hm).2 p hp
      · exact hp

/-- when every before image has an after image of its table (and no table occurs twice among the after images),
    position i of the result is the after image of the table at position i of the before images -/
theorem C01_paired_by_table {α : Type} (before after : List (Image α))
    (hlen : before.length = after.length) (hnd : (after.map Prod.fst).Nodup)
    (hall : ∀ b ∈ before, ∃ a ∈ after, a.1 = b.1) :
    (pairByTable before after).map Prod.fst = before.map Prod.fst := by
  unfold pairByTable
  simp only [hlen, ne_eq, not_true_eq_false, if_false, hnd]
  cases hm : before.mapM (fun b => after.find? (fun a => a.1 == b.1)) with
  | some paired => exact (mapM_find_tables after before paired hm).1
  | none =>
    exfalso
    -- some before image found no partner: contradicts hall
    have : ∃ b ∈ before, after.find? (fun a => a.1 == b.1) = none := by
      clear hlen hnd hall
      induction before with
      | nil => simp at hm
      | cons b rest ih =>
        simp only [List.mapM_cons, Option.bind_eq_bind] at hm
        cases hf : after.find? (fun a => a.1 == b.1) with
        | none => exact ⟨b, by simp, hf⟩
        | some x =>
          simp only [hf, Option.bind_some] at hm
          cases hr : rest.mapM (fun b => after.find? (fun a => a.1 == b.1)) with
          | none =>
            obtain ⟨b', hb', hn⟩ := ih hr
            exact ⟨b', List.mem_cons_of_mem _ hb', hn⟩
          | some tl => simp [hr] at hm
    obtain ⟨b, hb, hn⟩ := this
    obtain ⟨a, ha, hab⟩ := hall b hb
    have := List.find?_eq_none.mp hn a ha
    simp [hab] at this

example : pairByTable [("t1", 1), ("t2", 2)] [("t2", 20), ("t1", 10)] = [("t1", 10), ("t2", 20)] := by decide


/-! ### which executor records an INSERT-like statement (AT/InsertRoute.lean) -/
section insertRoute
open Seata.AT.InsertRoute

/-- a statement that goes to the insert-on-duplicate executor has every one of its rows identifiable: the image
    queries, which look rows up by the unique values they give, find all of them -/
theorem C01_upsert_route_finds_every_row (v : Verb) (rows : List RowInfo) (h : route v rows = .upsert) :
    ∀ r ∈ rows, identifiable r = true := by
  intro r hr
  cases v <;> simp only [route] at h
  · split at h <;> simp at h
  all_goals
    first
    | (split at h
       · split at h <;> simp at h
       · split at h
         · rename_i ha; exact (List.all_eq_true.mp ha) r hr
         · simp at h)
    | (split at h
       · rename_i ha
         simp only [Bool.and_eq_true] at ha
         exact (List.all_eq_true.mp ha.1) r hr
       · simp at h)

/-- an INSERT IGNORE / REPLACE that goes to the plain insert executor can meet no row that exists: none of its
    rows gives the value of a unique index -/
theorem C01_plain_route_meets_nothing (v : Verb) (rows : List RowInfo) (hv : v = .ignore ∨ v = .replace)
    (h : route v rows = .plain) : ∀ r ∈ rows, identifiable r = false := by
  intro r hr
  rcases hv with hv | hv <;> subst hv <;> simp only [route] at h
  all_goals
    split at h
    · rename_i hn
      have := (List.all_eq_true.mp hn) r hr
      simpa using this
    · split at h <;> simp at h

/-- the keys of the rows a plain executor records are all given by the statement, or all assigned by the
    database (and then reported by the result): never some of each -/
theorem C01_plain_route_keys_uniform (v : Verb) (rows : List RowInfo) (h : route v rows = .plain) :
    (∀ r ∈ rows, r.keyGiven = true) ∨ (∀ r ∈ rows, r.keyGiven = false) := by
  have key : (allB (·.keyGiven) rows || noneB (·.keyGiven) rows) = true →
      (∀ r ∈ rows, r.keyGiven = true) ∨ (∀ r ∈ rows, r.keyGiven = false) := by
    intro hk
    simp only [Bool.or_eq_true] at hk
    rcases hk with hk | hk
    · exact Or.inl (fun r hr => (List.all_eq_true.mp hk) r hr)
    · exact Or.inr (fun r hr => by simpa using (List.all_eq_true.mp hk) r hr)
  cases v <;> simp only [route] at h
  · split at h
    · rename_i hk; exact key hk
    · simp at h
  · split at h
    · split at h
      · rename_i hk; exact key hk
      · simp at h
    · split at h <;> simp at h
  · split at h
    · split at h
      · rename_i hk; exact key hk
      · simp at h
    · split at h <;> simp at h
  · split at h <;> simp at h

/-- the statements of the review rounds, before and after: REPLACE INTO t (name, age) on a table with a surrogate
    key and a UNIQUE name; INSERT ... VALUES (NULL, ..), (100, ..); REPLACE INTO t (age) -/
theorem C01_route_examples :
    route .replace [{ keyGiven := false, otherUniqueGiven := true }] = .upsert ∧
    routeBeforeFix .replace [{ keyGiven := false, otherUniqueGiven := true }] = .plain ∧
    route .insert [{ keyGiven := false, otherUniqueGiven := false }, { keyGiven := true, otherUniqueGiven := false }] = .refuse ∧
    routeBeforeFix .insert [{ keyGiven := false, otherUniqueGiven := false }, { keyGiven := true, otherUniqueGiven := false }] = .plain ∧
    route .replace [{ keyGiven := false, otherUniqueGiven := false }] = .plain ∧
    route .ignore [{ keyGiven := false, otherUniqueGiven := true }, { keyGiven := false, otherUniqueGiven := false }] = .refuse := by
  decide

end insertRoute

end Seata.Props.C01
