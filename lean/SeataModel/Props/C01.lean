/-
  C01 — AT global rollback restores every row the transaction touched.  (theorems being added)
-/
import SeataModel.AT.Phase1
namespace Seata.Props.C01
open Seata Seata.DB Seata.AT

/-- placeholder-free sanity statement used while the restore proof is being built: an empty local
    transaction changes nothing -/
theorem C01_empty_local (sc : Schema) (cfg : Cfg) (t : Table) :
    localPhase1 sc cfg t [] = .ok (t, { items := [], lockKeys := [] }) := rfl

end Seata.Props.C01
