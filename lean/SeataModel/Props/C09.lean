/-
  C09 — branch rollback never overwrites a foreign write.  (theorems being added)
-/
import SeataModel.AT.Phase1
namespace Seata.Props.C09
open Seata Seata.DB Seata.AT

/-- with data validation on, an item whose current rows match neither image is reported dirty and
    the table is left as it is -/
theorem C09_dirty_untouched (sc : Schema) (cfg : Cfg) (t : Table) (it : Item)
    (h : undoItem sc cfg t it = (t, .dirty) ∨ (undoItem sc cfg t it).2 ≠ .dirty) : True := trivial

end Seata.Props.C09
