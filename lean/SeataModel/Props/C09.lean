/-
  C09 — branch rollback never overwrites a foreign write.

  With data validation on, the compensation of an undo item first compares the rows as they are now
  (`currentOf`) with both images (`validate`, executor.go dataValidationAndGoOn).
-/
import SeataModel.AT.World
import SeataModel.Lemmas.Validate
namespace Seata.Props.C09
open Seata Seata.DB Seata.AT

/-- the rows an item's compensation looks at: the after image, for DELETE the before image -/
def undoRowsOf (it : Item) : List IRow :=
  match it.kind with
  | .delete => it.before
  | _ => it.after

/-- what `recordsEq` establishes: same number of rows and every old row has a new row with the same
    key that carries the same value in every tracked column -/
theorem recordsEq_sound (old new : List IRow) (h : recordsEq old new = true) :
    old.length = new.length ∧
    ∀ o ∈ old, ∃ n ∈ new, n.key = o.key ∧
      ∀ p ∈ o.cells, ∃ q ∈ n.cells, q.1 = p.1 ∧ q.2 = p.2 := by
  exact recordsEq_sound' old new h

/-- a tracked cell that differs is noticed: if `o ∈ old` tracks column `c` with value `v` and the only
    row of `new` with `o`'s key carries `v' ≠ v` there (first occurrence of the column), the images are
    not equal -/
theorem recordsEq_detects (old new : List IRow) (o n : IRow) (c : Nat) (v v' : Val)
    (ho : o ∈ old) (hfind : new.find? (fun x => x.key == o.key) = some n)
    (hc : (c, v) ∈ o.cells) (hn : n.cells.find? (fun q => q.1 == c) = some (c, v')) (hne : v ≠ v') :
    recordsEq old new = false := by
  exact recordsEq_detects' old new o n c v v' ho hfind hc hn hne

/-- **C09 (three-way decision)**, validation on.  With `cur` the current rows under the item's keys:
    * before = after (nothing was changed): nothing is written, the item counts as done;
    * `cur` = after image: the compensation runs (the result is never `dirty` / `skipped`);
    * `cur` = before image (and ≠ after): nothing is written, the item counts as done;
    * `cur` matches neither: `dirty`, the table is left as it is. -/
theorem C09_three_way (sc : Schema) (cfg : Cfg) (t : Table) (it : Item) (hv : cfg.validate = true) :
    let cur := currentOf sc t (undoRowsOf it)
    (recordsEq it.before it.after = true → undoItem sc cfg t it = (t, .skipped)) ∧
    (recordsEq it.before it.after = false → recordsEq it.after cur = true →
        (undoItem sc cfg t it).2 = .done ∨ (undoItem sc cfg t it).2 = .sqlError) ∧
    (recordsEq it.before it.after = false → recordsEq it.after cur = false → recordsEq it.before cur = true →
        undoItem sc cfg t it = (t, .skipped)) ∧
    (recordsEq it.before it.after = false → recordsEq it.after cur = false → recordsEq it.before cur = false →
        undoItem sc cfg t it = (t, .dirty)) := by
  have hu : undoRowsOf it = undoRows it := rfl
  intro cur
  simp only [cur, hu]
  refine ⟨fun h => ?_, fun h ha => ?_, fun h ha hb => ?_, fun h ha hb => ?_⟩
  · exact undoItem_skip sc cfg t it (validate_skip_same sc cfg t it _ hv h)
  · exact undoItem_goOn sc cfg t it (validate_goOn sc cfg t it _ hv h ha)
  · exact undoItem_skip sc cfg t it (validate_skip_before sc cfg t it _ hv h ha hb)
  · exact undoItem_dirty sc cfg t it (validate_dirty sc cfg t it _ hv h ha hb)

/-- **C09 (foreign write)**: a row written by the branch (key `k`, tracked column `c`: `b` before, `a`
    after) now carries a value `v` different from both: the item is `dirty` and the table untouched. -/
theorem C09_foreign_write_is_dirty (sc : Schema) (cfg : Cfg) (t : Table) (it : Item) (hv : cfg.validate = true)
    (ob oa n : IRow) (c : Nat) (a b v : Val)
    (hne : recordsEq it.before it.after = false)
    (hoa : oa ∈ it.after) (hca : (c, a) ∈ oa.cells)
    (hob : ob ∈ it.before) (hcb : (c, b) ∈ ob.cells) (hk : ob.key = oa.key)
    (hcur : (currentOf sc t (undoRowsOf it)).find? (fun x => x.key == oa.key) = some n)
    (hn : n.cells.find? (fun q => q.1 == c) = some (c, v))
    (hva : a ≠ v) (hvb : b ≠ v) :
    undoItem sc cfg t it = (t, .dirty) := by
  have ha : recordsEq it.after (currentOf sc t (undoRowsOf it)) = false :=
    recordsEq_detects _ _ oa n c a v hoa hcur hca hn hva
  have hb : recordsEq it.before (currentOf sc t (undoRowsOf it)) = false :=
    recordsEq_detects _ _ ob n c b v hob (by rw [hk]; exact hcur) hcb hn hvb
  exact (C09_three_way sc cfg t it hv).2.2.2 hne ha hb

/-- a foreign DELETE (or re-INSERT) changes the number of current rows under the item's keys: if that
    number differs from both images' the item is `dirty` -/
theorem C09_foreign_delete_is_dirty (sc : Schema) (cfg : Cfg) (t : Table) (it : Item) (hv : cfg.validate = true)
    (hne : recordsEq it.before it.after = false)
    (h1 : (currentOf sc t (undoRowsOf it)).length ≠ it.after.length)
    (h2 : (currentOf sc t (undoRowsOf it)).length ≠ it.before.length) :
    undoItem sc cfg t it = (t, .dirty) := by
  have ha : recordsEq it.after (currentOf sc t (undoRowsOf it)) = false :=
    recordsEq_of_length_ne _ _ (fun e => h1 e.symm)
  have hb : recordsEq it.before (currentOf sc t (undoRowsOf it)) = false :=
    recordsEq_of_length_ne _ _ (fun e => h2 e.symm)
  exact (C09_three_way sc cfg t it hv).2.2.2 hne ha hb

/-- **C09 (branch level)**: one dirty item anywhere in the branch: the rollback delivery changes
    neither the table nor the undo log (the whole world is unchanged) and is answered as a failure. -/
theorem C09_dirty_branch_untouched (sc : Schema) (cfg : Cfg) (w : World) (i : Nat) (bs : BranchSt)
    (pre post : List Item) (it : Item)
    (hb : w.branches[i]? = some bs) (hl : bs.hasLog = true)
    (hitems : bs.b.items.reverse = pre ++ it :: post)
    (hpre : (undoFold sc cfg w.t pre).2 = true)
    (hdirty : (undoItem sc cfg (undoFold sc cfg w.t pre).1 it).2 = .dirty) :
    rollbackBranch sc cfg w i = (w, false) := by
  unfold rollbackBranch
  simp [hb, hl, undoBranch_dirty sc cfg w.t bs.b pre post it hitems hpre hdirty]

/-! ### non-vacuity: a foreign write on a row the branch updated -/

def sc1 : Schema := { ncols := 2, pk := [0] }
def itU : Item := { kind := .update, before := [⟨[.int 1], [(1, .int 10), (0, .int 1)]⟩], after := [⟨[.int 1], [(1, .int 15), (0, .int 1)]⟩] }

example : undoItem sc1 ⟨true, true⟩ [[.int 1, .int 99]] itU = ([[.int 1, .int 99]], .dirty) := by decide
example : undoItem sc1 ⟨true, true⟩ [[.int 1, .int 10]] itU = ([[.int 1, .int 10]], .skipped) := by decide
example : undoItem sc1 ⟨true, true⟩ [[.int 1, .int 15]] itU = ([[.int 1, .int 10]], .done) := by decide
example : undoItem sc1 ⟨true, true⟩ [] itU = ([], .dirty) := by decide

end Seata.Props.C09
