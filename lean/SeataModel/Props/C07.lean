/-
  C07 — propagation modes and transaction context are honoured across nesting and RPC.
-/
import SeataModel.TM.Propagation
namespace Seata.Props.C07
open Seata.TM.Prop

/-- the variable-threading implementation refines the lexically scoped specification:
    same events, same xid counter, and the caller's variable is intact afterwards — for EVERY program
    (any depth, any number of siblings), both sharings, any starting context. -/
theorem run_eq_spec (sh : Sharing) (p : Prog) (st : St) :
    run sh p st = { var := st.var, next := (spec sh p st.var st.next).2,
                    trace := st.trace ++ (spec sh p st.var st.next).1 } := by
  induction p generalizing st with
  | done => simp [run, spec]
  | scope m ok id body next ihb ihn =>
    simp only [run, spec]
    cases sh <;> cases m <;> cases hx : st.var.xid <;>
      simp [beginAsCoded, clearConf, carried, seenVar, joinVar, noTxVar, newVar, Seata.TM.Prop.decide, hx, ihb, ihn, secondPhase, List.append_assoc]


/-- C07: for every scope tree / sequence, every propagation mode and outcome, on a shared context
    (local calls) and on fresh contexts carrying the xid (remote calls), the requests sent and the
    xids seen are those of the documented semantics. -/
theorem C07_refines (sh : Sharing) (p : Prog) (v : Var) (n : Nat) :
    (run sh p { var := v, next := n, trace := [] }).trace = (spec sh p v n).1 := by
  rw [run_eq_spec]; simp

/-- when a scope (with everything nested in it and after it) has ended, the enclosing transaction's
    xid, role and name are exactly what they were -/
theorem C07_outer_intact (sh : Sharing) (p : Prog) (st : St) : (run sh p st).var = st.var := by
  rw [run_eq_spec]

def endsOf : List Ev → List Nat
  | [] => []
  | .commit x :: r => x :: endsOf r
  | .rollback x :: r => x :: endsOf r
  | _ :: r => endsOf r

theorem endsOf_append (a b : List Ev) : endsOf (a ++ b) = endsOf a ++ endsOf b := by
  induction a with
  | nil => rfl
  | cons e r ih => cases e <;> simp [endsOf, ih]

/-- only transactions begun inside a program are ever ended by it: every commit/rollback carries an
    xid handed out after the program started, and the xid counter only grows -/
theorem ends_fresh (sh : Sharing) (p : Prog) (enc : Var) (n : Nat) :
    n ≤ (spec sh p enc n).2 ∧ ∀ x ∈ endsOf (spec sh p enc n).1, n ≤ x ∧ x < (spec sh p enc n).2 := by
  induction p generalizing enc n with
  | done => simp [spec, endsOf]
  | scope m ok id body rest ihb ihr =>
    simp only [spec]
    cases hd : Seata.TM.Prop.decide m (seenVar sh enc).xid.isSome
    all_goals simp only [endsOf_append]
    · -- refuse
      have h := ihr enc n
      refine ⟨h.1, ?_⟩
      intro x hx
      simp [endsOf] at hx
      exact h.2 x hx
    · -- join
      generalize joinVar (seenVar sh enc) id = vv
      have hb := ihb vv n
      have h := ihr enc (spec sh body vv n).2
      refine ⟨Nat.le_trans hb.1 h.1, ?_⟩
      intro x hx
      simp [endsOf] at hx
      rcases hx with hx | hx
      · have := hb.2 x hx; omega
      · have := h.2 x hx; omega
    · -- noTx
      generalize noTxVar m (seenVar sh enc) = vv
      have hb := ihb vv n
      have h := ihr enc (spec sh body vv n).2
      refine ⟨Nat.le_trans hb.1 h.1, ?_⟩
      intro x hx
      simp [endsOf] at hx
      rcases hx with hx | hx
      · have := hb.2 x hx; omega
      · have := h.2 x hx; omega
    · -- newTx
      generalize newVar n id = vv
      have hb := ihb vv (n + 1)
      have h := ihr enc (spec sh body vv (n + 1)).2
      refine ⟨by omega, ?_⟩
      intro x hx
      cases ok <;> simp [endsOf, endsOf_append] at hx
      all_goals (
        rcases hx with hx | hx | hx
        · have := hb.2 x hx; omega
        · omega
        · have := h.2 x hx; omega)

/-- An xid carried into a callee (fresh context) makes it a participant that NEVER ends the caller's
    transaction: whatever the callee program is, no commit or rollback of the carried xid is sent. -/
theorem C07_callee_never_ends (p : Prog) (x n : Nat) (hx : x < n) (v : Var) :
    x ∉ endsOf (run .fresh p { var := v, next := n, trace := [] }).trace := by
  rw [C07_refines]
  intro h
  have := (ends_fresh .fresh p v n).2 x h
  omega

/-- the same on a shared context for everything nested inside an enclosing transaction: nested scopes
    never end the enclosing xid (only its launcher does, after they have all returned) -/
theorem C07_nested_never_ends (p : Prog) (x n : Nat) (hx : x < n) (v : Var) :
    x ∉ endsOf (run .shared p { var := v, next := n, trace := [] }).trace := by
  rw [C07_refines]
  intro h
  have := (ends_fresh .shared p v n).2 x h
  omega

/-- the mode table: what a scope decides from its mode and whether a transaction is present -/
theorem C07_mode_table :
    decide .required true = .join ∧ decide .required false = .newTx ∧
    decide .supports true = .join ∧ decide .supports false = .noTx ∧
    decide .mandatory true = .join ∧ decide .mandatory false = .refuse ∧
    decide .requiresNew true = .newTx ∧ decide .requiresNew false = .newTx ∧
    decide .notSupported true = .noTx ∧ decide .notSupported false = .noTx ∧
    decide .never true = .refuse ∧ decide .never false = .noTx := by
  refine ⟨rfl, rfl, rfl, rfl, rfl, rfl, rfl, rfl, rfl, rfl, rfl, rfl⟩

/-- Required ⊃ RequiresNew on a shared context: the inner transaction is begun and ended on its own,
    and the outer one still commits its own xid afterwards. -/
theorem C07_example_requiresNew :
    (run .shared (.scope .required true 1 (.scope .requiresNew false 2 .done .done) .done) { var := {}, next := 0, trace := [] }).trace
      = [.begin 1 0, .enter 1 (some 0), .begin 2 1, .enter 2 (some 1), .rollback 1,
         .exit 2 { xid := some 0, role := .launcher, name := some 1 }, .commit 0, .exit 1 {}] := by
  decide

/-! Counter-examples against the shape at c3b0bd5 (shared context, nothing restored). -/

/-- Required ⊃ Required: the outer scope, demoted to participant by the inner one, never commits. -/
theorem C07_asCoded_outer_never_commits :
    endsOf (runAsCoded_c3b0bd5 (.scope .required true 1 (.scope .required true 2 .done .done) .done)
      { var := {}, next := 0, trace := [] }).trace = [] := by decide

/-- Required ⊃ RequiresNew: the inner xid is committed twice, the outer xid never. -/
theorem C07_asCoded_inner_committed_twice :
    endsOf (runAsCoded_c3b0bd5 (.scope .required true 1 (.scope .requiresNew true 2 .done .done) .done)
      { var := {}, next := 0, trace := [] }).trace = [1, 1] := by decide

end Seata.Props.C07
