/-
  C02 — AT phase one is atomic and ordered against the coordinator.

  `run clean f lost` is the trace (database statements of the business connection interleaved with
  coordinator messages) of one local transaction under fault `f` with `lost` lost status reports,
  computed from its fault-free trace `clean`; `exec` is the database connection's view of a trace.
  The correspondence check feeds the real fault-free trace to `run` and compares the real faulted
  trace, durability, error and connection state with it; `wfb` is evaluated on every real
  fault-free trace, so the hypothesis `WF clean` of the theorems is checked per run.
-/
import SeataModel.Lemmas.Atomic
import SeataModel.AT.Conn
namespace Seata.Props.C02
open Seata.AT.Atomic

/-! ### shape of well-formed traces -/

theorem wf_no_report {body : List Ev} (hb : ∀ e ∈ body, bodyEv e = true) :
    ∀ e ∈ Ev.begin :: body ++ [.register, .undo, .commit], isReport e = false := by
  intro e he
  simp at he
  rcases he with h | h | h | h | h
  · subst h; rfl
  · exact (bodyEv_facts (hb e h)).2.1
  all_goals subst h; rfl

/-- the explicit fault-free run -/
theorem C02_clean_run (body : List Ev) (hb : ∀ e ∈ body, bodyEv e = true) (lost : Nat) (f : Fault)
    (hf : ∀ k, f = .db k → k = 0 ∨ body.length + 4 ≤ k) (hr : f ≠ .regRefused ∧ f ≠ .regTransport) :
    run (.begin :: body ++ [.register, .undo, .commit]) f lost =
      { trace := .begin :: body ++ [.register, .undo, .commit] ++ reports true lost, error := false } := by
  have h0 : hits f 0 .begin = false := by
    cases hf' : f with
    | db k => have := hf k hf'; simp [hits, isDb]; omega
    | _ => simp [hits, isDb]
  have hc : cut (.begin :: body ++ [.register, .undo, .commit]) f 0 false =
      (.begin :: body ++ [.register, .undo, .commit], true, false) := by
    rw [List.cons_append, cut]
    simp only [isReport, h0, isDb, Bool.false_eq_true, if_false, if_true]
    rw [cut_body_skip body _ f 1 _ hb (fun k hk => by have := hf k hk; omega)]
    have h1 : hits f (1 + body.length) .register = false := by
      cases hf' : f <;> simp_all [hits]
    have h2 : hits f (1 + body.length) .undo = false := by
      cases hf' : f with
      | db k => have := hf k hf'; simp [hits, isDb]; omega
      | _ => simp [hits, isDb]
    have h3 : hits f (1 + body.length + 1) .commit = false := by
      cases hf' : f with
      | db k => have := hf k hf'; simp [hits, isDb]; omega
      | _ => simp [hits, isDb]
    simp [cut, isReport, isDb, h1, h2, h3]
  unfold run
  rw [hc]
  simp

/-! ### the property -/

/-- **Failure**: when a fault is reached (registration refused or lost, or any database statement of
    the transaction failing), nothing is committed, nothing is durable, the caller gets an error, the
    connection ends outside any transaction, and a registered branch — and only a registered branch —
    is reported PhaseoneFailed, with 1 to 5 attempts, the last one delivered unless all five are lost. -/
theorem C02_failure (clean : List Ev) (hwf : WF clean) (f : Fault) (lost : Nat)
    (hreached : (cut clean f 0 false).2.2 = true) :
    let o := run clean f lost
    o.error = true ∧ Ev.commit ∉ o.trace ∧
    (exec o.trace).durBiz = 0 ∧ (exec o.trace).durUndo = 0 ∧ (exec o.trace).inTx = false ∧
    (Ev.register ∈ o.trace → ∃ p, o.trace = p ++ reports false lost ∧ ∀ e ∈ p, isReport e = false) ∧
    (Ev.register ∉ o.trace → ∀ e ∈ o.trace, isReport e = false) := by
  obtain ⟨body, hb, -, rfl⟩ := hwf
  obtain ⟨pre, e, post, hsplit, h1, h2⟩ := cut_reached _ f 0 false hreached
  -- every event before the failed one is BEGIN, a body event, register or undo
  have hpre : ∀ x ∈ pre, x = .begin ∨ bodyEv x = true ∨ x = .register ∨ x = .undo := by
    intro x hx
    have hd : (Ev.begin :: body ++ [Ev.register, Ev.undo, Ev.commit]).dropLast = pre ++ (e :: post).dropLast := by
      rw [hsplit, List.dropLast_append_of_ne_nil (by simp)]
    have hd' : (Ev.begin :: body ++ [Ev.register, Ev.undo, Ev.commit]).dropLast = Ev.begin :: body ++ [Ev.register, Ev.undo] := by
      have : Ev.begin :: body ++ [Ev.register, Ev.undo, Ev.commit] = (Ev.begin :: body ++ [Ev.register, Ev.undo]) ++ [Ev.commit] := by simp
      rw [this, List.dropLast_concat]
    have : x ∈ Ev.begin :: body ++ [.register, .undo] := by
      rw [← hd', hd]; exact List.mem_append_left _ hx
    simp at this
    rcases this with h | h | h | h
    · exact Or.inl h
    · exact Or.inr (Or.inl (hb x h))
    · exact Or.inr (Or.inr (Or.inl h))
    · exact Or.inr (Or.inr (Or.inr h))
  simp only [run, hreached, Bool.not_true, Bool.false_eq_true, if_false]
  rw [h1, h2]
  cases pre with
  | nil =>
    -- BEGIN itself failed
    have he : e = .begin := by simp at hsplit; exact hsplit.1.symm
    subst he
    simp [exec, execFrom, Db.step, isReport]
  | cons x pre' =>
    have hx : x = .begin := by simp at hsplit; exact hsplit.1.symm
    subst hx
    have hpre' : ∀ y ∈ pre', bodyEv y = true ∨ y = .register ∨ y = .undo := by
      intro y hy
      -- BEGIN occurs only at the head of the clean trace
      have hmem : y ∈ body ++ [.register, .undo, .commit] := by
        have : pre' ++ e :: post = body ++ [.register, .undo, .commit] := by
          simpa using hsplit.symm
        rw [← this]; exact List.mem_append_left _ hy
      rcases hpre y (by simp [hy]) with h | h | h | h
      · subst h
        simp at hmem
        exact absurd (hb _ hmem) (by simp [bodyEv])
      · exact Or.inl h
      · exact Or.inr (Or.inl h)
      · exact Or.inr (Or.inr h)
    have hncr : ∀ y ∈ pre' ++ [Ev.failed e], y ≠ .commit ∧ y ≠ .rollback := by
      intro y hy
      rw [List.mem_append] at hy
      rcases hy with hy | hy
      · rcases hpre' y hy with h | h | h
        · exact ⟨(bodyEv_facts h).2.2.2.1, (bodyEv_facts h).2.2.2.2.1⟩
        · subst h; simp
        · subst h; simp
      · simp at hy; subst hy; simp
    have hbf : ((Ev.begin :: pre' ++ [Ev.failed e]) == [Ev.failed Ev.begin]) = false := by
      simp
    simp only [hbf, Bool.false_eq_true, if_false, Bool.false_or]
    -- the database view of the trace
    have hexec : ∀ tail : List Ev, (∀ y ∈ tail, isReport y = true) →
        exec (Ev.begin :: pre' ++ [Ev.failed e] ++ ([Ev.rollback] ++ tail)) =
          { inTx := false, pendBiz := 0, pendUndo := 0, durBiz := 0, durUndo := 0 } := by
      intro tail ht
      have : Ev.begin :: pre' ++ [Ev.failed e] ++ ([Ev.rollback] ++ tail) =
          Ev.begin :: ((pre' ++ [Ev.failed e]) ++ (Ev.rollback :: tail)) := by simp
      have hs : Db.step {} Ev.begin = { inTx := true } := rfl
      rw [this, exec, execFrom_cons, execFrom_append, execFrom_cons, execFrom_reports _ _ ht, hs]
      obtain ⟨a, b, c⟩ := execFrom_inTx (pre' ++ [Ev.failed e]) { inTx := true } rfl hncr
      simp [Db.step, b, c]
    have hnocommit : ∀ tail : List Ev, (∀ y ∈ tail, isReport y = true) →
        Ev.commit ∉ Ev.begin :: pre' ++ [Ev.failed e] ++ ([Ev.rollback] ++ tail) := by
      intro tail ht hm
      simp at hm
      rcases hm with h | h
      · rcases hpre' _ h with h' | h' | h' <;> simp [bodyEv] at h'
      · have := ht _ h; simp [isReport] at this
    have hnorep : ∀ y ∈ Ev.begin :: pre' ++ [Ev.failed e] ++ [Ev.rollback], isReport y = false := by
      intro y hy
      simp at hy
      rcases hy with h | h | h | h
      · subst h; rfl
      · rcases hpre' _ h with h' | h' | h'
        · exact (bodyEv_facts h').2.1
        · subst h'; rfl
        · subst h'; rfl
      · subst h; rfl
      · subst h; rfl
    by_cases hreg : pre'.contains Ev.register = true
    · have hreg' : (Ev.begin :: pre').contains Ev.register = true := by
        simp at hreg ⊢; exact hreg
      rw [hreg']
      simp only [if_true]
      have ht := reports_isReport false lost
      rw [hexec _ ht]
      refine ⟨trivial, hnocommit _ ht, rfl, rfl, rfl, ?_, ?_⟩
      · intro _
        refine ⟨Ev.begin :: pre' ++ [Ev.failed e] ++ [Ev.rollback], by simp, hnorep⟩
      · intro hn
        exfalso; apply hn
        simp at hreg ⊢; exact Or.inl hreg
    · have hreg' : (Ev.begin :: pre').contains Ev.register = false := by
        simp at hreg ⊢; exact hreg
      rw [hreg']
      simp only [Bool.false_eq_true, if_false]
      have ht : ∀ y ∈ ([] : List Ev), isReport y = true := by simp
      rw [hexec [] ht]
      refine ⟨trivial, hnocommit [] ht, rfl, rfl, rfl, ?_, ?_⟩
      · intro hm
        exfalso
        simp at hm hreg
        exact hreg hm
      · intro _ y hy
        exact hnorep y (by simpa using hy)

/-- **Success**: when no fault is reached the whole transaction commits: every business statement
    and exactly one undo-log row are durable, no error, the connection is outside any transaction,
    and PhaseoneDone is reported. -/
theorem C02_success (clean : List Ev) (hwf : WF clean) (f : Fault) (lost : Nat)
    (hnot : (cut clean f 0 false).2.2 = false) :
    let o := run clean f lost
    o.error = false ∧ o.trace = clean ++ reports true lost ∧
    (exec o.trace).durBiz = clean.count .biz ∧ 0 < (exec o.trace).durBiz ∧
    (exec o.trace).durUndo = 1 ∧ (exec o.trace).inTx = false := by
  obtain ⟨body, hb, hbiz, rfl⟩ := hwf
  obtain ⟨h1, h2⟩ := cut_not_reached _ f 0 false (wf_no_report hb) hnot
  have hreg : (Ev.begin :: body ++ [Ev.register, .undo, .commit]).contains Ev.register = true := by simp
  simp only [run, hnot, Bool.not_false, if_true, h1, h2, hreg, Bool.false_or]
  have hncr : ∀ y ∈ body ++ [Ev.register, Ev.undo], y ≠ .commit ∧ y ≠ .rollback := by
    intro y hy
    rw [List.mem_append] at hy
    rcases hy with hy | hy
    · exact ⟨(bodyEv_facts (hb y hy)).2.2.2.1, (bodyEv_facts (hb y hy)).2.2.2.2.1⟩
    · simp at hy; rcases hy with h | h <;> subst h <;> simp
  have hshape : Ev.begin :: body ++ [Ev.register, .undo, .commit] ++ reports true lost =
      Ev.begin :: ((body ++ [Ev.register, Ev.undo]) ++ (Ev.commit :: reports true lost)) := by simp
  have hexec : exec (Ev.begin :: body ++ [Ev.register, .undo, .commit] ++ reports true lost) =
      { inTx := false, pendBiz := 0, pendUndo := 0, durBiz := body.count .biz, durUndo := 1 } := by
    have hs : Db.step {} Ev.begin = { inTx := true } := rfl
    rw [hshape, exec, execFrom_cons, execFrom_append, execFrom_cons,
      execFrom_reports _ _ (reports_isReport true lost), hs]
    obtain ⟨a, b, c⟩ := execFrom_inTx (body ++ [Ev.register, Ev.undo]) { inTx := true } rfl hncr
    obtain ⟨p1, p2⟩ := execFrom_inTx_pend (body ++ [Ev.register, Ev.undo]) { inTx := true } rfl hncr
    have hcu : body.count Ev.undo = 0 := by
      rw [List.count_eq_zero]; intro hm; exact absurd (hb _ hm) (by simp [bodyEv])
    simp only [Db.step, b, c, p1, p2, List.count_append]
    simp [hcu]
  rw [hexec]
  have hcount : (Ev.begin :: body ++ [Ev.register, .undo, .commit]).count Ev.biz = body.count .biz := by
    simp [List.count_append]
  refine ⟨trivial, trivial, hcount.symm, ?_, rfl, rfl⟩
  exact List.count_pos_iff.mpr hbiz

/-- **Atomicity**: whatever the fault and however many reports are lost, the business writes and the
    undo-log record are durable together (all of them) or not at all, and the connection is never
    handed back inside a transaction. -/
theorem C02_atomic (clean : List Ev) (hwf : WF clean) (f : Fault) (lost : Nat) :
    let d := exec (run clean f lost).trace
    ((d.durBiz = 0 ∧ d.durUndo = 0 ∧ (run clean f lost).error = true) ∨
     (d.durBiz = clean.count .biz ∧ 0 < d.durBiz ∧ d.durUndo = 1 ∧ (run clean f lost).error = false)) ∧
    d.inTx = false := by
  cases h : (cut clean f 0 false).2.2 with
  | true =>
    obtain ⟨a, -, c, d, e, -⟩ := C02_failure clean hwf f lost h
    exact ⟨Or.inl ⟨c, d, a⟩, e⟩
  | false =>
    obtain ⟨a, -, c, d, e, g⟩ := C02_success clean hwf f lost h
    exact ⟨Or.inr ⟨c, d, e, a⟩, g⟩

/-- **Order**: a COMMIT in the trace is preceded, inside the same local transaction (after the only
    BEGIN), by the successful registration and then the undo-log insert, in that order, with nothing
    but image queries and business statements before them. -/
theorem C02_order (clean : List Ev) (hwf : WF clean) (f : Fault) (lost : Nat) (p q : List Ev)
    (h : (run clean f lost).trace = p ++ .commit :: q) :
    ∃ body, (∀ e ∈ body, bodyEv e = true) ∧ p = .begin :: body ++ [.register, .undo] := by
  cases hr : (cut clean f 0 false).2.2 with
  | true =>
    obtain ⟨-, nc, -⟩ := C02_failure clean hwf f lost hr
    exfalso; apply nc; rw [h]; simp
  | false =>
    obtain ⟨-, ht, -⟩ := C02_success clean hwf f lost hr
    obtain ⟨body, hb, -, rfl⟩ := hwf
    refine ⟨body, hb, ?_⟩
    rw [ht] at h
    have h' : p ++ Ev.commit :: q = (Ev.begin :: body ++ [.register, .undo]) ++ Ev.commit :: reports true lost := by
      rw [← h]; simp
    refine split_unique Ev.commit p q _ _ ?_ ?_ h'
    · intro hm
      simp at hm
      exact absurd (hb _ hm) (by simp [bodyEv])
    · intro hm
      have := reports_isReport true lost _ hm
      simp [isReport] at this

/-! ### every failure kind the property names is a reached fault (non-vacuity of `C02_failure`) -/

theorem C02_reached_begin (body : List Ev) :
    (cut (.begin :: body ++ [.register, .undo, .commit]) (.db 1) 0 false) = ([.failed .begin], false, true) := by
  simp [cut, isReport, hits, isDb]

theorem C02_reached_body (body : List Ev) (hb : ∀ e ∈ body, bodyEv e = true) (i : Nat) (hi : i < body.length) :
    (cut (.begin :: body ++ [.register, .undo, .commit]) (.db (i + 2)) 0 false) =
      (.begin :: body.take i ++ [.failed body[i]], false, true) := by
  rw [List.cons_append, cut]
  have : hits (.db (i + 2)) 0 .begin = false := by simp [hits, isDb]
  simp only [isReport, this, isDb, Bool.false_eq_true, if_false, if_true]
  rw [cut_body_hit body _ _ 1 _ i hb hi (by congr 1; omega)]
  simp

theorem C02_reached_register (body : List Ev) (hb : ∀ e ∈ body, bodyEv e = true) (f : Fault)
    (hf : f = .regRefused ∨ f = .regTransport) :
    (cut (.begin :: body ++ [.register, .undo, .commit]) f 0 false) =
      (.begin :: body ++ [.failed .register], false, true) := by
  rw [List.cons_append, cut]
  have h0 : hits f 0 .begin = false := by rcases hf with h | h <;> subst h <;> simp [hits, isDb]
  simp only [isReport, h0, isDb, Bool.false_eq_true, if_false, if_true]
  rw [cut_body_skip body _ f 1 _ hb (by intro k hk; rcases hf with h | h <;> subst h <;> cases hk)]
  have h1 : hits f (1 + body.length) .register = true := by rcases hf with h | h <;> subst h <;> simp [hits]
  simp [cut, isReport, h1]

theorem C02_reached_undo (body : List Ev) (hb : ∀ e ∈ body, bodyEv e = true) :
    (cut (.begin :: body ++ [.register, .undo, .commit]) (.db (body.length + 2)) 0 false) =
      (.begin :: body ++ [.register, .failed .undo], true, true) := by
  rw [List.cons_append, cut]
  have h0 : hits (.db (body.length + 2)) 0 .begin = false := by simp [hits, isDb]
  simp only [isReport, h0, isDb, Bool.false_eq_true, if_false, if_true]
  rw [cut_body_skip body _ _ 1 _ hb (by intro k hk; cases hk; omega)]
  have h1 : hits (.db (body.length + 2)) (1 + body.length) .register = false := by simp [hits]
  have h2 : hits (.db (body.length + 2)) (1 + body.length) .undo = true := by simp [hits, isDb]; omega
  simp [cut, isReport, isDb, h1, h2]

theorem C02_reached_commit (body : List Ev) (hb : ∀ e ∈ body, bodyEv e = true) :
    (cut (.begin :: body ++ [.register, .undo, .commit]) (.db (body.length + 3)) 0 false) =
      (.begin :: body ++ [.register, .undo, .failed .commit], true, true) := by
  rw [List.cons_append, cut]
  have h0 : hits (.db (body.length + 3)) 0 .begin = false := by simp [hits, isDb]
  simp only [isReport, h0, isDb, Bool.false_eq_true, if_false, if_true]
  rw [cut_body_skip body _ _ 1 _ hb (by intro k hk; cases hk; omega)]
  have h1 : hits (.db (body.length + 3)) (1 + body.length) .register = false := by simp [hits]
  have h2 : hits (.db (body.length + 3)) (1 + body.length) .undo = false := by simp [hits, isDb]; omega
  have h3 : hits (.db (body.length + 3)) (1 + body.length + 1) .commit = true := by simp [hits, isDb]; omega
  simp [cut, isReport, isDb, h1, h2, h3]

/-! ### non-vacuity: a concrete well-formed trace and its runs -/

def sample : List Ev := [.begin, .sel, .biz, .sel, .register, .undo, .commit]

example : WF sample := wfb_sound (by decide)
example : (run sample .none 0).trace = sample ++ [.report true true] := by decide
example : (run sample (.db 5) 2).trace =
    [.begin, .sel, .biz, .sel, .register, .failed .undo, .rollback, .report false false, .report false false, .report false true] := by
  decide
example : (run sample .regRefused 0).trace = [.begin, .sel, .biz, .sel, .failed .register, .rollback] := by decide
example : (exec (run sample (.db 6) 0).trace).durBiz = 0 ∧ (exec (run sample .none 5).trace).durBiz = 1 := by decide


/-! ### a connection over any sequence of statements and local transactions -/

section Conn
open Seata.AT.Conn

theorem conn_step_inv (s : St) (op : Op) (h : CInv s) : CInv (cstep s op).1 := by
  unfold CInv at *
  cases op with
  | stmt g bf => cases hc : s.autoCommit <;> cases g <;> cases bf <;> simp_all [cstep]
  | begin g f => cases hc : s.autoCommit <;> cases f <;> simp_all [cstep]
  | end_ => simp [cstep]

theorem conn_step_seen (s : St) (op : Op) (h : CInv s) :
    ∀ x ∈ (cstep s op).2, x.belongs = true → x.inTx = true ∧ x.recorded = true := by
  unfold CInv at h
  cases op with
  | stmt g bf => cases hc : s.autoCommit <;> cases g <;> cases bf <;> simp_all [cstep]
  | begin g f => cases hc : s.autoCommit <;> cases f <;> simp_all [cstep]
  | end_ => simp [cstep]

/-- **every statement of a global transaction is a recorded statement of a local transaction**: whatever the
    application does on the connection — statements with or without the global context, local transactions begun
    with or without it, a BEGIN the driver refuses — a statement that belongs to a global transaction (its own
    context says so, or the local transaction it runs in was begun under one) reaches the database inside a local
    transaction and is recorded with it -/
theorem C02_statements_of_a_global_transaction_are_recorded (ops : List Op) (s : St) (h : CInv s) :
    CInv (crun cstep s ops).1 ∧
    ∀ x ∈ (crun cstep s ops).2, x.belongs = true → x.inTx = true ∧ x.recorded = true := by
  induction ops generalizing s with
  | nil => exact ⟨h, by simp [crun]⟩
  | cons op rest ih =>
    obtain ⟨i1, i2⟩ := ih (cstep s op).1 (conn_step_inv s op h)
    refine ⟨by simpa [crun] using i1, ?_⟩
    intro x hx
    simp only [crun, List.mem_append] at hx
    rcases hx with hx | hx
    · exact conn_step_seen s op h x hx
    · exact i2 x hx

theorem C02_fresh_connection : CInv {} := by simp [CInv]

/-- before the repairs: after a refused BEGIN the next statement ran bare; a statement issued with another
    context inside a local transaction begun under the global one went unrecorded -/
theorem C02_before_fix_connection :
    (crun cstepBeforeFix {} [.stmt true true, .stmt true false]).2 = [⟨true, false, true⟩] ∧
    (crun cstepBeforeFix {} [.begin true true, .stmt true false]).2 = [⟨true, false, true⟩] ∧
    (crun cstepBeforeFix {} [.begin true false, .stmt false false, .end_]).2 = [⟨true, true, false⟩] := by decide

example : (crun cstep {} [.begin true false, .stmt false false, .end_, .stmt true true, .stmt true false]).2
    = [⟨true, true, true⟩, ⟨true, true, true⟩] := by decide

end Conn

end Seata.Props.C02
