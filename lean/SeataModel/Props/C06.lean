/-
  C06 — TCC fence: idempotence, anti-suspension and empty rollback.
-/
import SeataModel.TCC.Fence
import SeataModel.TCC.FenceRace
import SeataModel.TCC.FenceDriver
import SeataModel.Lemmas.FenceRace
namespace Seata.Props.C06
open Seata.Fence

/-- the invariant tying the record to the durable effects: the record says exactly which effects
    have been applied -/
def Inv (s : BranchSt) : Prop :=
  (s.row = none → s.tries = 0 ∧ s.confirms = 0 ∧ s.cancels = 0) ∧
  (s.row = some .tried → s.tries = 1 ∧ s.confirms = 0 ∧ s.cancels = 0) ∧
  (s.row = some .committed → s.tries = 1 ∧ s.confirms = 1 ∧ s.cancels = 0) ∧
  (s.row = some .rollbacked → s.tries = 1 ∧ s.confirms = 0 ∧ s.cancels = 1) ∧
  (s.row = some .suspended → s.tries = 0 ∧ s.confirms = 0 ∧ s.cancels = 0)

theorem inv_init : Inv {} := by simp [Inv]

/-- a delivery either changes nothing (refused / failed: the local transaction is rolled back), or
    applies the fence transition together with exactly one business effect, or (idempotent paths,
    empty rollback) applies the fence transition and no business effect -/
theorem deliver_cases (p : Phase) (f : Option Nat) (cb : Bool) (s : BranchSt) :
    deliver p f cb s = (s, .refused) ∨
    (∃ r, fenceStep p s.row = .go r ∧ runsCallback p s.row = true ∧
      deliver p f cb s = (bump p { s with row := some r }, .ok)) ∨
    (∃ r, fenceStep p s.row = .go r ∧ runsCallback p s.row = false ∧
      deliver p f cb s = ({ s with row := some r }, .ok)) := by
  unfold deliver
  cases hstep : fenceStep p s.row with
  | refuse => exact Or.inl rfl
  | go r =>
    simp only
    by_cases hf : (fires f (pathLen p s.row) || (cb && runsCallback p s.row)) = true
    · simp [hf]
    · simp only [hf]
      by_cases hc : runsCallback p s.row = true
      · exact Or.inr (Or.inl ⟨r, rfl, hc, by simp [hc]⟩)
      · exact Or.inr (Or.inr ⟨r, rfl, by simpa using hc, by simp [hc]⟩)

theorem deliver_inv (p : Phase) (f : Option Nat) (cb : Bool) (s : BranchSt) (h : Inv s) :
    Inv (deliver p f cb s).1 := by
  rcases deliver_cases p f cb s with hc | ⟨r, hstep, hrun, hc⟩ | ⟨r, hstep, hrun, hc⟩
  · rw [hc]; exact h
  · rw [hc]
    obtain ⟨h1, h2, h3, h4, h5⟩ := h
    cases hr : s.row with
    | none =>
      have := h1 hr
      rw [hr] at hstep hrun
      cases p <;> simp [fenceStep, runsCallback] at hstep hrun <;> subst hstep <;> simp [Inv, bump, this]
    | some st =>
      rw [hr] at hstep hrun
      cases st <;> cases p <;> simp [fenceStep, runsCallback] at hstep hrun <;> subst hstep
      all_goals (have := h2 hr; simp [Inv, bump, this])
  · rw [hc]
    obtain ⟨h1, h2, h3, h4, h5⟩ := h
    cases hr : s.row with
    | none =>
      have := h1 hr
      rw [hr] at hstep hrun
      cases p <;> simp [fenceStep, runsCallback] at hstep hrun <;> subst hstep <;> simp [Inv, this]
    | some st =>
      rw [hr] at hstep hrun
      cases st <;> cases p <;> simp [fenceStep, runsCallback] at hstep hrun <;> subst hstep
      all_goals (first
        | (have := h3 hr; simp [Inv, this]; done)
        | (have := h4 hr; simp [Inv, this]; done)
        | (have := h5 hr; simp [Inv, this]; done))

theorem get_put (st : Store) (b b' : Nat) (s : BranchSt) :
    Fence.get (Fence.put st b s) b' = if b' = b then s else Fence.get st b' := by
  unfold Fence.get Fence.put
  by_cases h : b' = b
  · subst h; simp
  · have hb : (b == b') = false := by simp; exact fun e => h e.symm
    simp only [List.find?_cons, hb, h, if_false]
    congr 2
    induction st with
    | nil => rfl
    | cons q r ih =>
      by_cases hq : q.1 = b
      · have hqb : (q.1 == b') = false := by simp [hq]; exact fun e => h e.symm
        rw [List.filter_cons]
        simp only [bne_iff_ne, ne_eq, hq, not_true_eq_false, decide_false, Bool.false_eq_true, if_false]
        rw [List.find?_cons, hqb]
        exact ih
      · rw [List.filter_cons]
        simp only [bne_iff_ne, ne_eq, hq, not_false_eq_true, decide_true, if_true]
        rw [List.find?_cons, List.find?_cons, ih]

theorem get_nil (b : Nat) : Fence.get [] b = {} := rfl

/-- invariant for every branch of the store, over ALL delivery sequences (any length, any number of
    branches sharing the fence table, any fault / callback failure at any delivery) -/
theorem run_inv_from (st : Store) (xs : List Delivery) (h : ∀ b, Inv (Fence.get st b)) :
    ∀ b, Inv (Fence.get (xs.foldl (stepWith deliver) st) b) := by
  induction xs generalizing st with
  | nil => exact h
  | cons x r ih =>
    simp only [List.foldl_cons]
    apply ih
    intro b
    simp only [stepWith, get_put]
    split
    · exact deliver_inv _ _ _ _ (h x.branch)
    · exact h b

theorem run_inv (xs : List Delivery) (b : Nat) : Inv (Fence.get (run xs) b) :=
  run_inv_from [] xs (fun b => by rw [get_nil]; exact inv_init) b

/-- FULL property, all sequences / branches / faults: each of the try, confirm and cancel effects is
    applied at most once per branch, whatever is delivered in whatever order and multiplicity -/
theorem C06_at_most_once (xs : List Delivery) (b : Nat) :
    (Fence.get (run xs) b).tries ≤ 1 ∧ (Fence.get (run xs) b).confirms ≤ 1 ∧ (Fence.get (run xs) b).cancels ≤ 1 := by
  obtain ⟨h1, h2, h3, h4, h5⟩ := run_inv xs b
  cases hr : (Fence.get (run xs) b).row with
  | none => have := h1 hr; omega
  | some st =>
    cases st
    · have := h2 hr; omega
    · have := h3 hr; omega
    · have := h4 hr; omega
    · have := h5 hr; omega

theorem C06_try_at_most_once (xs : List Delivery) (b : Nat) : (Fence.get (run xs) b).tries ≤ 1 :=
  (C06_at_most_once xs b).1

/-- confirm and cancel are never both applied -/
theorem C06_exclusive (xs : List Delivery) (b : Nat) :
    ¬ (0 < (Fence.get (run xs) b).confirms ∧ 0 < (Fence.get (run xs) b).cancels) := by
  obtain ⟨h1, h2, h3, h4, h5⟩ := run_inv xs b
  intro ⟨hc, hk⟩
  cases hr : (Fence.get (run xs) b).row with
  | none => have := h1 hr; omega
  | some st =>
    cases st
    · have := h2 hr; omega
    · have := h3 hr; omega
    · have := h4 hr; omega
    · have := h5 hr; omega

/-- confirm and cancel are only ever applied to a branch whose try was applied -/
theorem C06_confirm_needs_try (xs : List Delivery) (b : Nat)
    (h : 0 < (Fence.get (run xs) b).confirms ∨ 0 < (Fence.get (run xs) b).cancels) :
    (Fence.get (run xs) b).tries = 1 := by
  obtain ⟨h1, h2, h3, h4, h5⟩ := run_inv xs b
  cases hr : (Fence.get (run xs) b).row with
  | none => have := h1 hr; omega
  | some st =>
    cases st
    · have := h2 hr; omega
    · exact (h3 hr).1
    · exact (h4 hr).1
    · have := h5 hr; omega

/-- atomic: a database failure at ANY statement of the local transaction, or a failure of the callback
    where it runs, leaves the fence record and every effect counter exactly as they were -/
theorem C06_atomic (p : Phase) (f : Option Nat) (cb : Bool) (s : BranchSt)
    (h : fires f (pathLen p s.row) = true ∨ (cb = true ∧ runsCallback p s.row = true)) :
    deliver p f cb s = (s, .refused) := by
  unfold deliver
  cases fenceStep p s.row with
  | refuse => rfl
  | go r => rcases h with h | ⟨h, h'⟩ <;> simp [*]

/-- the record and the effect move together: a delivery that is answered `ok` and runs the callback
    changes the record AND applies exactly one effect; one that does not run it changes at most the record -/
theorem C06_record_and_effect_together (p : Phase) (f : Option Nat) (cb : Bool) (s : BranchSt)
    (h : (deliver p f cb s).2 = .ok) :
    (runsCallback p s.row = true →
      (deliver p f cb s).1.tries + (deliver p f cb s).1.confirms + (deliver p f cb s).1.cancels
        = s.tries + s.confirms + s.cancels + 1 ∧ (deliver p f cb s).1.row ≠ s.row) ∧
    (runsCallback p s.row = false →
      (deliver p f cb s).1.tries = s.tries ∧ (deliver p f cb s).1.confirms = s.confirms ∧
      (deliver p f cb s).1.cancels = s.cancels) := by
  rcases deliver_cases p f cb s with hc | ⟨r, hstep, hrun, hc⟩ | ⟨r, hstep, hrun, hc⟩
  · rw [hc] at h; cases h
  · rw [hc]
    refine ⟨fun _ => ?_, fun hn => ?_⟩
    case refine_2 => rw [hrun] at hn; cases hn
    cases hr : s.row with
    | none =>
      rw [hr] at hstep hrun
      cases p <;> simp [fenceStep, runsCallback] at hstep hrun <;> subst hstep <;> simp [bump] <;> omega
    | some st =>
      rw [hr] at hstep hrun
      cases st <;> cases p <;> simp [fenceStep, runsCallback] at hstep hrun <;> subst hstep <;> simp [bump] <;> omega
  · rw [hc]
    refine ⟨fun hn => ?_, fun _ => ⟨rfl, rfl, rfl⟩⟩
    rw [hrun] at hn
    cases hn

/-- anti-suspension: once a rollback has arrived before try (record `suspended`), every later try is
    refused and applies nothing — for every continuation of the history -/
theorem suspended_step (p : Phase) (f : Option Nat) (cb : Bool) (s : BranchSt) (h : s.row = some .suspended) :
    (deliver p f cb s).1.row = some .suspended ∧ (deliver p f cb s).1.tries = s.tries ∧
    (p = .prepare → (deliver p f cb s).2 = .refused) := by
  unfold deliver
  rw [h]
  cases p <;> simp only [fenceStep]
  · simp [h]
  · simp [h]
  · by_cases hf : fires f (pathLen .rollback (some .suspended)) = true
    · simp [hf, h, runsCallback]
    · simp [hf, runsCallback]

theorem C06_anti_suspension (st : Store) (xs : List Delivery) (b : Nat)
    (h : (Fence.get st b).row = some .suspended) :
    (Fence.get (xs.foldl (stepWith deliver) st) b).row = some .suspended ∧
    (Fence.get (xs.foldl (stepWith deliver) st) b).tries = (Fence.get st b).tries := by
  induction xs generalizing st with
  | nil => exact ⟨h, rfl⟩
  | cons x r ih =>
    simp only [List.foldl_cons]
    have hstep : (Fence.get (stepWith deliver st x) b).row = some .suspended ∧
        (Fence.get (stepWith deliver st x) b).tries = (Fence.get st b).tries := by
      simp only [stepWith, get_put]
      split
      · rename_i hb; subst hb
        have := suspended_step x.phase x.fault x.cbFails _ h
        exact ⟨this.1, this.2.1⟩
      · exact ⟨h, rfl⟩
    have := ih _ hstep.1
    exact ⟨this.1, this.2.trans hstep.2⟩

/-- an empty rollback records the suspension and applies NO business effect -/
theorem C06_empty_rollback_suspends (s : BranchSt) (cb : Bool) (h : s.row = none) :
    (deliver .rollback none cb s).1.row = some .suspended ∧ (deliver .rollback none cb s).2 = .ok ∧
    (deliver .rollback none cb s).1.cancels = s.cancels ∧ (deliver .rollback none cb s).1.tries = s.tries ∧
    (deliver .rollback none cb s).1.confirms = s.confirms := by
  simp [deliver, h, fenceStep, fires, runsCallback]

/-- a repeated commit (rollback) of a committed (rolled-back) branch is answered `ok` and changes nothing -/
theorem C06_duplicate_is_noop (s : BranchSt) (cb : Bool) :
    (s.row = some .committed → deliver .commit none cb s = (s, .ok)) ∧
    (s.row = some .rollbacked → deliver .rollback none cb s = (s, .ok)) ∧
    (s.row = some .suspended → deliver .rollback none cb s = (s, .ok)) := by
  refine ⟨fun h => ?_, fun h => ?_, fun h => ?_⟩ <;>
    (simp only [deliver, h, fenceStep, fires, runsCallback]; cases s; simp_all)

/-- branches sharing the fence table do not influence each other -/
theorem C06_branches_independent (st : Store) (x : Delivery) (b : Nat) (h : b ≠ x.branch) :
    Fence.get (stepWith deliver st x) b = Fence.get st b := by
  simp [stepWith, get_put, h]

/-! What the repair changed, machine-checked: before it, `WithFence` ran the callback whenever the fence
    step returned nil, so the full at-most-once statement was FALSE of the code (fixed findings
    C06-duplicate-commit, C06-duplicate-rollback, C06-empty-rollback-runs-cancel). -/

theorem C06_before_fix_duplicate_commit :
    (Fence.get (runBeforeFix [{ branch := 1, phase := .prepare }, { branch := 1, phase := .commit }, { branch := 1, phase := .commit }]) 1).confirms = 2 := by
  decide
theorem C06_before_fix_duplicate_rollback :
    (Fence.get (runBeforeFix [{ branch := 1, phase := .prepare }, { branch := 1, phase := .rollback }, { branch := 1, phase := .rollback }]) 1).cancels = 2 := by
  decide
theorem C06_before_fix_empty_rollback_runs_cancel :
    (Fence.get (runBeforeFix [{ branch := 1, phase := .rollback }]) 1).cancels = 1 := by decide

/-- where the callback runs, or the fence refuses, the repair changed nothing -/
theorem C06_fix_is_local (p : Phase) (f : Option Nat) (cb : Bool) (s : BranchSt)
    (h : runsCallback p s.row = true ∨ fenceStep p s.row = .refuse) :
    deliver p f cb s = deliverBeforeFix p f cb s := by
  unfold deliver deliverBeforeFix
  rcases h with h | h
  · have hl : pathLen p s.row = pathLenBeforeFix p s.row := by
      cases p <;> cases hr : s.row <;> simp [hr, runsCallback] at h <;> (try rename_i st; cases st) <;>
        simp_all [pathLen, pathLenBeforeFix, runsCallback]
    simp [h, hl]
  · simp [h]

/-! Counter-example against the shape at c3b0bd5: no suspension was recorded, so a late try went through. -/
theorem C06_asCoded_no_suspension :
    fenceStepAsCoded_c3b0bd5 .rollback none = .refuse ∧ fenceStepAsCoded_c3b0bd5 .prepare none = .go .tried := by decide

/-! ### two deliveries for the same branch racing (TCC/FenceRace.lean) -/

open Seata.Fence.Race in
/-- **racing deliveries are serializable**: two deliveries for one branch, in any of its five states, with
    their database statements interleaved in ANY way (a schedule of 8 choices fixes the interleaving: a local
    transaction has at most 4 statements after BEGIN; what is left afterwards runs to its end), end exactly like
    one of the two serial orders, or like one delivery alone with the other refused (the coordinator delivers
    it again), or with both refused — the durable record, the effect counters and the two answers -/
theorem C06_race_serializable (db : BranchSt) (hdb : db ∈ Race.states) (pa pb : Phase) (ws : List Bool)
    (hlen : ws.length = 8) : Race.outcome pa pb db ws ∈ Race.allowed pa pb db := by
  have h := Seata.Lemmas.FenceRace.allSerializable_8
  simp only [Race.allSerializable, List.all_eq_true] at h
  have hpa : pa ∈ Race.phases := by cases pa <;> simp [Race.phases]
  have hpb : pb ∈ Race.phases := by cases pb <;> simp [Race.phases]
  have := h db hdb pa hpa pb hpb ws (Seata.Lemmas.FenceRace.mem_allScheds 8 ws hlen)
  simpa using this

open Seata.Fence.Race in
/-- the five states are the states a branch can be in: every reachable state of `run` is one of them -/
theorem C06_reachable_states (xs : List Delivery) (b : Nat) : Fence.get (run xs) b ∈ Race.states := by
  obtain ⟨h1, h2, h3, h4, h5⟩ := run_inv xs b
  generalize Fence.get (run xs) b = s at *
  obtain ⟨row, t, c, k⟩ := s
  cases row with
  | none => have := h1 rfl; simp_all [Race.states]
  | some st =>
    cases st
    · have := h2 rfl; simp_all [Race.states]
    · have := h3 rfl; simp_all [Race.states]
    · have := h4 rfl; simp_all [Race.states]
    · have := h5 rfl; simp_all [Race.states]

/-- an interleaving that is not a serial order: the rollback asks first (no record), the try then runs to its
    end, the rollback's insert of the suspension meets the committed record (1062) and is refused -/
example : Race.outcome .rollback .prepare {} [true, false, false, false, true, true, true, true] =
    ({ row := some .tried, tries := 1 }, some .refused, some .ok) := by decide

/-! ### the fence driver path (TCC/FenceDriver.lean): business and fence transaction on two connections -/
section driver
open Seata.Fence.Driver

/-- as long as neither commit fails, a delivery through the driver is a delivery through WithFence: record,
    effects and answer are the same (this is what ties the cases fd-* to the model of WithFence) -/
theorem C06_driver_is_fence_when_commits_succeed (p : Phase) (s : BranchSt) :
    deliverDriver p .none s = deliver p none false s := by
  unfold deliverDriver deliver
  cases h : fenceStep p s.row <;> simp [fires]
  cases hr : runsCallback p s.row <;> simp

/-- a business commit that fails leaves nothing behind: the fence transaction is rolled back with it -/
theorem C06_driver_business_commit_failure_changes_nothing (p : Phase) (s : BranchSt) :
    (deliverDriver p .business s).1 = s ∨ runsCallback p s.row = false := by
  unfold deliverDriver
  cases h : fenceStep p s.row <;> simp
  cases hr : runsCallback p s.row <;> simp

/-- the invariant (the record says exactly which effects are durable) survives every delivery through the
    driver in which the FENCE commit does not fail -/
theorem C06_driver_inv_unless_fence_commit_fails (p : Phase) (cf : CommitFault) (s : BranchSt) (h : Inv s)
    (hcf : cf ≠ .fence) : Inv (deliverDriver p cf s).1 := by
  cases cf with
  | none => rw [C06_driver_is_fence_when_commits_succeed]; exact deliver_inv p none false s h
  | fence => exact absurd rfl hcf
  | business =>
    unfold deliverDriver
    cases hf : fenceStep p s.row with
    | refuse => simpa using h
    | go r =>
      cases hr : runsCallback p s.row with
      | true => simpa [hr] using h
      | false =>
        have := deliver_inv p none false s h
        unfold deliver at this
        simpa [hf, hr, fires] using this

/-- OPEN FINDING C06-fence-driver-commits-on-two-connections, as a machine-checked witness: when the fence commit
    of a first try fails, the try is durable and there is no record (the invariant is broken, "record and effect
    commit or roll back together" does not hold on this path) - and the delivery the coordinator repeats applies
    the try a second time -/
theorem C06_driver_fence_commit_failure_is_not_atomic :
    deliverDriver .prepare .fence {} = ({ tries := 1 }, .refused) ∧
    ¬ Inv (deliverDriver .prepare .fence {}).1 ∧
    (deliverDriver .prepare .none (deliverDriver .prepare .fence {}).1).1.tries = 2 := by
  refine ⟨by decide, ?_, by decide⟩
  intro h
  have := h.1 (by decide)
  simp [deliverDriver, fenceStep, runsCallback, bump] at this

end driver

/-! Non-vacuity -/
example : (Fence.get (run [{ branch := 2, phase := .rollback }, { branch := 2, phase := .prepare },
                      { branch := 1, phase := .prepare, fault := some 3 }, { branch := 1, phase := .prepare },
                      { branch := 1, phase := .commit }, { branch := 1, phase := .rollback }]) 1)
    = { row := some .committed, tries := 1, confirms := 1, cancels := 0 } := by decide

end Seata.Props.C06
