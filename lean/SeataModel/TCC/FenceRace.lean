/-
  Two deliveries for the SAME branch racing, at the level of their database statements.

  Each delivery is the statement sequence of `WithFence` inside its own local transaction
  (pkg/rm/tcc/fence: BEGIN; the fence statements of handler/tcc_fence_wrapper_handler.go —
  `select … for update`, `insert`, compare-and-set `update` —; the business effect where the callback
  runs; COMMIT).  The database is the one the harness uses (memdb, following InnoDB at READ COMMITTED with
  fail-fast lock waits): `select … for update` locks an existing row and sees committed rows only; it, an
  `insert` and an `update` fail at once (1205) when the other transaction holds the row (an uncommitted insert
  holds it too); an `insert` of a committed key fails with 1062.  A failed statement makes the delivery
  refused, its local transaction is rolled back.

  A schedule says which of the two transactions runs its next statement.  `Props/C06.lean` proves that EVERY
  schedule ends like one of the serial orders, or like one delivery alone with the other refused.
-/
import SeataModel.TCC.Fence
namespace Seata.Fence.Race
open Seata.Fence

/-- one local transaction in flight -/
structure Tx where
  phase : Phase
  pc : Nat := 0                           -- statements executed so far
  seen : Option (Option Status) := none   -- what its `select … for update` returned (none: not run yet)
  wrote : Option Status := none           -- its pending row write
  effect : Bool := false                  -- its pending business effect
  locked : Bool := false                  -- it holds the row (locked by its select, or written by it)
  done : Option Res := none               -- finished: committed (`ok`) or rolled back (`refused`)
  deriving Repr, DecidableEq

def refuse (t : Tx) : Tx := { t with done := some .refused, wrote := none, effect := false, locked := false }

/-- commit: the pending write and effect become durable -/
def commitTx (t : Tx) (db : BranchSt) : Tx × BranchSt :=
  let db1 := match t.wrote with | some st => { db with row := some st } | none => db
  let db2 := if t.effect then bump t.phase db1 else db1
  ({ t with done := some .ok, locked := false }, db2)

/-- `select … for update` -/
def queryFU (me other : Tx) (db : BranchSt) : Tx :=
  if other.locked then refuse me                       -- the row is held by the other transaction: 1205
  else match db.row with
    | none => { me with pc := me.pc + 1, seen := some none }
    | some st => { me with pc := me.pc + 1, seen := some (some st), locked := true }

/-- `insert` of the fence row -/
def insertRow (me other : Tx) (db : BranchSt) (st : Status) : Tx :=
  if other.locked then refuse me                       -- lock wait on the other's row: 1205
  else match db.row with
    | some _ => refuse me                               -- duplicate key 1062
    | none => { me with pc := me.pc + 1, wrote := some st, locked := true }

/-- the next statement of `me` (with `other` in flight).  BEGIN touches nothing the other transaction can
    see and is left out: statement `n` below is the n-th statement after it. -/
def step (me other : Tx) (db : BranchSt) : Tx × BranchSt :=
  match me.done with
  | some _ => (me, db)
  | none =>
    let next := { me with pc := me.pc + 1 }
    match me.phase, me.pc + 1 with
    | .prepare, 1 => (insertRow me other db .tried, db)
    | .prepare, 2 => ({ next with effect := true }, db)                     -- try
    | .prepare, _ => commitTx me db
    | .commit, 1 => (queryFU me other db, db)
    | .commit, n =>
      (match me.seen with
       | some (some .tried) =>
         if n = 2 then ({ next with wrote := some .committed }, db)         -- update tried -> committed
         else if n = 3 then ({ next with effect := true }, db)              -- confirm
         else commitTx me db
       | some (some .committed) => commitTx me db                           -- done before: nothing to do
       | _ => (refuse me, db))
    | .rollback, 1 => (queryFU me other db, db)
    | .rollback, n =>
      (match me.seen with
       | some none =>
         if n = 2 then (insertRow me other db .suspended, db)               -- empty rollback: suspend
         else commitTx me db
       | some (some .tried) =>
         if n = 2 then ({ next with wrote := some .rollbacked }, db)
         else if n = 3 then ({ next with effect := true }, db)              -- cancel
         else commitTx me db
       | some (some .rollbacked) => commitTx me db
       | some (some .suspended) => commitTx me db
       | _ => (refuse me, db))

structure St where
  a : Tx
  b : Tx
  db : BranchSt
  deriving Repr, DecidableEq

/-- `true`: transaction a runs its next statement, `false`: b does -/
def sched (s : St) (who : Bool) : St :=
  if who then let r := step s.a s.b s.db; { s with a := r.1, db := r.2 }
  else let r := step s.b s.a s.db; { s with b := r.1, db := r.2 }

def runSched (pa pb : Phase) (db : BranchSt) (ws : List Bool) : St :=
  ws.foldl sched { a := { phase := pa }, b := { phase := pb }, db := db }

/-- whatever is unfinished after the schedule runs to its end, a first -/
def finish (s : St) : St := (List.replicate 5 true ++ List.replicate 5 false).foldl sched s

/-- the outcome of a schedule: the durable state and the two answers -/
def outcome (pa pb : Phase) (db : BranchSt) (ws : List Bool) : BranchSt × Option Res × Option Res :=
  let s := finish (runSched pa pb db ws)
  (s.db, s.a.done, s.b.done)

/-- the outcomes the property allows: the two serial orders, or one delivery alone (the other refused, to be
    delivered again by the coordinator), or neither -/
def allowed (pa pb : Phase) (db : BranchSt) : List (BranchSt × Option Res × Option Res) :=
  let ra := deliver pa none false db
  let rab := deliver pb none false ra.1
  let rb := deliver pb none false db
  let rba := deliver pa none false rb.1
  [ (rab.1, some ra.2, some rab.2),      -- a then b
    (rba.1, some rba.2, some rb.2),      -- b then a
    (ra.1, some ra.2, some .refused),    -- a alone
    (rb.1, some .refused, some rb.2),    -- b alone
    (db, some .refused, some .refused) ]

/-- all schedules of a given length -/
def allScheds : Nat → List (List Bool)
  | 0 => [[]]
  | n + 1 => (allScheds n).flatMap fun ws => [true :: ws, false :: ws]

/-- the five states a branch can be in (the record determines the effects, `Props/C06.lean` `Inv`) -/
def states : List BranchSt :=
  [ {}, { row := some .tried, tries := 1 }, { row := some .committed, tries := 1, confirms := 1 },
    { row := some .rollbacked, tries := 1, cancels := 1 }, { row := some .suspended } ]

def phases : List Phase := [.prepare, .commit, .rollback]

/-- every schedule of `n` choices, for every pair of phases and every state, ends in an allowed outcome -/
def allSerializable (n : Nat) : Bool :=
  states.all fun db => phases.all fun pa => phases.all fun pb =>
    (allScheds n).all fun ws => (allowed pa pb db).contains (outcome pa pb db ws)

end Seata.Fence.Race
