/-
  The fence DRIVER path (fence_driver_conn.go FenceConn.BeginTx, fence_driver_tx.go FenceTx.Commit): the business
  statements run in a transaction on the connection database/sql handed out, the fence statements in a transaction
  on ANOTHER connection of the pool; FenceTx.Commit commits the business transaction first and the fence
  transaction second.  A delivery is the fence step, the business effect, and the two commits; a commit can fail.
-/
import SeataModel.TCC.Fence
namespace Seata.Fence.Driver
open Seata.Fence

/-- which of the two commits of a delivery fails -/
inductive CommitFault | none | business | fence
  deriving Repr, DecidableEq

/-- one delivery through the driver, when the fence lets it proceed and its business runs -/
def deliverDriver (p : Phase) (cf : CommitFault) (s : BranchSt) : BranchSt × Res :=
  match fenceStep p s.row with
  | .refuse => (s, .refused)
  | .go r =>
    if !runsCallback p s.row then
      -- nothing to do: only the fence transaction is committed (it may carry the suspension record)
      match cf with
      | .none | .business => ({ s with row := some r }, .ok)
      | .fence => (s, .refused)
    else match cf with
      | .none => (bump p { s with row := some r }, .ok)
      | .business => (s, .refused)                       -- the fence transaction is rolled back
      | .fence => (bump p s, .refused)                   -- the business effect is durable, the record is not

end Seata.Fence.Driver
