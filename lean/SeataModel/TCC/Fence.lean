/-
  TCC fence.  Models pkg/rm/tcc/fence/fence_api.go (WithFence / DoFence),
  handler/tcc_fence_wrapper_handler.go (PrepareFence / CommitFence / RollbackFence) and
  store/db/dao/tcc_fence_db.go (insert fails on duplicate key, query, compare-and-set update),
  with the fence statements and the business callback inside ONE local transaction that the caller
  commits when WithFence returns nil and rolls back otherwise.
-/
namespace Seata.Fence

inductive Phase | prepare | commit | rollback
  deriving Repr, DecidableEq
inductive Status | tried | committed | rollbacked | suspended
  deriving Repr, DecidableEq
inductive Res | ok | refused
  deriving Repr, DecidableEq

/-- per branch: the fence row (if any) and how often each business effect became durable -/
structure BranchSt where
  row : Option Status := none
  tries : Nat := 0
  confirms : Nat := 0
  cancels : Nat := 0
  deriving Repr, DecidableEq

/-- the outcome of the fence step for a phase in a state: refuse, or go on with a new record -/
inductive FenceOut
  | refuse
  | go (r : Status)
  deriving Repr, DecidableEq

def fenceStep : Phase → Option Status → FenceOut
  | .prepare, none => .go .tried
  | .prepare, some _ => .refuse                       -- duplicate key (also after a suspension)
  | .commit, none => .refuse                          -- "tcc fence record not exists"
  | .commit, some .tried => .go .committed
  | .commit, some .committed => .go .committed        -- idempotent: answers success, nothing to do
  | .commit, some .rollbacked => .refuse
  | .commit, some .suspended => .refuse
  | .rollback, none => .go .suspended                 -- empty rollback: record a suspension
  | .rollback, some .tried => .go .rollbacked
  | .rollback, some .rollbacked => .go .rollbacked    -- idempotent: answers success, nothing to do
  | .rollback, some .suspended => .go .suspended
  | .rollback, some .committed => .refuse

/-- does the business callback run?  Only where the fence moves the record away from `tried` (or
    creates it for a try): on the idempotent paths and on an empty rollback `CommitFenceOnce` /
    `RollbackFenceOnce` answer "nothing to do" and `WithFence` returns without calling it. -/
def runsCallback : Phase → Option Status → Bool
  | .prepare, none => true
  | .commit, some .tried => true
  | .rollback, some .tried => true
  | _, _ => false

/-- number of statements the local transaction issues before its fate is sealed
    (BEGIN, fence statements, business effect where the callback runs, COMMIT) -/
def pathLen : Phase → Option Status → Nat
  | .prepare, none => 4                 -- BEGIN, insert, effect, COMMIT
  | .commit, some .tried => 5           -- BEGIN, query, update, effect, COMMIT
  | .commit, some .committed => 3       -- BEGIN, query, COMMIT
  | .rollback, none => 4                -- BEGIN, query, insert, COMMIT
  | .rollback, some .tried => 5
  | .rollback, some .rollbacked => 3
  | .rollback, some .suspended => 3
  | _, _ => 2

def bump (p : Phase) (s : BranchSt) : BranchSt :=
  match p with
  | .prepare => { s with tries := s.tries + 1 }
  | .commit => { s with confirms := s.confirms + 1 }
  | .rollback => { s with cancels := s.cancels + 1 }

def fires (fault : Option Nat) (len : Nat) : Bool :=
  match fault with
  | some k => decide (1 ≤ k ∧ k ≤ len)
  | none => false

/-- One delivery.  `fault = some k`: the k-th statement of the local transaction fails (database
    error, or the business effect itself for its position); `cbFails`: the callback, if it runs,
    returns an error.  A failure anywhere rolls the whole local transaction back. -/
def deliver (p : Phase) (fault : Option Nat) (cbFails : Bool) (s : BranchSt) : BranchSt × Res :=
  match fenceStep p s.row with
  | .refuse => (s, .refused)
  | .go r =>
    if fires fault (pathLen p s.row) || (cbFails && runsCallback p s.row) then (s, .refused)
    else if runsCallback p s.row then (bump p { s with row := some r }, .ok)
    else ({ s with row := some r }, .ok)

/-- The code before the repair (`WithFence` ran the callback whenever the fence step returned nil):
    kept to state, machine-checked, what the repair changed. -/
def pathLenBeforeFix : Phase → Option Status → Nat
  | .prepare, none => 4
  | .commit, some .tried => 5
  | .commit, some .committed => 4
  | .rollback, none => 5
  | .rollback, some .tried => 5
  | .rollback, some .rollbacked => 4
  | .rollback, some .suspended => 4
  | _, _ => 2

def deliverBeforeFix (p : Phase) (fault : Option Nat) (cbFails : Bool) (s : BranchSt) : BranchSt × Res :=
  match fenceStep p s.row with
  | .refuse => (s, .refused)
  | .go r =>
    if fires fault (pathLenBeforeFix p s.row) || cbFails then (s, .refused)
    else (bump p { s with row := some r }, .ok)

structure Delivery where
  branch : Nat
  phase : Phase
  fault : Option Nat := none
  cbFails : Bool := false
  deriving Repr, DecidableEq

abbrev Store := List (Nat × BranchSt)

def get (st : Store) (b : Nat) : BranchSt := ((st.find? (fun p => p.1 == b)).map (·.2)).getD {}
def put (st : Store) (b : Nat) (s : BranchSt) : Store := (b, s) :: st.filter (fun p => p.1 != b)

def stepWith (d : Phase → Option Nat → Bool → BranchSt → BranchSt × Res) (st : Store) (x : Delivery) : Store :=
  put st x.branch (d x.phase x.fault x.cbFails (get st x.branch)).1

def run (xs : List Delivery) : Store := xs.foldl (stepWith deliver) []
def runBeforeFix (xs : List Delivery) : Store := xs.foldl (stepWith deliverBeforeFix) []

/-- the shape at c3b0bd5: QueryTCCFenceDO turned "no rows" into an error, so a rollback (or commit)
    without a record was refused and recorded nothing -/
def fenceStepAsCoded_c3b0bd5 : Phase → Option Status → FenceOut
  | .rollback, none => .refuse
  | p, r => fenceStep p r

end Seata.Fence
