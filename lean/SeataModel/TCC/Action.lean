/-
  TCC branches.  Models pkg/rm/tcc/tcc_service.go (Prepare, registeBranch, getActionContextParameters),
  pkg/rm/tcc/tcc_resource.go (BranchCommit / BranchRollback / getBusinessActionContext),
  pkg/rm/two_phase.go and the phase-two processors.  JSON values are opaque tokens: the JSON round
  trip of application data (encoding/json) is a trusted contract.
-/
namespace Seata.TCC

/-- a field of the parameter struct -/
structure Field where
  exported : Bool
  tag : String            -- value of the `tccParam` tag ("" = no tag)
  value : String          -- canonical JSON of the field value (opaque)
  deriving Repr, DecidableEq

/-- the tagged parameters captured at prepare: exported fields with a tag other than "" and "-";
    a later field with the same tag replaces an earlier one -/
def captured : List Field → List (String × String)
  | [] => []
  | f :: r =>
    let rest := captured r
    if f.exported && f.tag != "" && f.tag != "-" then
      if rest.any (fun p => p.1 == f.tag) then rest else (f.tag, f.value) :: rest
    else rest

inductive RegOutcome | ok (branchId : Nat) | refused | transport
  deriving Repr, DecidableEq

inductive Ev
  | register (resource : String) (ctx : List (String × String))    -- BranchRegisterRequest received
  | tryRun                                                           -- the user's try started
  | invoke (commit : Bool) (xid : String) (branchId : Nat) (ctx : Option (List (String × String)))
  | respond (msgId : Nat) (commit : Bool) (xid : String) (branchId : Nat) (success : Bool)
  deriving Repr, DecidableEq

/-- Prepare inside a global transaction -/
def prepare (action : String) (fields : List Field) (reg : RegOutcome) : List Ev × Bool :=
  let r := Ev.register action (captured fields)
  match reg with
  | .ok _ => ([r, .tryRun], true)
  | _ => ([r], false)

/-- application data as the coordinator sends it back -/
inductive AppData
  | ctx (m : List (String × String))     -- {"actionContext": {...}}
  | empty                                 -- no application data
  | noKey                                 -- valid JSON object without the actionContext key
  | malformed                             -- not JSON / actionContext not an object
  deriving Repr, DecidableEq

/-- what the user's commit / rollback method returns: no error, an error, or (wrapped or not) the fence driver's
    `ErrPhaseAlreadyApplied` — the method opened its transaction through the fence driver and the fence said
    that the phase has been applied before, or that it is a rollback whose try never ran: nothing to do -/
inductive UserOutcome | ok | fails | alreadyApplied
  deriving Repr, DecidableEq

/-- does the resource manager report the phase as done? -/
def UserOutcome.done : UserOutcome → Bool
  | .ok => true | .fails => false | .alreadyApplied => true

structure Request where
  msgId : Nat
  commit : Bool
  xid : String
  branchId : Nat
  resource : String
  data : AppData
  user : UserOutcome        -- what the user's commit/rollback method will return
  deriving Repr, DecidableEq

def known (registered : List String) (r : Request) : Bool := registered.contains r.resource

def ctxOf : AppData → Option (List (String × String))
  | .ctx m => some m
  | _ => some []

/-- one phase-two request against the set of registered action names -/
def phaseTwo (registered : List String) (r : Request) : List Ev :=
  match known registered r, r.data, r.user.done with
  | false, _, _ => []                                  -- unknown resource: no user code, no reply
  | true, .malformed, _ => []                          -- panics before any user code (recovered by the task pool)
  | true, d, false => [.invoke r.commit r.xid r.branchId (ctxOf d)]   -- manager returns an error: nothing is reported
  | true, d, true => [.invoke r.commit r.xid r.branchId (ctxOf d), .respond r.msgId r.commit r.xid r.branchId true]

def phaseTwoAll (registered : List String) (rs : List Request) : List Ev := rs.flatMap (phaseTwo registered)

end Seata.TCC
