/-
  Line-protocol driver: one request per line `<id> <Cxx> <op> args…`, one answer per line `M <id> …`.
  Runs the model's executable definitions; the Go harness runs the implementation on the same ops.
-/
import SeataModel.Driver.C12
import SeataModel.Driver.C13
import SeataModel.Driver.C04
import SeataModel.Driver.C07
import SeataModel.Driver.C19
import SeataModel.Driver.C14
import SeataModel.Driver.C15
import SeataModel.Driver.C08
import SeataModel.Driver.C06
import SeataModel.Driver.C05
import SeataModel.Driver.AT
import SeataModel.Driver.C03
import SeataModel.Driver.C16
import SeataModel.Driver.C11
import SeataModel.Driver.C17
import SeataModel.Driver.C02

open Seata.Driver

def dispatch (prop : String) (ws : List String) : String :=
  -- a case decided by the oracle on the implementation alone (no model counterpart), for every property
  if ws == ["skip"] then "skip" else
  match prop with
  | "C12" => C12.handle ws
  | "C13" => C13.handle ws
  | "C04" => C04.handle ws
  | "C07" => C07.handle ws
  | "C19" => C19.handle ws
  | "C14" => C14.handle ws
  | "C15" => C15.handle ws
  | "C08" => C08.handle ws
  | "C06" => C06.handle ws
  | "C05" => C05.handle ws
  | "C02" => C02.handle ws
  | "C01" | "C09" | "C10" | "C18" => Seata.Driver.AT.handle ws
  | "C03" => Seata.Driver.C03.handle ws
  | "C16" => Seata.Driver.C16.handle ws
  | "C11" => Seata.Driver.C11.handle ws
  | "C17" => Seata.Driver.C17.handle ws
  | "C20" =>
    -- every one of the workers x per-worker transactions terminates
    (match ws with
     | ["stress", a, b] => (match a.toNat?, b.toNat? with
        | some n, some m => s!"terminated=1 tx={n * m}"
        | _, _ => "bad-op")
     | ["race-report"] => "race-report"
     | _ => "bad-op")
  | _ => "bad-prop"

partial def loop (hin : IO.FS.Stream) (hout : IO.FS.Stream) : IO Unit := do
  let line ← hin.getLine
  if line.isEmpty then return ()
  match words (stripNl line) with
  | id :: prop :: ws => hout.putStrLn s!"M {id} {dispatch prop ws}"
  | _ => pure ()
  loop hin hout

def main : IO Unit := do
  let hin ← IO.getStdin
  let hout ← IO.getStdout
  loop hin hout
  hout.flush
