#!/usr/bin/env python3
"""seedtool.py verify|run|keep <prop> <n> [id]  — evaluate a seeded change produced by a sub-agent.
verify: in the scratch worktree /tmp/mut-<prop>: demo passes without the change, change builds, the
        touched packages' existing tests pass with the change, demo fails with the change.
run:    apply the change to /repo, run ./check <prop> (quick), undo.
keep:   store it under /verif/seeded/<id>/ (patch.diff, demo, meta.json)."""
import sys, os, re, subprocess, json, shutil
ENV = dict(os.environ, GOFLAGS="-mod=mod", GOPROXY="off", GOSUMDB="off", GOTOOLCHAIN="local")
def sh(cmd, cwd=None, timeout=1800):
    r = subprocess.run(cmd, shell=True, cwd=cwd, env=ENV, stdout=subprocess.PIPE, stderr=subprocess.STDOUT, text=True, errors="replace", timeout=timeout)
    return r.returncode, r.stdout
def paths(prop, n):
    out = "/tmp/mut-%s-out" % prop
    return "/tmp/mut-%s" % prop, os.path.join(out, "change%s.diff" % n), os.path.join(out, "demo%s_test.go" % n)
def demo_place(demo):
    first = open(demo).read().split("\n", 3)[:3]
    for l in first:
        m = re.search(r"place in\s+(\S+)", l)
        if m:
            return m.group(1).rstrip("/").rstrip(")").rstrip(",")
    raise SystemExit("demo has no 'place in' line")
def touched_pkgs(diff):
    pk = set()
    for l in open(diff):
        m = re.match(r"\+\+\+ b/(.*)/[^/]+\.go", l)
        if m: pk.add("./" + m.group(1) + "/...")
    return sorted(pk)
def verify(prop, n):
    wt, diff, demo = paths(prop, n)
    sh("git checkout -- . && git clean -fdq", wt)
    place = demo_place(demo)
    dst = os.path.join(wt, place, "zz_demo_test.go")
    shutil.copy(demo, dst)
    rc0, o0 = sh("go test -count=1 ./%s/ -run 'Demo|demo' 2>&1 | tail -15" % place, wt)
    pass_without = " ok " in o0 or o0.strip().startswith("ok") or "\nok" in o0
    rc, o = sh("git apply %s" % diff, wt)
    if rc != 0:
        print("APPLY FAILED", o); return False
    rcb, ob = sh("go build ./... 2>&1 | tail -5", wt)
    os.remove(dst)
    rct, ot = sh("go test -count=1 %s 2>&1 | grep -v 'no test files' | tail -15" % " ".join(touched_pkgs(diff)), wt)
    existing_pass = "FAIL" not in ot
    shutil.copy(demo, dst)
    rc1, o1 = sh("go test -count=1 ./%s/ -run 'Demo|demo' 2>&1 | tail -15" % place, wt)
    fail_with = "FAIL" in o1
    sh("git checkout -- . && git clean -fdq", wt)
    print("demo without change: %s\nbuild with change: %s\nexisting tests with change: %s\ndemo with change: %s" % (
        "PASS" if pass_without else "NOT PASS\n" + o0, "ok" if ob.strip() == "" else ob,
        "pass" if existing_pass else "FAIL\n" + ot, "FAIL (as wanted)" if fail_with else "did not fail\n" + o1))
    return pass_without and existing_pass and fail_with and ob.strip() == ""
def run(prop, n, checkprop=None, tier="quick"):
    wt, diff, demo = paths(prop, n)
    rc, o = sh("git -C /repo apply %s" % diff)
    if rc != 0:
        print("APPLY TO /repo FAILED", o); return None
    try:
        rc, o = sh("./check %s --tier %s 2>&1 | tail -6" % (checkprop or prop, tier), "/verif")
    finally:
        sh("git -C /repo checkout -- . && git -C /repo clean -fdq pkg")
    print(o)
    return "VIOLATION" in o
def keep(prop, n, sid, caught, what):
    wt, diff, demo = paths(prop, n)
    d = "/verif/seeded/%s" % sid
    os.makedirs(d, exist_ok=True)
    shutil.copy(diff, os.path.join(d, "patch.diff"))
    shutil.copy(demo, os.path.join(d, "demo_test.go"))
    notes = os.path.join(os.path.dirname(diff), "NOTES.md")
    json.dump(dict(property=prop, id=sid, needs=what, demo_place=demo_place(demo),
                   ran=["seedtool.py verify %s %s: demo passes without / fails with the change; build and existing tests of touched packages pass" % (prop, n),
                        "seedtool.py run %s %s: git -C /repo apply patch.diff; ./check %s; git -C /repo checkout -- ." % (prop, n, prop)],
                   caught_by_check=caught, source="independent sub-agent given only the property text"),
              open(os.path.join(d, "meta.json"), "w"), indent=1)
    if os.path.exists(notes):
        shutil.copy(notes, os.path.join(d, "AGENT_NOTES.md"))
def rerun(sid, tier="quick"):
    """apply a KEPT seeded change to /repo, run its property's check, undo; True if a VIOLATION is printed"""
    d = "/verif/seeded/%s" % sid
    meta = json.load(open(os.path.join(d, "meta.json")))
    prop = meta.get("caught_by", meta["property"])
    rc, o = sh("git -C /repo apply --recount -C1 %s" % os.path.join(d, "patch.diff"))
    if rc != 0:
        print("%-50s APPLY FAILED (the patch no longer applies to the current tree): %s" % (sid, o.strip()[:120]))
        return None
    try:
        rc, o = sh("./check %s --tier %s 2>&1 | tail -4" % (prop, tier), "/verif")
    finally:
        sh("git -C /repo checkout -- . && git -C /repo clean -fdq pkg")
    hit = "VIOLATION" in o
    if "harness-build" in o or "lean-build" in o or " 0 cases" in o:
        print("%-50s ERROR: the check did not run (build failure with the change applied?): %s" % (sid, o.strip()[-200:]))
        return None
    print("%-50s %s  (%s)" % (sid, "caught" if hit else "MISSED", prop))
    return hit
if __name__ == "__main__":
    if sys.argv[1] == "rerun":
        sys.exit(0 if rerun(sys.argv[2]) else 1)
    if sys.argv[1] == "rerun-all":
        res = {}
        for sid in sorted(os.listdir("/verif/seeded")):
            res[sid] = rerun(sid)
        print("caught %d, missed %d, not applicable %d" % (sum(1 for v in res.values() if v), sum(1 for v in res.values() if v is False), sum(1 for v in res.values() if v is None)))
        sys.exit(0)
    cmd, prop, n = sys.argv[1], sys.argv[2], sys.argv[3]
    if cmd == "verify": sys.exit(0 if verify(prop, n) else 1)
    if cmd == "run": sys.exit(0 if run(prop, n, *(sys.argv[4:5])) else 1)
    if cmd == "keep": keep(prop, n, sys.argv[4], sys.argv[5] == "1", sys.argv[6])
