#!/usr/bin/env python3
"""Regenerate harness/go.mod from the repository's go.mod (same dependency versions, offline)."""
import re, sys, os
repo = sys.argv[1] if len(sys.argv) > 1 else "/repo"
out = sys.argv[2] if len(sys.argv) > 2 else os.path.join(os.path.dirname(os.path.abspath(__file__)), "harness", "go.mod")
src = open(os.path.join(repo, "go.mod")).read()
reqs = re.findall(r"^require \((.*?)^\)", src, flags=re.S | re.M)
single = re.findall(r"^require ([^\s(]+ \S+)", src, flags=re.M)
lines = ["module verifharness", "", "go 1.20", "", "require seata.apache.org/seata-go v0.0.0", ""]
for blk in reqs:
    lines.append("require (" + blk + ")")
    lines.append("")
for s in single:
    lines.append("require " + s)
repl = re.findall(r"^replace .*$", src, flags=re.M)
lines += repl
lines.append("replace seata.apache.org/seata-go => " + repo)
open(out, "w").write("\n".join(lines) + "\n")
