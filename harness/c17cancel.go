package main

import (
	"errors"
	"context"
	"fmt"
	"strings"
	"time"

	sql2 "seata.apache.org/seata-go/pkg/datasource/sql"
	"seata.apache.org/seata-go/pkg/datasource/sql/datasource"
	"seata.apache.org/seata-go/pkg/protocol/branch"

	"verifharness/memdb"
)

// ---- (e) a branch whose failure IS the caller's context (cancelled, deadline exceeded) or a panic under the
// statement: "any failure before a successful prepare rolls the branch back". The commands that end the branch
// cannot travel under the context that is done (a driver sends nothing under one), and a recovered panic is a
// failure like any other. Afterwards no branch is ACTIVE or IDLE on any session, the row is unchanged and
// unlocked (the next statement of the transaction, on another connection, changes it), the caller has an error.

var c17CancelKinds = []string{
	"explicit-cancel-rollback",  // BeginTx(ctx'), statement, cancel ctx', tx.Rollback()
	"explicit-deadline-commit",  // BeginTx(ctx' with a deadline), a slow statement outlives it, tx.Commit()
	"explicit-deadline-nothing", // as before, and the application does nothing more (database/sql rolls back on its own)
	"auto-deadline",             // an auto-commit statement under a deadline that a slow server outlives
	"auto-panic",                // an auto-commit statement under which something panics
	"auto-cancel-before",        // an auto-commit statement under a context that is cancelled already
	"explicit-slow",             // nothing fails: a local transaction that takes longer than the two-phase hold time
	"explicit-expired",          // a local transaction that takes longer than the execution timeout of a branch: refused at its commit
	"auto-rollback-fails",       // the statement fails and so does the XA ROLLBACK that follows: the branch is NOT known to be rolled back
	"explicit-rollback-fails",   // the same in a local transaction the application rolls back
	"auto-end-fails",            // the statement fails and XA END(TMFAIL) fails: the branch is still ACTIVE on the session
	"pinned-prepared-then-slow", // (pinned connection) a prepared branch, then a local transaction of 1.6 s on the same session
	"start-fails",               // XA START is refused: no branch came to be, nothing is kept for it
}

func runC17Cancelled(c *Ctx) {
	w := GetATWorld()
	xa := w.OpenXA()
	for n, kind := range c17CancelKinds {
		for _, viaConn := range []bool{false, true} {
			cid := fmt.Sprintf("c17-g%d", 2*n+b2i(viaConn)+1)
			if !c.Want(cid) {
				continue
			}
			table := w.NewTableName("xag")
			w.Eng.CreateTable(memdb.TableDef{Name: table, Cols: []memdb.Column{{Name: "id", Type: memdb.TBigInt}, {Name: "n", Type: memdb.TBigInt, Nullable: true}}, PK: []string{"id"}})
			w.Eng.InsertRows(table, memdb.Row{int64(1), int64(0)}, memdb.Row{int64(2), int64(0)}, memdb.Row{int64(3), int64(0)})
			nextID := 1
			if kind == "explicit-slow" {
				nextID = 2 // (row 1 belongs to the prepared branch)
			}
			if kind == "pinned-prepared-then-slow" {
				if !viaConn {
					continue
				}
				nextID = 3 // (rows 1 and 2 belong to prepared branches)
			}
			w.coord.ResetLog()
			w.Eng.ResetJournal()
			q := "UPDATE " + table + " SET n = 7 WHERE id = ?"
			var firstErr, nextErr error
			// a branch that could not be rolled back is not reported as failed: the application gives up, the
			// coordinator rolls every branch back (and asks again for the one that is not known to be gone)
			globalRollback := strings.Contains(kind, "rollback-fails") || kind == "auto-end-fails"
			untold := false
			var xid string
			crash := safeCall(func() {
				xid, _ = InGlobalTx(cid, func(ctx context.Context) error {
					// (nothing here may wait for ever: a pool exhausted by connections an earlier case lost is a finding
					// of that case, not a reason to hang)
					ctx, stop := context.WithTimeout(ctx, 15*time.Second)
					defer stop()
					first := func() {
						begin := xa.BeginTx
						exec := xa.ExecContext
						if viaConn {
							actx, acancel := context.WithTimeout(ctx, 5*time.Second)
							conn, cerr := xa.Conn(actx)
							acancel()
							if cerr != nil {
								panic(fmt.Sprintf("no connection to be had from the pool: %v (in use: %d)", cerr, xa.Stats().InUse))
							}
							defer closeSoon(conn)
							begin, exec = conn.BeginTx, conn.ExecContext
						}
						switch kind {
						case "explicit-cancel-rollback":
							cctx, cancel := context.WithCancel(ctx)
							defer cancel()
							tx, err := begin(cctx, nil)
							if err != nil {
								firstErr = err
								return
							}
							_, firstErr = tx.ExecContext(cctx, q, 1)
							cancel()
							tx.Rollback()
							if firstErr == nil {
								firstErr = context.Canceled // (the application gave up: nothing to report)
							}
						case "explicit-deadline-commit", "explicit-deadline-nothing":
							cctx, cancel := context.WithTimeout(ctx, 60*time.Millisecond)
							defer cancel()
							w.Eng.AddFault(memdb.Fault{Kind: "update", Table: table, Nth: 1, Delay: 200 * time.Millisecond})
							tx, err := begin(cctx, nil)
							if err != nil {
								firstErr = err
								return
							}
							_, firstErr = tx.ExecContext(cctx, q, 1)
							if kind == "explicit-deadline-commit" {
								if err := tx.Commit(); firstErr == nil {
									firstErr = err
								}
							} else {
								time.Sleep(100 * time.Millisecond)
								if firstErr == nil {
									firstErr = tx.Commit() // (only to learn that the transaction is over)
								}
							}
						case "auto-deadline":
							cctx, cancel := context.WithTimeout(ctx, 60*time.Millisecond)
							defer cancel()
							w.Eng.AddFault(memdb.Fault{Kind: "update", Table: table, Nth: 1, Delay: 200 * time.Millisecond})
							_, firstErr = exec(cctx, q, 1)
						case "auto-panic":
							w.Eng.AddFault(memdb.Fault{Kind: "update", Table: table, Nth: 1, Panic: true})
							if pn := safeCall(func() { _, firstErr = exec(ctx, q, 1) }); pn != "" {
								firstErr = fmt.Errorf("panic: %s", pn)
							}
						case "explicit-slow":
							tx, err := begin(ctx, nil)
							if err != nil {
								firstErr = err
								return
							}
							if _, firstErr = tx.ExecContext(ctx, q, 1); firstErr == nil {
								time.Sleep(1600 * time.Millisecond) // (the hold time of a PREPARED branch is one second)
								if _, firstErr = tx.ExecContext(ctx, "UPDATE "+table+" SET n = n + 1 WHERE id = ?", 1); firstErr == nil {
									firstErr = tx.Commit()
								}
							}
							if firstErr != nil {
								tx.Rollback()
							}
							return
						case "explicit-expired":
							defer sql2.VerifSetXABranchExecutionTimeout(sql2.VerifSetXABranchExecutionTimeout(200 * time.Millisecond))
							tx, err := begin(ctx, nil)
							if err != nil {
								firstErr = err
								return
							}
							if _, firstErr = tx.ExecContext(ctx, q, 1); firstErr == nil {
								time.Sleep(300 * time.Millisecond)
								firstErr = tx.Commit()
							}
							if firstErr != nil {
								tx.Rollback()
								if !strings.Contains(firstErr.Error(), "timeout") {
									firstErr = fmt.Errorf("(the caller is not told that the branch timed out) %w", firstErr)
									untold = true
								}
							}
							return
						case "auto-rollback-fails":
							w.Eng.AddFault(memdb.Fault{Kind: "update", Table: table, Nth: 1})
							w.Eng.AddFault(memdb.Fault{Kind: "xa_rollback", Nth: 1})
							_, firstErr = exec(ctx, q, 1)
							return
						case "auto-end-fails":
							w.Eng.AddFault(memdb.Fault{Kind: "update", Table: table, Nth: 1})
							w.Eng.AddFault(memdb.Fault{Kind: "xa_end", Nth: 1})
							_, firstErr = exec(ctx, q, 1)
							return
						case "start-fails":
							w.Eng.AddFault(memdb.Fault{Kind: "xa_start", Nth: 1})
							_, firstErr = exec(ctx, q, 1)
							return
						case "explicit-rollback-fails":
							tx, err := begin(ctx, nil)
							if err != nil {
								firstErr = err
								return
							}
							w.Eng.AddFault(memdb.Fault{Kind: "update", Table: table, Nth: 1})
							w.Eng.AddFault(memdb.Fault{Kind: "xa_rollback", Nth: 1})
							_, firstErr = tx.ExecContext(ctx, q, 1)
							tx.Rollback()
							return
						case "pinned-prepared-then-slow":
							if !viaConn {
								firstErr = errors.New("(not applicable on a pooled handle)")
								return
							}
							if _, firstErr = exec(ctx, "UPDATE "+table+" SET n = 5 WHERE id = ?", 2); firstErr != nil {
								return
							}
							tx, err := begin(ctx, nil)
							if err != nil {
								firstErr = err
								return
							}
							if _, firstErr = tx.ExecContext(ctx, q, 1); firstErr == nil {
								time.Sleep(1600 * time.Millisecond)
								if _, firstErr = tx.ExecContext(ctx, "UPDATE "+table+" SET n = n + 1 WHERE id = ?", 1); firstErr == nil {
									firstErr = tx.Commit()
								}
							}
							if firstErr != nil {
								tx.Rollback()
							}
							return
						case "auto-cancel-before":
							cctx, cancel := context.WithCancel(ctx)
							cancel()
							_, firstErr = exec(cctx, q, 1)
						}
					}
					first()
					w.Eng.ClearFaults()
					time.Sleep(50 * time.Millisecond) // (database/sql rolls a transaction whose context is done back from a goroutine of its own)
					// the next statement of the global transaction, on whatever connection the pool gives: the row is free
					nctx, ncancel := context.WithTimeout(ctx, 3*time.Second)
					defer ncancel()
					_, nextErr = xa.ExecContext(nctx, "UPDATE "+table+" SET n = 9 WHERE id = ?", nextID)
					if globalRollback {
						return errors.New("the application gives the transaction up")
					}
					return nil
				})
			})
			w.Eng.ClearFaults()
			// phase two as a coordinator drives it: every registered branch that was not reported as failed
			reported := w.coord.ReportedFailed(xid)
			for _, b := range w.coord.RegisteredBranches(xid) {
				if !reported[b.BranchID] {
					if globalRollback {
						w.coord.RollbackBranch(w.coord.LastSession(), b, 3*time.Second)
					} else {
						w.coord.CommitBranch(w.coord.LastSession(), b, 3*time.Second)
					}
				}
			}
			// what the data source still keeps for this transaction's branches
			var stillKept []string
			for _, b := range w.coord.RegisteredBranches(xid) {
				if v, ok := datasource.GetDataSourceManager(branch.BranchTypeXA).GetCachedResources().Load(b.ResourceID); ok {
					id := fmt.Sprintf("%s-%d", xid, b.BranchID)
					if _, kept := v.(*sql2.DBResource).Lookup(id); kept {
						stillKept = append(stillKept, id)
					}
				}
			}
			var toks []string
			finished := map[string]int{}
			for _, e := range w.Eng.Journal() {
				tok := map[string]string{"xa_start": "S", "xa_end": "E", "xa_prepare": "P", "xa_commit": "C", "xa_rollback": "R", "update": "x"}[e.Kind]
				if tok == "" {
					continue
				}
				if (tok == "C" || tok == "R") && (e.Err == "" || !globalRollback) {
					finished[xaIDOf(e.SQL)]++ // (where the harness makes XA ROLLBACK fail, the repetition is the point)
				}
				if e.Err != "" {
					tok += "!"
				}
				toks = append(toks, tok)
			}
			final := w.DumpTable(table)
			class, detail := "", ""
			fail := func(cl, d string) {
				if class == "" {
					class, detail = cl, d
				}
			}
			if crash != "" {
				fail("crash", crash)
			}
			if kind == "explicit-slow" || kind == "pinned-prepared-then-slow" {
				if firstErr != nil {
					fail("error_without_fault", firstErr.Error())
				}
			} else if firstErr == nil {
				fail("failure_not_returned", kind)
			}
			for _, b := range w.coord.RegisteredBranches(xid) {
				id := fmt.Sprintf("%s-%d", xid, b.BranchID)
				if st := w.Eng.XAState(id); st == "ACTIVE" || st == "IDLE" || st == "PREPARED" {
					fail("branch_left_"+strings.ToLower(st), "a branch that failed before its prepare must be rolled back: "+id)
					break
				}
			}
			for _, t := range toks {
				if t == "C!" {
					fail("commit_sent_after_failure", "a branch that was rolled back in phase one was not reported and is taken through phase two")
				}
			}
			for id, k := range finished {
				if k > 1 {
					fail("branch_finished_twice", fmt.Sprintf("%d XA COMMIT / XA ROLLBACK commands for %s", k, id))
				}
			}
			if untold {
				fail("cause_of_failure_not_returned", firstErr.Error())
			}
			if len(stillKept) > 0 {
				fail("finished_or_failed_branch_still_kept", fmt.Sprint(stillKept))
			}
			if nextErr != nil {
				fail("next_statement_refused", nextErr.Error())
			} else if globalRollback {
				if final != "i1,i0;i2,i0;i3,i0" {
					fail("global_rollback_not_applied", final)
				}
			} else if !strings.Contains(final, fmt.Sprintf("i%d,i9", nextID)) {
				fail("next_statement_lost", final)
			}
			if len(w.Eng.OpenTxns()) > 0 {
				fail("transaction_left_open", fmt.Sprint(w.Eng.OpenTxns()))
			}
			c.Out.Case(cid, "C17", "skip", "skip")
			c.Out.Oracle(cid, class == "", class, fmt.Sprintf("%s | kind=%s conn=%v first=%v next=%v trace=%s final=%s", detail, kind, viaConn, firstErr, nextErr, strings.Join(toks, " "), final))
			c.Out.Tag(cid, "nontrivial=1")
			c.Out.Count("cancelled." + kind)
			for _, b := range w.coord.RegisteredBranches(xid) {
				id := fmt.Sprintf("%s-%d", xid, b.BranchID)
				switch w.Eng.XAState(id) {
				case "PREPARED":
					w.Eng.Exec("XA ROLLBACK '" + id + "'")
				}
			}
			xa.SetMaxIdleConns(0)
			xa.SetMaxIdleConns(2)
			w.Eng.DropTable(table)
		}
	}
}
