package main

import (
	"context"
	"database/sql"
	"fmt"
	"sort"
	"strings"
	"time"

	sql2 "seata.apache.org/seata-go/pkg/datasource/sql"
	"seata.apache.org/seata-go/pkg/datasource/sql/datasource"
	"seata.apache.org/seata-go/pkg/protocol/branch"

	"verifharness/memdb"
)

// ---- (f) the keeper: for which branches the data source keeps a connection until phase two. One pinned
// connection (db.Conn) runs a sequence of branches of one global transaction — `s` an auto-commit statement
// (a branch begun and prepared), `x` one the database fails (begun, rolled back), `f<k>` phase two of the k-th
// branch that was begun, `t` a look of the two-phase timeout checker once the hold time has expired — and after
// the sequence the keeper holds exactly what the model (XA/Keeper.lean, op `keeper`) says (cases c17-k*).

var c17KeeperSeqs = []string{
	"s f1", "s s f1", "s s f2", "s s f1 f2", "s s f2 f1", "s s s f2", "s s s f2 f1 f3", "s s s f3 f2 f1",
	"x", "x s f2", "s x f1", "s x s f3", "s x s f1 f3", "s s x f1", "x x s f3",
	"s", "s s", "s f1 s", "s f1 s f2", "s s f1 s f3 f2",
	"s t", "s s f1 t",
}

// (the sequences run on a pinned connection, which database/sql does not validate between statements: that is
// where one session carries several branches)

func runC17Keeper(c *Ctx) {
	w := GetATWorld()
	xa := w.OpenXA()
	mgr := datasource.GetDataSourceManager(branch.BranchTypeXA)
	for i, seq := range c17KeeperSeqs {
		cid := fmt.Sprintf("c17-k%d", i)
		if !c.Want(cid) {
			continue
		}
		table := w.NewTableName("xak")
		w.Eng.CreateTable(memdb.TableDef{Name: table, Cols: []memdb.Column{{Name: "id", Type: memdb.TBigInt}, {Name: "n", Type: memdb.TBigInt, Nullable: true}}, PK: []string{"id"}})
		for k := 1; k <= 6; k++ {
			w.Eng.InsertRows(table, memdb.Row{int64(k), int64(0)})
		}
		w.coord.ResetLog()
		w.Eng.ResetJournal()
		var mops []string
		var xid string
		var begun []BranchInfo // in the order they were registered
		closed := 0
		crash := safeCall(func() {
			xid, _ = InGlobalTx(cid, func(ctx context.Context) error {
				// (nothing here may wait for ever)
				ctx, stop := context.WithTimeout(ctx, 60*time.Second)
				defer stop()
				conn, cerr := xa.Conn(ctx)
				if cerr != nil {
					panic(fmt.Sprintf("no connection to be had from the pool: %v (in use: %d)", cerr, xa.Stats().InUse))
				}
				defer closeSoon(conn)
				for _, op := range strings.Fields(seq) {
					switch {
					case op == "s" || op == "x":
						row := len(begun) + 1
						if op == "x" {
							w.Eng.AddFault(memdb.Fault{Kind: "update", Table: table, Nth: 1})
						}
						sctx, cancel := context.WithTimeout(ctx, 5*time.Second)
						conn.ExecContext(sctx, "UPDATE "+table+" SET n = 7 WHERE id = ?", row)
						cancel()
						w.Eng.ClearFaults()
						begun = w.coord.RegisteredBranches(tmXID(ctx))
						mops = append(mops, fmt.Sprintf("b%d", len(begun)))
						if op == "s" {
							mops = append(mops, "p")
						} else {
							mops = append(mops, "x")
						}
					case strings.HasPrefix(op, "f"):
						var k int
						fmt.Sscanf(op, "f%d", &k)
						if k >= 1 && k <= len(begun) {
							w.coord.CommitBranch(w.coord.LastSession(), begun[k-1], 3*time.Second)
						}
						mops = append(mops, op)
					case op == "t":
						// the hold time of a prepared branch is one second, the checker looks once a second
						before := w.Eng.SessionCount()
						for k := 0; k < 150 && w.Eng.SessionCount() >= before; k++ { // (up to 15 s: the checker ticks once a second, on a loaded machine later)
							time.Sleep(100 * time.Millisecond)
						}
						if w.Eng.SessionCount() < before {
							closed = 1
						}
						mops = append(mops, "t")
					}
				}
				return nil
			})
		})
		w.Eng.ClearFaults()
		// what the keeper holds of this transaction's branches, as their ordinals
		var kept []int
		if len(begun) > 0 {
			if v, ok := mgr.GetCachedResources().Load(begun[0].ResourceID); ok {
				v.(*sql2.DBResource).GetKeeper().Range(func(k, _ interface{}) bool {
					for n, b := range begun {
						if fmt.Sprint(k) == fmt.Sprintf("%s-%d", xid, b.BranchID) {
							kept = append(kept, n+1)
						}
					}
					return true
				})
			}
		}
		sort.Ints(kept)
		ks := "-"
		if len(kept) > 0 {
			var parts []string
			for _, k := range kept {
				parts = append(parts, fmt.Sprint(k))
			}
			ks = strings.Join(parts, ",")
		}
		c.Out.Case(cid, "C17", "keeper "+strings.Join(mops, " "), fmt.Sprintf("kept=%s closed=%d", ks, closed))
		c.Out.Oracle(cid, crash == "", "crash", crash+" | "+seq)
		c.Out.Tag(cid, "nontrivial=1")
		c.Out.Count("keeper")
		// leave nothing prepared or kept behind
		for _, b := range begun {
			id := fmt.Sprintf("%s-%d", xid, b.BranchID)
			if w.Eng.XAState(id) == "PREPARED" {
				w.coord.RollbackBranch(w.coord.LastSession(), b, 3*time.Second)
			}
			if w.Eng.XAState(id) == "PREPARED" {
				w.Eng.Exec("XA ROLLBACK '" + id + "'")
			}
			if v, ok := mgr.GetCachedResources().Load(b.ResourceID); ok {
				v.(*sql2.DBResource).Release(id)
			}
		}
		xa.SetMaxIdleConns(0)
		xa.SetMaxIdleConns(2)
		w.Eng.DropTable(table)
	}
	_ = sql.ErrNoRows
}
