package main

import (
	"bytes"
	"database/sql/driver"
	"encoding/base64"
	"fmt"
	"math"
	"sort"
	"strings"
	"time"
	"unicode/utf8"

	"seata.apache.org/seata-go/pkg/datasource/sql/datasource"
	"seata.apache.org/seata-go/pkg/datasource/sql/types"
	"seata.apache.org/seata-go/pkg/datasource/sql/undo"
	"seata.apache.org/seata-go/pkg/datasource/sql/undo/base"
	"seata.apache.org/seata-go/pkg/datasource/sql/undo/parser"
	"seata.apache.org/seata-go/pkg/util/collection"
)

func init() { props["C08"] = runC08 }

// captureConn is a driver.Conn that records the arguments of the undo_log INSERT FlushUndoLog issues.
type captureConn struct {
	ctx  []byte
	info []byte
	n    int
}
type captureStmt struct{ c *captureConn }

func (c *captureConn) Prepare(q string) (driver.Stmt, error) { return &captureStmt{c}, nil }
func (c *captureConn) Close() error                          { return nil }
func (c *captureConn) Begin() (driver.Tx, error)             { return nil, fmt.Errorf("no tx") }
func (s *captureStmt) Close() error                          { return nil }
func (s *captureStmt) NumInput() int                         { return -1 }
func (s *captureStmt) Exec(args []driver.Value) (driver.Result, error) {
	s.c.n++
	if len(args) >= 4 {
		if b, ok := args[2].([]byte); ok {
			s.c.ctx = b
		}
		if b, ok := args[3].([]byte); ok {
			s.c.info = b
		}
	}
	return driver.RowsAffected(1), nil
}
func (s *captureStmt) Query(args []driver.Value) (driver.Rows, error) {
	return nil, fmt.Errorf("no query")
}

// a cell: MySQL column type -> JDBC code the image builder emits -> Go value kind the scanner yields
type c08Cell struct {
	mysql string
	kind  string // int float str bytes time
}

var c08Cells = []c08Cell{
	{"VARCHAR", "str"}, {"CHAR", "str"}, {"TEXT", "str"}, {"TINYTEXT", "str"}, {"JSON", "str"},
	{"INT", "int"}, {"MEDIUMINT", "int"}, {"SMALLINT", "int"}, {"TINYINT", "int"}, {"BIGINT", "int"},
	{"DOUBLE", "float"}, {"DECIMAL", "str"}, {"FLOAT", "float"}, // DECIMAL: the text the database gives (every digit)
	{"DATE", "time"}, {"DATETIME", "time"}, {"TIMESTAMP", "time"},
	{"BLOB", "bytes"}, {"TINYBLOB", "bytes"}, {"MEDIUMBLOB", "bytes"}, {"VARBINARY", "bytes"}, {"BINARY", "bytes"},
	{"LONGBLOB", "bytes"}, {"BIT", "bytes"},
	// read as texts by the image scanner since cc35a42 (byte slices before)
	{"MEDIUMTEXT", "str"}, {"LONGTEXT", "str"}, {"ENUM", "str"}, {"SET", "str"},
	// UNSIGNED columns: the same DATA_TYPE (and so the same JDBC code) as the signed ones, values up to 2·max+1
	{"TINYINT UNSIGNED", "int"}, {"SMALLINT UNSIGNED", "int"}, {"INT UNSIGNED", "int"}, {"BIGINT UNSIGNED", "int"},
}

// c08JDBC is the JDBC code of a cell's column: INFORMATION_SCHEMA reports "tinyint" for TINYINT UNSIGNED
func c08JDBC(mysql string) types.JDBCType {
	return types.MySQLStrToJavaType(strings.TrimSuffix(mysql, " UNSIGNED"))
}

type c08Val struct {
	tok  string      // token for the model
	v    interface{} // Go value put into the image
	frag bool        // model is faithful for this value (see DESIGN: ints beyond 2^53, invalid UTF-8 are not)
}

func f64tok(f float64) string {
	f32 := 0
	if float64(float32(f)) == f {
		f32 = 1
	}
	return fmt.Sprintf("f:%d:%d", math.Float64bits(f), f32)
}

func genC08Val(r *Rng, kind string, mysql string) c08Val {
	if r.Chance(12) {
		return c08Val{"nil", nil, true}
	}
	switch kind {
	case "int":
		var i int64
		switch r.Intn(9) {
		case 0:
			i = 0
		case 1:
			i = int64(r.Intn(256)) - 128
		case 2:
			i = int64(r.Intn(65536)) - 32768
		case 3:
			i = 1<<53 - int64(r.Intn(3))
		case 4:
			i = -(1 << 53) + int64(r.Intn(3))
		case 5:
			i = 1<<53 + 1 + int64(r.Intn(1000)) // not exactly representable
		case 6:
			i = math.MaxInt64 - int64(r.Intn(2))
		case 7:
			i = math.MinInt64 + int64(r.Intn(2))
		default:
			i = int64(r.U64() >> uint(r.Intn(64)))
			if r.Bool() {
				i = -i
			}
		}
		// keep the value inside the column type's range, as the database would
		switch mysql {
		case "TINYINT UNSIGNED":
			i = int64(uint8(i))
		case "SMALLINT UNSIGNED":
			i = int64(uint16(i))
		case "INT UNSIGNED":
			i = int64(uint32(i))
		case "BIGINT UNSIGNED":
			if i < 0 {
				i = -(i + 1)
			}
		case "TINYINT":
			i = int64(int8(i))
		case "SMALLINT":
			i = int64(int16(i))
		case "INT", "MEDIUMINT":
			i = int64(int32(i))
		case "BIT":
			i = i & 1
		}
		// (integers beyond 2^53 are exact too since the documents are read with json.Number)
		return c08Val{fmt.Sprintf("i:%d", i), i, true}
	case "float":
		var f float64
		switch r.Intn(6) {
		case 0:
			f = 0
		case 1:
			f = float64(float32(r.Intn(100000)) / 7)
		case 2:
			f = float64(r.Intn(1000000)) / 100
		case 3:
			f = math.MaxFloat64
		case 4:
			f = -math.SmallestNonzeroFloat64
		default:
			f = math.Float64frombits(r.U64())
			if math.IsNaN(f) || math.IsInf(f, 0) {
				f = 1.5
			}
		}
		if mysql == "FLOAT" { // the database returns float32-precision values for FLOAT columns
			f = float64(float32(f))
			if math.IsInf(f, 0) {
				f = 3.5
			}
		}
		return c08Val{f64tok(f), f, true}
	case "str", "bytes":
		var s string
		switch r.Intn(10) {
		case 0:
			s = ""
		case 1:
			// valid base64 — Go's decoder also skips CR and LF, so a text with line breaks among base64 characters
			// is "valid base64" for the reader whatever its length
			s = []string{"test", "abcd", "YWJj", "AAAA", "Zm9v", "dGVzdA==", "seat", "1234", "true",
				"John\n", "abcd\r\n", "abcd\nefgh", "\nYWJj", "ab\ncd", "\n", "\r\n\r\n"}[r.Intn(16)]
		case 2:
			s = []string{"123", "-1", "1e9", "0.5", "null", "true"}[r.Intn(6)] // look like numbers / JSON literals
		case 3:
			s = []string{`{}`, `{"a":1}`, `[1,2]`, `"q"`, `\u0000`, `<&>`}[r.Intn(6)] // look like JSON
		case 4:
			s = base64.StdEncoding.EncodeToString(r.Bytes(1 + r.Intn(9)))
		case 5:
			s = "事务" + string(genBytes(r, 6))
		case 6:
			if kind == "bytes" {
				s = string(r.Bytes(1 + r.Intn(8))) // arbitrary bytes, often invalid UTF-8
			} else {
				s = "naïve café ☕"
			}
		default:
			b := make([]byte, 1+r.Intn(12))
			for i := range b {
				b[i] = byte(32 + r.Intn(95))
			}
			s = string(b)
		}
		if kind == "bytes" {
			return c08Val{"b:" + hx([]byte(s)), []byte(s), true}
		}
		s = strings.ToValidUTF8(s, "?") // a utf8mb4 column holds valid UTF-8 only
		return c08Val{"s:" + hx([]byte(s)), s, utf8.ValidString(s)}
	case "time":
		var t time.Time
		switch r.Intn(4) {
		case 0:
			t = time.Unix(0, 0).UTC()
		case 1:
			t = time.Unix(int64(r.Intn(2000000000)), int64(r.Intn(1000000000))).UTC()
		case 2:
			t = time.Date(1970+r.Intn(100), time.Month(1+r.Intn(12)), 1+r.Intn(28), 0, 0, 0, 0, time.UTC)
		default:
			t = time.Unix(int64(r.Intn(2000000000)), int64(r.Intn(1000000))*1000).UTC()
		}
		return c08Val{fmt.Sprintf("t:%d", t.UnixNano()), t, true}
	}
	panic(kind)
}

func showGo(v interface{}) string {
	switch x := v.(type) {
	case nil:
		return "nil"
	case int64:
		return fmt.Sprintf("i:%d", x)
	case int32:
		return fmt.Sprintf("i:%d", x)
	case int16:
		return fmt.Sprintf("i:%d", x)
	case int8:
		return fmt.Sprintf("i:%d", x)
	case int:
		return fmt.Sprintf("i:%d", x)
	case float64:
		if x == math.Trunc(x) && math.Abs(x) <= 1<<53 {
			// an integer-valued double decoded from JSON for a column whose value was an integer
			return fmt.Sprintf("n:%d", math.Float64bits(x))
		}
		return fmt.Sprintf("f:%d", math.Float64bits(x))
	case float32:
		return fmt.Sprintf("g:%d", math.Float64bits(float64(x)))
	case string:
		return "s:" + hx([]byte(x))
	case []byte:
		return "b:" + hx(x)
	case time.Time:
		return fmt.Sprintf("t:%d", x.UnixNano())
	default:
		return fmt.Sprintf("other(%T)", v)
	}
}

var c08Compress = []string{"None", "Gzip", "Zip", "Bzip2", "Lz4", "Deflate", "Zstd", "Sevenz", "gzip", "", "bogus"}

// runC08Big: undo logs that compress extremely well (one long run of one byte, megabytes of a short period): the
// compressor's round trip must not depend on the ratio it reaches
func runC08Big(c *Ctx) {
	mgr := base.NewBaseUndoLogManager()
	sizes := []int{30_000, 300_000, 1_200_000}
	if c.Tier == "thorough" {
		sizes = append(sizes, 5_000_000)
	}
	n := 0
	for _, ser := range []string{"json", "protobuf"} {
		for _, comp := range c08Compress {
			for _, size := range sizes {
				for _, period := range []int{1, 7} {
					n++
					cid := fmt.Sprintf("big-%d", n)
					if !c.Want(cid) {
						continue
					}
					undo.InitUndoConfig(undo.Config{DataValidation: true, LogSerialization: ser, LogTable: "undo_log",
						CompressConfig: undo.CompressConfig{Enable: comp != "None", Type: comp, Threshold: "64k"}})
					text := strings.Repeat("abcdefg"[:period], size/period)
					tx := types.NewTxCtx()
					tx.TransactionMode = types.ATMode
					tx.XID = fmt.Sprintf("10.0.0.1:8091:%d", 900000+n)
					tx.BranchID = uint64(900000 + n)
					mkImg := func(v string) *types.RecordImage {
						return &types.RecordImage{TableName: "big", SQLType: types.SQLTypeUpdate, Rows: []types.RowImage{{Columns: []types.ColumnImage{
							{KeyType: types.IndexTypePrimaryKey, ColumnName: "id", ColumnType: types.JDBCTypeBigInt, Value: int64(1)},
							{KeyType: types.IndexTypeNull, ColumnName: "doc", ColumnType: types.MySQLStrToJavaType("LONGTEXT"), Value: v}}}}}
					}
					tx.RoundImages.AppendBeofreImage(mkImg(text))
					tx.RoundImages.AppendAfterImage(mkImg("x"))
					conn := &captureConn{}
					var decoded *undo.BranchUndoLog
					var ferr, derr error
					pn := safeCall(func() {
						ferr = mgr.FlushUndoLog(tx, conn)
						if ferr == nil && conn.n > 0 {
							decoded, derr = base.VerifDecodeUndoLog(conn.ctx, conn.info)
						}
					})
					c.Out.Case(cid, "C08", "skip", "skip")
					class, detail := "", ""
					switch {
					case pn != "":
						class, detail = "crash", pn
					case ferr != nil:
						class, detail = "flush_failed", ferr.Error()
					case derr != nil:
						class, detail = "log_cannot_be_read_back", derr.Error()
					case decoded == nil || len(decoded.Logs) != 1 || decoded.Logs[0].BeforeImage == nil || len(decoded.Logs[0].BeforeImage.Rows) != 1:
						class, detail = "log_shape_lost", ""
					default:
						got := decoded.Logs[0].BeforeImage.Rows[0].Columns[1].Value
						gs, isStr := got.(string)
						if b, isB := got.([]byte); isB {
							gs, isStr = string(b), true
						}
						if !isStr || gs != text {
							class, detail = "value_changed", fmt.Sprintf("%d bytes in, %T of %d bytes out", len(text), got, len(gs))
						}
					}
					c.Out.Oracle(cid, class == "", class, fmt.Sprintf("%s | ser=%s comp=%s size=%d period=%d stored=%d", detail, ser, comp, size, period, len(conn.info)))
					c.Out.Tag(cid, "nontrivial=1")
					c.Out.Count("big." + comp)
				}
			}
		}
	}
}

func runC08(c *Ctx) {
	runC08Big(c)
	rng := NewRng(c.Seed)
	nLogs := c.Budget(300, 20000)
	mgr := base.NewBaseUndoLogManager()
	var prevTx *types.TransactionContext
	// JDBC code table dump: what the image builder emits per MySQL type (compared against the cells)
	for i := 0; i < nLogs; i++ {
		r := rng.Fork()
		ser := []string{"json", "protobuf"}[r.Intn(2)]
		comp := c08Compress[r.Intn(len(c08Compress))]
		undo.InitUndoConfig(undo.Config{DataValidation: true, LogSerialization: ser, LogTable: "undo_log", OnlyCareUpdateColumns: r.Bool(),
			CompressConfig: undo.CompressConfig{Enable: comp != "None", Type: comp, Threshold: "64k"}})
		// build a branch undo log: 1-3 statements, images with 0-3 rows, 1-6 columns
		type colCase struct {
			cid  string
			cell c08Cell
			val  c08Val
			jdbc types.JDBCType
			path string
		}
		var cols []colCase
		tx := types.NewTxCtx()
		tx.TransactionMode = types.ATMode
		tx.XID = fmt.Sprintf("10.0.0.1:8091:%d", 1000+i)
		tx.BranchID = uint64(5000 + i)
		nStmt := 1 + r.Intn(3)
		shapes := []string{}
		var itemOf []int
		nItems := 0
		for s := 0; s < nStmt; s++ {
			sqlType := []types.SQLType{types.SQLTypeInsert, types.SQLTypeUpdate, types.SQLTypeDelete}[r.Intn(3)]
			table := fmt.Sprintf("t%d", r.Intn(3))
			nCols := 1 + r.Intn(6)
			cells := make([]c08Cell, nCols)
			for k := range cells {
				cells[k] = c08Cells[r.Intn(len(c08Cells))]
			}
			mk := func(which string) *types.RecordImage {
				nRows := r.Intn(4)
				img := &types.RecordImage{TableName: table, SQLType: sqlType}
				for ri := 0; ri < nRows; ri++ {
					row := types.RowImage{}
					for k, cell := range cells {
						v := genC08Val(r, cell.kind, cell.mysql)
						jd := c08JDBC(cell.mysql)
						kt := types.IndexTypeNull
						if k == 0 {
							kt = types.IndexTypePrimaryKey
						}
						row.Columns = append(row.Columns, types.ColumnImage{KeyType: kt, ColumnName: fmt.Sprintf("c%d", k), ColumnType: jd, Value: v.v})
						cols = append(cols, colCase{cid: fmt.Sprintf("log%d-s%d-%s-r%d-c%d", i, s, which, ri, k), cell: cell, val: v, jdbc: jd,
							path: fmt.Sprintf("%d/%s/%d/%d", s, which, ri, k)})
					}
					img.Rows = append(img.Rows, row)
				}
				shapes = append(shapes, fmt.Sprintf("%s:%d:%s:%dx%d", table, sqlType, which, nRows, nCols))
				return img
			}
			var before, after *types.RecordImage
			before = mk("before")
			after = mk("after")
			if len(before.Rows) == 0 && len(after.Rows) == 0 {
				// a statement that touched no row leaves no item in the undo log
				shapes = shapes[:len(shapes)-2]
				itemOf = append(itemOf, -1)
			} else {
				itemOf = append(itemOf, nItems)
				nItems++
			}
			tx.RoundImages.AppendBeofreImage(before)
			tx.RoundImages.AppendAfterImage(after)
		}
		conn := &captureConn{}
		var decoded *undo.BranchUndoLog
		var ferr, derr error
		pn := safeCall(func() {
			ferr = mgr.FlushUndoLog(tx, conn)
			if ferr == nil && conn.n > 0 {
				decoded, derr = base.VerifDecodeUndoLog(conn.ctx, conn.info)
			}
		})
		logID := fmt.Sprintf("log%d", i)
		// the bytes FlushUndoLog handed to the driver must stay what they were when the same configuration
		// flushes again (another branch, concurrently): a compressor that returns memory it keeps reusing
		// corrupts the other branch's log
		if ferr == nil && conn.n > 0 && pn == "" {
			keep := append([]byte(nil), conn.info...)
			if prevTx != nil {
				safeCall(func() { mgr.FlushUndoLog(prevTx, &captureConn{}) }) // another branch's log, same configuration
			}
			if !bytes.Equal(conn.info, keep) {
				c.Out.Case(logID+"-later", "C08", "ctx "+fmt.Sprintf("%s=%s", hx([]byte("k")), hx([]byte("v"))), c08Ctx(map[string]string{"k": "v"}))
				c.Out.Oracle(logID+"-later", false, "lossless", fmt.Sprintf("the rollback_info bytes of %s (compress type %q) changed when another undo log was flushed: the compressor reuses the memory it returned", logID, comp))
				c.Out.Tag(logID+"-later", "nontrivial=1")
			}
			conn.info = keep
		}
		prevTx = tx
		status := "ok"
		switch {
		case pn != "":
			status = "panic"
		case ferr != nil:
			status = "flush-error"
		case conn.n == 0:
			status = "not-flushed"
		case derr != nil:
			status = "decode-error"
		}
		// per-column cases
		emitted := 0
		for _, cc := range cols {
			if !c.Want(cc.cid) && !c.Want(logID) {
				continue
			}
			obs := status
			eq := false
			if status == "ok" {
				var dv interface{} = "missing"
				var p [4]string
				copy(p[:], strings.Split(cc.path, "/"))
				var si, ri, ci int
				fmt.Sscanf(p[0], "%d", &si)
				fmt.Sscanf(p[2], "%d", &ri)
				fmt.Sscanf(p[3], "%d", &ci)
				if si < len(itemOf) {
					si = itemOf[si]
				}
				if decoded != nil && si >= 0 && si < len(decoded.Logs) {
					img := decoded.Logs[si].BeforeImage
					if p[1] == "after" {
						img = decoded.Logs[si].AfterImage
					}
					if img != nil && ri < len(img.Rows) && ci < len(img.Rows[ri].Columns) {
						col := img.Rows[ri].Columns[ci]
						dv = col.Value
						wantKey := types.IndexTypeNull
						if ci == 0 {
							wantKey = types.IndexTypePrimaryKey
						}
						if col.ColumnName != fmt.Sprintf("c%d", ci) || col.ColumnType != cc.jdbc || col.KeyType != wantKey {
							dv = fmt.Sprintf("column-meta-changed(%s,%d,%v)", col.ColumnName, col.ColumnType, col.KeyType)
						}
					}
				}
				eq = datasource.DeepEqual(dv, cc.val.v)
				sv := showGo(dv)
				if strings.HasPrefix(sv, "n:") { // integer-valued double: print in the kind of the original value
					var bits uint64
					fmt.Sscanf(sv[2:], "%d", &bits)
					if cc.cell.kind == "int" {
						sv = fmt.Sprintf("i:%d", int64(math.Float64frombits(bits)))
					} else {
						sv = fmt.Sprintf("f:%d", bits)
					}
				}
				obs = fmt.Sprintf("%s eq=%d", sv, b2i(eq))
			} else if status == "panic" || status == "decode-error" {
				// the whole log failed to decode: attribute to the columns by re-running each alone below
				obs = status
			}
			// a single-column log isolates the column's own behaviour (a panic anywhere kills the whole log)
			if status != "ok" {
				obs, eq = c08Single(mgr, cc.jdbc, cc.val.v, cc.cell.kind)
			}
			c.Out.Case(cc.cid, "C08", fmt.Sprintf("col %s %d %s", ser, int(cc.jdbc), cc.val.tok), obs+" supported=?")
			class := c08Class(ser, cc.jdbc, cc.cell.kind, cc.val)
			c.Out.Oracle(cc.cid, eq && !strings.HasPrefix(obs, "panic"), class, fmt.Sprintf("%s %s jdbc=%d ser=%s comp=%q: %s", cc.cell.mysql, cc.val.tok, cc.jdbc, ser, comp, obs))
			frag := cc.val.frag
			c.Out.Tag(cc.cid, fmt.Sprintf("nontrivial=%d fragment=%d hash=%s|%d|%s", b2i(cc.val.v != nil), b2i(frag), ser, int(cc.jdbc), cc.val.tok))
			c.Out.Count("cell." + strings.ReplaceAll(cc.cell.mysql, " ", "-") + "/" + cc.cell.kind)
			emitted++
		}
		// whole-log structure + pipeline (context, compressor, parser) oracle
		if c.Want(logID) {
			okS := status == "ok" || (status == "not-flushed" && len(cols) == 0)
			detail := status
			if status == "ok" && decoded != nil {
				var got []string
				for _, l := range decoded.Logs {
					for _, w := range []struct {
						n string
						i *types.RecordImage
					}{{"before", l.BeforeImage}, {"after", l.AfterImage}} {
						if w.i != nil {
							nc := 0
							if len(w.i.Rows) > 0 {
								nc = len(w.i.Rows[0].Columns)
							} else {
								nc = -1
							}
							got = append(got, fmt.Sprintf("%s:%d:%s:%dx%d", w.i.TableName, w.i.SQLType, w.n, len(w.i.Rows), nc))
						}
					}
				}
				// column counts of empty images are not observable
				norm := func(xs []string) string {
					out := make([]string, len(xs))
					for k, x := range xs {
						if strings.Contains(x, ":0x") {
							x = x[:strings.LastIndex(x, "x")+1] + "*"
						}
						out[k] = x
					}
					return strings.Join(out, " ")
				}
				for k := range got {
					got[k] = strings.Replace(got[k], "x-1", "x*", 1)
				}
				if norm(got) != norm(shapes) || decoded.Xid != tx.XID || decoded.BranchID != tx.BranchID {
					okS = false
					detail = "structure changed: got " + norm(got) + " want " + norm(shapes)
				}
			}
			if status == "not-flushed" {
				// legitimately nothing to flush only when every image is empty
				nonEmpty := false
				for _, cc := range cols {
					_ = cc
					nonEmpty = true
				}
				okS = !nonEmpty
			}
			cls := "pipeline"
			if status == "panic" || status == "decode-error" {
				// a column-level finding may be the cause: then the columns carry it
				cls = "pipeline_" + status
				for _, cc := range cols {
					if k := c08Class(ser, cc.jdbc, cc.cell.kind, cc.val); k != "lossless" && k != "" {
						cls = k
					}
				}
			}
			c.Out.Case(logID, "C08", "ctx "+fmt.Sprintf("%s=%s,%s=%s", hx([]byte("serializerKey")), hx([]byte(ser)), hx([]byte("compressorTypeKey")), hx([]byte(comp))),
				c08Ctx(map[string]string{"serializerKey": ser, "compressorTypeKey": comp}))
			c.Out.Oracle(logID, okS, cls, fmt.Sprintf("ser=%s comp=%q %s", ser, comp, detail))
			c.Out.Tag(logID, "nontrivial=1")
			c.Out.Count("serializer." + ser)
			c.Out.Count("compress." + comp)
		}
	}
	// context maps in general
	for i := 0; i < c.Budget(150, 5000); i++ {
		r := rng.Fork()
		cid := fmt.Sprintf("ctx-%d", i)
		if !c.Want(cid) {
			continue
		}
		m := map[string]string{}
		var toks []string
		for k := 0; k < r.Intn(4); k++ {
			key := strings.Map(func(c rune) rune {
				if c == '&' || c == '=' {
					return 'x'
				}
				return c
			}, string(genBytes(r, 8)))
			if key == "" || !utf8.ValidString(key) {
				key = fmt.Sprintf("k%d", k)
			}
			val := string(genBytes(r, 10))
			if r.Chance(80) {
				val = strings.Map(func(c rune) rune {
					if c == '&' || c == '=' {
						return 'y'
					}
					return c
				}, val)
			}
			if _, dup := m[key]; dup {
				continue
			}
			m[key] = val
			toks = append(toks, hx([]byte(key))+"="+hx([]byte(val)))
		}
		op := "-"
		if len(toks) > 0 {
			op = strings.Join(toks, ",")
		}
		c.Out.Case(cid, "C08", "ctx "+op, c08Ctx(m))
		c.Out.Tag(cid, fmt.Sprintf("nontrivial=%d", b2i(len(m) > 0)))
	}
	_ = parser.GetCache()
}

func c08Ctx(m map[string]string) string {
	d := collection.DecodeMap(collection.EncodeMap(m))
	var out []string
	for k, v := range d {
		out = append(out, hx([]byte(k))+"="+hx([]byte(v)))
	}
	sort.Strings(out)
	if len(out) == 0 {
		return "-"
	}
	return strings.Join(out, ",")
}

// c08Single runs one column alone through the real pipeline (JSON serializer shape of the config in force).
func c08Single(mgr *base.BaseUndoLogManager, jdbc types.JDBCType, v interface{}, kind string) (string, bool) {
	tx := types.NewTxCtx()
	tx.TransactionMode = types.ATMode
	tx.XID = "x"
	tx.BranchID = 1
	img := &types.RecordImage{TableName: "t", SQLType: types.SQLTypeUpdate, Rows: []types.RowImage{{Columns: []types.ColumnImage{{KeyType: types.IndexTypeNull, ColumnName: "c", ColumnType: jdbc, Value: v}}}}}
	tx.RoundImages.AppendBeofreImage(img)
	conn := &captureConn{}
	var dec *undo.BranchUndoLog
	var err error
	pn := safeCall(func() {
		if err = mgr.FlushUndoLog(tx, conn); err == nil {
			dec, err = base.VerifDecodeUndoLog(conn.ctx, conn.info)
		}
	})
	if pn != "" {
		return "panic eq=0", false
	}
	if err != nil || dec == nil || len(dec.Logs) != 1 || dec.Logs[0].BeforeImage == nil || len(dec.Logs[0].BeforeImage.Rows) != 1 {
		return "error eq=0", false
	}
	dv := dec.Logs[0].BeforeImage.Rows[0].Columns[0].Value
	eq := datasource.DeepEqual(dv, v)
	sv := showGo(dv)
	if strings.HasPrefix(sv, "n:") {
		var bits uint64
		fmt.Sscanf(sv[2:], "%d", &bits)
		if kind == "int" {
			sv = fmt.Sprintf("i:%d", int64(math.Float64frombits(bits)))
		} else {
			sv = fmt.Sprintf("f:%d", bits)
		}
	}
	return fmt.Sprintf("%s eq=%d", sv, b2i(eq)), eq
}

// c08Class names the class of a cell that is not expected to round-trip.  Since the repairs in /repo (typed
// decoding for both serializers, json.Number, base64 form for look-alike texts) every cell the generator produces
// is expected to: no class is left (a text that is not valid UTF-8 cannot be in a utf8mb4 column and is not
// generated).
func c08Class(ser string, jdbc types.JDBCType, kind string, v c08Val) string {
	return "lossless"
}
