package main

import (
	"context"
	"errors"
	"fmt"
	"strings"
	"sync"
	"time"

	"seata.apache.org/seata-go/pkg/protocol/message"
	"seata.apache.org/seata-go/pkg/tm"
)

func init() { props["C04"] = runC04 }

type c04Case struct {
	id       string
	retries  int
	begin    string   // ok failed transport
	cb       string   // nil err panic
	script   []string // per second-phase attempt
	cancelAt int      // -1 none; k = cancelled before attempt k
	name     string
	inner    string // a nested scope the business runs (and whose failure it tolerates) before it ends: see innerScopes

	mu       sync.Mutex
	xid      string
	attempts int
	cancel   context.CancelFunc
	capped   bool
}

func (k *c04Case) op() string {
	sc := "-"
	if len(k.script) > 0 {
		sc = strings.Join(k.script, ",")
	}
	ca := "none"
	if k.cancelAt >= 0 {
		ca = fmt.Sprint(k.cancelAt)
	}
	return fmt.Sprintf("run %d %s %s %s %s", k.retries, k.begin, k.cb, sc, ca)
}

// all scripts for a retry setting: transport^k then a terminal reply, and transport^max
func c04Scripts(maxLen int) [][]string {
	var out [][]string
	for k := 0; k < maxLen; k++ {
		pre := make([]string, k)
		for i := range pre {
			pre[i] = "transport"
		}
		out = append(out, append(append([]string{}, pre...), "ok"))
		out = append(out, append(append([]string{}, pre...), "failed"))
	}
	all := make([]string, maxLen)
	for i := range all {
		all[i] = "transport"
	}
	out = append(out, all)
	return out
}

func runC04(c *Ctx) {
	coord := Boot()
	var cases []*c04Case
	n := 0
	add := func(k *c04Case) {
		n++
		k.id = fmt.Sprintf("c04-%d", n)
		k.name = "tx-" + k.id
		if c.Want(k.id) {
			cases = append(cases, k)
		}
	}
	retrySettings := []int{1, 2, 3}
	if c.Tier == "thorough" {
		retrySettings = []int{1, 2, 3, 5}
	}
	retrySettings = append(retrySettings, 0)
	for _, r := range retrySettings {
		for _, b := range []string{"failed", "transport"} {
			for _, cb := range []string{"nil", "err", "panic"} {
				add(&c04Case{retries: r, begin: b, cb: cb, script: []string{"ok"}, cancelAt: -1})
			}
		}
		maxLen := r
		if r == 0 {
			maxLen = 3 // one attempt only: the entries after the first must never be consumed
		}
		scripts := c04Scripts(maxLen)
		if r != 0 {
			// also scripts longer than the bound: the extra entries must never be consumed
			long := make([]string, r+1)
			for i := range long {
				long[i] = "transport"
			}
			long[r] = "ok"
			scripts = append(scripts, long)
		}
		for _, cb := range []string{"nil", "err", "panic"} {
			for _, sc := range scripts {
				for _, ca := range []int{-1, 0, 1, 2} {
					if ca > len(sc) {
						continue
					}
					add(&c04Case{retries: r, begin: "ok", cb: cb, script: sc, cancelAt: ca})
				}
			}
		}
	}

	// every wire form of the coordinator's answer to a commit (result code x global status), at the first
	// attempt and after a transport failure: whether it is an acknowledgement is the model's to say
	for rc := 0; rc <= 1; rc++ {
		for st := 0; st <= 15; st++ {
			tok := fmt.Sprintf("w%d.%d", rc, st)
			add(&c04Case{retries: 2, begin: "ok", cb: "nil", script: []string{tok}, cancelAt: -1})
			add(&c04Case{retries: 2, begin: "ok", cb: "nil", script: []string{"transport", tok}, cancelAt: -1})
		}
	}

	// replies a request cannot be answered with: they are no acknowledgement, and no reason to crash
	for _, cb := range []string{"nil", "err", "panic"} {
		add(&c04Case{retries: 2, begin: "emptyxid", cb: cb, script: []string{"ok"}, cancelAt: -1})
		add(&c04Case{retries: 2, begin: "wrongtype", cb: cb, script: []string{"ok"}, cancelAt: -1})
		add(&c04Case{retries: 2, begin: "ok", cb: cb, script: []string{"wrongtype"}, cancelAt: -1})
		add(&c04Case{retries: 2, begin: "ok", cb: cb, script: []string{"transport", "wrongtype"}, cancelAt: -1})
	}

	// a nested scope inside the business must not change what the launcher decides and sends for its own
	// transaction (the model's prediction is the one of the plain case)
	for _, inner := range innerScopes {
		for _, cb := range []string{"nil", "err", "panic"} {
			add(&c04Case{retries: 2, begin: "ok", cb: cb, script: []string{"ok"}, cancelAt: -1, inner: inner})
			add(&c04Case{retries: 2, begin: "ok", cb: cb, script: []string{"transport", "ok"}, cancelAt: -1, inner: inner})
		}
	}

	byName := map[string]*c04Case{}
	byXid := map[string]*c04Case{}
	var mapMu sync.Mutex
	for _, k := range cases {
		byName[k.name] = k
	}
	coord.Script = func(s *FakeSession, kind string, m message.RpcMessage) Action {
		switch b := m.Body.(type) {
		case message.GlobalBeginRequest:
			mapMu.Lock()
			k := byName[b.TransactionName]
			mapMu.Unlock()
			if strings.HasSuffix(b.TransactionName, "-innerfail") {
				return Action{Body: message.GlobalBeginResponse{AbstractTransactionResponse: failHead("refused")}}
			}
			if k == nil {
				return Action{}
			}
			switch k.begin {
			case "transport":
				return Action{TransportE: true}
			case "failed":
				return Action{Body: message.GlobalBeginResponse{AbstractTransactionResponse: failHead("refused")}}
			case "emptyxid":
				// acknowledged, but no transaction id in the reply
				return Action{Body: message.GlobalBeginResponse{AbstractTransactionResponse: okHead()}}
			case "wrongtype":
				return Action{Body: message.GlobalCommitResponse{AbstractGlobalEndResponse: message.AbstractGlobalEndResponse{AbstractTransactionResponse: okHead(), GlobalStatus: message.GlobalStatusCommitted}}}
			}
			xid := coord.NewXid()
			mapMu.Lock()
			byXid[xid] = k
			mapMu.Unlock()
			k.mu.Lock()
			k.xid = xid
			k.mu.Unlock()
			return Action{Body: message.GlobalBeginResponse{AbstractTransactionResponse: okHead(), Xid: xid}}
		case message.GlobalCommitRequest, message.GlobalRollbackRequest:
			var xid string
			if cr, ok := b.(message.GlobalCommitRequest); ok {
				xid = cr.Xid
			} else {
				xid = b.(message.GlobalRollbackRequest).Xid
			}
			mapMu.Lock()
			k := byXid[xid]
			mapMu.Unlock()
			if k == nil {
				return Action{}
			}
			k.mu.Lock()
			idx := k.attempts
			k.attempts++
			cancel := k.cancel
			k.mu.Unlock()
			reply := "transport"
			if idx < len(k.script) {
				reply = k.script[idx]
			}
			// the context is cancelled before attempt cancelAt: do it while attempt cancelAt-1 is in flight
			if k.cancelAt == idx+1 && cancel != nil {
				cancel()
			}
			// harness cap for scripts that ran out (unbounded retries): cancel
			if idx+1 >= len(k.script) && reply == "transport" && cancel != nil {
				k.mu.Lock()
				k.capped = true
				k.mu.Unlock()
				cancel()
			}
			// the wire forms of an acknowledgement and of a refusal (which one: a function of the case)
			form := (idHash(fmt.Sprintf("%s#%d", k.name, idx)) / 3) % 8
			_, isCommit := b.(message.GlobalCommitRequest)
			if strings.HasPrefix(reply, "w") && reply != "wrongtype" {
				var rc, st int
				fmt.Sscanf(reply, "w%d.%d", &rc, &st)
				head := failHead("wire form")
				if rc == 1 {
					head = okHead()
				}
				c.Out.Count("wire." + reply)
				if isCommit {
					return Action{Body: message.GlobalCommitResponse{AbstractGlobalEndResponse: message.AbstractGlobalEndResponse{AbstractTransactionResponse: head, GlobalStatus: message.GlobalStatus(st)}}}
				}
				return Action{Body: message.GlobalRollbackResponse{AbstractGlobalEndResponse: message.AbstractGlobalEndResponse{AbstractTransactionResponse: head, GlobalStatus: message.GlobalStatus(st)}}}
			}
			switch reply {
			case "transport":
				return Action{TransportE: true}
			case "wrongtype":
				// a body of another message type under the request's id
				if isCommit {
					return Action{Body: message.GlobalRollbackResponse{AbstractGlobalEndResponse: message.AbstractGlobalEndResponse{AbstractTransactionResponse: okHead(), GlobalStatus: message.GlobalStatusRollbacked}}}
				}
				return Action{Body: message.GlobalBeginResponse{AbstractTransactionResponse: okHead(), Xid: "not-an-end-response"}}
			case "failed":
				if isCommit {
					head, status := failHead("refused"), message.GlobalStatusCommitFailed
					switch form {
					case 1:
						status = message.GlobalStatusUnKnown
					case 2:
						status = message.GlobalStatusBegin
					case 3:
						status = message.GlobalStatusFinished
					case 4:
						status = message.GlobalStatusRollbacked
					case 5:
						// the transaction timed out meanwhile: the request is answered, with what happens instead
						head, status = okHead(), message.GlobalStatusTimeoutRollbacking
					case 6:
						head, status = okHead(), message.GlobalStatusRollbacked
					case 7:
						// the coordinator no longer knows the transaction (it rolled it back after a timeout, say, and
						// forgot it): "Success, Finished" says nothing of a commit
						head, status = okHead(), message.GlobalStatusFinished
					}
					c.Out.Count(fmt.Sprintf("refusal.form%d", form))
					return Action{Body: message.GlobalCommitResponse{AbstractGlobalEndResponse: message.AbstractGlobalEndResponse{AbstractTransactionResponse: head, GlobalStatus: status}}}
				}
				return Action{Body: message.GlobalRollbackResponse{AbstractGlobalEndResponse: message.AbstractGlobalEndResponse{AbstractTransactionResponse: failHead("refused"), GlobalStatus: message.GlobalStatusRollbackFailed}}}
			}
			if isCommit && form > 0 {
				head, status := okHead(), message.GlobalStatusCommitted
				switch form {
				case 1:
					status = message.GlobalStatusAsyncCommitting
				case 2:
					status = message.GlobalStatusCommitting
				case 3:
					status = message.GlobalStatusCommitRetrying
				case 4:
					// the commit is decided although the reply's result code says Failed (a repeated request, say)
					head = failHead("already committed")
				}
				c.Out.Count(fmt.Sprintf("ack.form%d", form))
				return Action{Body: message.GlobalCommitResponse{AbstractGlobalEndResponse: message.AbstractGlobalEndResponse{AbstractTransactionResponse: head, GlobalStatus: status}}}
			}
			return Action{}
		}
		return Action{}
	}
	defer func() { coord.Script = nil }()

	// run one retry setting at a time (the retry counts are process-global TM configuration)
	// the count under test is the one the case uses (commit count when the callback returns nil, rollback
	// count otherwise); the other count is set to something else, so that a loop reading the wrong one shows
	type pass struct {
		r      int
		commit bool
	}
	var passes []pass
	for _, r := range retrySettings {
		passes = append(passes, pass{r, true}, pass{r, false})
	}
	for _, ps := range passes {
		r := ps.r
		other := r + 2
		if r >= 3 {
			other = 1
		}
		inPass := func(k *c04Case) bool { return k.retries == r && (k.cb == "nil") == ps.commit }
		if ps.commit {
			tm.InitTm(tm.TmConfig{CommitRetryCount: r, RollbackRetryCount: other, DefaultGlobalTransactionTimeout: 60 * time.Second})
		} else {
			tm.InitTm(tm.TmConfig{CommitRetryCount: other, RollbackRetryCount: r, DefaultGlobalTransactionTimeout: 60 * time.Second})
		}
		var wg sync.WaitGroup
		sem := make(chan struct{}, 64)
		results := map[string]string{}
		var rmu sync.Mutex
		for _, k := range cases {
			if !inPass(k) {
				continue
			}
			k := k
			wg.Add(1)
			sem <- struct{}{}
			go func() {
				defer wg.Done()
				defer func() { <-sem }()
				ctx, cancel := context.WithCancel(context.Background())
				defer cancel()
				if len(k.id)%3 == 0 {
					// an application context that has already carried a (completed) global transaction: the next
					// transaction on it must be a transaction of its own, decided like any other
					ctx = tm.InitSeataContext(ctx)
					safeCall(func() {
						tm.WithGlobalTx(ctx, &tm.GtxConfig{Name: k.name + "-earlier", Timeout: 30 * time.Second}, func(context.Context) error { return nil })
					})
				}
				k.mu.Lock()
				k.cancel = cancel
				k.mu.Unlock()
				ret := "nil"
				p := safeCall(func() {
					err := tm.WithGlobalTx(ctx, &tm.GtxConfig{Name: k.name, Timeout: 30 * time.Second}, func(ctx context.Context) error {
						if k.cancelAt == 0 {
							cancel()
						}
						runInnerScope(ctx, k)
						switch k.cb {
						case "err":
							return errors.New("business failed")
						case "panic":
							panic("business panic")
						}
						return nil
					})
					if err != nil {
						ret = "error"
					}
				})
				if p != "" {
					ret = "crash"
				}
				rmu.Lock()
				results[k.id] = ret
				rmu.Unlock()
			}()
		}
		wg.Wait()
		log := coord.Snapshot()
		for _, k := range cases {
			if !inPass(k) {
				continue
			}
			var reqs []string
			for _, l := range log {
				switch b := l.Msg.Body.(type) {
				case message.GlobalBeginRequest:
					if b.TransactionName == k.name {
						reqs = append(reqs, "B")
					}
				case message.GlobalCommitRequest:
					if k.xid != "" && b.Xid == k.xid {
						reqs = append(reqs, "C")
					}
				case message.GlobalRollbackRequest:
					if k.xid != "" && b.Xid == k.xid {
						reqs = append(reqs, "R")
					}
				}
			}
			ret := results[k.id]
			obs := fmt.Sprintf("reqs=%s ret=%s", strings.Join(reqs, ","), ret)
			c.Out.Case(k.id, "C04", k.op(), obs)
			// ---- oracle on the implementation alone
			nC, nR := 0, 0
			for _, q := range reqs[min(1, len(reqs)):] {
				if q == "C" {
					nC++
				} else if q == "R" {
					nR++
				}
			}
			class, detail := "", ""
			fail := func(cl, d string) {
				if class == "" {
					class, detail = cl, d
				}
			}
			if ret == "crash" {
				fail("crash", "WithGlobalTx panicked")
			}
			if nC > 0 && nR > 0 {
				fail("both_decisions", "commit and rollback both sent")
			}
			if nC > 0 && k.cb != "nil" {
				fail("commit_after_failure", "commit sent although the callback did not return nil")
			}
			if nR > 0 && k.cb == "nil" {
				fail("rollback_after_success", "rollback sent although the callback returned nil")
			}
			if k.begin != "ok" && (nC+nR) > 0 {
				fail("decision_without_begin", "second phase sent although begin failed")
			}
			if k.retries > 0 && nC+nR > k.retries {
				fail("too_many_retries", fmt.Sprintf("%d attempts with retry count %d", nC+nR, k.retries))
			}
			if k.retries == 0 && nC+nR > 1 {
				fail("retry_zero_unbounded", fmt.Sprintf("%d attempts with retry count 0 (backoff: zero means infinite)", nC+nR))
			}
			// each attempt after the first must follow a transport failure
			sent := nC + nR
			for i := 0; i+1 < sent && i < len(k.script); i++ {
				if k.script[i] != "transport" {
					fail("retry_without_transport_failure", fmt.Sprintf("attempt %d followed a %s reply", i+2, k.script[i]))
				}
			}
			lastReply := ""
			if sent > 0 && sent <= len(k.script) {
				lastReply = k.script[sent-1]
			}
			if ret == "nil" {
				if k.cb != "nil" || k.begin != "ok" {
					fail("silent_success", "nil returned although begin/business failed")
				} else if k.cancelAt == 0 {
					fail("silent_success_cancelled", "nil returned although the context was cancelled before the second phase")
				} else if sent == 0 {
					fail("silent_success_unsent", "nil returned although no commit was sent")
				} else if strings.HasPrefix(lastReply, "w") {
					// a wire form: whether it is an acknowledgement is the model's to say (correspondence); what the
					// property says outright is that a second phase reported as failed or rolled back surfaces
					var rc, st int
					fmt.Sscanf(lastReply, "w%d.%d", &rc, &st)
					switch st {
					case 4, 5, 6, 7, 10, 11, 12, 13, 14:
						fail("refused_commit", fmt.Sprintf("nil returned although the coordinator answered the commit with global status %d (not committed)", st))
					}
				} else if lastReply == "failed" {
					fail("refused_commit", "nil returned although the coordinator answered the commit with result code Failed")
				} else if lastReply != "ok" {
					fail("silent_success", "nil returned although the commit was not acknowledged")
				}
			}
			if ret == "error" && k.cb == "nil" && k.begin == "ok" && lastReply == "ok" && k.cancelAt != 0 {
				fail("false_failure", "error returned although the commit was acknowledged")
			}
			c.Out.Oracle(k.id, class == "", class, detail+" | "+obs)
			c.Out.Tag(k.id, "nontrivial=1")
			c.Out.Count("retries." + fmt.Sprint(k.retries))
			c.Out.Count("cb." + k.cb)
			c.Out.Count("begin." + k.begin)
			if k.cancelAt >= 0 {
				c.Out.Count("cancel.at" + fmt.Sprint(k.cancelAt))
			} else {
				c.Out.Count("cancel.none")
			}
		}
		coord.ResetLog()
	}
	runC04DirectRollback(c, coord)
}

// runC04DirectRollback: GlobalTransactionManager.Rollback (exported, and what WithGlobalTx calls) with its request
// answered in every wire form: "a failed second phase always surfaces to the caller" — the answer Failed, or a
// status that says the transaction is committed or could not be rolled back, is not a rollback that was done.
func runC04DirectRollback(c *Ctx, coord *Coord) {
	tm.InitTm(tm.TmConfig{CommitRetryCount: 1, RollbackRetryCount: 1, DefaultGlobalTransactionTimeout: 30 * time.Second})
	for rc := 0; rc <= 1; rc++ {
		for st := 0; st <= 15; st++ {
			cid := fmt.Sprintf("c04-rb-%d-%d", rc, st)
			if !c.Want(cid) {
				continue
			}
			xid := coord.NewXid()
			coord.Script = func(s *FakeSession, kind string, m message.RpcMessage) Action {
				if b, ok := m.Body.(message.GlobalRollbackRequest); ok && b.Xid == xid {
					head := failHead("wire form")
					if rc == 1 {
						head = okHead()
					}
					return Action{Body: message.GlobalRollbackResponse{AbstractGlobalEndResponse: message.AbstractGlobalEndResponse{AbstractTransactionResponse: head, GlobalStatus: message.GlobalStatus(st)}}}
				}
				return Action{}
			}
			ret := "nil"
			p := safeCall(func() {
				gtx := &tm.GlobalTransaction{TxName: cid, TxRole: tm.Launcher, Xid: xid}
				if err := tm.GetGlobalTransactionManager().Rollback(context.Background(), gtx); err != nil {
					ret = "error"
				}
			})
			if p != "" {
				ret = "crash"
			}
			coord.Script = nil
			c.Out.Case(cid, "C04", fmt.Sprintf("rollback %d %d", rc, st), "ret="+ret)
			class, detail := "", ""
			committed := st == 2 || st == 3 || st == 8 || st == 9
			failedStatus := st == 10 || st == 12 || st == 14
			switch {
			case ret == "crash":
				class, detail = "crash", p
			case ret == "nil" && (committed || failedStatus):
				class, detail = "failed_rollback_reported_done", fmt.Sprintf("the rollback request was answered with global status %d and Rollback returned nil", st)
			case ret == "nil" && rc == 0 && !(st == 4 || st == 5 || st == 6 || st == 7 || st == 11 || st == 13):
				class, detail = "failed_rollback_reported_done", fmt.Sprintf("the rollback request was answered Failed (status %d) and Rollback returned nil", st)
			}
			c.Out.Oracle(cid, class == "", class, detail+" | ret="+ret)
			c.Out.Tag(cid, "nontrivial=1")
			c.Out.Count("direct-rollback")
		}
	}
	coord.ResetLog()
}

func min(a, b int) int {
	if a < b {
		return a
	}
	return b
}

// nested scopes a business may run on the launcher's context; whatever becomes of them, the launcher's own
// transaction is decided and finished as if they had not been there
var innerScopes = []string{"requiresnew-beginfails", "requiresnew-ok", "never", "required-joins", "required-joins-fails", "notsupported"}

func runInnerScope(ctx context.Context, k *c04Case) {
	if k.inner == "" {
		return
	}
	gc := &tm.GtxConfig{Name: k.name + "-inner", Timeout: 30 * time.Second}
	fail := false
	switch k.inner {
	case "requiresnew-beginfails":
		gc.Propagation, gc.Name = tm.RequiresNew, k.name+"-innerfail"
	case "requiresnew-ok":
		gc.Propagation = tm.RequiresNew
	case "never":
		gc.Propagation = tm.Never
	case "required-joins":
		gc.Propagation = tm.Required
	case "required-joins-fails":
		gc.Propagation, fail = tm.Required, true
	case "notsupported":
		gc.Propagation = tm.NotSupported
	}
	safeCall(func() {
		tm.WithGlobalTx(ctx, gc, func(context.Context) error {
			if fail {
				return errors.New("inner business failed")
			}
			return nil
		})
	})
}
