package main

import (
	"context"
	"database/sql"
	"fmt"
	"time"

	"verifharness/memdb"
)

func init() { props["SMOKEPREP"] = runSmokePrep }

func runSmokePrep(c *Ctx) {
	w := GetATWorld()
	xa := w.OpenXA()
	t := w.NewTableName("acct")
	w.Eng.CreateTable(memdb.TableDef{Name: t, Cols: []memdb.Column{{Name: "id", Type: memdb.TBigInt}, {Name: "n", Type: memdb.TInt, Nullable: true}}, PK: []string{"id"}})
	w.Eng.InsertRows(t, memdb.Row{int64(1), int64(10)}, memdb.Row{int64(2), int64(20)})
	for _, mode := range []string{"xa-prep-auto", "xa-prep-tx", "at-prep-auto", "at-prep-tx", "at-prep-before", "xa-prep-before"} {
		w.Eng.ResetJournal()
		w.coord.ResetLog()
		db := w.DB
		if mode[:2] == "xa" {
			db = xa
		}
		var pre *sql.Stmt
		q := "UPDATE " + t + " SET n = n + 1 WHERE id = ?"
		if mode[3:] == "prep-before" {
			var err error
			pre, err = db.PrepareContext(context.Background(), q)
			fmt.Println(mode, "prepare outside", err)
		}
		var xid string
		var gerr error
		pn := safeCall(func() {
			xid, gerr = InGlobalTx("sp", func(ctx context.Context) error {
				switch mode[3:] {
				case "prep-tx":
					tx, err := db.BeginTx(ctx, nil)
					fmt.Println(mode, "begin", err)
					if err == nil {
						ps, err := tx.PrepareContext(ctx, q)
						fmt.Println(mode, "prepare", err)
						if err == nil {
							_, err = ps.ExecContext(ctx, 1)
							fmt.Println(mode, "exec", err)
						}
						fmt.Println(mode, "commit", tx.Commit())
					}
				case "prep-auto":
					ps, err := db.PrepareContext(ctx, q)
					fmt.Println(mode, "prepare", err)
					if err == nil {
						_, err = ps.ExecContext(ctx, 1)
						fmt.Println(mode, "exec", err)
						ps.Close()
					}
				case "prep-before":
					if pre != nil {
						_, err := pre.ExecContext(ctx, 1)
						fmt.Println(mode, "exec", err)
					}
				}
				return nil
			})
		})
		fmt.Println(mode, "gerr:", gerr, "panic:", pn, "table", w.DumpTable(t), "open", w.Eng.OpenTxns())
		brs := w.coord.RegisteredBranches(xid)
		for _, b := range brs {
			fmt.Println("  branch", b.BranchID, b.Type, b.ResourceID, b.LockKey, "xastate", w.Eng.XAState(fmt.Sprintf("%s-%d", xid, b.BranchID)))
			st, ok, p := w.coord.RollbackBranch(w.coord.LastSession(), b, 3*time.Second)
			fmt.Println("  phase two rollback ->", st, ok, p)
		}
		fmt.Println(mode, "after rollback table", w.DumpTable(t), "open", w.Eng.OpenTxns())
		for _, e := range w.Eng.Journal() {
			if e.Kind == "connect" || e.Table == "COLUMNS" || e.Table == "STATISTICS" {
				continue
			}
			fmt.Println("  J", e.Conn, e.Kind, e.SQL, e.Args, e.Err)
		}
		if pre != nil {
			pre.Close()
		}
	}
}
