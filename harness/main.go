// verifharness: runs the real seata-go implementation (built from /repo's working tree with
// -tags verif) on generated or replayed cases and writes ops + observations for the Lean driver.
package main

import (
	"flag"
	"fmt"
	"os"
	"runtime/pprof"
	"strconv"
)

type Ctx struct {
	Tier   string
	Seed   uint64
	Out    *Out
	Replay string // path of a replay/corpus file with literal ops, or ""
	N      int    // case budget override (0 = tier default)
	Only   string // run only this case id (replay)
}

var props = map[string]func(*Ctx){}

func main() {
	if len(os.Args) < 2 {
		fmt.Fprintln(os.Stderr, "usage: verifharness <Cxx> [-tier quick|thorough] [-seed n] [-out file] [-replay file]")
		os.Exit(2)
	}
	prop := os.Args[1]
	fs := flag.NewFlagSet(prop, flag.ExitOnError)
	tier := fs.String("tier", "quick", "")
	seed := fs.String("seed", "1", "")
	out := fs.String("out", "/dev/stdout", "")
	replay := fs.String("replay", "", "")
	n := fs.Int("n", 0, "")
	only := fs.String("only", "", "")
	fs.Parse(os.Args[2:])
	f, ok := props[prop]
	if !ok {
		fmt.Fprintln(os.Stderr, "unknown property", prop)
		os.Exit(2)
	}
	sd, _ := strconv.ParseUint(*seed, 10, 64)
	c := &Ctx{Tier: *tier, Seed: sd, Out: NewOut(*out), Replay: *replay, N: *n, Only: *only}
	if pf := os.Getenv("VERIF_PPROF"); pf != "" {
		fh, _ := os.Create(pf)
		pprof.StartCPUProfile(fh)
		defer pprof.StopCPUProfile()
	}
	f(c)
	c.Out.Close()
}

func (c *Ctx) Budget(quick, thorough int) int {
	if c.N > 0 {
		return c.N
	}
	if c.Tier == "thorough" {
		return thorough
	}
	return quick
}

// Want reports whether the case with this id is to be executed (always, unless replaying one case).
func (c *Ctx) Want(id string) bool { return c.Only == "" || c.Only == id }
