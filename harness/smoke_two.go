package main

import (
	"context"
	"fmt"

	"verifharness/memdb"
)

func init() { props["SMOKE2"] = runSmokeTwo }

// two AT data sources in one process: statements on each, before and after the other has been opened
func runSmokeTwo(c *Ctx) {
	a := GetATWorld()
	a.SetUndoConfig("json", "None", true, false)
	mk := func(w *ATWorld) string {
		t := w.NewTableName("two")
		w.Eng.CreateTable(memdb.TableDef{Name: t, Cols: []memdb.Column{{Name: "id", Type: memdb.TBigInt}, {Name: "n", Type: memdb.TInt, Nullable: true}}, PK: []string{"id"}})
		w.Eng.InsertRows(t, memdb.Row{int64(1), int64(10)})
		return t
	}
	upd := func(tag string, w *ATWorld, t string) {
		xid, err := InGlobalTx("two-"+tag, func(ctx context.Context) error {
			_, e := w.DB.ExecContext(ctx, "UPDATE "+t+" SET n = n + 1 WHERE id = ?", 1)
			return e
		})
		fmt.Println(tag, "xid", xid, "err", err, "table", w.DumpTable(t), "branches", len(w.coord.RegisteredBranches(xid)))
	}
	ta := mk(a)
	upd("A-before-B-is-opened", a, ta)
	b := GetATWorldB()
	tb := mk(b)
	upd("B", b, tb)
	ta2 := mk(a)
	upd("A-new-table-after-B-is-opened", a, ta2)
	upd("A-cached-table-after-B-is-opened", a, ta)
}
