package main

import (
	"fmt"
	"os"
)

func init() { props["ATDBG"] = runATDbg }

// ATDBG -only <c01-N> -n <budget>: re-generate the C01 case and print the journal of its rollback
func runATDbg(c *Ctx) {
	w := GetATWorld()
	rng := NewRng(c.Seed)
	for i := 0; i < c.Budget(300, 10000); i++ {
		r := rng.Fork()
		cid := fmt.Sprintf("c01-%d", i)
		o := ATGenOpts{AllowFindings: r.Chance(25), NullableVals: r.Chance(50)}
		cs := genATCase(r, w, cid, o)
		if cid != c.Only {
			continue
		}
		run := &ATRun{w: w, c: cs}
		run.PhaseOne(nil)
		for _, e := range w.Eng.Journal() {
			fmt.Fprintln(os.Stderr, "P1", e.Conn, e.Kind, e.SQL, e.Args, e.Err)
		}
		w.Eng.ResetJournal()
		run.RollbackAll()
		for _, e := range w.Eng.Journal() {
			if e.Table == "undo_log" && e.Kind == "select_for_update" {
				fmt.Fprintln(os.Stderr, "RB", e.Conn, e.Kind, e.SQL, e.Err)
				continue
			}
			fmt.Fprintln(os.Stderr, "RB", e.Conn, e.Kind, e.SQL, e.Args, e.Err)
		}
		fmt.Fprintln(os.Stderr, run.Obs)
	}
}
