package main

import (
	"context"
	"errors"
	"fmt"
	"time"

	"seata.apache.org/seata-go/pkg/protocol/branch"

	"verifharness/memdb"
)

// runC01BinaryKeys: a table whose primary key is a binary string (VARBINARY, BINARY: a UUID stored in 16 bytes, a
// hash): UPDATE / DELETE / INSERT inside a global transaction, then a global rollback — the rows are found again by
// their keys and restored (cases c01-b*).
func runC01BinaryKeys(c *Ctx, w *ATWorld) {
	n := 0
	for _, kt := range []struct {
		name string
		def  memdb.Column
	}{
		{"varbinary", memdb.Column{Type: memdb.TVarBinary, Length: 8}},
		{"varchar", memdb.Column{Type: memdb.TVarchar, Length: 8}},
	} {
		for _, ser := range []string{"json", "protobuf"} {
			for qi := 0; qi < 3; qi++ {
				n++
				cid := fmt.Sprintf("c01-b%d", n)
				if !c.Want(cid) {
					continue
				}
				w.SetUndoConfig(ser, "None", true, false)
				t := w.NewTableName("bk")
				d := kt.def
				d.Name = "k"
				if err := w.Eng.CreateTable(memdb.TableDef{Name: t, Cols: []memdb.Column{d, {Name: "v", Type: memdb.TBigInt, Nullable: true}}, PK: []string{"k"}}); err != nil {
					panic(err)
				}
				var k1, k2 interface{} = []byte{1, 254}, []byte{2, 0, 255}
				lit1, lit2, lit3 := "x'01fe'", "x'0200ff'", "x'03aa'"
				if kt.name == "varchar" {
					k1, k2 = "ab", "cd"
					lit1, lit2, lit3 = "'ab'", "'cd'", "'ef'"
				}
				if err := w.Eng.InsertRows(t, memdb.Row{k1, int64(1)}, memdb.Row{k2, int64(2)}); err != nil {
					panic(err)
				}
				_, _, _ = lit1, lit2, lit3
				var k3 interface{} = []byte{3, 170}
				if kt.name == "varchar" {
					k3 = "ef"
				}
				q := []string{"UPDATE " + t + " SET v = 9 WHERE k = ?", "DELETE FROM " + t + " WHERE k = ?", "INSERT INTO " + t + " (k, v) VALUES (?, 3)"}[qi]
				arg := []interface{}{k1, k2, k3}[qi]
				before := w.DumpTable(t)
				w.coord.ResetLog()
				var execErr error
				var xid string
				crash := safeCall(func() {
					xid, _ = InGlobalTx(cid, func(ctx context.Context) error {
						_, execErr = w.DB.ExecContext(ctx, q, arg)
						return errors.New("roll the global transaction back")
					})
				})
				mid := w.DumpTable(t)
				allOK := true
				brs := w.coord.RegisteredBranches(xid)
				for k := len(brs) - 1; k >= 0; k-- {
					st, ok, _ := w.coord.RollbackBranch(w.coord.LastSession(), brs[k], 5*time.Second)
					if !ok || st != branch.BranchStatusPhasetwoRollbacked {
						allOK = false
					}
				}
				final := w.DumpTable(t)
				class := ""
				switch {
				case crash != "":
					class = "crash"
				case execErr != nil:
					class = "statement_refused_for_its_key_type"
				case mid == before:
					class = "statement_had_no_effect"
				case !allOK:
					class = "rollback_reported_failed"
				case final != before:
					class = "rollbacked_but_not_restored"
				}
				c.Out.Case(cid, "C01", "skip", "skip")
				c.Out.Oracle(cid, class == "", class, fmt.Sprintf("%s key, %s: %s | err=%v before=%s mid=%s final=%s crash=%s", kt.name, ser, q, execErr, before, mid, final, crash))
				c.Out.Tag(cid, "nontrivial=1")
				c.Out.Count("binary-key." + kt.name)
				w.Eng.Exec("DELETE FROM undo_log")
				w.Eng.DropTable(t)
			}
		}
	}
}
