package main

import (
	"bytes"
	"context"
	"encoding/json"
	"errors"
	"fmt"
	"reflect"
	"sort"
	"strings"
	"sync"
	"time"

	"seata.apache.org/seata-go/pkg/protocol/branch"
	"seata.apache.org/seata-go/pkg/protocol/codec"
	"seata.apache.org/seata-go/pkg/protocol/message"
	"seata.apache.org/seata-go/pkg/rm/tcc"
	"seata.apache.org/seata-go/pkg/rm/tcc/fence"
	"seata.apache.org/seata-go/pkg/tm"
)

func init() { props["C05"] = runC05 }

type c05Inv struct {
	kind   string
	xid    string
	branch int64
	ctx    map[string]interface{}
}

type recAction struct {
	name     string
	mu       sync.Mutex
	tryStamp int64
	tried    int
	tryParam interface{}
	invs     []c05Inv
	failNext bool
	// nothingToDoNext: the user method returns what the fence driver answers when the phase has been applied
	// before (wrapped, as applications do)
	nothingToDoNext bool
	boolNext bool // the boolean the user method returns (independent of its error)
}

func (a *recAction) Prepare(ctx context.Context, params interface{}) (bool, error) {
	a.mu.Lock()
	a.tryStamp = Stamp()
	a.tried++
	a.tryParam = params
	a.mu.Unlock()
	return true, nil
}
func (a *recAction) record(kind string, bac *tm.BusinessActionContext) error {
	a.mu.Lock()
	defer a.mu.Unlock()
	inv := c05Inv{kind: kind}
	if bac != nil {
		inv.xid, inv.branch, inv.ctx = bac.Xid, bac.BranchId, bac.ActionContext
	}
	a.invs = append(a.invs, inv)
	if a.nothingToDoNext {
		return fmt.Errorf("confirm of %s: %w", a.name, fence.ErrPhaseAlreadyApplied)
	}
	if a.failNext {
		return errors.New("user method failed")
	}
	return nil
}
func (a *recAction) Commit(ctx context.Context, bac *tm.BusinessActionContext) (bool, error) {
	err := a.record("C", bac)
	return a.boolNext, err
}
func (a *recAction) Rollback(ctx context.Context, bac *tm.BusinessActionContext) (bool, error) {
	err := a.record("R", bac)
	return a.boolNext, err
}
func (a *recAction) GetActionName() string { return a.name }

var c05Bookkeeping = map[string]bool{"action-start-time": true, "host-name": true, "sys::prepare": true, "sys::commit": true, "sys::rollback": true, "actionName": true}

func canonJSON(v interface{}) string {
	b, err := json.Marshal(v)
	if err != nil {
		return "unmarshalable"
	}
	// (numbers keep every digit: a value read back through float64 would hide a rounded integer)
	var x interface{}
	dec := json.NewDecoder(bytes.NewReader(b))
	dec.UseNumber()
	if dec.Decode(&x) != nil {
		return "unparsable"
	}
	b, _ = json.Marshal(x)
	return string(b)
}

func showCtxMap(m map[string]interface{}, strip bool) string {
	var ks []string
	for k := range m {
		if strip && c05Bookkeeping[k] {
			continue
		}
		ks = append(ks, k)
	}
	sort.Strings(ks)
	if len(ks) == 0 {
		return "-"
	}
	out := make([]string, len(ks))
	for i, k := range ks {
		out[i] = k + "=" + hx([]byte(canonJSON(m[k])))
	}
	return strings.Join(out, ",")
}

// hand-written parameter types for what reflect.StructOf cannot build: unexported fields and an
// embedded / contained business action context
type c05Unexported struct {
	A      string `tccParam:"a"`
	hidden string `tccParam:"h"`
	B      int64  `tccParam:"b"`
	skip   int
	C      string `tccParam:"-"`
	D      string
}
type c05WithCtxPtr struct {
	Ctx *tm.BusinessActionContext
	A   string `tccParam:"a"`
}
type c05WithCtxVal struct {
	Ctx tm.BusinessActionContext
	N   float64 `tccParam:"n"`
}
type c05Nested struct {
	Inner struct {
		X int64  `tccParam:"ignored-inner-tag"`
		Y string `json:"y"`
	} `tccParam:"inner"`
	P *string `tccParam:"p"`
}

type c05FieldSpec struct {
	exported bool
	tag      string
	val      interface{}
}

func genC05Value(r *Rng) interface{} {
	switch r.Intn(9) {
	case 0:
		return string(genC08Val(r, "str", "VARCHAR").tok) // arbitrary printable-ish string
	case 1:
		if r.Chance(25) {
			// beyond 2^53: a value a float64 cannot carry
			return int64(9007199254740993) + int64(r.Intn(1000))*2
		}
		return int64(r.Intn(2000)) - 1000
	case 2:
		return float64(r.Intn(100000)) / 8
	case 3:
		return r.Bool()
	case 4:
		return []int{r.Intn(5), r.Intn(5)}
	case 5:
		return map[string]string{"k": fmt.Sprint(r.Intn(9)), "z": "é"}
	case 6:
		s := fmt.Sprintf("p%d", r.Intn(100))
		if r.Chance(30) {
			return (*string)(nil)
		}
		return &s
	case 7:
		return struct {
			X int
			Y string `json:"y"`
		}{r.Intn(7), "n"}
	default:
		return fmt.Sprintf("v%d", r.Intn(1000))
	}
}

func runC05(c *Ctx) {
	coord := Boot()
	tm.InitTm(tm.TmConfig{CommitRetryCount: 1, RollbackRetryCount: 1, DefaultGlobalTransactionTimeout: 60 * time.Second})
	actions := map[string]*recAction{}
	proxies := map[string]*tcc.TCCServiceProxy{}
	for _, n := range []string{"actA", "actB"} {
		a := &recAction{name: n}
		p, err := tcc.NewTCCServiceProxy(a)
		if err != nil {
			c.Out.Case("setup", "C05", "tcc setup", "setup-failed")
			c.Out.Oracle("setup", false, "setup", err.Error())
			return
		}
		actions[n], proxies[n] = a, p
	}
	known := "actA,actB"
	rng := NewRng(c.Seed)
	ss := coord.Sessions()
	sess := ss[len(ss)-1]
	msgID := int32(500000)
	n := c.Budget(300, 10000)
	for i := 0; i < n; i++ {
		r := rng.Fork()
		cid := fmt.Sprintf("tcc-%d", i)
		if !c.Want(cid) {
			continue
		}
		an := []string{"actA", "actB"}[r.Intn(2)]
		act, proxy := actions[an], proxies[an]
		act.mu.Lock()
		act.tried, act.invs, act.tryStamp, act.failNext = 0, nil, 0, false
		act.mu.Unlock()
		// ---- parameter struct
		var params interface{}
		var specs []c05FieldSpec
		shape := r.Intn(7)
		switch shape {
		case 0:
			v := c05Unexported{A: fmt.Sprint("a", r.Intn(50)), hidden: "h", B: int64(r.Intn(9999)), C: "c", D: "d"}
			params = v
			specs = []c05FieldSpec{{true, "a", v.A}, {false, "h", v.hidden}, {true, "b", v.B}, {false, "", 0}, {true, "-", v.C}, {true, "", v.D}}
		case 1:
			v := &c05WithCtxPtr{Ctx: &tm.BusinessActionContext{ActionContext: map[string]interface{}{"pre": "existing"}}, A: fmt.Sprint("x", r.Intn(50))}
			if r.Bool() {
				v.Ctx = nil
			}
			params = v
			specs = []c05FieldSpec{{true, "", nil}, {true, "a", v.A}}
		case 2:
			v := c05WithCtxVal{N: float64(r.Intn(1000)) / 4}
			params = v
			specs = []c05FieldSpec{{true, "", nil}, {true, "n", v.N}}
		case 3:
			v := &c05Nested{}
			v.Inner.X, v.Inner.Y = int64(r.Intn(9)), "y"
			if r.Bool() {
				s := "ptr"
				v.P = &s
			}
			params = v
			specs = []c05FieldSpec{{true, "inner", v.Inner}, {true, "p", v.P}}
		default:
			// exported fields of random types and tags, built with reflect.StructOf
			nf := 1 + r.Intn(6)
			var sfs []reflect.StructField
			var vals []interface{}
			for k := 0; k < nf; k++ {
				val := genC05Value(r)
				tag := ""
				switch r.Intn(6) {
				case 0:
					tag = ""
				case 1:
					tag = "-"
				case 2:
					tag = "dup" // several fields under one tag: the later one wins
				default:
					tag = fmt.Sprintf("t%d", k)
				}
				st := reflect.StructTag("")
				if !(tag == "" && r.Bool()) {
					st = reflect.StructTag(fmt.Sprintf(`tccParam:"%s" json:"f%d"`, tag, k))
				}
				sfs = append(sfs, reflect.StructField{Name: fmt.Sprintf("F%d", k), Type: reflect.TypeOf(val), Tag: st})
				vals = append(vals, val)
				specs = append(specs, c05FieldSpec{true, tag, val})
			}
			pv := reflect.New(reflect.StructOf(sfs))
			for k, v := range vals {
				pv.Elem().Field(k).Set(reflect.ValueOf(v))
			}
			if r.Bool() {
				params = pv.Interface() // pointer to struct
			} else {
				params = pv.Elem().Interface()
			}
		}
		reg := []string{"ok", "ok", "ok", "refused", "transport"}[r.Intn(5)]
		// ---- phase one
		var regReq *message.BranchRegisterRequest
		var regStamp int64
		var branchID int64
		coord.ResetLog()
		name := cid + "-tx"
		coord.Script = func(s *FakeSession, kind string, m message.RpcMessage) Action {
			if b, ok := m.Body.(message.BranchRegisterRequest); ok {
				bb := b
				regReq = &bb
				regStamp = Stamp()
				switch reg {
				case "refused":
					return Action{Body: message.BranchRegisterResponse{AbstractTransactionResponse: failHead("lock conflict")}}
				case "transport":
					return Action{TransportE: true}
				}
				branchID = coord.NewBranchID()
				return Action{Body: message.BranchRegisterResponse{AbstractTransactionResponse: okHead(), BranchId: branchID}}
			}
			return Action{}
		}
		var xid string
		var prepErr error
		pn := safeCall(func() {
			tm.WithGlobalTx(context.Background(), &tm.GtxConfig{Name: name}, func(ctx context.Context) error {
				xid = tm.GetXID(ctx)
				_, prepErr = proxy.Prepare(ctx, params)
				return prepErr
			})
		})
		coord.Script = nil
		var evs []string
		if pn != "" {
			evs = append(evs, "crash")
		}
		nReg := 0
		for _, l := range coord.Snapshot() {
			if l.Kind == "BranchRegister" {
				nReg++
			}
		}
		regCtx := map[string]interface{}{}
		var regAppData []byte
		if regReq != nil {
			regAppData = regReq.ApplicationData
			var ad map[string]interface{}
			dec := json.NewDecoder(bytes.NewReader(regReq.ApplicationData))
			dec.UseNumber() // every digit of what was registered
			dec.Decode(&ad)
			if m, ok := ad["actionContext"].(map[string]interface{}); ok {
				regCtx = m
			}
			for k := 0; k < nReg; k++ {
				evs = append(evs, fmt.Sprintf("reg:%s:%s", regReq.ResourceId, showCtxMap(regCtx, true)))
			}
		}
		if act.tried > 0 {
			if regReq == nil || act.tryStamp < regStamp {
				evs = append(evs, "try-before-register")
			} else {
				for k := 0; k < act.tried; k++ {
					evs = append(evs, "try")
				}
			}
		}
		// expected captured parameters, computed from the field specification alone
		want := map[string]interface{}{}
		for _, s := range specs {
			if s.exported && s.tag != "" && s.tag != "-" {
				want[s.tag] = s.val
			}
		}
		class, detail := "", ""
		if regReq != nil {
			if showCtxMap(regCtx, true) != showCtxMap(want, false) {
				class, detail = "captured_parameters", fmt.Sprintf("registered %s want %s", showCtxMap(regCtx, true), showCtxMap(want, false))
			}
			if regReq.ResourceId != an || regReq.BranchType != branch.BranchTypeTCC || regReq.Xid != xid {
				class, detail = "register_addressing", fmt.Sprintf("resource %s type %d xid %s", regReq.ResourceId, regReq.BranchType, regReq.Xid)
			}
			for k := range c05Bookkeeping {
				if _, ok := regCtx[k]; !ok && k != "host-name" {
					class, detail = "captured_parameters", "bookkeeping key missing: "+k
				}
			}
		}
		if nReg != 1 && pn == "" {
			class, detail = "register_count", fmt.Sprintf("%d BranchRegister requests", nReg)
		}
		if (act.tried > 0) != (reg == "ok") {
			class, detail = "try_vs_registration", fmt.Sprintf("registration %s but try ran %d times", reg, act.tried)
		}
		if pn != "" {
			class, detail = "crash", pn
		}
		// ---- phase two
		var toks []string
		for _, s := range specs {
			e := "u"
			if s.exported {
				e = "e"
			}
			tag := s.tag
			if tag == "" {
				tag = "-none-"
			}
			toks = append(toks, fmt.Sprintf("f:%s:%s:%s", e, tag, hx([]byte(canonJSON(s.val)))))
		}
		nReq := r.Intn(5)
		if branchID == 0 {
			branchID = 1
		}
		for q := 0; q < nReq; q++ {
			msgID++
			kind := []string{"C", "R"}[r.Intn(2)]
			res := []string{an, an, an, "ghost", "actB"}[r.Intn(5)]
			dk := []string{"c", "c", "c", "e", "n", "m"}[r.Intn(6)]
			uf := r.Chance(25)
			// every seventh request: the method returns the fence's "nothing to do" - answered as done
			applied := (i+q)%7 == 3
			if applied {
				uf = false
			}
			var data []byte
			switch dk {
			case "c":
				if regAppData != nil {
					data = regAppData
				} else {
					data, _ = json.Marshal(map[string]interface{}{"actionContext": want})
				}
			case "e":
				data = nil
			case "n":
				data = []byte(`{"other":1}`)
			default:
				data = [][]byte{[]byte(`{"actionContext":5}`), []byte(`not json`), []byte(`{"actionContext":`)}[r.Intn(3)]
			}
			target := actions[res]
			if target != nil {
				target.mu.Lock()
				target.failNext = uf
				target.nothingToDoNext = applied
				target.boolNext = r.Bool() // all four (bool, error) shapes: only the error decides the status
				before := len(target.invs)
				target.mu.Unlock()
				_ = before
			}
			for _, a := range actions {
				a.mu.Lock()
				a.invs = nil
				a.mu.Unlock()
			}
			coord.ResetLog()
			end := message.AbstractBranchEndRequest{Xid: xid, BranchId: branchID, BranchType: branch.BranchTypeTCC, ResourceId: res, ApplicationData: data}
			var body interface{} = message.BranchCommitRequest{AbstractBranchEndRequest: end}
			if kind == "R" {
				body = message.BranchRollbackRequest{AbstractBranchEndRequest: end}
			}
			safeCall(func() {
				sess.Push(message.RpcMessage{ID: msgID, Type: message.GettyRequestTypeRequestSync, Codec: byte(codec.CodecTypeSeata), Body: body})
			})
			ufTok := "0"
			if uf {
				ufTok = "1"
			}
			if applied {
				ufTok = "2"
			}
			toks = append(toks, fmt.Sprintf("q:%d:%s:%s:%s:%s", msgID, kind, res, dk, ufTok))
			// oracle for this request: a success status iff resource known, data readable, no user error
			wantOK := actions[res] != nil && dk != "m" && !uf // (uf is false for the fence's nothing-to-do)
			gotOK, gotAny := false, 0
			for _, l := range coord.Snapshot() {
				switch rb := l.Msg.Body.(type) {
				case message.BranchCommitResponse:
					gotAny++
					gotOK = gotOK || rb.BranchStatus == branch.BranchStatusPhasetwoCommitted
				case message.BranchRollbackResponse:
					gotAny++
					gotOK = gotOK || rb.BranchStatus == branch.BranchStatusPhasetwoRollbacked
				}
			}
			if class == "" && (gotOK != wantOK || gotAny > 1) {
				class, detail = "phase_two_status", fmt.Sprintf("request %s %s data=%s userFails=%v: success status reported=%v (responses %d), wanted %v", kind, res, dk, uf, gotOK, gotAny, wantOK)
			}
			for an2, a := range actions {
				a.mu.Lock()
				for _, inv := range a.invs {
					x := inv.xid
					if x == xid {
						x = "X"
					}
					b := fmt.Sprint(inv.branch)
					if inv.branch == branchID {
						b = "1"
					}
					ctxS := "nil"
					if inv.ctx != nil {
						ctxS = showCtxMap(inv.ctx, true)
					}
					if an2 != res {
						ctxS += "@wrong-action:" + an2
					}
					// the coordinator replayed what was registered: the method must see a context JSON-equivalent to it
					if dk == "c" && regAppData != nil && inv.ctx != nil && class == "" {
						if want := showCtxMap(regCtx, true); ctxS != want {
							class, detail = "action_context_not_equivalent", fmt.Sprintf("registered %s, the %s method saw %s", want, inv.kind, ctxS)
						}
					}
					evs = append(evs, fmt.Sprintf("inv:%s:%s:%s:%s", inv.kind, x, b, ctxS))
				}
				a.failNext = false
				a.nothingToDoNext = false
				a.mu.Unlock()
			}
			for _, l := range coord.Snapshot() {
				var st branch.BranchStatus
				var k2, x2 string
				var b2 int64
				switch rb := l.Msg.Body.(type) {
				case message.BranchCommitResponse:
					k2, x2, b2, st = "C", rb.Xid, rb.BranchId, rb.BranchStatus
				case message.BranchRollbackResponse:
					k2, x2, b2, st = "R", rb.Xid, rb.BranchId, rb.BranchStatus
				default:
					continue
				}
				okS := "failed"
				if (k2 == "C" && st == branch.BranchStatusPhasetwoCommitted) || (k2 == "R" && st == branch.BranchStatusPhasetwoRollbacked) {
					okS = "ok"
				}
				if x2 == xid {
					x2 = "X"
				}
				bs := fmt.Sprint(b2)
				if b2 == branchID {
					bs = "1"
				}
				evs = append(evs, fmt.Sprintf("resp:%d:%s:%s:%s:%s", l.Msg.ID, k2, x2, bs, okS))
			}
		}
		obs := strings.Join(evs, " ")
		c.Out.Case(cid, "C05", fmt.Sprintf("tcc %s %s %s %s", an, reg, known, strings.Join(toks, " ")), obs)
		c.Out.Oracle(cid, class == "", class, detail+" | "+obs)
		c.Out.Tag(cid, fmt.Sprintf("nontrivial=%d", b2i(len(want) > 0 || nReq > 0)))
		c.Out.Count(fmt.Sprintf("shape.%d", shape))
		c.Out.Count("register." + reg)
		c.Out.Count(fmt.Sprintf("requests.%d", nReq))
	}
	coord.ResetLog()
}
