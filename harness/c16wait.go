package main

import (
	"context"
	"database/sql"
	"database/sql/driver"
	"fmt"
	"strings"
	"time"

	"seata.apache.org/seata-go/pkg/datasource/sql/exec/at"
	"seata.apache.org/seata-go/pkg/rm"

	"verifharness/memdb"
)

// ---- a locking read with a wait option (NOWAIT, SKIP LOCKED) while another local transaction holds one of its
// rows: "inside a global transaction each business statement still returns the same result as the plain driver
// would" — NOWAIT fails at once with the error of the database, SKIP LOCKED returns the other rows at once.
// (cases c16-w*)

func runC16WaitOptions(c *Ctx, w *ATWorld) {
	// the lock retry settings as an application would have them (shipped: 10 times, 30 s apart): an error of the
	// database is not a reason to send the statement again
	oldLock := at.LockConfig
	at.LockConfig = rm.LockConfig{RetryTimes: 4, RetryInterval: time.Second}
	defer func() { at.LockConfig = oldLock }()
	n := 0
	for _, suffix := range []string{" NOWAIT", " SKIP LOCKED", " /* matches nothing */", " WAIT 1"} {
		for _, explicit := range []bool{false, true} {
			n++
			cid := fmt.Sprintf("c16-w%d", n)
			if !c.Want(cid) {
				continue
			}
			table := w.NewTableName("wopt")
			w.Eng.CreateTable(memdb.TableDef{Name: table, Cols: []memdb.Column{{Name: "id", Type: memdb.TBigInt}, {Name: "n", Type: memdb.TBigInt, Nullable: true}}, PK: []string{"id"}})
			w.Eng.InsertRows(table, memdb.Row{int64(1), int64(0)}, memdb.Row{int64(2), int64(0)}, memdb.Row{int64(3), int64(0)})
			w.Eng.LockMode(true)
			w.Eng.LockWaitTimeout(1500 * time.Millisecond)
			w.coord.ResetLog()
			other, oerr := w.Bare.BeginTx(context.Background(), nil)
			if oerr == nil {
				_, oerr = other.ExecContext(context.Background(), "UPDATE "+table+" SET n = 1 WHERE id = 2")
			}
			if strings.Contains(suffix, "WAIT 1") {
				// the holder lets go well within the second the statement is prepared to wait: the read returns
				// its rows, through the plain driver and through the proxy (once for each)
				go func(o *sql.Tx) {
					time.Sleep(300 * time.Millisecond)
					o.Rollback()
				}(other)
			}
			q := "SELECT id, n FROM " + table + " WHERE id <= 3 FOR UPDATE" + suffix
			if strings.Contains(suffix, "nothing") {
				// a locking read that selects no row (a queue that is empty): an empty result, not a failure
				q = "SELECT id, n FROM " + table + " WHERE id > 100 FOR UPDATE"
			}
			run := func(ctx context.Context, db *sql.DB) (string, time.Duration) {
				t0 := time.Now()
				out := ""
				read := func(x interface {
					QueryContext(ctx context.Context, query string, args ...interface{}) (*sql.Rows, error)
				}) {
					rows, err := x.QueryContext(ctx, q)
					if err != nil {
						out = errText(err)
						return
					}
					var got []string
					for rows.Next() {
						var id, v sql.NullInt64
						rows.Scan(&id, &v)
						got = append(got, fmt.Sprint(id.Int64))
					}
					if err := rows.Err(); err != nil {
						out = errText(err)
					} else {
						out = "rows:" + strings.Join(got, ",")
					}
					rows.Close()
				}
				if explicit {
					tx, err := db.BeginTx(ctx, nil)
					if err != nil {
						return "err:begin", time.Since(t0)
					}
					read(tx)
					tx.Rollback()
				} else {
					read(db)
				}
				return out, time.Since(t0)
			}
			var proxy, bare string
			var tp, tb time.Duration
			crash := safeCall(func() {
				bare, tb = run(context.Background(), w.Bare)
				if strings.Contains(suffix, "WAIT 1") {
					// the same again for the proxy: row 2 held for 300 ms
					if o2, err := w.Bare.BeginTx(context.Background(), nil); err == nil {
						o2.ExecContext(context.Background(), "UPDATE "+table+" SET n = 1 WHERE id = 2")
						go func() {
							time.Sleep(300 * time.Millisecond)
							o2.Rollback()
						}()
					}
				}
				InGlobalTx(cid, func(ctx context.Context) error {
					proxy, tp = run(ctx, w.DB)
					return nil
				})
			})
			if other != nil {
				other.Rollback()
			}
			w.Eng.LockMode(false)
			c.Out.Case(cid, "C16", "skip", "skip")
			class, detail := "", ""
			switch {
			case crash != "":
				class, detail = "crash", crash
			case oerr != nil:
				class, detail = "setup", oerr.Error()
			case proxy != bare || tp > 2*time.Second+tb: // (generous: the check also runs on a loaded machine)
				class = "wait_option_void_inside_global_tx"
				if strings.Contains(suffix, "SKIP") {
					class = "skip_locked_waits_inside_global_tx"
				}
				detail = fmt.Sprintf("plain driver: %s after %v; proxy inside a global transaction: %s after %v", bare, tb.Round(10*time.Millisecond), proxy, tp.Round(10*time.Millisecond))
			}
			if len(w.Eng.OpenTxns()) > 0 && class == "" {
				class, detail = "transaction_left_open", fmt.Sprint(w.Eng.OpenTxns())
			}
			c.Out.Oracle(cid, class == "", class, fmt.Sprintf("%s | %s explicit=%v", detail, q, explicit))
			c.Out.Tag(cid, "nontrivial=1")
			c.Out.Count("wait-option" + strings.ReplaceAll(suffix, " ", "-"))
			w.Eng.DropTable(table)
		}
	}
}

// ---- a text of several queries (multiStatements=true), or a stored procedure, answers with several result sets:
// the application walks them with rows.NextResultSet. Inside a global transaction it must see the same sets as
// through the plain driver, in AT and in XA mode (cases c16-r*).
func runC16ResultSets(c *Ctx, w *ATWorld) {
	xa := w.OpenXA()
	n := 0
	for _, mode := range []string{"at", "xa"} {
		for _, explicit := range []bool{false, true} {
			n++
			cid := fmt.Sprintf("c16-r%d", n)
			if !c.Want(cid) {
				continue
			}
			table := w.NewTableName("rsets")
			w.Eng.CreateTable(memdb.TableDef{Name: table, Cols: []memdb.Column{{Name: "id", Type: memdb.TBigInt}, {Name: "n", Type: memdb.TBigInt, Nullable: true}}, PK: []string{"id"}})
			w.Eng.InsertRows(table, memdb.Row{int64(1), int64(10)}, memdb.Row{int64(2), int64(20)}, memdb.Row{int64(3), int64(30)})
			q := "SELECT id FROM " + table + " WHERE id <= 2 ORDER BY id; SELECT n FROM " + table + " WHERE id = 3; SELECT id, n FROM " + table + " WHERE id = 1"
			run := func(ctx context.Context, db *sql.DB) string {
				var sets []string
				read := func(x interface {
					QueryContext(ctx context.Context, query string, args ...interface{}) (*sql.Rows, error)
				}) {
					rows, err := x.QueryContext(ctx, q)
					if err != nil {
						sets = append(sets, errText(err))
						return
					}
					defer rows.Close()
					for {
						cols, _ := rows.Columns()
						var got []string
						for rows.Next() {
							vals := make([]sql.NullInt64, len(cols))
							ptrs := make([]interface{}, len(cols))
							for k := range vals {
								ptrs[k] = &vals[k]
							}
							rows.Scan(ptrs...)
							var cells []string
							for _, v := range vals {
								cells = append(cells, fmt.Sprint(v.Int64))
							}
							got = append(got, strings.Join(cells, ":"))
						}
						sets = append(sets, strings.Join(cols, ",")+"="+strings.Join(got, ","))
						if !rows.NextResultSet() {
							break
						}
					}
					if err := rows.Err(); err != nil {
						sets = append(sets, errText(err))
					}
				}
				if explicit {
					tx, err := db.BeginTx(ctx, nil)
					if err != nil {
						return "err:begin"
					}
					read(tx)
					tx.Commit()
				} else {
					read(db)
				}
				return strings.Join(sets, " | ")
			}
			var proxy, bare string
			var xid string
			crash := safeCall(func() {
				bare = run(context.Background(), w.Bare)
				xid, _ = InGlobalTx(cid, func(ctx context.Context) error {
					if mode == "xa" {
						proxy = run(ctx, xa)
					} else {
						proxy = run(ctx, w.DB)
					}
					return nil
				})
			})
			for _, b := range w.coord.RegisteredBranches(xid) {
				w.coord.CommitBranch(w.coord.LastSession(), b, 3*time.Second)
			}
			c.Out.Case(cid, "C16", "skip", "skip")
			class, detail := "", ""
			switch {
			case crash != "":
				class, detail = "crash", crash
			case proxy != bare:
				class, detail = "result_sets_differ", fmt.Sprintf("plain driver: %s; %s proxy inside a global transaction: %s", bare, mode, proxy)
			}
			if len(w.Eng.OpenTxns()) > 0 && class == "" {
				class, detail = "transaction_left_open", fmt.Sprint(w.Eng.OpenTxns())
			}
			c.Out.Oracle(cid, class == "", class, fmt.Sprintf("%s | mode=%s explicit=%v", detail, mode, explicit))
			c.Out.Tag(cid, "nontrivial=1")
			c.Out.Count("result-sets." + mode)
			w.Eng.DropTable(table)
		}
	}
}

// ---- a pooled connection the server dropped while it was idle: the first command on it answers "bad connection",
// database/sql discards the connection and sends the statement again on a fresh one - the application notices
// nothing. Through the proxy the first command is one of the proxy's own (BEGIN, XA START): the statement must
// come out the same (cases c16-b*).
func runC16BadConnection(c *Ctx, w *ATWorld) {
	xa := w.OpenXA()
	n := 0
	for _, mode := range []string{"at", "xa"} {
		n++
		cid := fmt.Sprintf("c16-b%d", n)
		if !c.Want(cid) {
			continue
		}
		table := w.NewTableName("badc")
		w.Eng.CreateTable(memdb.TableDef{Name: table, Cols: []memdb.Column{{Name: "id", Type: memdb.TBigInt}, {Name: "n", Type: memdb.TBigInt, Nullable: true}}, PK: []string{"id"}})
		w.Eng.InsertRows(table, memdb.Row{int64(1), int64(0)}, memdb.Row{int64(2), int64(0)})
		w.coord.ResetLog()
		var bareErr, proxyErr error
		var xid string
		crash := safeCall(func() {
			// the plain driver: the statement itself is the first command
			w.Eng.AddFault(memdb.Fault{Kind: "update", Table: table, Nth: 1, Err: driver.ErrBadConn})
			_, bareErr = w.Bare.ExecContext(context.Background(), "UPDATE "+table+" SET n = 5 WHERE id = 1")
			w.Eng.ClearFaults()
			first := "begin"
			db := w.DB
			if mode == "xa" {
				first, db = "xa_start", xa
			}
			w.Eng.AddFault(memdb.Fault{Kind: first, Nth: 1, Err: driver.ErrBadConn})
			xid, _ = InGlobalTx(cid, func(ctx context.Context) error {
				sctx, cancel := context.WithTimeout(ctx, 10*time.Second)
				defer cancel()
				_, proxyErr = db.ExecContext(sctx, "UPDATE "+table+" SET n = 5 WHERE id = 2")
				return nil
			})
			w.Eng.ClearFaults()
		})
		reported := w.coord.ReportedFailed(xid)
		for _, b := range w.coord.RegisteredBranches(xid) {
			if !reported[b.BranchID] {
				w.coord.CommitBranch(w.coord.LastSession(), b, 3*time.Second)
			}
		}
		final := w.DumpTable(table)
		c.Out.Case(cid, "C16", "skip", "skip")
		class, detail := "", ""
		switch {
		case crash != "":
			class, detail = "crash", crash
		case bareErr != nil:
			class, detail = "setup", "the plain driver did not get over the bad connection: "+bareErr.Error()
		case proxyErr != nil:
			class, detail = "bad_connection_reaches_the_application", proxyErr.Error()
		case final != "i1,i5;i2,i5":
			class, detail = "different_data", final
		}
		if len(w.Eng.OpenTxns()) > 0 && class == "" {
			class, detail = "transaction_left_open", fmt.Sprint(w.Eng.OpenTxns())
		}
		c.Out.Oracle(cid, class == "", class, fmt.Sprintf("%s | mode=%s final=%s", detail, mode, final))
		c.Out.Tag(cid, "nontrivial=1")
		c.Out.Count("bad-connection." + mode)
		w.Eng.DropTable(table)
	}
}

// ---- db.Ping reaches the database, through the proxy as through the plain driver: a driver that does not
// implement driver.Pinger gets its pings answered by database/sql itself, with success, dead connection or not
// (cases c16-p*).
func runC16Ping(c *Ctx, w *ATWorld) {
	xa := w.OpenXA()
	for n, h := range []struct {
		name string
		db   *sql.DB
	}{{"bare", w.Bare}, {"at", w.DB}, {"xa", xa}} {
		cid := fmt.Sprintf("c16-p%d", n)
		if !c.Want(cid) {
			continue
		}
		before := w.Eng.Pings()
		var err error
		crash := safeCall(func() {
			ctx, cancel := context.WithTimeout(context.Background(), 5*time.Second)
			defer cancel()
			err = h.db.PingContext(ctx)
		})
		reached := w.Eng.Pings() - before
		c.Out.Case(cid, "C16", "skip", "skip")
		class, detail := "", ""
		switch {
		case crash != "":
			class, detail = "crash", crash
		case err != nil:
			class, detail = "ping_failed", err.Error()
		case reached == 0:
			class, detail = "ping_does_not_reach_the_database", "db.Ping answered nil, no ping arrived at the database"
		}
		c.Out.Oracle(cid, class == "", class, detail+" | handle="+h.name)
		c.Out.Tag(cid, "nontrivial=1")
		c.Out.Count("ping." + h.name)
	}
}

// ---- a locking read with a placeholder outside WHERE / ORDER BY / LIMIT (in its select list): the executor's key
// query keeps the WHERE and must be given the WHERE's arguments only (cases c16-q*).
func runC16SelectListArg(c *Ctx, w *ATWorld) {
	for n, q := range []string{
		"SELECT id, ? AS tag FROM %s WHERE id = ? FOR UPDATE",
		"SELECT ? AS tag, id FROM %s WHERE id >= ? AND id <= ? ORDER BY id LIMIT ? FOR UPDATE",
	} {
		cid := fmt.Sprintf("c16-q%d", n+1)
		if !c.Want(cid) {
			continue
		}
		table := w.NewTableName("qarg")
		w.Eng.CreateTable(memdb.TableDef{Name: table, Cols: []memdb.Column{{Name: "id", Type: memdb.TBigInt}, {Name: "n", Type: memdb.TBigInt, Nullable: true}}, PK: []string{"id"}})
		w.Eng.InsertRows(table, memdb.Row{int64(1), int64(10)}, memdb.Row{int64(2), int64(20)}, memdb.Row{int64(3), int64(30)})
		args := []interface{}{"t", 2}
		if n == 1 {
			args = []interface{}{"t", 1, 3, 2}
		}
		run := func(ctx context.Context, db *sql.DB) string {
			rows, err := db.QueryContext(ctx, fmt.Sprintf(q, table), args...)
			if err != nil {
				return errText(err)
			}
			return scanAll(rows)
		}
		var proxy, bare string
		crash := safeCall(func() {
			bare = run(context.Background(), w.Bare)
			InGlobalTx(cid, func(ctx context.Context) error {
				proxy = run(ctx, w.DB)
				return nil
			})
		})
		c.Out.Case(cid, "C16", "skip", "skip")
		class, detail := "", ""
		switch {
		case crash != "":
			class, detail = "crash", crash
		case proxy != bare:
			class, detail = "different_result", fmt.Sprintf("plain driver: %s; proxy inside a global transaction: %s", bare, proxy)
		}
		c.Out.Oracle(cid, class == "", class, detail+" | "+fmt.Sprintf(q, table))
		c.Out.Tag(cid, "nontrivial=1")
		c.Out.Count("select-list-argument")
		w.Eng.DropTable(table)
	}
}
