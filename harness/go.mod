module verifharness

go 1.20

require seata.apache.org/seata-go v0.0.0

require (
	github.com/apache/dubbo-getty v1.5.0 // indirect
	github.com/davecgh/go-spew v1.1.1 // indirect
	github.com/dubbogo/gost v1.13.2 // indirect
	github.com/golang/snappy v0.0.4 // indirect
	github.com/gorilla/websocket v1.4.2 // indirect
	github.com/k0kubun/pp v3.0.1+incompatible // indirect
	github.com/mattn/go-colorable v0.1.8 // indirect
	github.com/mattn/go-isatty v0.0.19 // indirect
	github.com/natefinch/lumberjack v2.0.0+incompatible // indirect
	github.com/pkg/errors v0.9.1 // indirect
	github.com/shirou/gopsutil/v3 v3.22.2 // indirect
	github.com/tklauser/go-sysconf v0.3.10 // indirect
	github.com/tklauser/numcpus v0.4.0 // indirect
	go.uber.org/atomic v1.9.0 // indirect
	go.uber.org/multierr v1.10.0 // indirect
	go.uber.org/zap v1.27.0 // indirect
	golang.org/x/sys v0.15.0 // indirect
	vimagination.zapto.org/byteio v0.0.0-20200222190125-d27cba0f0b10 // indirect
)

replace seata.apache.org/seata-go => /repo
