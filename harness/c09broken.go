package main

import (
	"context"
	"errors"
	"fmt"
	"time"

	"seata.apache.org/seata-go/pkg/protocol/branch"

	"verifharness/memdb"
)

// runC09BrokenCurrentRows: the query with which the undo reads the CURRENT rows breaks off (a lock wait timeout, a
// lost connection in the middle of the result). A shorter result is not what the table holds: the undo must fail
// and be repeated, not take the rows it did not see for rows that are gone - for the undo of an INSERT an empty
// "current" equals the empty before image, nothing is deleted, and the branch is answered 'rollbacked' with its
// rows still there (cases c09-e*).
func runC09BrokenCurrentRows(c *Ctx, w *ATWorld) {
	n := 0
	for _, q := range []string{"INSERT INTO %s (id, v) VALUES (3, 30)", "INSERT INTO %s (id, v) VALUES (3, 30), (4, 40)", "UPDATE %s SET v = 9 WHERE id <= 2", "DELETE FROM %s WHERE id = 1"} {
		for _, at := range []int{1, 2} {
			n++
			cid := fmt.Sprintf("c09-e%d", n)
			if !c.Want(cid) {
				continue
			}
			w.SetUndoConfig("json", "None", true, false)
			t := w.NewTableName("brk")
			w.Eng.CreateTable(memdb.TableDef{Name: t, Cols: []memdb.Column{{Name: "id", Type: memdb.TBigInt}, {Name: "v", Type: memdb.TBigInt, Nullable: true}}, PK: []string{"id"}})
			w.Eng.InsertRows(t, memdb.Row{int64(1), int64(10)}, memdb.Row{int64(2), int64(20)})
			w.Eng.Exec("DELETE FROM undo_log")
			before := w.DumpTable(t)
			w.coord.ResetLog()
			var execErr error
			var xid string
			crash := safeCall(func() {
				xid, _ = InGlobalTx(cid, func(ctx context.Context) error {
					_, execErr = w.DB.ExecContext(ctx, fmt.Sprintf(q, t))
					return errors.New("roll the global transaction back")
				})
			})
			mid := w.DumpTable(t)
			// the first delivery of the rollback: the undo's read of the current rows breaks off at row `at`
			w.Eng.AddFault(memdb.Fault{Kind: "select_for_update", Table: t, Nth: 1, AtRow: at})
			answeredDone := false
			brs := w.coord.RegisteredBranches(xid)
			for _, b := range brs {
				st, ok, _ := w.coord.RollbackBranch(w.coord.LastSession(), b, 5*time.Second)
				if ok && st == branch.BranchStatusPhasetwoRollbacked {
					answeredDone = true
				}
			}
			w.Eng.ClearFaults()
			afterFirst := w.DumpTable(t)
			// the coordinator repeats a rollback that was not answered done
			if !answeredDone {
				for _, b := range brs {
					w.coord.RollbackBranch(w.coord.LastSession(), b, 5*time.Second)
				}
			}
			final := w.DumpTable(t)
			class := ""
			switch {
			case crash != "":
				class = "crash"
			case execErr != nil || mid == before:
				class = "setup"
			case answeredDone && afterFirst != before:
				class = "rollbacked_but_not_restored"
			case final != before:
				class = "not_restored_after_the_repeated_rollback"
			}
			c.Out.Case(cid, "C09", "skip", "skip")
			c.Out.Oracle(cid, class == "", class, fmt.Sprintf("%s, the current-row query breaks off at row %d | first delivery answered done=%v before=%s mid=%s after-first=%s final=%s", fmt.Sprintf(q, t), at, answeredDone, before, mid, afterFirst, final))
			c.Out.Tag(cid, "nontrivial=1")
			c.Out.Count("current-rows-break-off")
			w.Eng.Exec("DELETE FROM undo_log")
			w.Eng.DropTable(t)
		}
	}
}
