package main

// Generators and serializers for AT cases: one abstract statement is rendered both as MySQL text
// (+ bound arguments) for the real proxy and as a token for the Lean model.

import (
	"fmt"
	"strconv"
	"strings"

	"verifharness/memdb"
)

type ATVal struct {
	K byte // 'N' null, 'i' int, 's' string
	I int64
	S string
}

func (v ATVal) Tok() string {
	switch v.K {
	case 'N':
		return "N."
	case 'i':
		return fmt.Sprintf("i%d.", v.I)
	default:
		if v.S == "" {
			return "s."
		}
		return "s" + hx([]byte(v.S)) + "."
	}
}
func (v ATVal) Go() interface{} {
	switch v.K {
	case 'N':
		return nil
	case 'i':
		return v.I
	default:
		return v.S
	}
}
func (v ATVal) SQL() string {
	switch v.K {
	case 'N':
		return "NULL"
	case 'i':
		return fmt.Sprint(v.I)
	default:
		return "'" + strings.ReplaceAll(v.S, "'", "''") + "'"
	}
}
func (v ATVal) Cell() string {
	switch v.K {
	case 'N':
		return "N"
	case 'i':
		return fmt.Sprintf("i%d", v.I)
	default:
		return "s" + hx([]byte(v.S))
	}
}

type ATCol struct {
	Big      int64 // non-zero: values of this column cluster at this magnitude (tiny relative differences)
	Name     string
	Typ      byte // 'i' or 's'
	Nullable bool
}

type ATSchema struct {
	Auto    bool // the (single, integer) key column is AUTO_INCREMENT
	Collide bool
	DBName  string // schema the table was created in (set by Create)
	Table   string
	Cols    []ATCol
	PK      []int
}

func (s *ATSchema) Tok() string {
	pk := make([]string, len(s.PK))
	for i, p := range s.PK {
		pk[i] = fmt.Sprint(p)
	}
	return fmt.Sprintf("%d:%s", len(s.Cols), strings.Join(pk, ","))
}

func (s *ATSchema) isPK(c int) bool {
	for _, p := range s.PK {
		if p == c {
			return true
		}
	}
	return false
}

func (s *ATSchema) Create(e *memdb.Engine) {
	s.DBName = e.Name()
	def := memdb.TableDef{Name: s.Table}
	// every fourth table has its columns in capital letters in the catalogue (ID, C1, ...) while the statements
	// go on writing them in small letters: column names are case-insensitive
	h := 0
	for _, ch := range s.Table {
		h += int(ch)
	}
	upper := h%4 == 0
	for _, c := range s.Cols {
		col := memdb.Column{Name: c.Name, Nullable: c.Nullable}
		if upper {
			col.Name = strings.ToUpper(c.Name)
		}
		if s.Auto && len(def.Cols) == 0 {
			col.AutoInc = true
		}
		if c.Typ == 'i' {
			col.Type = memdb.TBigInt
		} else {
			col.Type = memdb.TVarchar
			col.Length = 64
		}
		def.Cols = append(def.Cols, col)
	}
	for _, p := range s.PK {
		if upper {
			def.PK = append(def.PK, strings.ToUpper(s.Cols[p].Name))
			continue
		}
		def.PK = append(def.PK, s.Cols[p].Name)
	}
	if len(def.PK) == 2 && len(s.Table)%2 == 0 {
		// PRIMARY KEY (c1, id): the key is declared in another order than the columns; the client is expected to
		// bring the key columns into table-column order (GetPrimaryKeyOnlyName), so nothing else changes
		def.PK[0], def.PK[1] = def.PK[1], def.PK[0]
	}
	if err := e.CreateTable(def); err != nil {
		panic(err)
	}
}

// expression: column, literal, or bound argument (ArgVal is what gets bound)
type ATExpr struct {
	K   byte // 'c' col, 'l' literal, 'a' argument
	Col int
	Val ATVal
	// Wrap: the argument is written inside a function call that gives it back, COALESCE(?, NULL) — the same
	// statement for the model, a placeholder one level further down the syntax tree for the executor
	Wrap bool
}

type ATCond struct {
	Op   string // T, cmp:<e n l m g h>, A, O, !, I, B, Z, P
	A, B *ATCond
	E    []*ATExpr
}

type ATSet struct {
	Col  int
	Plus int // -1: c = expr ; else c = cPlus + expr
	E    *ATExpr
}

// ATUpAssign is one assignment of ON DUPLICATE KEY UPDATE: col = VALUES(col) (Lit == nil) or col = <literal>
type ATUpAssign struct {
	Col int
	Lit *ATVal
}

// ATOrd is one ORDER BY item
type ATOrd struct {
	Col  int
	Desc bool
}

type ATStmt struct {
	Kind byte // U D X Y(upsert)
	// AutoForm: how an INSERT into a table with an AUTO_INCREMENT key leaves the key to the database:
	// 'o' column omitted, 'n' NULL, 'd' DEFAULT, 'z' the literal 0 (0: the key is given)
	AutoForm byte
	// ORDER BY … LIMIT of an UPDATE / DELETE (none when both are zero); tokens W / K
	Order  []ATOrd
	Limit  int
	Assign []ATUpAssign
	Sets   []ATSet
	Where  *ATCond
	Rows   [][]*ATExpr
	// classes of known findings this statement falls in (class predicates)
	Classes []string
	// ForceFail: the database is made to fail the business statement (injected error)
	ForceFail bool
	// Form of an upsert (Kind 'Y'): 0 INSERT … ON DUPLICATE KEY UPDATE, 'i' INSERT IGNORE (no assignment: an
	// existing row stays as it is), 'r' REPLACE (every non-key column takes the new value).  The model statement
	// is the same `upsert`; only the SQL text differs.
	Form byte
	// NoCols: a plain INSERT has no column list (INSERT INTO t VALUES (...)): the values follow the table's order
	NoCols bool
	// Hint: an UPDATE names its table with an index hint (UPDATE t FORCE INDEX (PRIMARY) SET ...)
	Hint bool
	// AutoVerb: an INSERT that leaves its AUTO_INCREMENT key to the database is spelled INSERT IGNORE ('i') or REPLACE ('r')
	AutoVerb byte
	// Alias: an UPDATE / DELETE gives the table an alias and qualifies every column with it (UPDATE t AS a SET a.c = ...)
	Alias bool
	// RevCols: an INSERT / upsert lists its columns (and values) in the opposite order of the table's
	RevCols bool
	// Spell: how the statement writes the table name (0 as created, 1 UPPER, 2 `quoted`, 3 db.table, 4 `db`.`table`)
	Spell int
}

// tableText is the table name as the statement spells it
func (s *ATStmt) tableText(sc *ATSchema) string {
	db := sc.DBName
	if db == "" {
		db = "verifdb"
	}
	switch s.Spell {
	case 1:
		return strings.ToUpper(sc.Table)
	case 2:
		return "`" + sc.Table + "`"
	case 3:
		return db + "." + sc.Table
	case 4:
		return "`" + db + "`.`" + sc.Table + "`"
	}
	return sc.Table
}

// hintText: an index hint after the table reference of an UPDATE (one table all the same)
func (s *ATStmt) hintText() string {
	if s.Hint {
		return " FORCE INDEX (PRIMARY)"
	}
	return ""
}

// spellStatements gives every statement of a case a spelling of the table name, derived from the case id
// and the statement's position (not from the random stream): about half as created
func spellStatements(c *ATCase) {
	h := 0
	for _, ch := range c.ID {
		h = h*31 + int(ch)
	}
	k := 0
	for li := range c.Locals {
		for _, st := range c.Locals[li].Stmts {
			k++
			st.RevCols = (h+3*k)%3 == 0
			st.NoCols = (h+5*k)%4 == 1
			st.Hint = (h+17*k)%6 == 2
			st.AutoVerb = []byte{0, 'i', 'r'}[(h+13*k)%3]
			st.Alias = (h+11*k)%5 == 2
			if v := (h + 7*k) % 10; v >= 5 {
				st.Spell = v - 5 + 1
				if st.Spell > 4 {
					st.Spell = 0
				}
			}
		}
	}
}

// HasLimit: the statement carries ORDER BY … LIMIT
func (s *ATStmt) HasLimit() bool { return s.Limit > 0 || len(s.Order) > 0 }

// addOrderLimit turns an UPDATE / DELETE into its ORDER BY … LIMIT form (integer sort columns, the key
// last so that the order is total); only for schemas whose key columns are integers
func addOrderLimit(r *Rng, sc *ATSchema, st *ATStmt) {
	for _, p := range sc.PK {
		if sc.Cols[p].Typ != 'i' {
			return
		}
	}
	used := map[int]bool{}
	for k := 0; k < r.Intn(2); k++ {
		c := r.Intn(len(sc.Cols))
		if sc.Cols[c].Typ == 'i' && !used[c] && !sc.isPK(c) {
			used[c] = true
			st.Order = append(st.Order, ATOrd{Col: c, Desc: r.Bool()})
		}
	}
	for _, p := range sc.PK {
		st.Order = append(st.Order, ATOrd{Col: p, Desc: r.Chance(30)})
	}
	st.Limit = 1 + r.Intn(3)
}

// Arm injects the failure of a ForceFail statement; the returned func disarms it.
func (s *ATStmt) Arm(e *memdb.Engine, table string) func() {
	if !s.ForceFail {
		return func() {}
	}
	kind := map[byte]string{'U': "update", 'D': "delete", 'X': "insert", 'Y': "insert"}[s.Kind]
	e.AddFault(memdb.Fault{Kind: kind, Table: table, Nth: 1})
	return e.ClearFaults
}

type sqlOut struct {
	sb        strings.Builder
	tok       strings.Builder
	args      []ATVal
	colPrefix string // "a." when the statement gives the table the alias a
}

func (o *sqlOut) expr(sc *ATSchema, e *ATExpr) {
	switch e.K {
	case 'c':
		o.sb.WriteString(o.colPrefix + sc.Cols[e.Col].Name)
		fmt.Fprintf(&o.tok, "c%d.", e.Col)
	case 'l':
		o.sb.WriteString(e.Val.SQL())
		o.tok.WriteString("l" + e.Val.Tok())
	default:
		if e.Wrap {
			o.sb.WriteString("COALESCE(?, NULL)")
		} else {
			o.sb.WriteString("?")
		}
		fmt.Fprintf(&o.tok, "a%d.", len(o.args))
		o.args = append(o.args, e.Val)
	}
}

var cmpSQL = map[byte]string{'e': "=", 'n': "!=", 'l': "<", 'm': "<=", 'g': ">", 'h': ">="}

func (o *sqlOut) cond(sc *ATSchema, c *ATCond) {
	switch {
	case c.Op == "T":
		o.tok.WriteString("T")
	case strings.HasPrefix(c.Op, "cmp:"):
		op := c.Op[4]
		fmt.Fprintf(&o.tok, "C%c", op)
		o.expr(sc, c.E[0])
		o.sb.WriteString(" " + cmpSQL[op] + " ")
		o.expr(sc, c.E[1])
	case c.Op == "A" || c.Op == "O":
		o.tok.WriteString(c.Op)
		o.cond(sc, c.A)
		if c.Op == "A" {
			o.sb.WriteString(" AND ")
		} else {
			o.sb.WriteString(" OR ")
		}
		o.cond(sc, c.B)
	case c.Op == "!":
		o.tok.WriteString("!")
		o.sb.WriteString("NOT ")
		o.cond(sc, c.A)
	case c.Op == "P":
		o.tok.WriteString("P")
		o.sb.WriteString("(")
		o.cond(sc, c.A)
		o.sb.WriteString(")")
	case c.Op == "Z":
		o.tok.WriteString("Z")
		o.expr(sc, c.E[0])
		o.sb.WriteString(" IS NULL")
	case c.Op == "B":
		o.tok.WriteString("B")
		o.expr(sc, c.E[0])
		o.sb.WriteString(" BETWEEN ")
		o.expr(sc, c.E[1])
		o.sb.WriteString(" AND ")
		o.expr(sc, c.E[2])
	case c.Op == "I":
		o.tok.WriteString("I")
		o.expr(sc, c.E[0])
		fmt.Fprintf(&o.tok, "%d:", len(c.E)-1)
		o.sb.WriteString(" IN (")
		for i, e := range c.E[1:] {
			if i > 0 {
				o.sb.WriteString(", ")
			}
			o.expr(sc, e)
		}
		o.sb.WriteString(")")
	}
}

// Render returns the SQL text, the bound arguments and the model token.
func (s *ATStmt) Render(sc *ATSchema) (string, []interface{}, string) {
	o := &sqlOut{}
	switch s.Kind {
	case 'U':
		if s.Alias && !s.HasLimit() {
			o.colPrefix = "a."
			o.sb.WriteString("UPDATE " + s.tableText(sc) + " AS a" + s.hintText() + " SET ")
		} else {
			o.sb.WriteString("UPDATE " + s.tableText(sc) + s.hintText() + " SET ")
		}
		if s.HasLimit() {
			fmt.Fprintf(&o.tok, "W%d:", len(s.Sets))
		} else {
			fmt.Fprintf(&o.tok, "U%d:", len(s.Sets))
		}
		for i, st := range s.Sets {
			if i > 0 {
				o.sb.WriteString(", ")
			}
			o.sb.WriteString(o.colPrefix + sc.Cols[st.Col].Name + " = ")
			if st.Plus >= 0 {
				fmt.Fprintf(&o.tok, "%d:p%d:", st.Col, st.Plus)
				o.sb.WriteString(o.colPrefix + sc.Cols[st.Plus].Name + " + ")
			} else {
				fmt.Fprintf(&o.tok, "%d:v", st.Col)
			}
			o.expr(sc, st.E)
		}
		if s.Where.Op != "T" {
			o.sb.WriteString(" WHERE ")
		}
		o.cond(sc, s.Where)
	case 'D':
		if s.Alias && !s.HasLimit() {
			o.colPrefix = "a."
			o.sb.WriteString("DELETE FROM " + s.tableText(sc) + " AS a")
		} else {
			o.sb.WriteString("DELETE FROM " + s.tableText(sc))
		}
		if s.HasLimit() {
			o.tok.WriteString("K")
		} else {
			o.tok.WriteString("D")
		}
		if s.Where.Op != "T" {
			o.sb.WriteString(" WHERE ")
		}
		o.cond(sc, s.Where)
	case 'X', 'Y':
		var names []string
		for i, c := range sc.Cols {
			if i == 0 && s.AutoForm == 'o' {
				continue // the auto-increment key column is left out of the column list
			}
			names = append(names, c.Name)
		}
		rev := s.RevCols && s.AutoForm == 0
		if rev {
			// the statement lists its columns in the opposite order of the table's (the key comes last)
			for a, b := 0, len(names)-1; a < b; a, b = a+1, b-1 {
				names[a], names[b] = names[b], names[a]
			}
		}
		verb := "INSERT INTO "
		if s.Kind == 'Y' && s.Form == 'i' {
			verb = "INSERT IGNORE INTO "
		} else if s.Kind == 'Y' && s.Form == 'r' {
			verb = "REPLACE INTO "
		}
		if s.Kind == 'X' && s.AutoForm != 0 && s.AutoVerb == 'i' {
			// the key is left to the database: no row can be in the way, the statement is a plain insert
			verb = "INSERT IGNORE INTO "
		} else if s.Kind == 'X' && s.AutoForm != 0 && s.AutoVerb == 'r' {
			verb = "REPLACE INTO "
		}
		if s.NoCols && !rev && s.AutoForm == 0 {
			o.sb.WriteString(verb + s.tableText(sc) + " VALUES ")
		} else {
			o.sb.WriteString(verb + s.tableText(sc) + " (" + strings.Join(names, ", ") + ") VALUES ")
		}
		if s.Kind == 'Y' && s.Form == 'r' {
			// for the model a REPLACE is two statements: the rows stored under its keys are deleted, then its
			// rows are inserted (that is also how its images are recorded: a DELETE item, then an INSERT item)
			o.tok.WriteString(replaceDeleteTok(sc, s.Rows) + " ")
			fmt.Fprintf(&o.tok, "X%d:%d:", len(s.Rows), len(sc.Cols))
		} else {
			fmt.Fprintf(&o.tok, "%c%d:%d:", s.Kind, len(s.Rows), len(sc.Cols))
		}
		for i, row := range s.Rows {
			if i > 0 {
				o.sb.WriteString(", ")
			}
			o.sb.WriteString("(")
			if rev {
				// SQL text and arguments in the statement's order, the model token in the table's
				argAt := make([]int, len(row))
				for k := len(row) - 1; k >= 0; k-- {
					if k < len(row)-1 {
						o.sb.WriteString(", ")
					}
					switch e := row[k]; e.K {
					case 'c':
						o.sb.WriteString(sc.Cols[e.Col].Name)
					case 'l':
						o.sb.WriteString(e.Val.SQL())
					default:
						o.sb.WriteString("?")
						argAt[k] = len(o.args)
						o.args = append(o.args, e.Val)
					}
				}
				for k, e := range row {
					switch e.K {
					case 'c':
						fmt.Fprintf(&o.tok, "c%d.", e.Col)
					case 'l':
						o.tok.WriteString("l" + e.Val.Tok())
					default:
						fmt.Fprintf(&o.tok, "a%d.", argAt[k])
					}
				}
				o.sb.WriteString(")")
				continue
			}
			first := true
			for k, e := range row {
				if k == 0 && s.AutoForm != 0 {
					// the database assigns the key: column omitted, NULL or DEFAULT
					o.tok.WriteString("lA.")
					switch s.AutoForm {
					case 'n':
						o.sb.WriteString("NULL")
					case 'd':
						o.sb.WriteString("DEFAULT")
					case 'z':
						// without NO_AUTO_VALUE_ON_ZERO a 0 asks for the next value just as NULL does
						o.sb.WriteString("0")
					default:
						continue
					}
					first = false
					continue
				}
				if !first {
					o.sb.WriteString(", ")
				}
				first = false
				o.expr(sc, e)
			}
			o.sb.WriteString(")")
		}
		if s.Kind == 'Y' && s.Form != 'r' {
			if s.Form == 0 {
				o.sb.WriteString(" ON DUPLICATE KEY UPDATE ")
			}
			fmt.Fprintf(&o.tok, "A%d:", len(s.Assign))
			for i, a := range s.Assign {
				if s.Form != 0 {
					// IGNORE has no assignment, REPLACE assigns every non-key column implicitly
					fmt.Fprintf(&o.tok, "%d:V", a.Col)
					continue
				}
				if i > 0 {
					o.sb.WriteString(", ")
				}
				n := sc.Cols[a.Col].Name
				if a.Lit == nil {
					o.sb.WriteString(n + " = VALUES(" + n + ")")
					fmt.Fprintf(&o.tok, "%d:V", a.Col)
				} else {
					o.sb.WriteString(n + " = " + a.Lit.SQL())
					fmt.Fprintf(&o.tok, "%d:l%s", a.Col, a.Lit.Tok())
				}
			}
		}
	}
	if (s.Kind == 'U' || s.Kind == 'D') && s.HasLimit() {
		o.sb.WriteString(" ORDER BY ")
		fmt.Fprintf(&o.tok, "o%d:", len(s.Order))
		for i, it := range s.Order {
			if i > 0 {
				o.sb.WriteString(", ")
			}
			o.sb.WriteString(sc.Cols[it.Col].Name)
			if it.Desc {
				o.sb.WriteString(" DESC")
				fmt.Fprintf(&o.tok, "%dd", it.Col)
			} else {
				fmt.Fprintf(&o.tok, "%da", it.Col)
			}
		}
		fmt.Fprintf(&o.sb, " LIMIT %d", s.Limit)
		fmt.Fprintf(&o.tok, "n%d.", s.Limit)
	}
	fmt.Fprintf(&o.tok, "G%d:", len(o.args))
	if s.ForceFail {
		t := o.tok.String()
		if s.Kind == 'Y' && s.Form == 'r' {
			// a REPLACE the database fails is ONE failing statement: nothing deleted, nothing inserted, no image and
			// no lock key (the executor learns the keys from the after image, which it never reaches)
			if sp := strings.Index(t, " "); sp >= 0 {
				t = t[sp+1:]
			}
		}
		o.tok.Reset()
		o.tok.WriteString("!" + t)
	}
	goArgs := make([]interface{}, len(o.args))
	for i, a := range o.args {
		o.tok.WriteString(a.Tok())
		goArgs[i] = a.Go()
	}
	return o.sb.String(), goArgs, o.tok.String()
}

// replaceDeleteTok is the model token of "DELETE FROM t WHERE <key of one of the rows>" (no arguments)
func replaceDeleteTok(sc *ATSchema, rows [][]*ATExpr) string {
	var sb strings.Builder
	sb.WriteString("D")
	one := func(row []*ATExpr) string {
		var parts []string
		for _, p := range sc.PK {
			parts = append(parts, fmt.Sprintf("Cec%d.l%s", p, row[p].Val.Tok()))
		}
		out := parts[len(parts)-1]
		for k := len(parts) - 2; k >= 0; k-- {
			out = "A" + parts[k] + out
		}
		return out
	}
	conds := make([]string, len(rows))
	for i, row := range rows {
		conds[i] = one(row)
	}
	out := conds[len(conds)-1]
	for k := len(conds) - 2; k >= 0; k-- {
		out = "O" + conds[k] + out
	}
	sb.WriteString(out + "G0:")
	return sb.String()
}

// ---- generation ----

type ATGenOpts struct {
	AllowFindings   bool // also generate statement shapes that are known findings (class-tagged)
	NullableVals    bool
	StrPK           bool
	PKUpdates       bool      // UPDATE statements that name a primary-key column
	Upserts         bool      // INSERT … ON DUPLICATE KEY UPDATE statements
	OrderLimit      bool      // UPDATE / DELETE … ORDER BY … LIMIT n
	AutoInc         bool      // single integer key with AUTO_INCREMENT; INSERTs leave the key to the database
	Existing        [][]ATVal // the initial rows (for statements aimed at existing keys)
	ContinueOnError bool      // explicit transactions may ignore a failing INSERT and commit
	BigInts         bool      // integer columns cluster at one large magnitude
	CollideKeys     bool      // composite integer keys whose parts concatenate to the same text: (1,10)/(11,0), (1,11)/(11,1)
}

func genSchema(r *Rng, table string, o ATGenOpts) *ATSchema {
	sc := &ATSchema{Table: table}
	n := 2 + r.Intn(3)
	for i := 0; i < n; i++ {
		c := ATCol{Name: fmt.Sprintf("c%d", i), Typ: 'i'}
		if i > 0 && r.Chance(40) {
			c.Typ = 's'
		}
		if i > 0 && o.NullableVals && r.Chance(40) {
			c.Nullable = true
		}
		sc.Cols = append(sc.Cols, c)
	}
	if o.BigInts {
		base := []int64{1700000000, 2147483640, 1000000000000, 1000000000000000, 9007199254740992}[r.Intn(5)]
		for i := 1; i < n; i++ {
			if sc.Cols[i].Typ == 'i' {
				sc.Cols[i].Big = base
			}
		}
	}
	sc.Cols[0].Name = "id"
	if o.StrPK && r.Chance(40) {
		sc.Cols[0].Typ = 's' // a character key
	}
	sc.PK = []int{0}
	if o.AutoInc {
		sc.Cols[0].Typ = 'i'
		sc.Auto = true
		return sc
	}
	sc.Collide = o.CollideKeys
	if n >= 3 && (r.Chance(30) || o.CollideKeys) {
		sc.PK = []int{0, 1} // composite key
		sc.Cols[1].Nullable = false
		if len(table)%2 == 1 {
			sc.Cols[1].Name = "sub_id" // a key column whose name contains the other key column's name
		}
		if !o.StrPK {
			sc.Cols[1].Typ = 'i'
		}
	}
	return sc
}

var atStrings = []string{"a", "b", "ab", "x y", "it's", "", "zz", "K-9", "k:", "7", "007", "7.0"}

// numericTwin returns another text for the same number ("7" / "007" / "7.0"), if s is the text of a number
func numericTwin(s string, pick int) (string, bool) {
	if _, err := strconv.ParseFloat(s, 64); err != nil || s == "" {
		return "", false
	}
	f, _ := strconv.ParseFloat(s, 64)
	cands := []string{strconv.FormatFloat(f, 'f', -1, 64), "00" + strconv.FormatFloat(f, 'f', -1, 64), strconv.FormatFloat(f, 'f', 1, 64)}
	for k := 0; k < len(cands); k++ {
		if c := cands[(pick+k)%len(cands)]; c != s {
			return c, true
		}
	}
	return "", false
}

func genVal(r *Rng, c ATCol) ATVal {
	if c.Nullable && r.Chance(20) {
		return ATVal{K: 'N'}
	}
	if c.Typ == 'i' {
		if c.Big != 0 && r.Chance(85) {
			return ATVal{K: 'i', I: c.Big + int64(r.Intn(8))}
		}
		if r.Chance(12) {
			// large magnitudes with tiny differences (timestamps, ids, int32 boundary); all below 2^53
			base := []int64{1700000000, 2147483640, 1000000000000, 1000000000000000, 9007199254740992}[r.Intn(5)]
			return ATVal{K: 'i', I: base + int64(r.Intn(8))}
		}
		return ATVal{K: 'i', I: int64(r.Intn(12))}
	}
	return ATVal{K: 's', S: atStrings[r.Intn(len(atStrings))]}
}

func genRows(r *Rng, sc *ATSchema, n int) [][]ATVal {
	seen := map[string]bool{}
	var rows [][]ATVal
	if sc.Collide && len(sc.PK) == 2 && sc.Cols[sc.PK[0]].Typ == 'i' && sc.Cols[sc.PK[1]].Typ == 'i' {
		for _, kp := range [][2]int64{{1, 10}, {11, 0}, {1, 11}, {11, 1}} {
			row := make([]ATVal, len(sc.Cols))
			for i, c := range sc.Cols {
				row[i] = genVal(r, c)
			}
			row[sc.PK[0]] = ATVal{K: 'i', I: kp[0]}
			row[sc.PK[1]] = ATVal{K: 'i', I: kp[1]}
			seen[row[sc.PK[0]].Cell()+"/"+row[sc.PK[1]].Cell()+"/"] = true
			rows = append(rows, row)
		}
		n += 4
	}
	for len(rows) < n {
		row := make([]ATVal, len(sc.Cols))
		for i, c := range sc.Cols {
			row[i] = genVal(r, c)
		}
		k := ""
		for _, p := range sc.PK {
			if row[p].K == 'N' {
				row[p] = ATVal{K: 'i', I: int64(r.Intn(12))}
				if sc.Cols[p].Typ == 's' {
					row[p] = ATVal{K: 's', S: "k"}
				}
			}
			if sc.Auto && row[p].K == 'i' && row[p].I == 0 {
				row[p].I = 20 // 0 in an AUTO_INCREMENT column means "generate"
			}
			if row[p].K == 's' && row[p].S == "" {
				row[p].S = "e" // an empty key would be indistinguishable from "no key" in the lock-key text
			}
			k += row[p].Cell() + "/"
		}
		if seen[k] {
			if len(seen) >= 10 {
				break
			}
			continue
		}
		seen[k] = true
		rows = append(rows, row)
	}
	return rows
}

func rowTok(row []ATVal) string {
	var sb strings.Builder
	sb.WriteString("r:")
	for _, v := range row {
		sb.WriteString(v.Tok())
	}
	return sb.String()
}

func toMemRow(row []ATVal) memdb.Row {
	out := make(memdb.Row, len(row))
	for i, v := range row {
		out[i] = v.Go()
	}
	return out
}

// operand for a comparison on column c: literal or argument of the column's type
func genOperand(r *Rng, sc *ATSchema, c int, st *ATStmt, o ATGenOpts) *ATExpr {
	v := genVal(r, ATCol{Typ: sc.Cols[c].Typ})
	if sc.Cols[c].Typ == 's' {
		// a string LITERAL in WHERE loses its quotes in the image query (known finding): use an argument
		if o.AllowFindings && r.Chance(15) {
			st.Classes = append(st.Classes, "string_literal_in_where")
			return &ATExpr{K: 'l', Val: v}
		}
		return &ATExpr{K: 'a', Val: v, Wrap: r.Chance(6)}
	}
	if r.Bool() {
		return &ATExpr{K: 'a', Val: v, Wrap: r.Chance(6)}
	}
	return &ATExpr{K: 'l', Val: v}
}

func genAtom(r *Rng, sc *ATSchema, st *ATStmt, o ATGenOpts) *ATCond {
	c := r.Intn(len(sc.Cols))
	col := &ATExpr{K: 'c', Col: c}
	switch x := r.Intn(10); {
	case x < 5:
		ops := "enlmgh"
		if sc.Cols[c].Typ == 's' {
			ops = "en"
		}
		return &ATCond{Op: "cmp:" + string(ops[r.Intn(len(ops))]), E: []*ATExpr{col, genOperand(r, sc, c, st, o)}}
	case x < 7:
		n := 1 + r.Intn(3)
		es := []*ATExpr{col}
		for i := 0; i < n; i++ {
			es = append(es, genOperand(r, sc, c, st, o))
		}
		return &ATCond{Op: "I", E: es}
	case x < 8 && sc.Cols[c].Typ == 'i':
		return &ATCond{Op: "B", E: []*ATExpr{col, genOperand(r, sc, c, st, o), genOperand(r, sc, c, st, o)}}
	case x < 9 && sc.Cols[c].Nullable:
		return &ATCond{Op: "Z", E: []*ATExpr{col}}
	default:
		return &ATCond{Op: "cmp:e", E: []*ATExpr{col, genOperand(r, sc, c, st, o)}}
	}
}

func condHasArg(c *ATCond) bool {
	if c == nil {
		return false
	}
	for _, e := range c.E {
		if e.K == 'a' {
			return true
		}
	}
	return condHasArg(c.A) || condHasArg(c.B)
}

// WHERE clause that prints without needing parentheses: an OR of ANDs of atoms; optionally (finding
// shapes) parentheses or NOT around sub-conditions that contain arguments
func genWhere(r *Rng, sc *ATSchema, st *ATStmt, o ATGenOpts) *ATCond {
	if r.Chance(8) {
		return &ATCond{Op: "T"}
	}
	mkAnd := func() *ATCond {
		c := genAtom(r, sc, st, o)
		for r.Chance(35) {
			c = &ATCond{Op: "A", A: c, B: genAtom(r, sc, st, o)}
		}
		return c
	}
	c := mkAnd()
	for r.Chance(25) {
		c = &ATCond{Op: "O", A: c, B: mkAnd()}
	}
	if r.Chance(12) {
		inner := c
		wrapped := &ATCond{Op: "P", A: inner}
		if condHasArg(inner) {
			if !o.AllowFindings {
				return c
			}
			st.Classes = append(st.Classes, "params_under_parentheses")
		}
		c = wrapped
		if r.Chance(40) {
			c = &ATCond{Op: "A", A: c, B: genAtom(r, sc, st, o)}
		}
	} else if r.Chance(8) {
		inner := genAtom(r, sc, st, o)
		if condHasArg(inner) {
			if !o.AllowFindings {
				return c
			}
			st.Classes = append(st.Classes, "params_under_not")
		}
		if c.Op == "O" {
			// NOT x AND atom OR rest  parses as  ((NOT x) AND atom) OR rest
			c = &ATCond{Op: "O", A: &ATCond{Op: "A", A: &ATCond{Op: "!", A: inner}, B: genAtom(r, sc, st, o)}, B: c}
		} else {
			c = &ATCond{Op: "A", A: &ATCond{Op: "!", A: inner}, B: c}
		}
	}
	return c
}

func genUpdate(r *Rng, sc *ATSchema, o ATGenOpts) *ATStmt {
	st := &ATStmt{Kind: 'U'}
	var nonPK []int
	for i := range sc.Cols {
		if !sc.isPK(i) {
			nonPK = append(nonPK, i)
		}
	}
	n := 1 + r.Intn(len(nonPK))
	if n > 2 {
		n = 2
	}
	used := map[int]bool{}
	for i := 0; i < n; i++ {
		c := nonPK[r.Intn(len(nonPK))]
		if used[c] {
			continue
		}
		used[c] = true
		v := genVal(r, sc.Cols[c])
		e := &ATExpr{K: 'l', Val: v}
		if r.Bool() || v.K == 's' {
			e = &ATExpr{K: 'a', Val: v}
		}
		s := ATSet{Col: c, Plus: -1, E: e}
		if sc.Cols[c].Typ == 'i' && v.K == 'i' && r.Chance(35) {
			s.Plus = c
		}
		st.Sets = append(st.Sets, s)
	}
	st.Where = genWhere(r, sc, st, o)
	if o.PKUpdates && sc.Cols[sc.PK[0]].Typ == 'i' && r.Chance(20) {
		// an UPDATE that names a key column: `SET id = v WHERE id = v` changes nothing and is fine,
		// `SET id = <fresh key> WHERE id = v` would move the row and must be rejected
		v := ATVal{K: 'i', I: int64(r.Intn(12))}
		nv := v
		if r.Chance(65) {
			nv = ATVal{K: 'i', I: int64(900 + r.Intn(50))}
		}
		pk := sc.PK[0]
		e := &ATExpr{K: 'l', Val: nv}
		if r.Bool() {
			e = &ATExpr{K: 'a', Val: nv}
		}
		set := ATSet{Col: pk, Plus: -1, E: e}
		if r.Bool() {
			st.Sets = append([]ATSet{set}, st.Sets...)
		} else {
			st.Sets = append(st.Sets, set)
		}
		st.Where = &ATCond{Op: "cmp:e", E: []*ATExpr{{K: 'c', Col: pk}, {K: 'a', Val: v}}}
	}
	return st
}

func genDelete(r *Rng, sc *ATSchema, o ATGenOpts) *ATStmt {
	st := &ATStmt{Kind: 'D'}
	st.Where = genWhere(r, sc, st, o)
	return st
}

// genInsert inserts rows with keys not in `taken` (taken is updated)
func genInsert(r *Rng, sc *ATSchema, taken map[string]bool, o ATGenOpts) *ATStmt {
	st := &ATStmt{Kind: 'X'}
	n := 1
	if r.Chance(30) {
		n = 2 + r.Intn(2)
	}
	useArgs := r.Chance(60)
	if sc.Auto && r.Chance(70) {
		st.AutoForm = []byte{'o', 'n', 'o', 'n', 'o', 'n', 'd', 'z'}[r.Intn(8)]
	}
	for i := 0; i < n; i++ {
		var row []ATVal
		for tries := 0; tries < 50; tries++ {
			row = make([]ATVal, len(sc.Cols))
			for k, c := range sc.Cols {
				row[k] = genVal(r, c)
				if sc.isPK(k) && row[k].K == 'i' {
					row[k].I = int64(12 + r.Intn(40))
					if sc.Auto {
						row[k].I += 5000 // explicit keys far above whatever the counter hands out
					}
				}
				if sc.isPK(k) && row[k].K == 'N' {
					row[k] = ATVal{K: 'i', I: int64(12 + r.Intn(40))}
				}
				if sc.isPK(k) && c.Typ == 's' && (row[k].K != 's' || row[k].S == "" || r.Chance(60)) {
					row[k] = ATVal{K: 's', S: fmt.Sprintf("n%d", 12+r.Intn(40))}
				}
			}
			// a negative key now and then (as a literal the parser delivers it as the negation of a number)
			if p0 := sc.PK[0]; !sc.Auto && row[p0].K == 'i' && (i+n+len(sc.Cols))%4 == 0 {
				row[p0].I = -row[p0].I
			}
			k := ""
			for _, p := range sc.PK {
				k += row[p].Cell() + "/"
			}
			if !taken[k] {
				taken[k] = true
				break
			}
		}
		var es []*ATExpr
		for _, v := range row {
			if useArgs && v.K != 'N' {
				es = append(es, &ATExpr{K: 'a', Val: v})
			} else if v.K == 's' && !useArgs {
				es = append(es, &ATExpr{K: 'l', Val: v})
			} else {
				es = append(es, &ATExpr{K: 'l', Val: v})
			}
		}
		if useArgs && r.Chance(8) {
			// a placeholder inside a function call that gives it back, in a column before the key or after it
			for k := range sc.Cols {
				if !sc.isPK(k) && es[k].K == 'a' && r.Bool() {
					es[k].Wrap = true
					break
				}
			}
		}
		if o.AllowFindings && useArgs && r.Chance(12) {
			// the text '?' as a LITERAL among placeholders: the executor takes it for a placeholder (known finding;
			// a unit test pins exactly that reading of a "?" value)
			for k, c := range sc.Cols {
				if c.Typ == 's' && !sc.isPK(k) && es[k].K == 'a' {
					es[k] = &ATExpr{K: 'l', Val: ATVal{K: 's', S: "?"}}
					st.Classes = append(st.Classes, "question_mark_literal_in_insert")
					break
				}
			}
		}
		st.Rows = append(st.Rows, es)
	}
	return st
}

// genUpsert: INSERT … ON DUPLICATE KEY UPDATE over 1-3 rows whose keys are new, existing, or a mix
// (the mix is an open known finding: one UPDATE item for the whole batch)
func genUpsert(r *Rng, sc *ATSchema, existing [][]ATVal, taken map[string]bool) *ATStmt {
	st := genInsert(r, sc, taken, ATGenOpts{})
	st.Kind = 'Y'
	st.AutoForm = 0 // an upsert names its keys
	nNew, nOld := 0, 0
	for ri := range st.Rows {
		if len(existing) > 0 && r.Chance(50) {
			src := existing[r.Intn(len(existing))]
			for _, p := range sc.PK {
				st.Rows[ri][p] = &ATExpr{K: st.Rows[ri][p].K, Val: src[p]}
				if st.Rows[ri][p].K == 'c' {
					st.Rows[ri][p].K = 'l'
				}
			}
			nOld++
		} else {
			nNew++
		}
	}
	// two rows of one statement must not carry the same key (the second would update the first)
	seen := map[string]bool{}
	var rows [][]*ATExpr
	for _, row := range st.Rows {
		k := ""
		for _, p := range sc.PK {
			k += row[p].Val.Cell() + "/"
		}
		if !seen[k] {
			seen[k] = true
			rows = append(rows, row)
		}
	}
	st.Rows = rows
	for ci := range sc.Cols {
		if sc.isPK(ci) || !r.Chance(70) {
			continue
		}
		if r.Bool() {
			st.Assign = append(st.Assign, ATUpAssign{Col: ci})
		} else {
			v := genVal(r, sc.Cols[ci])
			st.Assign = append(st.Assign, ATUpAssign{Col: ci, Lit: &v})
		}
	}
	if len(st.Assign) == 0 {
		for ci := range sc.Cols {
			if !sc.isPK(ci) {
				st.Assign = append(st.Assign, ATUpAssign{Col: ci})
				break
			}
		}
	}
	if nNew > 0 && nOld > 0 {
		st.Classes = append(st.Classes, "upsert_mixed_batch")
	}
	return st
}

func genStmt(r *Rng, sc *ATSchema, taken map[string]bool, o ATGenOpts) *ATStmt {
	if o.Upserts && r.Chance(20) {
		st := genUpsert(r, sc, o.Existing, taken)
		switch (len(st.Rows)*3 + len(st.Assign) + len(sc.Cols)) % 5 {
		case 0:
			// INSERT IGNORE: rows whose key exists are left alone
			st.Form, st.Assign = 'i', nil
			st.Classes = nil
			return st
		case 1:
			// REPLACE: rows whose key exists are replaced (every non-key column takes the new value)
			st.Form, st.Assign = 'r', nil
			st.Classes = nil
			return st
		}
		if o.PKUpdates && (len(st.Rows)+len(st.Assign)+len(sc.Cols))%2 == 0 {
			// ON DUPLICATE KEY UPDATE names a key column (id = VALUES(id)): refused by the proxy before it runs
			st.Assign = append(st.Assign, ATUpAssign{Col: sc.PK[0]})
		}
		return st
	}
	var st *ATStmt
	switch r.Intn(10) {
	case 0, 1, 2, 3:
		st = genUpdate(r, sc, o)
	case 4, 5, 6:
		return genInsert(r, sc, taken, o)
	default:
		st = genDelete(r, sc, o)
	}
	if o.OrderLimit && r.Chance(30) {
		addOrderLimit(r, sc, st)
	}
	return st
}
