package main

import (
	"fmt"
	"os"
	"reflect"
	"runtime/debug"
	"strings"
	"time"

	"seata.apache.org/seata-go/pkg/protocol/branch"
	"seata.apache.org/seata-go/pkg/protocol/codec"
	"seata.apache.org/seata-go/pkg/protocol/message"
	serror "seata.apache.org/seata-go/pkg/util/errors"
)

// FV is the abstract field value shared with the Lean model (Codec/Layout.lean `FVal`).
type FV struct {
	K byte // 'n' nat, 'i' int64, 'b' bytes, 't' bool
	N uint64
	I int64
	B []byte
	T bool
}

func (v FV) String() string {
	switch v.K {
	case 'n':
		return fmt.Sprintf("n:%d", v.N)
	case 'i':
		return fmt.Sprintf("i:%d", v.I)
	case 'b':
		return "b:" + hx(v.B)
	default:
		if v.T {
			return "t:1"
		}
		return "t:0"
	}
}

func fvs(vs []FV) string {
	s := make([]string, len(vs))
	for i, v := range vs {
		s[i] = v.String()
	}
	return strings.Join(s, " ")
}

func nat(n uint64) FV  { return FV{K: 'n', N: n} }
func i64(i int64) FV   { return FV{K: 'i', I: i} }
func byt(b []byte) FV  { return FV{K: 'b', B: b} }
func boo(t bool) FV    { return FV{K: 't', T: t} }
func (v FV) S() string { return string(v.B) }

// field kinds of the harness' own description of each message (used only to GENERATE values and to
// evaluate limits; the expected bytes come from the Lean table, not from here)
type fk struct {
	kind string // rc u8 u16 u32 i64 str1 str2 str4 msg bool ms
}

type kindDesc struct {
	name    string
	fields  []string
	build   func(v []FV) interface{}
	extract func(m interface{}) []FV
}

func resHead(v []FV) message.AbstractTransactionResponse {
	return message.AbstractTransactionResponse{
		AbstractResultMessage: message.AbstractResultMessage{ResultCode: message.ResultCode(v[0].N), Msg: v[1].S()},
		TransactionErrorCode:  serror.TransactionErrorCode(v[2].N),
	}
}
func resHeadX(r message.AbstractTransactionResponse) []FV {
	return []FV{nat(uint64(r.ResultCode)), byt([]byte(r.Msg)), nat(uint64(byte(r.TransactionErrorCode)))}
}
func branchEnd(v []FV) message.AbstractBranchEndRequest {
	return message.AbstractBranchEndRequest{Xid: v[0].S(), BranchId: v[1].I, BranchType: branch.BranchType(v[2].N),
		ResourceId: v[3].S(), ApplicationData: v[4].B}
}
func branchEndX(r message.AbstractBranchEndRequest) []FV {
	return []FV{byt([]byte(r.Xid)), i64(r.BranchId), nat(uint64(byte(r.BranchType))), byt([]byte(r.ResourceId)), byt(r.ApplicationData)}
}
func branchEndR(v []FV) message.AbstractBranchEndResponse {
	return message.AbstractBranchEndResponse{AbstractTransactionResponse: resHead(v), Xid: v[3].S(), BranchId: v[4].I,
		BranchStatus: branch.BranchStatus(v[5].N)}
}
func branchEndRX(r message.AbstractBranchEndResponse) []FV {
	return append(resHeadX(r.AbstractTransactionResponse), byt([]byte(r.Xid)), i64(r.BranchId), nat(uint64(byte(r.BranchStatus))))
}
func globalEnd(v []FV) message.AbstractGlobalEndRequest {
	return message.AbstractGlobalEndRequest{Xid: v[0].S(), ExtraData: v[1].B}
}
func globalEndX(r message.AbstractGlobalEndRequest) []FV {
	return []FV{byt([]byte(r.Xid)), byt(r.ExtraData)}
}
func globalEndR(v []FV) message.AbstractGlobalEndResponse {
	return message.AbstractGlobalEndResponse{AbstractTransactionResponse: resHead(v), GlobalStatus: message.GlobalStatus(v[3].N)}
}
func globalEndRX(r message.AbstractGlobalEndResponse) []FV {
	return append(resHeadX(r.AbstractTransactionResponse), nat(uint64(byte(r.GlobalStatus))))
}
func ident(v []FV) message.AbstractIdentifyRequest {
	return message.AbstractIdentifyRequest{Version: v[0].S(), ApplicationId: v[1].S(), TransactionServiceGroup: v[2].S(), ExtraData: v[3].B}
}
func identX(r message.AbstractIdentifyRequest) []FV {
	return []FV{byt([]byte(r.Version)), byt([]byte(r.ApplicationId)), byt([]byte(r.TransactionServiceGroup)), byt(r.ExtraData)}
}
func identR(v []FV) message.AbstractIdentifyResponse {
	return message.AbstractIdentifyResponse{Identified: v[0].T, Version: v[1].S()}
}
func identRX(r message.AbstractIdentifyResponse) []FV {
	return []FV{boo(r.Identified), byt([]byte(r.Version))}
}
func breg(v []FV) message.BranchRegisterRequest {
	return message.BranchRegisterRequest{Xid: v[0].S(), BranchType: branch.BranchType(v[1].N), ResourceId: v[2].S(),
		LockKey: v[3].S(), ApplicationData: v[4].B}
}
func bregX(r message.BranchRegisterRequest) []FV {
	return []FV{byt([]byte(r.Xid)), nat(uint64(byte(r.BranchType))), byt([]byte(r.ResourceId)), byt([]byte(r.LockKey)), byt(r.ApplicationData)}
}

var (
	fBranchEnd  = []string{"str2", "i64", "u8", "str2", "str4"}
	fBranchEndR = []string{"rc", "msg", "u8", "str2", "i64", "u8"}
	fGlobalEnd  = []string{"str2", "str2"}
	fGlobalEndR = []string{"rc", "msg", "u8", "u8"}
	fIdent      = []string{"str2", "str2", "str2", "str2"}
	fIdentR     = []string{"bool", "str2"}
	fBreg       = []string{"str2", "u8", "str2", "str4", "str4"}
)

var c12Kinds = []kindDesc{
	{"GlobalBegin", []string{"ms", "str2"},
		func(v []FV) interface{} {
			return message.GlobalBeginRequest{Timeout: time.Duration(v[0].N), TransactionName: v[1].S()}
		},
		func(m interface{}) []FV {
			r := m.(message.GlobalBeginRequest)
			return []FV{nat(uint64(r.Timeout)), byt([]byte(r.TransactionName))}
		}},
	{"GlobalBeginResult", []string{"rc", "msg", "u8", "str2", "str2"},
		func(v []FV) interface{} {
			return message.GlobalBeginResponse{AbstractTransactionResponse: resHead(v), Xid: v[3].S(), ExtraData: v[4].B}
		},
		func(m interface{}) []FV {
			r := m.(message.GlobalBeginResponse)
			return append(resHeadX(r.AbstractTransactionResponse), byt([]byte(r.Xid)), byt(r.ExtraData))
		}},
	{"BranchCommit", fBranchEnd,
		func(v []FV) interface{} { return message.BranchCommitRequest{AbstractBranchEndRequest: branchEnd(v)} },
		func(m interface{}) []FV { return branchEndX(m.(message.BranchCommitRequest).AbstractBranchEndRequest) }},
	{"BranchCommitResult", fBranchEndR,
		func(v []FV) interface{} {
			return message.BranchCommitResponse{AbstractBranchEndResponse: branchEndR(v)}
		},
		func(m interface{}) []FV {
			return branchEndRX(m.(message.BranchCommitResponse).AbstractBranchEndResponse)
		}},
	{"BranchRollback", fBranchEnd,
		func(v []FV) interface{} { return message.BranchRollbackRequest{AbstractBranchEndRequest: branchEnd(v)} },
		func(m interface{}) []FV {
			return branchEndX(m.(message.BranchRollbackRequest).AbstractBranchEndRequest)
		}},
	{"BranchRollbackResult", fBranchEndR,
		func(v []FV) interface{} {
			return message.BranchRollbackResponse{AbstractBranchEndResponse: branchEndR(v)}
		},
		func(m interface{}) []FV {
			return branchEndRX(m.(message.BranchRollbackResponse).AbstractBranchEndResponse)
		}},
	{"GlobalCommit", fGlobalEnd,
		func(v []FV) interface{} { return message.GlobalCommitRequest{AbstractGlobalEndRequest: globalEnd(v)} },
		func(m interface{}) []FV { return globalEndX(m.(message.GlobalCommitRequest).AbstractGlobalEndRequest) }},
	{"GlobalCommitResult", fGlobalEndR,
		func(v []FV) interface{} {
			return message.GlobalCommitResponse{AbstractGlobalEndResponse: globalEndR(v)}
		},
		func(m interface{}) []FV {
			return globalEndRX(m.(message.GlobalCommitResponse).AbstractGlobalEndResponse)
		}},
	{"GlobalRollback", fGlobalEnd,
		func(v []FV) interface{} { return message.GlobalRollbackRequest{AbstractGlobalEndRequest: globalEnd(v)} },
		func(m interface{}) []FV {
			return globalEndX(m.(message.GlobalRollbackRequest).AbstractGlobalEndRequest)
		}},
	{"GlobalRollbackResult", fGlobalEndR,
		func(v []FV) interface{} {
			return message.GlobalRollbackResponse{AbstractGlobalEndResponse: globalEndR(v)}
		},
		func(m interface{}) []FV {
			return globalEndRX(m.(message.GlobalRollbackResponse).AbstractGlobalEndResponse)
		}},
	{"BranchRegister", fBreg,
		func(v []FV) interface{} { return breg(v) },
		func(m interface{}) []FV { return bregX(m.(message.BranchRegisterRequest)) }},
	{"BranchRegisterResult", []string{"rc", "msg", "u8", "i64"},
		func(v []FV) interface{} {
			return message.BranchRegisterResponse{AbstractTransactionResponse: resHead(v), BranchId: v[3].I}
		},
		func(m interface{}) []FV {
			r := m.(message.BranchRegisterResponse)
			return append(resHeadX(r.AbstractTransactionResponse), i64(r.BranchId))
		}},
	{"BranchReport", []string{"str2", "i64", "u8", "str2", "str4", "u8"},
		func(v []FV) interface{} {
			return message.BranchReportRequest{Xid: v[0].S(), BranchId: v[1].I, Status: branch.BranchStatus(v[2].N),
				ResourceId: v[3].S(), ApplicationData: v[4].B, BranchType: branch.BranchType(v[5].N)}
		},
		func(m interface{}) []FV {
			r := m.(message.BranchReportRequest)
			return []FV{byt([]byte(r.Xid)), i64(r.BranchId), nat(uint64(byte(r.Status))), byt([]byte(r.ResourceId)),
				byt(r.ApplicationData), nat(uint64(byte(r.BranchType)))}
		}},
	{"BranchReportResult", []string{"rc", "msg", "u8"},
		func(v []FV) interface{} { return message.BranchReportResponse{AbstractTransactionResponse: resHead(v)} },
		func(m interface{}) []FV {
			return resHeadX(m.(message.BranchReportResponse).AbstractTransactionResponse)
		}},
	{"GlobalStatus", fGlobalEnd,
		func(v []FV) interface{} { return message.GlobalStatusRequest{AbstractGlobalEndRequest: globalEnd(v)} },
		func(m interface{}) []FV { return globalEndX(m.(message.GlobalStatusRequest).AbstractGlobalEndRequest) }},
	{"GlobalStatusResult", fGlobalEndR,
		func(v []FV) interface{} {
			return message.GlobalStatusResponse{AbstractGlobalEndResponse: globalEndR(v)}
		},
		func(m interface{}) []FV {
			return globalEndRX(m.(message.GlobalStatusResponse).AbstractGlobalEndResponse)
		}},
	{"GlobalReport", []string{"str2", "str2", "u8"},
		func(v []FV) interface{} {
			return message.GlobalReportRequest{AbstractGlobalEndRequest: globalEnd(v), GlobalStatus: message.GlobalStatus(v[2].N)}
		},
		func(m interface{}) []FV {
			r := m.(message.GlobalReportRequest)
			return append(globalEndX(r.AbstractGlobalEndRequest), nat(uint64(byte(r.GlobalStatus))))
		}},
	{"GlobalReportResult", fGlobalEndR,
		func(v []FV) interface{} {
			return message.GlobalReportResponse{AbstractGlobalEndResponse: globalEndR(v)}
		},
		func(m interface{}) []FV {
			return globalEndRX(m.(message.GlobalReportResponse).AbstractGlobalEndResponse)
		}},
	{"GlobalLockQuery", fBreg,
		func(v []FV) interface{} { return message.GlobalLockQueryRequest{BranchRegisterRequest: breg(v)} },
		func(m interface{}) []FV { return bregX(m.(message.GlobalLockQueryRequest).BranchRegisterRequest) }},
	{"GlobalLockQueryResult", []string{"rc", "msg", "u8", "bool"},
		func(v []FV) interface{} {
			return message.GlobalLockQueryResponse{AbstractTransactionResponse: resHead(v), Lockable: v[3].T}
		},
		func(m interface{}) []FV {
			r := m.(message.GlobalLockQueryResponse)
			return append(resHeadX(r.AbstractTransactionResponse), boo(r.Lockable))
		}},
	{"RegClt", fIdent,
		func(v []FV) interface{} { return message.RegisterTMRequest{AbstractIdentifyRequest: ident(v)} },
		func(m interface{}) []FV { return identX(m.(message.RegisterTMRequest).AbstractIdentifyRequest) }},
	{"RegCltResult", fIdentR,
		func(v []FV) interface{} { return message.RegisterTMResponse{AbstractIdentifyResponse: identR(v)} },
		func(m interface{}) []FV { return identRX(m.(message.RegisterTMResponse).AbstractIdentifyResponse) }},
	{"RegRm", []string{"str2", "str2", "str2", "str2", "str4"},
		func(v []FV) interface{} {
			return message.RegisterRMRequest{AbstractIdentifyRequest: ident(v), ResourceIds: v[4].S()}
		},
		func(m interface{}) []FV {
			r := m.(message.RegisterRMRequest)
			return append(identX(r.AbstractIdentifyRequest), byt([]byte(r.ResourceIds)))
		}},
	{"RegRmResult", fIdentR,
		func(v []FV) interface{} { return message.RegisterRMResponse{AbstractIdentifyResponse: identR(v)} },
		func(m interface{}) []FV { return identRX(m.(message.RegisterRMResponse).AbstractIdentifyResponse) }},
}

var boundaryLens = []int{0, 0, 1, 2, 3, 7, 16, 127, 128, 255, 256, 257, 1000, 32766, 32767, 32768, 40000, 65535, 65536, 70000}

func genBytes(r *Rng, maxLen int) []byte {
	var n int
	// long values are kept to about 8% of the strings: every case is written to the line protocol in hex
	// (a thorough run with 30% long strings produced a 19 GB case file)
	switch x := r.Intn(100); {
	case x < 6:
		n = boundaryLens[13+r.Intn(len(boundaryLens)-13)] // 32766 .. 70000
	case x < 8:
		n = r.Intn(70000)
	case x < 30:
		n = boundaryLens[r.Intn(13)] // 0 .. 1000
	default:
		n = r.Intn(40)
	}
	if maxLen > 0 && n > maxLen {
		n = maxLen
	}
	switch r.Intn(4) {
	case 0: // ascii
		b := make([]byte, n)
		for i := range b {
			b[i] = byte(32 + r.Intn(95))
		}
		return b
	case 1: // multi-byte utf-8 (cut to n bytes: may end inside a rune, still a valid Go string)
		src := []byte("事务分支回滚ßéñ→😀")
		b := make([]byte, n)
		off := r.Intn(len(src))
		for i := range b {
			b[i] = src[(off+i)%len(src)]
		}
		return b
	default:
		return r.Bytes(n)
	}
}

func genField(r *Rng, kind string, inLimit bool) FV {
	switch kind {
	case "rc":
		if inLimit || r.Chance(90) {
			return nat(uint64(r.Intn(2)))
		}
		return nat(uint64(r.Intn(256)))
	case "u8":
		return nat(uint64(r.Intn(256)))
	case "i64":
		switch r.Intn(6) {
		case 0:
			return i64(-1 << 63)
		case 1:
			return i64(1<<63 - 1)
		case 2:
			return i64(-1)
		case 3:
			return i64(int64(r.Intn(1000)))
		default:
			return i64(int64(r.U64()))
		}
	case "str2":
		if inLimit {
			return byt(genBytes(r, 65535))
		}
		return byt(genBytes(r, 0))
	case "str4":
		if r.Chance(1) {
			// a field behind a 32-bit length may be longer than a default-sized frame (max-msg-len 102400 is a
			// setting of the transport, not of this layout): lock keys and application data grow that long
			n := []int{102400, 102401, 150000, 262144}[r.Intn(4)]
			b := make([]byte, n)
			for i := range b {
				b[i] = byte('a' + (i*7+n)%26)
			}
			return byt(b)
		}
		return byt(genBytes(r, 0))
	case "msg":
		return byt(genBytes(r, 0))
	case "bool":
		return boo(r.Bool())
	case "ms":
		switch r.Intn(7) {
		case 0:
			return nat(0)
		case 5: // whole milliseconds (what callers configure): small and across the range
			return nat(uint64(r.Intn(300000)) * 1000000)
		case 6:
			return nat((r.U64() % 4294967296) * 1000000)
		case 1:
			return nat(uint64(r.Intn(1000000))) // sub-millisecond
		case 2:
			return nat(4294967295*1000000 + uint64(r.Intn(1000000))) // top of the u32 ms range
		default:
			return nat(r.U64() % (4294967296 * 1000000))
		}
	}
	panic(kind)
}

func withinField(kind string, v FV) bool {
	switch kind {
	case "str2":
		return len(v.B) < 65536
	case "ms":
		return v.N/1000000 < 4294967296
	}
	return true
}

// harness-side normalisation (the oracle's notion of "equal message"): message dropped unless
// Failed and cut to 32767; duration floored to the millisecond.
func normalizeFields(fields []string, vs []FV) []FV {
	out := make([]FV, len(vs))
	failed := false
	for i, k := range fields {
		v := vs[i]
		switch k {
		case "rc":
			failed = v.N == 0
		case "msg":
			if !failed {
				v = byt(nil)
			} else if len(v.B) > 32767 {
				v = byt(v.B[:32767])
			}
		case "ms":
			v = nat(v.N / 1000000 * 1000000)
		}
		out[i] = v
	}
	return out
}

func safeCall(f func()) (panicked string) {
	defer func() {
		if r := recover(); r != nil {
			panicked = fmt.Sprint(r)
			if os.Getenv("VERIF_DEBUG") != "" {
				fmt.Fprintf(os.Stderr, "PANIC %v\n%s\n", r, debug.Stack())
			}
		}
	}()
	f()
	return ""
}

func init() { props["C12"] = runC12 }

func runC12(c *Ctx) {
	codec.Init()
	cm := codec.GetCodecManager()
	var prevEnc []byte
	var prevHex, prevID, aliased string
	rng := NewRng(c.Seed)
	per := c.Budget(200, 2500)
	id := 0
	// registry: every kind must have a codec registered under the message's own type code
	for _, kd := range c12Kinds {
		zero := make([]FV, len(kd.fields))
		for i, f := range kd.fields {
			switch f {
			case "i64":
				zero[i] = i64(0)
			case "bool":
				zero[i] = boo(false)
			case "rc", "u8", "ms":
				zero[i] = nat(1)
			default:
				zero[i] = byt(nil)
			}
		}
		msg := kd.build(zero)
		tc := msg.(message.MessageTypeAware).GetTypeCode()
		cd := cm.GetCodec(codec.CodecTypeSeata, tc)
		cid := fmt.Sprintf("reg-%s", kd.name)
		if !c.Want(cid) {
			continue
		}
		obs := fmt.Sprintf("%s=%d", kd.name, tc)
		ok := cd != nil && cd.GetMessageType() == tc
		if cd == nil {
			obs += " unregistered"
		} else if cd.GetMessageType() != tc {
			obs += fmt.Sprintf(" codec-says-%d", cd.GetMessageType())
		}
		c.Out.Case(cid, "C12", "reg "+kd.name, obs)
		c.Out.Oracle(cid, ok, "unregistered_or_wrong_code", obs)
		c.Out.Tag(cid, "nontrivial=1 hash="+cid)
	}
	for _, kd := range c12Kinds {
		nk := per
		if kd.name == "GlobalBegin" {
			nk = per + c.Budget(6000, 60000) // cheap: sweep whole-millisecond timeouts as well
		}
		for n := 0; n < nk; n++ {
			id++
			r := rng.Fork()
			inLimit := r.Chance(85)
			vs := make([]FV, len(kd.fields))
			within := true
			for i, f := range kd.fields {
				vs[i] = genField(r, f, inLimit)
				if kd.name == "GlobalBegin" && f == "ms" && n >= per {
					if k := n - per; k < 4000 {
						vs[i] = nat(uint64(k) * 1000000) // 0..3999 ms consecutively
					} else {
						vs[i] = nat(uint64(r.Intn(4000000)) * 1000000)
					}
				}
				if kd.name == "GlobalBegin" && f == "str2" && n >= per && len(vs[i].B) > 16 {
					vs[i].B = vs[i].B[:16]
				}
				if !withinField(f, vs[i]) {
					within = false
				}
			}
			cid := fmt.Sprintf("%s-%d", kd.name, id)
			if !c.Want(cid) {
				continue
			}
			var enc []byte
			var dec []FV
			msg := kd.build(vs)
			p := safeCall(func() {
				enc = cm.Encode(codec.CodecTypeSeata, msg)
				// the bytes of the PREVIOUS message must not change when another message is encoded
				if prevEnc != nil && hx(prevEnc) != prevHex && aliased == "" {
					aliased = fmt.Sprintf("the encoding of %s changed when %s was encoded", prevID, cid)
				}
				prevEnc, prevHex, prevID = enc, hx(enc), cid
				if enc != nil && within {
					back := cm.Decode(codec.CodecTypeSeata, enc)
					if back != nil {
						dec = kd.extract(back)
					}
				}
			})
			obs := ""
			switch {
			case p != "":
				obs = "crash " + strings.ReplaceAll(p, " ", "_")
			case enc == nil:
				obs = "no-codec"
			default:
				d := "-"
				if within {
					if dec == nil {
						d = "decode-nil"
					} else {
						d = fvs(dec)
					}
				}
				w := 0
				if within {
					w = 1
				}
				obs = fmt.Sprintf("%s | %s | within=%d", hx(enc), d, w)
			}
			c.Out.Case(cid, "C12", "enc "+kd.name+" "+fvs(vs), obs)
			// oracle on the implementation alone: decode(encode m) == normalize m, and decoding is
			// insensitive to bytes after the body (it consumed exactly the body)
			if within {
				want := normalizeFields(kd.fields, vs)
				ok := p == "" && dec != nil && reflect.DeepEqual(fvs(dec), fvs(want))
				detail := ""
				if ok {
					var dec2 []FV
					p2 := safeCall(func() {
						back := cm.Decode(codec.CodecTypeSeata, append(append([]byte{}, enc...), 0xAB, 0xCD, 0xEF))
						if back != nil {
							dec2 = kd.extract(back)
						}
					})
					if p2 != "" || fvs(dec2) != fvs(dec) {
						ok = false
						detail = "trailing bytes change the decoded value"
					}
				} else {
					detail = fmt.Sprintf("kind=%s decoded=%.200s want=%.200s panic=%s", kd.name, fvs(dec), fvs(want), p)
				}
				if ok && aliased != "" {
					ok, detail = false, "encoded_bytes_not_owned_by_the_caller: "+aliased
					aliased = ""
				}
				c.Out.Oracle(cid, ok, "roundtrip", detail)
			}
			nt := 0
			for i, f := range kd.fields {
				if (f == "str2" || f == "str4" || f == "msg") && len(vs[i].B) > 0 {
					nt = 1
				}
				if f == "msg" && vs[0].N == 0 {
					c.Out.Count(fmt.Sprintf("msglen.%s", lenBucket(len(vs[i].B))))
				}
			}
			if len(kd.fields) > 0 && nt == 0 {
				for _, v := range vs {
					if v.K == 'i' || v.K == 'n' {
						nt = 1
					}
				}
			}
			c.Out.Tag(cid, fmt.Sprintf("nontrivial=%d within=%v", nt, within))
			c.Out.Count("kind." + kd.name)
			if within {
				c.Out.Count("within.yes")
			} else {
				c.Out.Count("within.no")
			}
		}
	}
}

func lenBucket(n int) string {
	switch {
	case n == 0:
		return "0"
	case n < 128:
		return "1-127"
	case n < 256:
		return "128-255"
	case n < 32768:
		return "256-32767"
	default:
		return "32768+"
	}
}
