package main

import (
	"context"
	"errors"
	"fmt"
	"time"

	"seata.apache.org/seata-go/pkg/protocol/branch"

	"verifharness/memdb"
)

// runC01MidResult: a query of the client's own (an image query in phase one, the read of the current rows in a
// rollback) whose RESULT breaks off in the middle: the query call succeeds, reading a row fails (a lock wait
// timeout, a connection lost while the rows arrive). Whatever the client makes of it, it must not take the rows
// it got for all the rows there are: a statement that answers ok and a rollback that answers rollbacked mean the
// table is restored (cases c01-e*).
func runC01MidResult(c *Ctx, w *ATWorld) {
	n := 0
	for _, where := range []string{"p1-first-locking-read", "p1-first-plain-read", "rb-first-locking-read", "rb-second-locking-read"} {
		for _, atRow := range []int{1, 2} {
			for qi := 0; qi < 3; qi++ {
				n++
				cid := fmt.Sprintf("c01-e%d", n)
				if !c.Want(cid) {
					continue
				}
				w.SetUndoConfig("json", "None", true, false)
				t := w.NewTableName("mid")
				w.Eng.CreateTable(memdb.TableDef{Name: t, Cols: []memdb.Column{{Name: "id", Type: memdb.TBigInt}, {Name: "v", Type: memdb.TBigInt, Nullable: true}}, PK: []string{"id"}})
				w.Eng.InsertRows(t, memdb.Row{int64(1), int64(10)}, memdb.Row{int64(2), int64(20)}, memdb.Row{int64(3), int64(30)})
				q := []string{"UPDATE " + t + " SET v = v + 1 WHERE id <= 3", "DELETE FROM " + t + " WHERE id <= 3",
					"INSERT INTO " + t + " (id, v) VALUES (4, 40), (5, 50), (6, 60)"}[qi]
				before := w.DumpTable(t)
				w.Eng.Exec("DELETE FROM undo_log")
				w.coord.ResetLog()
				kind := map[string]string{"p1-first-locking-read": "select_for_update", "p1-first-plain-read": "select"}[where]
				if kind != "" {
					w.Eng.AddFault(memdb.Fault{Kind: kind, Table: t, Nth: 1, AtRow: atRow})
				}
				var execErr error
				var xid string
				crash := safeCall(func() {
					xid, _ = InGlobalTx(cid, func(ctx context.Context) error {
						_, execErr = w.DB.ExecContext(ctx, q)
						return errors.New("roll the global transaction back")
					})
				})
				fired := w.Eng.FaultsFired()
				w.Eng.ClearFaults()
				mid := w.DumpTable(t)
				if where == "rb-first-locking-read" {
					w.Eng.AddFault(memdb.Fault{Kind: "select_for_update", Table: t, Nth: 1, AtRow: atRow})
				} else if where == "rb-second-locking-read" {
					w.Eng.AddFault(memdb.Fault{Kind: "select_for_update", Table: t, Nth: 2, AtRow: atRow})
				}
				// the coordinator repeats a rollback that was not answered rollbacked
				allOK := false
				brs := w.coord.RegisteredBranches(xid)
				for attempt := 0; attempt < 3 && !allOK; attempt++ {
					allOK = true
					for k := len(brs) - 1; k >= 0; k-- {
						st, ok, _ := w.coord.RollbackBranch(w.coord.LastSession(), brs[k], 5*time.Second)
						if !ok || st != branch.BranchStatusPhasetwoRollbacked {
							allOK = false
						}
					}
				}
				fired += w.Eng.FaultsFired()
				w.Eng.ClearFaults()
				final := w.DumpTable(t)
				class := ""
				switch {
				case crash != "":
					class = "crash"
				case execErr != nil && mid != before:
					class = "failed_statement_left_its_writes"
				case allOK && final != before:
					class = "rollbacked_but_not_restored"
				case !allOK:
					class = "rollback_never_answered_rollbacked"
				}
				c.Out.Case(cid, "C01", "skip", "skip")
				c.Out.Oracle(cid, class == "", class, fmt.Sprintf("%s breaks off at row %d: %s | err=%v fired=%d before=%s mid=%s final=%s crash=%s", where, atRow, q, execErr, fired, before, mid, final, crash))
				c.Out.Tag(cid, fmt.Sprintf("nontrivial=%d", b2i(fired > 0)))
				c.Out.Count("mid-result." + where)
				w.Eng.Exec("DELETE FROM undo_log")
				w.Eng.DropTable(t)
			}
		}
	}
}
