package main

import (
	"context"
	"fmt"
	"time"

	"verifharness/memdb"
)

func init() { props["SMOKE"] = runSmoke }

func runSmoke(c *Ctx) {
	w := GetATWorld()
	w.SetUndoConfig("json", "None", true, false)
	t := w.NewTableName("acct")
	w.Eng.CreateTable(memdb.TableDef{Name: t, Cols: []memdb.Column{{Name: "id", Type: memdb.TBigInt}, {Name: "name", Type: memdb.TVarchar, Length: 32, Nullable: true}, {Name: "n", Type: memdb.TInt, Nullable: true}}, PK: []string{"id"}})
	w.Eng.InsertRows(t, memdb.Row{int64(1), "a", int64(10)}, memdb.Row{int64(2), "b", int64(20)})
	w.Eng.ResetJournal()
	w.coord.ResetLog()
	xid, err := InGlobalTx("smoke", func(ctx context.Context) error {
		if _, e := w.DB.ExecContext(ctx, "UPDATE "+t+" SET n = n + ?, name = 'zz' WHERE id = ?", 5, 1); e != nil {
			return e
		}
		if _, e := w.DB.ExecContext(ctx, "INSERT INTO "+t+" (id, name, n) VALUES (?, ?, ?)", 3, "c", 30); e != nil {
			return e
		}
		if _, e := w.DB.ExecContext(ctx, "DELETE FROM "+t+" WHERE n > 15 AND id < 3"); e != nil {
			return e
		}
		return fmt.Errorf("force rollback")
	})
	fmt.Println("xid", xid, "err", err)
	for _, e := range w.Eng.Journal() {
		fmt.Println("J", e.Conn, e.Kind, e.Table, e.SQL, e.Args, e.Err)
	}
	fmt.Println("table", w.DumpTable(t))
	fmt.Println("undo", w.UndoLogRows())
	brs := w.coord.RegisteredBranches(xid)
	for i := len(brs) - 1; i >= 0; i-- {
		st, ok, pn := w.coord.RollbackBranch(w.coord.LastSession(), brs[i], 3*time.Second)
		fmt.Println("rollback", brs[i].BranchID, brs[i].LockKey, "->", st, ok, pn)
	}
	fmt.Println("table", w.DumpTable(t))
	fmt.Println("undo", w.UndoLogRows())
	for _, l := range w.coord.Snapshot() {
		fmt.Println("C", l.Kind, l.Xid)
	}
}
