package main

import (
	"context"
	"database/sql"
	"fmt"
	"regexp"
	"seata.apache.org/seata-go/pkg/protocol/message"
	"strings"

	"github.com/go-sql-driver/mysql"

	"verifharness/memdb"
)

func init() { props["C16"] = runC16 }

type c16Step struct {
	opts *sql.TxOptions // begin: the options of the local transaction (nil: default)
	kind string         // exec prep query multi raw ddl begin commit rollback
	st   *ATStmt
	sql  string // with {T} for the table name (query, multi, raw, ddl)
	args []interface{}
}

type c16Run struct {
	outs    []string // one per step
	journal []string // normalised statements that reached the database
	coord   int      // coordinator requests seen during the run
	final   string
	crash   string
}

func errText(err error) string {
	if err == nil {
		return ""
	}
	var me *mysql.MySQLError
	if e, ok := err.(*mysql.MySQLError); ok {
		me = e
	}
	if me != nil {
		return fmt.Sprintf("err:%d", me.Number)
	}
	return "err:" + strings.SplitN(err.Error(), ":", 2)[0]
}

func scanAll(rows *sql.Rows) string {
	defer rows.Close()
	cols, _ := rows.Columns()
	var out []string
	for rows.Next() {
		vals := make([]interface{}, len(cols))
		ptrs := make([]interface{}, len(cols))
		for i := range vals {
			ptrs[i] = &vals[i]
		}
		if err := rows.Scan(ptrs...); err != nil {
			return errText(err)
		}
		cells := make([]string, len(vals))
		for i, v := range vals {
			cells[i] = fmt.Sprint(normScan(v))
		}
		out = append(out, strings.Join(cells, ","))
	}
	if err := rows.Err(); err != nil {
		return errText(err)
	}
	return "rows:" + strings.Join(cols, ",") + ":" + strings.Join(out, ";")
}

// runProgram executes the steps on db against table `table`.
func runC16Program(ctx context.Context, w *ATWorld, db *sql.DB, sc *ATSchema, table string, steps []c16Step) *c16Run {
	res := &c16Run{}
	scT := *sc
	scT.Table = table
	w.Eng.ResetJournal()
	c0 := len(w.coord.Snapshot())
	res.crash = safeCall(func() {
		var tx *sql.Tx
		type execer interface {
			ExecContext(ctx context.Context, q string, args ...interface{}) (sql.Result, error)
			QueryContext(ctx context.Context, q string, args ...interface{}) (*sql.Rows, error)
			PrepareContext(ctx context.Context, q string) (*sql.Stmt, error)
		}
		cur := func() execer {
			if tx != nil {
				return tx
			}
			return db
		}
		showRes := func(r sql.Result, err error) string {
			if err != nil {
				return errText(err)
			}
			n, _ := r.RowsAffected()
			id, _ := r.LastInsertId()
			return fmt.Sprintf("ok:%d:id=%d", n, id)
		}
		for _, s := range steps {
			q := strings.ReplaceAll(s.sql, "{T}", table)
			args := s.args
			if s.st != nil {
				q, args, _ = s.st.Render(&scT)
			}
			switch s.kind {
			case "exec", "raw", "multi", "ddl":
				res.outs = append(res.outs, showRes(cur().ExecContext(ctx, q, args...)))
			case "prep":
				ps, err := cur().PrepareContext(ctx, q)
				if err != nil {
					res.outs = append(res.outs, "prepare-"+errText(err))
					continue
				}
				res.outs = append(res.outs, showRes(ps.ExecContext(ctx, args...)))
				ps.Close()
			case "query":
				rows, err := cur().QueryContext(ctx, q, args...)
				if err != nil {
					res.outs = append(res.outs, errText(err))
				} else {
					res.outs = append(res.outs, scanAll(rows))
				}
			case "begin":
				if tx != nil {
					res.outs = append(res.outs, "-")
					continue
				}
				t, err := db.BeginTx(ctx, s.opts)
				if err != nil {
					res.outs = append(res.outs, errText(err))
				} else {
					tx = t
					res.outs = append(res.outs, "-")
				}
			case "commit", "rollback":
				if tx == nil {
					res.outs = append(res.outs, "-")
					continue
				}
				var err error
				if s.kind == "commit" {
					err = tx.Commit()
				} else {
					err = tx.Rollback()
				}
				tx = nil
				if err != nil {
					res.outs = append(res.outs, errText(err))
				} else {
					res.outs = append(res.outs, "-")
				}
			}
		}
		if tx != nil {
			tx.Rollback()
		}
	})
	for _, e := range w.Eng.Journal() {
		if e.Kind == "connect" || e.Kind == "close" || strings.EqualFold(e.Table, "columns") || strings.EqualFold(e.Table, "statistics") {
			continue
		}
		// the table name in whatever way the statement spelled it: as created, UPPER, `quoted`, db.table, `db`.`table`
		sqlN := regexp.MustCompile("(?i)(`?"+regexp.QuoteMeta(w.DBName)+"`?\\.)?`?\\b"+regexp.QuoteMeta(table)+"`?").ReplaceAllString(e.SQL, "{T}")
		res.journal = append(res.journal, fmt.Sprintf("%s|%s|%v|%s", e.Kind, sqlN, e.Args, e.Err))
	}
	res.coord = len(w.coord.Snapshot()) - c0
	scT2 := scT
	res.final = w.DumpTable(scT2.Table)
	return res
}

func runC16(c *Ctx) {
	runC16Mixed(c)
	w := GetATWorld()
	runC16WaitOptions(c, w)
	runC16ResultSets(c, w)
	runC16BadConnection(c, w)
	runC16Ping(c, w)
	runC16SelectListArg(c, w)
	xa := w.OpenXA()
	rng := NewRng(c.Seed)
	n := c.Budget(200, 20000)
	// statements that touch exactly / about a multiple of the image queries' IN-list size (1000 keys)
	bigs := []int{1000, 1001}
	if c.Tier == "thorough" {
		bigs = []int{999, 1000, 1001, 2000, 2001, 3000}
	}
	for i := 0; i < n+len(bigs); i++ {
		r := rng.Fork()
		cid := fmt.Sprintf("c16-%d", i)
		o := ATGenOpts{NullableVals: r.Chance(40), StrPK: r.Chance(25), AllowFindings: r.Chance(15)}
		cs := genATCase(r, w, cid, o)
		sc := cs.Schema
		if len(cs.Rows) < 2 {
			cs.Rows = genRows(r, sc, 2+r.Intn(4))
		}
		big := 0
		if i >= n {
			big = bigs[i-n]
			sc = &ATSchema{Table: w.NewTableName("big"), Cols: []ATCol{{Name: "id", Typ: 'i'}, {Name: "c1", Typ: 'i'}}, PK: []int{0}}
			cs.Schema = sc
			cs.Rows = nil
			for k := 0; k < big; k++ {
				cs.Rows = append(cs.Rows, []ATVal{{K: 'i', I: int64(k + 1)}, {K: 'i', I: int64(k % 7)}})
			}
		}
		taken := map[string]bool{}
		for _, row := range cs.Rows {
			k := ""
			for _, p := range sc.PK {
				k += row[p].Cell() + "/"
			}
			taken[k] = true
		}
		mode := []string{"at-outside", "at-outside", "at-inside", "at-inside", "xa-outside"}[r.Intn(5)]
		// the target driver declines the fast path for statements with arguments (go-sql-driver/mysql
		// without interpolateParams=true): database/sql falls back to prepare + execute
		skipFast := mode != "at-inside" && r.Chance(35)
		// ---- the program
		var steps []c16Step
		var classes []string
		modelable := true
		inTx := false
		nSteps := 2 + r.Intn(5)
		if big > 0 {
			mode = "at-inside"
			skipFast = false
			nSteps = 0
			steps = append(steps, c16Step{kind: "exec", st: &ATStmt{Kind: 'U', Sets: []ATSet{{Col: 1, Plus: 1, E: &ATExpr{K: 'l', Val: ATVal{K: 'i', I: 1}}}}, Where: &ATCond{Op: "T"}}})
			steps = append(steps, c16Step{kind: "exec", st: &ATStmt{Kind: 'D', Where: &ATCond{Op: "cmp:m", E: []*ATExpr{{K: 'c', Col: 0}, {K: 'l', Val: ATVal{K: 'i', I: int64(big)}}}}}})
		}
		names := make([]string, len(sc.Cols))
		for k, col := range sc.Cols {
			names[k] = col.Name
		}
		for k := 0; k < nSteps; k++ {
			switch x := r.Intn(20); {
			case x < 8:
				st := genStmt(r, sc, taken, o)
				classes = append(classes, st.Classes...)
				kind := "exec"
				if r.Chance(30) {
					kind = "prep"
				}
				steps = append(steps, c16Step{kind: kind, st: st})
			case x < 11:
				st := &ATStmt{Kind: 'D', Where: genWhere(r, sc, &ATStmt{Kind: 'D'}, ATGenOpts{})}
				wsql, wargs := st.WhereSQL(sc)
				steps = append(steps, c16Step{kind: "query", sql: "SELECT " + strings.Join(names, ", ") + " FROM {T}" + wsql + " ORDER BY " + names[0] + func() string {
					if len(sc.PK) > 1 {
						return ", " + names[1]
					}
					return ""
				}(), args: wargs})
			case x < 13:
				if !inTx {
					st := c16Step{kind: "begin"}
					// the application asks for an isolation level or a read-only transaction
					switch (i + k) % 4 {
					case 2:
						st.opts = &sql.TxOptions{Isolation: sql.LevelSerializable}
					case 3:
						st.opts = &sql.TxOptions{Isolation: sql.LevelRepeatableRead, ReadOnly: mode != "at-inside"}
					}
					steps = append(steps, st)
					inTx = true
				}
			case x < 16:
				if inTx {
					if r.Chance(60) {
						steps = append(steps, c16Step{kind: "commit"})
					} else {
						steps = append(steps, c16Step{kind: "rollback"})
					}
					inTx = false
				}
			case x < 18:
				// two literal-only statements in one Exec
				scT := &ATSchema{Table: "{T}", Cols: sc.Cols, PK: sc.PK}
				last := len(sc.Cols) - 1
				upd := func() string {
					row := cs.Rows[r.Intn(len(cs.Rows))]
					q, _, _ := (&ATStmt{Kind: 'U', Sets: []ATSet{{Col: last, Plus: -1, E: &ATExpr{K: 'l', Val: genVal(r, sc.Cols[last])}}},
						Where: &ATCond{Op: "cmp:e", E: []*ATExpr{{K: 'c', Col: sc.PK[0]}, {K: 'l', Val: row[sc.PK[0]]}}}}).Render(scT)
					return q
				}
				del := func() string {
					row := cs.Rows[r.Intn(len(cs.Rows))]
					q, _, _ := (&ATStmt{Kind: 'D', Where: &ATCond{Op: "cmp:e", E: []*ATExpr{{K: 'c', Col: sc.PK[0]}, {K: 'l', Val: row[sc.PK[0]]}}}}).Render(scT)
					return q
				}
				var q string
				switch r.Intn(3) {
				case 0:
					q = upd() + "; " + upd()
				case 1:
					q = del() + "; " + del()
				default:
					q = upd() + "; " + del()
					if mode == "at-inside" {
						classes = append(classes, "multi_statement_mixed_kinds")
					}
				}
				if sc.Cols[sc.PK[0]].Typ == 's' && mode == "at-inside" {
					classes = append(classes, "string_literal_in_where")
				}
				steps = append(steps, c16Step{kind: "multi", sql: q})
				modelable = false
			default:
				steps = append(steps, c16Step{kind: "ddl", sql: "CREATE TABLE IF NOT EXISTS {T}_aux (id BIGINT NOT NULL, PRIMARY KEY (id))"})
				steps = append(steps, c16Step{kind: "ddl", sql: "DROP TABLE IF EXISTS {T}_aux"})
				modelable = false
			}
		}
		if !c.Want(cid) {
			continue
		}
		// every fourth program runs on the second data source of the process (another server, another schema);
		// the programs in between run on the first one, after the second has been opened
		w := w
		if i%4 == 3 && mode != "xa-outside" {
			w = GetATWorldB() // same database name on another server
			if i%8 == 7 {
				w = GetATWorldC() // another database name on a third server
			}
		}
		sc.DBName = w.DBName
		// the statements spell the table name in different ways (as created, UPPER, `quoted`, db.table, `db`.`table`)
		for k := range steps {
			if st := steps[k].st; st != nil && big == 0 {
				if v := (i*7 + k*3) % 10; v >= 5 && v < 9 {
					st.Spell = v - 4
				}
				// an alias for the table (UPDATE t AS a SET a.c = ...), an INSERT without a column list
				st.Alias = (i+2*k)%5 == 1
				st.NoCols = (i+3*k)%4 == 2
			}
		}
		c.Out.Count("datasource." + w.DBName + w.Tag)
		w.SetUndoConfig(cs.Ser, cs.Comp, cs.Validate, cs.OnlyCare)
		// ---- identical tables for the proxy and for the bare driver
		tA, tB := sc.Table, sc.Table+"b"
		for _, tn := range []string{tA, tB} {
			s2 := *sc
			s2.Table = tn
			s2.Create(w.Eng)
			for _, row := range cs.Rows {
				w.Eng.InsertRows(tn, toMemRow(row))
			}
		}
		w.Eng.SetSkipFastPath(skipFast)
		bare := runC16Program(context.Background(), w, w.Bare, sc, tB, steps)
		var prox *c16Run
		switch mode {
		case "at-outside":
			prox = runC16Program(context.Background(), w, w.DB, sc, tA, steps)
		case "xa-outside":
			prox = runC16Program(context.Background(), w, xa, sc, tA, steps)
		default:
			if i%5 == 2 {
				// the coordinator cannot be reached for the phase-one reports of this program: that is the
				// coordinator's business (it will ask), the statements' results must not depend on it
				w.coord.Script = func(s *FakeSession, kind string, m message.RpcMessage) Action {
					if _, ok := m.Body.(message.BranchReportRequest); ok {
						return Action{TransportE: true}
					}
					return Action{}
				}
				c.Out.Count("reports-refused")
			}
			InGlobalTx(cid, func(ctx context.Context) error {
				prox = runC16Program(ctx, w, w.DB, sc, tA, steps)
				return nil
			})
			w.coord.Script = nil
		}
		w.Eng.SetSkipFastPath(false)
		// ---- observation for the model: results of the modelled steps and the final table
		var mtoks, mobs []string
		for k, s := range steps {
			switch s.kind {
			case "exec", "prep":
				_, _, tok := s.st.Render(sc)
				mtoks = append(mtoks, tok)
				o := "crash"
				if k < len(prox.outs) {
					o = prox.outs[k]
				}
				if strings.HasPrefix(o, "ok:") {
					o = strings.Join(strings.Split(o, ":")[:2], ":")
				} else {
					o = "err"
				}
				mobs = append(mobs, o)
			case "begin":
				mtoks = append(mtoks, "B")
				mobs = append(mobs, "-")
			case "commit":
				mtoks = append(mtoks, "C")
				mobs = append(mobs, "-")
			case "rollback":
				mtoks = append(mtoks, "R")
				mobs = append(mobs, "-")
			}
		}
		if modelable {
			c.Out.Case(cid, "C16", strings.Join(append(append([]string{"tr"}, cs.headerToks()[2:]...), mtoks...), " "), strings.Join(mobs, " ")+" t="+strings.ReplaceAll(prox.final, tA, ""))
		} else {
			c.Out.Case(cid, "C16", "skip", "skip")
		}
		// ---- oracle: proxy against bare
		class, detail := "", ""
		fail := func(cl, d string) {
			if class == "" {
				class, detail = cl, d
			}
		}
		if prox.crash != "" || bare.crash != "" {
			fail("crash", prox.crash+bare.crash)
		}
		for k := range steps {
			if k < len(prox.outs) && k < len(bare.outs) && prox.outs[k] != bare.outs[k] {
				cl := "different_result"
				if steps[k].kind == "prep" {
					cl = "prepared_statement_different_result"
				}
				fail(cl, fmt.Sprintf("step %d (%s): proxy %s, bare driver %s", k, steps[k].kind, prox.outs[k], bare.outs[k]))
			}
		}
		if len(prox.outs) != len(bare.outs) {
			fail("different_result", "step counts differ")
		}
		if prox.final != bare.final {
			fail("different_data", fmt.Sprintf("proxy leaves %s, bare driver %s", prox.final, bare.final))
		}
		if mode != "at-inside" {
			if prox.coord != 0 {
				fail("coordinator_traffic_outside_global_tx", fmt.Sprint(prox.coord))
			}
			if strings.Join(prox.journal, " ## ") != strings.Join(bare.journal, " ## ") {
				fail("different_statements_reached_the_database", fmt.Sprintf("proxy: %s ### bare: %s", strings.Join(prox.journal, " ## "), strings.Join(bare.journal, " ## ")))
			}
		} else {
			// every statement of the bare run reaches the database, in order, through the proxy too
			k := 0
			for _, e := range prox.journal {
				if k < len(bare.journal) && e == bare.journal[k] {
					k++
				}
			}
			if k != len(bare.journal) && class == "" {
				fail("business_statements_missing_or_reordered", fmt.Sprintf("proxy: %s ### bare: %s", strings.Join(prox.journal, " ## "), strings.Join(bare.journal, " ## ")))
			}
		}
		c.Out.Oracle(cid, class == "", class, fmt.Sprintf("%s | mode=%s | proxy=%v | bare=%v", detail, mode, prox.outs, bare.outs))
		tag := "nontrivial=1"
		if !modelable {
			tag += " fragment=0"
		}
		if len(classes) > 0 {
			tag += " known=" + strings.Join(uniqStrings(classes), ",")
		}
		c.Out.Tag(cid, tag)
		if big > 0 {
			c.Out.Count(fmt.Sprintf("big.%d", big))
		}
		c.Out.Count("mode." + mode)
		if skipFast {
			c.Out.Count("target-driver-declines-fast-path")
		}
		for _, s := range steps {
			c.Out.Count("step." + s.kind)
		}
		w.Eng.Exec("DELETE FROM undo_log")
		w.Eng.DropTable(tA)
		w.Eng.DropTable(tB)
	}
	_ = memdb.Fault{}
}
