package main

import (
	"context"
	"database/sql"
	"errors"
	"fmt"
	"strings"
	"time"

	"seata.apache.org/seata-go/pkg/protocol/branch"
	"seata.apache.org/seata-go/pkg/protocol/message"

	"verifharness/memdb"
)

func init() { props["C10"] = runC10 }

func runC10(c *Ctx) {
	w := GetATWorld()
	rng := NewRng(c.Seed)
	n := c.Budget(100, 3000)
	for i := 0; i < n; i++ {
		r := rng.Fork()
		cid := fmt.Sprintf("c10-%d", i)
		o := ATGenOpts{NullableVals: r.Chance(40), Upserts: r.Chance(25)}
		cs := genATCase(r, w, cid, o)
		if len(cs.Rows) < 2 {
			cs.Rows = genRows(r, cs.Schema, 3)
		}
		early := r.Chance(30) // deliver the rollback of one branch BEFORE its undo log is flushed
		if !c.Want(cid) {
			continue
		}
		sc := cs.Schema
		run := &ATRun{w: w, c: cs}
		if early {
			runC10Early(c, w, cs, run, r)
		} else {
			run.PhaseOne(nil)
		}
		run.Snap()
		class, detail := "", ""
		fail := func(cl, d string) {
			if class == "" {
				class, detail = cl, d
			}
		}
		// ---- for every branch (last first): a failure at each statement index of the rollback
		// transaction, then clean deliveries, repeated
		for bi := len(run.Branches) - 1; bi >= 0; bi-- {
			maxK := 14
			if c.Tier != "thorough" {
				maxK = 10
			}
			for k := 1; k <= maxK; k++ {
				before := w.DumpTable(sc.Table)
				undoBefore := strings.Join(w.UndoLogRows(), " ")
				fired0 := w.Eng.FaultsFired()
				w.Eng.ResetJournal()
				w.Eng.AddFault(memdb.Fault{Nth: k})
				okRB := run.Rollback(bi)
				w.Eng.ClearFaults()
				fired := w.Eng.FaultsFired() > fired0
				if fired {
					// a failure reported by the closing ROLLBACK (or by closing the connection) of a transaction
					// that had nothing to undo is not a failure of the undo: the delivery counts as clean
					for _, e := range w.Eng.Journal() {
						if strings.Contains(e.Err, "injected") && (e.Kind == "rollback" || e.Kind == "close") {
							fired = false
						}
					}
				}
				// replace the generic observation by what the model is told: faulted or not
				run.Obs = run.Obs[:len(run.Obs)-1]
				if fired {
					run.Toks = append(run.Toks, fmt.Sprintf("RBx%d", bi+1))
					st := "rb:fail"
					if okRB {
						st = "rb:ok"
					}
					run.Obs = append(run.Obs, st, run.snapshot())
					if okRB {
						fail("rollbacked_despite_failure", fmt.Sprintf("branch %d: statement %d of the undo transaction failed but the branch was answered rollbacked", bi+1, k))
					}
					if w.DumpTable(sc.Table) != before || strings.Join(w.UndoLogRows(), " ") != undoBefore {
						fail("partial_compensation", fmt.Sprintf("branch %d: a failure at statement %d left the database changed", bi+1, k))
					}
				} else {
					// the fault index lies beyond the transaction (or hit its closing ROLLBACK): a clean delivery
					run.Toks = append(run.Toks, fmt.Sprintf("RB%d", bi+1))
					st := "rb:fail"
					if okRB {
						st = "rb:ok"
					}
					run.Obs = append(run.Obs, st, run.snapshot())
					if w.Eng.FaultsFired() == fired0 {
						break
					}
				}
			}
			// 1..3 further deliveries of the same rollback
			ref := ""
			for d := 0; d < 1+r.Intn(3); d++ {
				okRB := run.Rollback(bi)
				run.Toks = append(run.Toks, fmt.Sprintf("RB%d", bi+1))
				run.Obs = append(run.Obs, run.snapshot())
				state := w.DumpTable(sc.Table)
				if d == 0 {
					ref = state
				} else if state != ref {
					fail("not_idempotent", fmt.Sprintf("branch %d: repeated rollback changed the table again", bi+1))
				}
				if !okRB && class == "" {
					// a repeated delivery must keep answering rollbacked once it succeeded
					prevOK := false
					for _, o := range run.Obs[:len(run.Obs)-2] {
						if o == "rb:ok" {
							prevOK = true
						}
					}
					_ = prevOK
				}
			}
		}
		final := w.DumpTable(sc.Table)
		if final != run.Initial && class == "" && !strings.Contains(strings.Join(run.Obs, " "), "committed") {
			allOK := true
			for _, o := range run.Obs {
				if o == "rb:fail" {
					allOK = allOK && false
				}
			}
			_ = allOK
		}
		if run.crash != "" {
			fail("crash", run.crash)
		}
		if run.lateCommit != "" {
			fail("late_phase_one_committed_after_rollback", run.lateCommit)
		}
		op := strings.Join(append(cs.headerToks(), run.Toks...), " ")
		c.Out.Case(cid, "C10", op, strings.Join(run.Obs, " "))
		c.Out.Oracle(cid, class == "", class, detail+" | "+strings.Join(run.Obs, " "))
		c.Out.Tag(cid, fmt.Sprintf("nontrivial=%d", b2i(len(run.Branches) > 0)))
		c.Out.Count(fmt.Sprintf("early-rollback.%v", early))
		w.Eng.Exec("DELETE FROM undo_log")
		w.Eng.DropTable(sc.Table)
		c.Out.Count(fmt.Sprintf("branches.%d", len(run.Branches)))
	}
}

// runC10Early runs phase one with the coordinator rolling ONE local transaction's branch back between
// its registration and its undo-log flush (the reply to BranchRegister is held until the client has
// answered the BranchRollbackRequest).
func runC10Early(c *Ctx, w *ATWorld, cs *ATCase, run *ATRun, r *Rng) {
	sc := cs.Schema
	w.SetUndoConfig(cs.Ser, cs.Comp, cs.Validate, cs.OnlyCare)
	sc.Create(w.Eng)
	for _, row := range cs.Rows {
		w.Eng.InsertRows(sc.Table, toMemRow(row))
	}
	run.Initial = w.DumpTable(sc.Table)
	w.coord.ResetLog()
	w.Eng.ResetJournal()
	target := r.Intn(len(cs.Locals))
	deliveries := 1 + r.Intn(3)
	// in a third of the cases the coordinator, which has finished the global transaction already, also refuses
	// the PhaseoneFailed report of the late local transaction (every attempt)
	reportFails := (target+deliveries+len(cs.Rows)+len(cs.Locals))%3 == 0
	run.crash = safeCall(func() {
		run.xid, _ = InGlobalTx(cs.ID, func(ctx context.Context) error {
			for li, ltx := range cs.Locals {
				earlyStatus := ""
				if li == target {
					run.Toks = append(run.Toks, "LR")
					w.coord.Script = func(s *FakeSession, kind string, m message.RpcMessage) Action {
						if b, ok := m.Body.(message.BranchRegisterRequest); ok && b.Xid == tmXID(ctx) {
							id := w.coord.NewBranchID()
							info := BranchInfo{Xid: b.Xid, BranchID: id, ResourceID: b.ResourceId, LockKey: b.LockKey, Type: b.BranchType}
							// the early rollback is delivered 1-3 times (coordinator retries): the marker must survive
							earlyStatus = "ok"
							for d := 0; d < deliveries; d++ {
								st, got, _ := w.coord.RollbackBranch(s, info, 5*time.Second)
								if !(got && st == branch.BranchStatusPhasetwoRollbacked) {
									earlyStatus = "fail"
								}
							}
							return Action{Body: message.BranchRegisterResponse{AbstractTransactionResponse: okHead(), BranchId: id}}
						}
						if b, ok := m.Body.(message.BranchReportRequest); ok && b.Xid == tmXID(ctx) && reportFails {
							return Action{TransportE: true}
						}
						return Action{}
					}
				} else {
					run.Toks = append(run.Toks, "L")
				}
				nBefore := len(w.coord.RegisteredBranches(tmXID(ctx)))
				tableBefore := w.DumpTable(sc.Table)
				var err error
				if ltx.Explicit {
					var tx *sql.Tx
					tx, err = w.DB.BeginTx(ctx, nil)
					if err == nil {
						for _, st := range ltx.Stmts {
							q, args, tok := st.Render(sc)
							run.Toks = append(run.Toks, tok)
							if err == nil {
								_, err = tx.ExecContext(ctx, q, args...)
							}
						}
						if err != nil {
							tx.Rollback()
						} else {
							err = tx.Commit()
						}
					}
				} else {
					q, args, tok := ltx.Stmts[0].Render(sc)
					run.Toks = append(run.Toks, tok)
					_, err = w.DB.ExecContext(ctx, q, args...)
				}
				w.coord.Script = nil
				brs := w.coord.RegisteredBranches(tmXID(ctx))
				registered := len(brs) > nBefore
				if registered {
					run.Branches = append(run.Branches, brs[len(brs)-1])
					run.Logs = append(run.Logs, nil)
				}
				switch {
				case li == target && registered:
					res := "late-commit-refused"
					if err == nil {
						res = "committed"
					}
					run.Obs = append(run.Obs, fmt.Sprintf("L:early-rb:%s:%s", earlyStatus, res))
					if open := w.Eng.OpenTxns(); len(open) > 0 && run.lateCommit == "" {
						run.lateCommit = fmt.Sprintf("the late local transaction was refused but its connection went back to the pool inside a transaction (report refused: %v): %v", reportFails, open)
					}
					if after := w.DumpTable(sc.Table); earlyStatus == "ok" && after != tableBefore {
						run.lateCommit = fmt.Sprintf("the branch was answered rollbacked %d time(s) before its undo log was flushed, yet its local transaction committed: %s -> %s", deliveries, tableBefore, after)
					}
				case err != nil:
					run.Obs = append(run.Obs, "L:err")
				case !registered:
					run.Obs = append(run.Obs, "L:ok:nobranch")
				default:
					b := brs[len(brs)-1]
					l, has := run.undoLogOf(b)
					run.Logs[len(run.Logs)-1] = l
					img := "noundolog"
					if has {
						img = showUndoLog(sc, l)
					}
					run.Obs = append(run.Obs, fmt.Sprintf("L:ok:k=%s:img=%s", parseLockKeys(b.LockKey), img))
				}
			}
			return errors.New("roll the global transaction back")
		})
	})
	w.coord.Script = nil
	run.Toks = append(run.Toks, "END")
}
