package main

import (
	"context"
	"database/sql"
	"fmt"
	"sort"
	"strings"
	"sync"
	"time"

	"github.com/prometheus/client_golang/prometheus"

	sql2 "seata.apache.org/seata-go/pkg/datasource/sql"
	"seata.apache.org/seata-go/pkg/datasource/sql/datasource"
	"seata.apache.org/seata-go/pkg/protocol/branch"
	"seata.apache.org/seata-go/pkg/rm"

	"verifharness/memdb"
)

func init() { props["C11"] = runC11 }

type c11Res struct {
	id  string
	eng *memdb.Engine
	db  *sql.DB
}

var (
	c11Second     *c11Res
	c11SecondOnce sync.Once
)

// the second AT resource: its own engine behind its own proxy driver
func c11SecondResource() *c11Res {
	c11SecondOnce.Do(func() {
		eng := memdb.New("verifdb2")
		eng.CreateUndoLogTable()
		sql2.VerifRegisterDrivers("verif-at2", "verif-xa2", eng.Driver())
		db, err := sql.Open("verif-at2", "root:pw@tcp(127.0.0.1:3306)/verifdb2?multiStatements=true")
		if err != nil {
			panic(err)
		}
		if err = db.Ping(); err != nil {
			panic(err)
		}
		c11Second = &c11Res{id: "root:pw@tcp(127.0.0.1:3306)/verifdb2", eng: eng, db: db}
	})
	return c11Second
}

type c11Req struct{ res, xid, br int }

func (q c11Req) tok() string { return fmt.Sprintf("%d.%d.%d", q.res, q.xid, q.br) }

func c11Xid(n int) string { return fmt.Sprintf("127.0.0.1:8091:%d", 7000+n) }

func c11Left(rs []*c11Res) string {
	var out []string
	for ri, r := range rs {
		for _, row := range r.eng.Dump("undo_log") {
			var x int
			fmt.Sscanf(strings.TrimPrefix(fmt.Sprint(row[2]), "127.0.0.1:8091:"), "%d", &x)
			out = append(out, fmt.Sprintf("%d.%d.%v", ri+1, x-7000, row[1]))
		}
	}
	sort.Strings(out)
	if len(out) == 0 {
		return "left=-"
	}
	return "left=" + strings.Join(out, ",")
}

func runC11(c *Ctx) {
	w := GetATWorld()
	r2 := c11SecondResource()
	rs := []*c11Res{{id: w.ResourceID, eng: w.Eng, db: w.DB}, r2}
	mgr := datasource.GetDataSourceManager(branch.BranchTypeAT)
	rng := NewRng(c.Seed)
	n := c.Budget(40, 600)
	for i := 0; i < n; i++ {
		r := rng.Fork()
		cid := fmt.Sprintf("c11-%d", i)
		// ---- rows: (resource, xid, branch) with xids and branch ids shared across each other
		var rows []c11Req
		seen := map[c11Req]bool{}
		for k := 0; k < 3+r.Intn(8); k++ {
			q := c11Req{1 + r.Intn(2), 1 + r.Intn(3), 1 + r.Intn(4)}
			if !seen[q] {
				seen[q] = true
				rows = append(rows, q)
			}
		}
		// ---- requests: some of the rows, some without a row, some twice
		var reqs []c11Req
		for _, q := range rows {
			if r.Chance(60) {
				reqs = append(reqs, q)
				if r.Chance(15) {
					reqs = append(reqs, q)
				}
			}
		}
		if r.Chance(30) {
			reqs = append(reqs, c11Req{1 + r.Intn(2), 1 + r.Intn(3), 9})
		}
		for k := len(reqs) - 1; k > 0; k-- {
			j := r.Intn(k + 1)
			reqs[k], reqs[j] = reqs[j], reqs[k]
		}
		conf := sql2.AsyncWorkerConfig{
			BufferLimit:            []int{1, 3, 10, 1000}[r.Intn(4)],
			BufferCleanInterval:    []time.Duration{5 * time.Millisecond, 20 * time.Millisecond, 60 * time.Millisecond}[r.Intn(3)],
			ReceiveChanSize:        []int{1, 4, 100}[r.Intn(3)],
			CommitWorkerCount:      []int{1, 3}[r.Intn(2)],
			CommitWorkerBufferSize: []int{1, 10}[r.Intn(2)],
		}
		fault := []string{"none", "none", "delete-fails-1", "delete-fails-3", "resource-unknown", "prepare-fails-2"}[r.Intn(6)]
		callers := 1 + r.Intn(3)
		// directed: the one commit worker is held up by a slow server, its hand-over buffer and the commit queue
		// fill up, and then a group of requests for a resource that is not known yet has to be put back
		pressure := i%5 == 4
		if pressure {
			rows, reqs = nil, nil
			for _, q := range []c11Req{{1, 1, 1}, {2, 1, 1}, {2, 1, 2}, {2, 2, 1}, {2, 2, 2}, {1, 2, 1}, {1, 2, 2}, {2, 3, 1}, {2, 3, 2}, {2, 3, 3}, {1, 3, 1}} {
				rows = append(rows, q)
				reqs = append(reqs, q)
			}
			conf = sql2.AsyncWorkerConfig{BufferLimit: 3, BufferCleanInterval: 5 * time.Millisecond, ReceiveChanSize: 1, CommitWorkerCount: 1, CommitWorkerBufferSize: 1}
			fault, callers = "resource-unknown", 1+i%2
		}
		// directed: the first resource's database cannot be reached for a while (every connection attempt fails,
		// four times): its requests are to be put back and finished later, and the OTHER resource's requests of
		// the same batch are to be finished as if nothing had happened
		outage := i%7 == 3 && !pressure
		if outage {
			fault = "connect-fails-4"
			hasBoth := map[int]bool{}
			for _, q := range reqs {
				hasBoth[q.res] = true
			}
			for res := 1; res <= 2; res++ {
				if !hasBoth[res] {
					q := c11Req{res, 3, 5 + res}
					rows = append(rows, q)
					reqs = append(reqs, q)
				}
			}
		}
		if !c.Want(cid) {
			continue
		}
		for _, res := range rs {
			res.eng.Exec("DELETE FROM undo_log")
		}
		for _, q := range rows {
			err := rs[q.res-1].eng.Exec("INSERT INTO undo_log (branch_id, xid, context, rollback_info, log_status, log_created, log_modified) VALUES (?, ?, 'serializer=json', 'x', 0, NOW(), NOW())", int64(q.br), c11Xid(q.xid))
			if err != nil {
				panic(err)
			}
		}
		var hidden interface{}
		switch fault {
		case "delete-fails-1":
			rs[0].eng.AddFault(memdb.Fault{Kind: "delete", Table: "undo_log", Nth: 1})
			rs[1].eng.AddFault(memdb.Fault{Kind: "delete", Table: "undo_log", Nth: 1})
		case "delete-fails-3":
			for k := 1; k <= 3; k++ {
				rs[0].eng.AddFault(memdb.Fault{Kind: "delete", Table: "undo_log", Nth: k})
			}
		case "prepare-fails-2":
			rs[0].eng.AddFault(memdb.Fault{Kind: "prepare", Nth: 1})
			rs[0].eng.AddFault(memdb.Fault{Kind: "prepare", Nth: 2})
		case "connect-fails-4":
			// (the pool the commit worker draws from is the resource's own, not the application's handle)
			if v, ok := mgr.GetCachedResources().Load(rs[0].id); ok {
				if res, ok := v.(*sql2.DBResource); ok && res.GetDB() != nil {
					res.GetDB().SetMaxIdleConns(0)
				}
			}
			for k := 1; k <= 4; k++ {
				rs[0].eng.AddFault(memdb.Fault{Kind: "connect", Nth: k})
			}
		case "resource-unknown":
			// the second resource is not (yet) known to the resource manager
			hidden, _ = mgr.GetCachedResources().Load(r2.id)
			mgr.GetCachedResources().Delete(r2.id)
			if pressure {
				rs[0].eng.AddFault(memdb.Fault{Kind: "delete", Table: "undo_log", Nth: 1, Delay: 60 * time.Millisecond})
			}
		}
		worker := sql2.NewAsyncWorker(prometheus.NewRegistry(), conf, mgr)
		answers := make([]string, len(reqs))
		var wg sync.WaitGroup
		crashMu := sync.Mutex{}
		crash := ""
		for g := 0; g < callers; g++ {
			wg.Add(1)
			go func(g int) {
				defer wg.Done()
				for k := g; k < len(reqs); k += callers {
					q := reqs[k]
					pn := safeCall(func() {
						ctx, cancel := context.WithTimeout(context.Background(), 3*time.Second)
						st, err := worker.BranchCommit(ctx, rm.BranchResource{BranchType: branch.BranchTypeAT, Xid: c11Xid(q.xid), BranchId: int64(q.br), ResourceId: rs[q.res-1].id})
						cancel()
						if err == nil && st == branch.BranchStatusPhasetwoCommitted {
							answers[k] = "committed"
						} else {
							answers[k] = fmt.Sprintf("%v/%v", st, err)
						}
					})
					if pn != "" {
						crashMu.Lock()
						crash = pn
						crashMu.Unlock()
					}
				}
			}(g)
		}
		wg.Wait()
		if fault == "resource-unknown" {
			time.Sleep(30 * time.Millisecond)
			mgr.GetCachedResources().Store(r2.id, hidden)
		}
		// ---- expected outcome, then wait for it (and a little longer, to see over-deletion)
		var rowToks, reqToks []string
		for _, q := range rows {
			rowToks = append(rowToks, q.tok())
		}
		for _, q := range reqs {
			reqToks = append(reqToks, q.tok())
		}
		accepted := map[c11Req]bool{}
		for _, q := range reqs {
			accepted[q] = true
		}
		var expect []string
		for _, q := range rows {
			if !accepted[q] {
				expect = append(expect, q.tok())
			}
		}
		sort.Strings(expect)
		want := "left=-"
		if len(expect) > 0 {
			want = "left=" + strings.Join(expect, ",")
		}
		deadline := time.Now().Add(4 * time.Second)
		for time.Now().Before(deadline) && c11Left(rs) != want {
			time.Sleep(5 * time.Millisecond)
		}
		time.Sleep(3 * conf.BufferCleanInterval)
		got := c11Left(rs)
		for _, res := range rs {
			res.eng.ClearFaults()
		}
		if fault == "connect-fails-4" {
			if v, ok := mgr.GetCachedResources().Load(rs[0].id); ok {
				if res, ok := v.(*sql2.DBResource); ok && res.GetDB() != nil {
					res.GetDB().SetMaxIdleConns(2)
				}
			}
		}
		c.Out.Case(cid, "C11", "ac "+strings.Join(rowToks, " ")+" | "+strings.Join(reqToks, " "), got)
		class, detail := "", ""
		if crash != "" {
			class, detail = "crash", crash
		}
		for k, a := range answers {
			if a != "committed" && class == "" {
				class, detail = "not_answered_committed", fmt.Sprintf("request %s: %s", reqs[k].tok(), a)
			}
		}
		if class == "" && got != want {
			gotSet := map[string]bool{}
			for _, t := range strings.Split(strings.TrimPrefix(got, "left="), ",") {
				gotSet[t] = true
			}
			class = "undo_log_not_deleted"
			for _, e := range expect {
				if !gotSet[e] {
					class = "other_branch_undo_log_deleted"
				}
			}
			detail = fmt.Sprintf("want %s got %s", want, got)
		}
		c.Out.Oracle(cid, class == "", class, fmt.Sprintf("%s | conf=%+v fault=%s callers=%d", detail, conf, fault, callers))
		c.Out.Tag(cid, fmt.Sprintf("nontrivial=%d", b2i(len(reqs) > 0)))
		c.Out.Count("fault." + fault)
		c.Out.Count(fmt.Sprintf("pressure=%v", pressure))
		c.Out.Count(fmt.Sprintf("chan=%d", conf.ReceiveChanSize))
		c.Out.Count(fmt.Sprintf("limit=%d", conf.BufferLimit))
	}
}
