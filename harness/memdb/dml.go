package memdb

import (
	"fmt"
	"strings"

	"github.com/arana-db/parser/ast"
	"github.com/arana-db/parser/mysql"
)

func dupErr(t *table, key, display string) error {
	return myErr(1062, "Duplicate entry '%s' for key '%s.%s'", display, t.def.Name, key)
}

func rowsEqual(a, b Row) bool {
	for i := range a {
		if !valuesEqual(a[i], b[i]) {
			return false
		}
	}
	return true
}

// conflicts lists rows visible to tx that collide with vals on the primary
// key or a unique index (excluding the row with key `self`), with the name of
// the first colliding key.
func (s *session) conflicts(t *table, tx *txn, vals Row, key, self string) ([]*rowRec, string) {
	var out []*rowRec
	name := ""
	seen := map[string]bool{}
	if len(t.pk) > 0 && key != self {
		if r := s.lookup(t, tx, key); r != nil {
			out, name = append(out, r), "PRIMARY"
			seen[r.key] = true
		}
	}
	if len(t.uniq) > 0 {
		recs := s.view(t, tx)
		for _, u := range t.uniq {
			for _, r := range recs {
				if r.key != self && !seen[r.key] && uniqMatch(u, r.vals, vals) {
					out = append(out, r)
					seen[r.key] = true
					if name == "" {
						name = u.name
					}
				}
			}
		}
	}
	return out, name
}

func conflictDisplay(t *table, name string, vals Row) string {
	if name == "PRIMARY" {
		return t.displayKey(&rowRec{vals: vals})
	}
	for _, u := range t.uniq {
		if u.name == name {
			return uniqDisplay(u, vals)
		}
	}
	return ""
}

// storeNew locks and writes a brand-new row version (no conflict checks).
func (s *session) storeNew(t *table, tx *txn, vals Row) (*rowRec, error) {
	t.nextRID++
	rec := &rowRec{rid: t.nextRID, vals: vals}
	rec.key = t.keyOf(vals, rec.rid)
	if err := s.lockRow(t, tx, rec); err != nil {
		return nil, err
	}
	for _, u := range t.uniq {
		if err := s.lockUniq(t, tx, u, vals); err != nil {
			return nil, err
		}
	}
	return rec, nil
}

// updateRow replaces old by newVals inside tx; reports whether anything changed.
func (s *session) updateRow(t *table, tx *txn, old *rowRec, newVals Row) (bool, error) {
	if err := s.lockRow(t, tx, old); err != nil {
		return false, err
	}
	if rowsEqual(old.vals, newVals) {
		return false, nil
	}
	rec := &rowRec{rid: old.rid, vals: newVals}
	rec.key = t.keyOf(newVals, old.rid)
	if rec.key != old.key {
		if err := s.lockRow(t, tx, rec); err != nil {
			return false, err
		}
	}
	for _, u := range t.uniq {
		if err := s.lockUniq(t, tx, u, newVals); err != nil {
			return false, err
		}
	}
	if c, name := s.conflicts(t, tx, newVals, rec.key, old.key); len(c) > 0 {
		if err := s.lockRow(t, tx, c[0]); err != nil {
			return false, err
		}
		return false, dupErr(t, name, conflictDisplay(t, name, newVals))
	}
	if rec.key != old.key {
		tx.put(tkey(t), old.key, nil)
	}
	tx.put(tkey(t), rec.key, rec)
	t.bumpAuto(newVals)
	return true, nil
}

func (s *session) deleteRow(t *table, tx *txn, rec *rowRec) error {
	if err := s.lockRow(t, tx, rec); err != nil {
		return err
	}
	tx.put(tkey(t), rec.key, nil)
	return nil
}

// assign evaluates SET-style assignments against vals (left to right, each
// seeing the values assigned before it) and returns the new row.
func (c *evalCtx) assign(list []*ast.Assignment, vals Row) (Row, error) {
	out := copyRow(vals)
	c.row = out
	defer func() { c.row = nil }()
	for _, a := range list {
		i, err := c.column(a.Column)
		if err != nil {
			return nil, err
		}
		col := &c.t.def.Cols[i]
		v, err := c.eval(a.Expr)
		if err != nil {
			return nil, err
		}
		if _, isDef := v.(defaultMarker); isDef {
			if out[i], err = defaultAt(col, c.now); err != nil {
				return nil, err
			}
			continue
		}
		if out[i], err = coerce(col, v); err != nil {
			return nil, err
		}
	}
	return out, nil
}

func (s *session) writable(refs *ast.TableRefsClause) (*table, string, error) {
	t, alias, err := s.resolve(refs)
	if err != nil {
		return nil, "", err
	}
	if t.virtual {
		return nil, "", myErr(1044, "Access denied for user to database 'information_schema'")
	}
	return t, alias, nil
}

// ---- INSERT ----

func (s *session) execInsert(st *ast.InsertStmt, args []interface{}) (*outcome, error) {
	if st.Select != nil {
		return nil, unsupported("INSERT ... SELECT")
	}
	t, alias, err := s.writable(st.Table)
	if err != nil {
		return nil, err
	}
	c := &evalCtx{s: s, args: args, t: t, alias: alias, now: s.e.clock().UTC()}
	var cols []int
	lists := st.Lists
	switch {
	case len(st.Setlist) > 0:
		var row []ast.ExprNode
		for _, a := range st.Setlist {
			i, err := c.column(a.Column)
			if err != nil {
				return nil, err
			}
			cols, row = append(cols, i), append(row, a.Expr)
		}
		lists = [][]ast.ExprNode{row}
	case len(st.Columns) > 0:
		for _, cn := range st.Columns {
			i, err := c.column(cn)
			if err != nil {
				return nil, err
			}
			cols = append(cols, i)
		}
	default:
		for i := range t.def.Cols {
			cols = append(cols, i)
		}
	}
	seen := map[int]bool{}
	for _, i := range cols {
		if seen[i] {
			return nil, myErr(1110, "Column '%s' specified twice", t.def.Cols[i].Name)
		}
		seen[i] = true
	}
	return s.withTxn(func(tx *txn) (*outcome, error) {
		out := &outcome{}
		var firstGen, lastExplicit int64
		for ri, list := range lists {
			if len(list) != len(cols) && !(len(list) == 0 && len(st.Columns) == 0 && len(st.Setlist) == 0) {
				return nil, myErr(1136, "Column count doesn't match value count at row %d", ri+1)
			}
			vals := make(Row, len(t.def.Cols))
			given := make([]bool, len(t.def.Cols))
			c.row = vals
			for li, ex := range list {
				i := cols[li]
				col := &t.def.Cols[i]
				v, err := c.eval(ex)
				if err != nil {
					return nil, err
				}
				if _, isDef := v.(defaultMarker); isDef {
					continue
				}
				if i == t.autoCol && v == nil {
					continue // NULL into AUTO_INCREMENT: generate
				}
				if vals[i], err = coerce(col, v); err != nil {
					return nil, err
				}
				given[i] = true
			}
			c.row = nil
			for i := range t.def.Cols {
				if given[i] {
					continue
				}
				if i == t.autoCol {
					vals[i] = int64(0)
					continue
				}
				if vals[i], err = defaultAt(&t.def.Cols[i], c.now); err != nil {
					return nil, err
				}
			}
			generated := false
			if t.autoCol >= 0 {
				if vals[t.autoCol] == int64(0) {
					vals[t.autoCol] = t.nextAuto()
					generated = true
				} else {
					lastExplicit = vals[t.autoCol].(int64)
				}
				t.bumpAuto(vals)
			}
			n, inserted, err := s.insertOne(c, st, tx, vals)
			if err != nil {
				return nil, err
			}
			out.affected += n
			if generated && inserted && firstGen == 0 {
				firstGen = vals[t.autoCol].(int64)
			}
		}
		out.lastID = firstGen
		if firstGen == 0 {
			out.lastID = lastExplicit
		}
		if out.lastID != 0 {
			s.lastID = out.lastID
		}
		return out, nil
	})
}

// insertOne inserts vals honouring ON DUPLICATE KEY UPDATE / IGNORE / REPLACE;
// it returns the MySQL affected-rows contribution and whether a row was inserted.
func (s *session) insertOne(c *evalCtx, st *ast.InsertStmt, tx *txn, vals Row) (int64, bool, error) {
	t := c.t
	rec, err := s.storeNew(t, tx, vals)
	if err != nil {
		return 0, false, err
	}
	confl, name := s.conflicts(t, tx, vals, rec.key, "")
	if len(confl) == 0 {
		tx.put(tkey(t), rec.key, rec)
		return 1, true, nil
	}
	switch {
	case len(st.OnDuplicate) > 0:
		old := confl[0]
		if err := s.lockRow(t, tx, old); err != nil {
			return 0, false, err
		}
		c.insRow = vals
		newVals, err := c.assign(st.OnDuplicate, old.vals)
		c.insRow = nil
		if err != nil {
			return 0, false, err
		}
		changed, err := s.updateRow(t, tx, old, newVals)
		if err != nil || !changed {
			return 0, false, err
		}
		return 2, false, nil
	case st.IsReplace:
		for _, o := range confl {
			if err := s.deleteRow(t, tx, o); err != nil {
				return 0, false, err
			}
		}
		tx.put(tkey(t), rec.key, rec)
		return 1 + int64(len(confl)), true, nil
	case st.IgnoreErr:
		return 0, false, nil
	}
	if err := s.lockRow(t, tx, confl[0]); err != nil {
		return 0, false, err // the duplicate is being changed by another transaction: wait, don't report 1062 yet
	}
	return 0, false, dupErr(t, name, conflictDisplay(t, name, vals))
}

// ---- UPDATE / DELETE ----

func (s *session) execUpdate(st *ast.UpdateStmt, args []interface{}) (*outcome, error) {
	if st.MultipleTable {
		return nil, unsupported("multi-table UPDATE")
	}
	t, alias, err := s.writable(st.TableRefs)
	if err != nil {
		return nil, err
	}
	c := &evalCtx{s: s, args: args, t: t, alias: alias, now: s.e.clock().UTC()}
	for _, a := range st.List {
		if _, err := c.column(a.Column); err != nil {
			return nil, err
		}
	}
	return s.withTxn(func(tx *txn) (*outcome, error) {
		recs, err := c.selectRows(s.view(t, tx), st.Where, st.Order, st.Limit)
		if err != nil {
			return nil, err
		}
		out := &outcome{}
		for _, r := range recs {
			if err := s.lockRow(t, tx, r); err != nil {
				return nil, err
			}
		}
		for _, r := range recs {
			newVals, err := c.assign(st.List, r.vals)
			if err != nil {
				if st.IgnoreErr {
					continue
				}
				return nil, err
			}
			changed, err := s.updateRow(t, tx, r, newVals)
			if err != nil {
				if _, blocked := err.(*wouldBlock); !blocked && st.IgnoreErr {
					continue
				}
				return nil, err
			}
			if changed {
				out.affected++
			}
		}
		return out, nil
	})
}

func (s *session) execDelete(st *ast.DeleteStmt, args []interface{}) (*outcome, error) {
	if st.IsMultiTable {
		return nil, unsupported("multi-table DELETE")
	}
	t, alias, err := s.writable(st.TableRefs)
	if err != nil {
		return nil, err
	}
	c := &evalCtx{s: s, args: args, t: t, alias: alias, now: s.e.clock().UTC()}
	return s.withTxn(func(tx *txn) (*outcome, error) {
		recs, err := c.selectRows(s.view(t, tx), st.Where, st.Order, st.Limit)
		if err != nil {
			return nil, err
		}
		for _, r := range recs {
			if err := s.deleteRow(t, tx, r); err != nil {
				return nil, err
			}
		}
		return &outcome{affected: int64(len(recs))}, nil
	})
}

// ---- DDL ----

func colTypeOf(cd *ast.ColumnDef) (Column, error) {
	ft := cd.Tp
	col := Column{Name: cd.Name.Name.O, Nullable: true}
	bin := ft.Charset == "binary"
	if ft.Flen > 0 {
		col.Length = ft.Flen
	}
	switch ft.Tp {
	case mysql.TypeTiny:
		col.Type = TTinyInt
	case mysql.TypeShort:
		col.Type = TSmallInt
	case mysql.TypeInt24:
		col.Type = TMediumInt
	case mysql.TypeLong:
		col.Type = TInt
	case mysql.TypeLonglong:
		col.Type = TBigInt
	case mysql.TypeFloat:
		col.Type = TFloat
	case mysql.TypeDouble:
		col.Type = TDouble
	case mysql.TypeNewDecimal:
		col.Type = TDecimal
		if col.Length == 0 {
			col.Length = 10
		}
		if ft.Decimal > 0 {
			col.Scale = ft.Decimal
		}
	case mysql.TypeVarchar, mysql.TypeVarString:
		col.Type = TVarchar
		if bin {
			col.Type = TVarBinary
		}
	case mysql.TypeString:
		col.Type = TChar
		if bin {
			col.Type = TVarBinary
		}
	case mysql.TypeTinyBlob, mysql.TypeBlob, mysql.TypeMediumBlob:
		col.Type, col.Length = TText, 0
		if bin {
			col.Type = TBlob
		}
	case mysql.TypeLongBlob:
		col.Type, col.Length = TLongText, 0
		if bin {
			col.Type = TLongBlob
		}
	case mysql.TypeDatetime, mysql.TypeTimestamp:
		col.Type, col.Length = TDateTime, 0
		if ft.Tp == mysql.TypeTimestamp {
			col.Type = TTimestamp
		}
		if ft.Decimal > 0 {
			col.Length = ft.Decimal
		}
	case mysql.TypeDate, mysql.TypeNewDate:
		col.Type, col.Length = TDate, 0
	case mysql.TypeBit:
		col.Type = TBit
	case mysql.TypeJSON:
		col.Type = TJSON
	default:
		return col, unsupported(fmt.Sprintf("column type %d", ft.Tp))
	}
	if col.Type.isInt() || col.Type == TFloat || col.Type == TDouble {
		col.Length = 0
	}
	return col, nil
}

func (s *session) execDDL(n ast.StmtNode) (*outcome, error) {
	if s.xa != nil {
		return nil, xaFail(s.xa.state)
	}
	s.commitTxn() // DDL commits implicitly
	e := s.e
	switch st := n.(type) {
	case *ast.CreateTableStmt:
		if _, exists := e.tables[st.Table.Name.L]; exists && st.IfNotExists {
			return &outcome{}, nil
		}
		if st.ReferTable != nil || st.Select != nil {
			return nil, unsupported("CREATE TABLE ... LIKE/SELECT")
		}
		def := TableDef{Name: st.Table.Name.O}
		for _, cd := range st.Cols {
			col, err := colTypeOf(cd)
			if err != nil {
				return nil, err
			}
			for _, o := range cd.Options {
				switch o.Tp {
				case ast.ColumnOptionNotNull:
					col.Nullable = false
				case ast.ColumnOptionNull:
					col.Nullable = true
				case ast.ColumnOptionAutoIncrement:
					col.AutoInc, col.Nullable = true, false
				case ast.ColumnOptionPrimaryKey:
					def.PK = append(def.PK, col.Name)
				case ast.ColumnOptionUniqKey:
					def.Unique = append(def.Unique, []string{col.Name})
				case ast.ColumnOptionDefaultValue:
					if f, ok := o.Expr.(*ast.FuncCallExpr); ok {
						col.HasDefault, col.Default = true, f.FnName.L
						break
					}
					v, err := (&evalCtx{s: s, now: e.clock().UTC()}).eval(o.Expr)
					if err != nil {
						return nil, err
					}
					if v != nil {
						col.HasDefault, col.Default = true, plain(v)
					}
				}
			}
			def.Cols = append(def.Cols, col)
		}
		for _, k := range st.Constraints {
			var names []string
			for _, p := range k.Keys {
				if p.Column != nil {
					names = append(names, p.Column.Name.O)
				}
			}
			switch k.Tp {
			case ast.ConstraintPrimaryKey:
				def.PK = names
			case ast.ConstraintUniq, ast.ConstraintUniqKey, ast.ConstraintUniqIndex:
				def.Unique = append(def.Unique, names)
			}
		}
		return &outcome{}, e.createTableLocked(def)
	case *ast.DropTableStmt:
		for _, tn := range st.Tables {
			if _, ok := e.tables[tn.Name.L]; !ok {
				if st.IfExists {
					continue
				}
				return nil, myErr(1051, "Unknown table '%s.%s'", e.name, tn.Name.O)
			}
			delete(e.tables, tn.Name.L)
		}
	case *ast.TruncateTableStmt:
		t := e.tables[st.Table.Name.L]
		if t == nil {
			return nil, myErr(1146, "Table '%s.%s' doesn't exist", e.name, st.Table.Name.O)
		}
		t.rows, t.autoInc = map[string]*rowRec{}, 1
	}
	return &outcome{}, nil
}

// ---- INFORMATION_SCHEMA ----

func columnTypeText(c *Column) string {
	n := c.Type.MySQLName()
	switch {
	case c.Type == TDecimal:
		l := c.Length
		if l == 0 {
			l = 10
		}
		return fmt.Sprintf("%s(%d,%d)", n, l, c.Scale)
	case c.Type == TBit:
		l := c.Length
		if l == 0 {
			l = 1
		}
		return fmt.Sprintf("%s(%d)", n, l)
	case c.Length > 0 && (c.Type == TVarchar || c.Type == TChar || c.Type == TVarBinary || c.Type == TDateTime || c.Type == TTimestamp):
		return fmt.Sprintf("%s(%d)", n, c.Length)
	case c.Type == TVarchar || c.Type == TVarBinary:
		return n + "(255)"
	case c.Unsigned && c.Type.isInt():
		return n + " unsigned"
	}
	return n
}

// infoTable materialises an INFORMATION_SCHEMA view from the catalogue.
func (e *Engine) infoTable(name string) *table {
	str := func(n string, ci bool) Column { return Column{Name: n, Type: TVarchar, Nullable: true, ci: ci} }
	i64 := func(n string) Column { return Column{Name: n, Type: TBigInt, Nullable: true} }
	var def TableDef
	var rows []Row
	names := e.tableNamesLocked()
	switch name {
	case "columns":
		def = TableDef{Name: "COLUMNS", Cols: []Column{str("TABLE_CATALOG", false), str("TABLE_SCHEMA", true), str("TABLE_NAME", true),
			str("COLUMN_NAME", true), i64("ORDINAL_POSITION"), str("COLUMN_DEFAULT", false), str("IS_NULLABLE", false), str("DATA_TYPE", false),
			i64("CHARACTER_MAXIMUM_LENGTH"), i64("NUMERIC_PRECISION"), i64("NUMERIC_SCALE"), i64("DATETIME_PRECISION"),
			str("COLUMN_TYPE", false), str("COLUMN_KEY", false), str("EXTRA", false), str("COLUMN_COMMENT", false)}}
		for _, tn := range names {
			t := e.tables[strings.ToLower(tn)]
			for i := range t.def.Cols {
				c := &t.def.Cols[i]
				var dflt, charLen, prec, scale, fsp interface{}
				if c.HasDefault && c.Default != nil {
					if v, err := defaultOf(c); err == nil && v != nil {
						dflt = displayPart(v)
					} else {
						dflt = fmt.Sprint(c.Default)
					}
				}
				nullable, key, extra := "NO", "", ""
				if c.Nullable {
					nullable = "YES"
				}
				for _, p := range t.pk {
					if p == i {
						key = "PRI"
					}
				}
				for _, u := range t.uniq {
					if key == "" && u.cols[0] == i {
						key = "UNI"
					}
				}
				if c.AutoInc {
					extra = "auto_increment"
				}
				switch {
				case c.Type.isText() || c.Type.isBinary():
					if c.Length > 0 {
						charLen = int64(c.Length)
					}
				case c.Type == TDecimal:
					prec, scale = int64(10), int64(c.Scale)
					if c.Length > 0 {
						prec = int64(c.Length)
					}
				case c.Type.isInt():
					prec, scale = int64(map[ColType]int{TTinyInt: 3, TSmallInt: 5, TMediumInt: 7, TInt: 10, TBigInt: 19}[c.Type]), int64(0)
				case c.Type == TDateTime || c.Type == TTimestamp:
					fsp = int64(c.Length)
				}
				rows = append(rows, Row{"def", e.name, t.def.Name, c.Name, int64(i + 1), dflt, nullable, c.Type.MySQLName(),
					charLen, prec, scale, fsp, columnTypeText(c), key, extra, ""})
			}
		}
	case "statistics":
		def = TableDef{Name: "STATISTICS", Cols: []Column{str("TABLE_CATALOG", false), str("TABLE_SCHEMA", true), str("TABLE_NAME", true),
			i64("NON_UNIQUE"), str("INDEX_SCHEMA", true), str("INDEX_NAME", true), i64("SEQ_IN_INDEX"), str("COLUMN_NAME", true),
			str("COLLATION", false), i64("CARDINALITY"), str("NULLABLE", false), str("INDEX_TYPE", false)}}
		for _, tn := range names {
			t := e.tables[strings.ToLower(tn)]
			add := func(idx string, cols []int) {
				for seq, ci := range cols {
					nullable := ""
					if t.def.Cols[ci].Nullable {
						nullable = "YES"
					}
					rows = append(rows, Row{"def", e.name, t.def.Name, int64(0), e.name, idx, int64(seq + 1), t.def.Cols[ci].Name,
						"A", int64(len(t.rows)), nullable, "BTREE"})
				}
			}
			add("PRIMARY", t.pk)
			for _, u := range t.uniq {
				add(u.name, u.cols)
			}
		}
	case "tables":
		def = TableDef{Name: "TABLES", Cols: []Column{str("TABLE_CATALOG", false), str("TABLE_SCHEMA", true), str("TABLE_NAME", true),
			str("TABLE_TYPE", false), str("ENGINE", false), i64("TABLE_ROWS"), i64("AUTO_INCREMENT")}}
		for _, tn := range names {
			t := e.tables[strings.ToLower(tn)]
			var ai interface{}
			if t.autoCol >= 0 {
				ai = t.nextAuto()
			}
			rows = append(rows, Row{"def", e.name, t.def.Name, "BASE TABLE", "InnoDB", int64(len(t.rows)), ai})
		}
	default:
		return nil
	}
	t, err := newTable(def)
	if err != nil {
		return nil
	}
	t.virtual = true
	for _, r := range rows {
		t.nextRID++
		rec := &rowRec{rid: t.nextRID, vals: r}
		rec.key = t.keyOf(r, rec.rid)
		t.rows[rec.key] = rec
	}
	return t
}
