package memdb

import (
	"database/sql"
	"fmt"
	"testing"
)

func TestQuick(t *testing.T) {
	e := New("testdb")
	if err := e.CreateTable(TableDef{Name: "t", Cols: []Column{{Name: "id", Type: TBigInt, AutoInc: true}, {Name: "name", Type: TVarchar, Length: 20, Nullable: true}, {Name: "n", Type: TInt, Nullable: true}}, PK: []string{"id"}}); err != nil {
		t.Fatal(err)
	}
	db := sql.OpenDB(e.Connector())
	defer db.Close()
	r, err := db.Exec("INSERT INTO t (name, n) VALUES (?, ?), ('b', 2)", "a", 1)
	if err != nil {
		t.Fatal(err)
	}
	id, _ := r.LastInsertId()
	n, _ := r.RowsAffected()
	fmt.Println(id, n)
	rows, err := db.Query("SELECT SQL_NO_CACHE name,n,id, COUNT(*) FROM t WHERE id=? FOR UPDATE", 1)
	fmt.Println(rows, err)
	rows, err = db.Query("SELECT name,n,id, n+1, concat(name,'x') FROM T WHERE  (`id`) IN ((?),(?)) ORDER BY id DESC", 1, 2)
	if err != nil {
		t.Fatal(err)
	}
	cols, _ := rows.Columns()
	fmt.Println(cols)
	for rows.Next() {
		var a, e string
		var b, c, d int
		if err := rows.Scan(&a, &b, &c, &d, &e); err != nil {
			t.Fatal(err)
		}
		fmt.Println(a, b, c, d, e)
	}
	for _, en := range e.Journal() {
		fmt.Println(en)
	}
}
