//go:build race

package memdb

const raceEnabled = true
