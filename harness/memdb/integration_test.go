//go:build verif

package memdb

// Integration smoke test: the REAL seata-go AT proxy driver running over memdb.
//
// What was needed to make sql.Open("memdb-at", dsn) work:
//   - client.InitPath(<yaml>) (file registry with an empty group list => no TCP client is started);
//     it performs log.Init, getty.InitGetty, rm.InitRm, exec/config.Init, RegisterProcessor,
//     at.InitAT (undo config + prometheus-registered async worker), at.InitXA, tm.InitTm and
//     datasource.Init (hooks, at.Init executors, undo managers/builders, shipped drivers);
//   - a fake coordinator session injected with GetGettyClientHandlerInstance().OnOpen, because
//     OpenConnector -> RegisterResource sends a RegisterRMRequest synchronously and the session
//     manager dereferences the selected session (nil session => panic);
//   - sql2.VerifRegisterDrivers (build tag verif) to put the proxy over memdb's driver.

import (
	"context"
	"database/sql"
	"fmt"
	"net"
	"os"
	"path/filepath"
	"strings"
	"sync"
	"sync/atomic"
	"testing"
	"time"

	getty "github.com/apache/dubbo-getty"

	"seata.apache.org/seata-go/pkg/client"
	sql2 "seata.apache.org/seata-go/pkg/datasource/sql"
	"seata.apache.org/seata-go/pkg/datasource/sql/types"
	"seata.apache.org/seata-go/pkg/datasource/sql/undo"
	"seata.apache.org/seata-go/pkg/protocol/codec"
	"seata.apache.org/seata-go/pkg/protocol/message"
	sgetty "seata.apache.org/seata-go/pkg/remoting/getty"
	"seata.apache.org/seata-go/pkg/tm"
)

const smokeYml = `
seata:
  enabled: true
  application-id: memdb-smoke
  tx-service-group: default_tx_group
  enable-auto-data-source-proxy: true
  data-source-proxy-mode: AT
  client:
    rm:
      async-commit-buffer-limit: 10000
      report-retry-count: 5
      table-meta-check-enable: false
      report-success-enable: false
      lock:
        retry-interval: 10ms
        retry-times: 3
        retry-policy-branch-rollback-on-conflict: true
    tm:
      commit-retry-count: 5
      rollback-retry-count: 5
      default-global-transaction-timeout: 60s
    undo:
      data-validation: true
      log-serialization: json
      log-table: undo_log
      only-care-update-columns: true
      compress:
        enable: false
        type: none
        threshold: 64k
    load-balance:
      type: RandomLoadBalance
      virtual-nodes: 10
  service:
    vgroup-mapping:
      default_tx_group: default
    grouplist:
      default: ""
    enable-degrade: false
    disable-global-transaction: false
  transport:
    shutdown:
      wait: 3s
    type: TCP
    server: NIO
    heartbeat: true
    serialization: seata
    compressor: none
    rpc-rm-request-timeout: 30s
    rpc-tm-request-timeout: 30s
  registry:
    type: file
    file:
      name: seatago.yml
  getty:
    reconnect-interval: 0
    connection-num: 1
    session:
      compress-encoding: false
      tcp-no-delay: true
      tcp-keep-alive: true
      keep-alive-period: 120s
      tcp-r-buf-size: 262144
      tcp-w-buf-size: 65536
      tcp-read-timeout: 1s
      tcp-write-timeout: 5s
      wait-timeout: 1s
      max-msg-len: 16498688
      session-name: client_memdb
      cron-period: 1s
`

// fakeCoord answers every request of the real client with a success reply.
type fakeCoord struct {
	mu     sync.Mutex
	attrs  map[interface{}]interface{}
	kinds  []string
	branch int64
}

var smokeHandler = &sgetty.RpcPackageHandler{}

func (s *fakeCoord) WritePkg(pkg interface{}, _ time.Duration) (int, int, error) {
	bs, err := smokeHandler.Write(s, pkg)
	if err != nil {
		return 0, 0, err
	}
	back, _, err := smokeHandler.Read(s, bs)
	if err != nil || back == nil {
		return 0, 0, fmt.Errorf("frame does not read back: %v", err)
	}
	m := back.(message.RpcMessage)
	ok := message.AbstractTransactionResponse{AbstractResultMessage: message.AbstractResultMessage{ResultCode: message.ResultCodeSuccess}}
	var body interface{}
	switch m.Body.(type) {
	case message.RegisterRMRequest:
		body = message.RegisterRMResponse{AbstractIdentifyResponse: message.AbstractIdentifyResponse{Identified: true, Version: "1.5.2"}}
	case message.RegisterTMRequest:
		body = message.RegisterTMResponse{AbstractIdentifyResponse: message.AbstractIdentifyResponse{Identified: true, Version: "1.5.2"}}
	case message.BranchRegisterRequest:
		body = message.BranchRegisterResponse{AbstractTransactionResponse: ok, BranchId: atomic.AddInt64(&s.branch, 1) + 7000}
	case message.BranchReportRequest:
		body = message.BranchReportResponse{AbstractTransactionResponse: ok}
	case message.GlobalLockQueryRequest:
		body = message.GlobalLockQueryResponse{AbstractTransactionResponse: ok, Lockable: true}
	}
	s.mu.Lock()
	s.kinds = append(s.kinds, strings.TrimPrefix(fmt.Sprintf("%T", m.Body), "message."))
	s.mu.Unlock()
	if body != nil {
		reply := message.RpcMessage{ID: m.ID, Type: message.GettyRequestTypeResponse, Codec: byte(codec.CodecTypeSeata), Body: body}
		go func() {
			out, err := smokeHandler.Write(s, reply)
			if err != nil {
				return
			}
			if p, _, err := smokeHandler.Read(s, out); err == nil && p != nil {
				sgetty.GetGettyClientHandlerInstance().OnMessage(s, p)
			}
		}()
	}
	return len(bs), len(bs), nil
}

func (s *fakeCoord) seen() []string {
	s.mu.Lock()
	defer s.mu.Unlock()
	return append([]string{}, s.kinds...)
}

func (s *fakeCoord) IsClosed() bool                         { return false }
func (s *fakeCoord) Close()                                 {}
func (s *fakeCoord) ID() uint32                             { return 1 }
func (s *fakeCoord) RemoteAddr() string                     { return "127.0.0.1:8091" }
func (s *fakeCoord) LocalAddr() string                      { return "127.0.0.1:50000" }
func (s *fakeCoord) SetCompressType(getty.CompressType)     {}
func (s *fakeCoord) IncReadPkgNum()                         {}
func (s *fakeCoord) IncWritePkgNum()                        {}
func (s *fakeCoord) UpdateActive()                          {}
func (s *fakeCoord) GetActive() time.Time                   { return time.Now() }
func (s *fakeCoord) ReadTimeout() time.Duration             { return time.Second }
func (s *fakeCoord) SetReadTimeout(time.Duration)           {}
func (s *fakeCoord) WriteTimeout() time.Duration            { return time.Second }
func (s *fakeCoord) SetWriteTimeout(time.Duration)          {}
func (s *fakeCoord) Send(interface{}) (int, error)          { return 0, nil }
func (s *fakeCoord) CloseConn(int)                          {}
func (s *fakeCoord) SetSession(getty.Session)               {}
func (s *fakeCoord) Reset()                                 {}
func (s *fakeCoord) Conn() net.Conn                         { return nil }
func (s *fakeCoord) Stat() string                           { return "fake-coordinator" }
func (s *fakeCoord) EndPoint() getty.EndPoint               { return nil }
func (s *fakeCoord) SetMaxMsgLen(int)                       {}
func (s *fakeCoord) SetName(string)                         {}
func (s *fakeCoord) SetEventListener(getty.EventListener)   {}
func (s *fakeCoord) SetPkgHandler(getty.ReadWriter)         {}
func (s *fakeCoord) SetReader(getty.Reader)                 {}
func (s *fakeCoord) SetWriter(getty.Writer)                 {}
func (s *fakeCoord) SetCronPeriod(int)                      {}
func (s *fakeCoord) SetWaitTime(time.Duration)              {}
func (s *fakeCoord) WriteBytes([]byte) (int, error)         { return 0, nil }
func (s *fakeCoord) WriteBytesArray(...[]byte) (int, error) { return 0, nil }
func (s *fakeCoord) GetAttribute(k interface{}) interface{} {
	s.mu.Lock()
	defer s.mu.Unlock()
	return s.attrs[k]
}
func (s *fakeCoord) SetAttribute(k interface{}, v interface{}) {
	s.mu.Lock()
	defer s.mu.Unlock()
	s.attrs[k] = v
}
func (s *fakeCoord) RemoveAttribute(k interface{}) {
	s.mu.Lock()
	defer s.mu.Unlock()
	delete(s.attrs, k)
}

var (
	smokeOnce  sync.Once
	smokeCoord *fakeCoord
)

func bootSeata(t *testing.T) *fakeCoord {
	smokeOnce.Do(func() {
		dir, err := os.MkdirTemp("", "memdb-seata-")
		must(t, err)
		defer os.RemoveAll(dir)
		p := filepath.Join(dir, "seatago.yml")
		must(t, os.WriteFile(p, []byte(smokeYml), 0o644))
		client.InitPath(p)
		smokeCoord = &fakeCoord{attrs: map[interface{}]interface{}{}}
		sgetty.GetGettyClientHandlerInstance().OnOpen(smokeCoord)
	})
	return smokeCoord
}

var smokeRun int32

func TestIntegrationATProxyOverMemdb(t *testing.T) {
	if raceEnabled {
		// the repository's client initialisation itself is racy (unsynchronised getty client singleton,
		// TM registration goroutine started by OnOpen, BaseTableMetaCache.refresh) - nothing memdb can fix
		t.Skip("seata-go client initialisation trips the race detector on its own")
	}
	coord := bootSeata(t)
	run := atomic.AddInt32(&smokeRun, 1)
	atName, xaName := fmt.Sprintf("memdb-at-%d", run), fmt.Sprintf("memdb-xa-%d", run)
	before := len(coord.seen())
	e := New("testdb")
	must(t, e.CreateTable(TableDef{Name: "t", Cols: []Column{
		{Name: "id", Type: TBigInt, AutoInc: true},
		{Name: "name", Type: TVarchar, Length: 32, Nullable: true},
		{Name: "n", Type: TInt, Nullable: true},
	}, PK: []string{"id"}}))
	e.CreateUndoLogTable()
	sql2.VerifRegisterDrivers(atName, xaName, e.Driver())
	db, err := sql.Open(atName, "root:pw@tcp(127.0.0.1:3306)/testdb?multiStatements=true")
	must(t, err)
	defer db.Close()
	if run == 1 {
		eq(t, coord.seen(), []string{"RegisterTMRequest", "RegisterRMRequest"}) // OnOpen registers the TM, OpenConnector the resource
	}
	registered := len(coord.seen())

	// ---- outside a global transaction the proxy just forwards ----
	id, n := mustExec(t, db, "INSERT INTO t (name, n) VALUES (?, ?)", "a", 1)
	eq(t, [2]int64{id, n}, [2]int64{1, 1})
	_, n = mustExec(t, db, "UPDATE t SET n = n + ? WHERE id = ?", 41, 1)
	eq(t, n, int64(1))
	eq(t, queryAll(t, db, "SELECT id, name, n FROM t WHERE id = ?", 1), [][]interface{}{{int64(1), "a", int64(42)}})
	eq(t, queryAll(t, db, "SELECT name FROM t WHERE id = 1 FOR UPDATE"), [][]interface{}{{"a"}})
	tx, err := db.Begin()
	must(t, err)
	mustExec(t, tx, "INSERT INTO t (name, n) VALUES ('b', 2)")
	must(t, tx.Rollback())
	st, err := db.Prepare("DELETE FROM t WHERE id = ?")
	must(t, err)
	r, err := st.Exec(1)
	must(t, err)
	st.Close()
	n, _ = r.RowsAffected()
	eq(t, n, int64(1))
	eq(t, len(e.Dump("t")), 0)
	eq(t, len(e.Dump("undo_log")), 0)
	eq(t, len(coord.seen()), registered) // no branch traffic for local work

	// ---- a branch of a global transaction: images, undo log, phase-two rollback ----
	must(t, e.InsertRows("t", Row{10, "x", 1}, Row{11, "y", 2}))
	e.ResetJournal()
	base := atomic.LoadInt64(&coord.branch) + 7000 // branch ids handed out so far
	ctx := tm.InitSeataContext(context.Background())
	tm.SetXID(ctx, "127.0.0.1:8091:4711")
	// (a multi-row UPDATE with only-care-update-columns makes the proxy build "SELECT n,id,n,id ..." and its
	// own undo validation then reports dirty data; single-row statements keep the smoke test on the happy path)
	res, err := db.ExecContext(ctx, "UPDATE t SET n = n + 100 WHERE id = ?", 10)
	must(t, err)
	n, _ = res.RowsAffected()
	eq(t, n, int64(1))
	res, err = db.ExecContext(ctx, "INSERT INTO t (name, n) VALUES (?, ?)", "z", 3)
	must(t, err)
	id, _ = res.LastInsertId()
	eq(t, id, int64(12))
	res, err = db.ExecContext(ctx, "DELETE FROM t WHERE id = ?", 11)
	must(t, err)
	eq(t, e.Dump("t"), []Row{{int64(10), "x", int64(101)}, {int64(12), "z", int64(3)}})
	logs := e.Dump("undo_log")
	eq(t, len(logs), 3)
	eq(t, logs[0][1:3], Row{base + 1, "127.0.0.1:8091:4711"})
	var kinds []string
	for _, en := range e.Journal() {
		if en.Err != "" {
			t.Errorf("statement failed under the proxy: %v", en)
		}
		kinds = append(kinds, en.Kind)
	}
	t.Logf("journal kinds of the three branches: %s", strings.Join(kinds, " "))
	seen := strings.Join(coord.seen()[before:], " ")
	if strings.Count(seen, "BranchRegisterRequest") != 3 {
		t.Fatalf("coordinator saw: %s", seen)
	}

	// phase-two rollback of the three branches, newest first, through the real undo manager
	mgr, err := undo.GetUndoLogManager(types.DBTypeMySQL)
	must(t, err)
	target := sql.OpenDB(e.Connector())
	defer target.Close()
	for b := base + 3; b >= base+1; b-- {
		if err := mgr.RunUndo(context.Background(), "127.0.0.1:8091:4711", b, target, "testdb"); err != nil {
			t.Fatalf("RunUndo branch %d: %v", b, err)
		}
	}
	t.Logf("after undo: t=%v undo_log=%d rows, open txns=%v", e.Dump("t"), len(e.Dump("undo_log")), e.OpenTxns())
	eq(t, e.Dump("t"), []Row{{int64(10), "x", int64(1)}, {int64(11), "y", int64(2)}})
	eq(t, len(e.Dump("undo_log")), 0)
	eq(t, len(e.OpenTxns()), 0)
	for _, en := range e.Journal() {
		if strings.Contains(en.Err, "panic") || strings.Contains(en.Err, "1064") || strings.Contains(en.Err, "1235") {
			t.Errorf("memdb could not run a proxy statement: %v", en)
		}
	}

	// ---- XA proxy: autocommit statement inside a global transaction = one XA branch ----
	xdb, err := sql.Open(xaName, "root:pw@tcp(127.0.0.1:3306)/testdb?multiStatements=true")
	must(t, err)
	defer xdb.Close()
	e.ResetJournal()
	xctx := tm.InitSeataContext(context.Background())
	tm.SetXID(xctx, "127.0.0.1:8091:4712")
	_, err = xdb.ExecContext(xctx, "UPDATE t SET n = 500 WHERE id = ?", 10)
	must(t, err)
	kinds = nil
	xid := ""
	for _, en := range e.Journal() {
		if strings.HasPrefix(en.Kind, "xa_") || en.Kind == "update" {
			kinds = append(kinds, en.Kind)
			if en.Err != "" {
				t.Errorf("XA statement failed: %v", en)
			}
		}
		if en.Kind == "xa_start" {
			xid = strings.Trim(strings.TrimPrefix(en.SQL, "XA START "), "'")
		}
	}
	eq(t, kinds, []string{"xa_start", "update", "xa_end", "xa_prepare"})
	eq(t, xid, fmt.Sprintf("127.0.0.1:8091:4712-%d", base+4))
	eq(t, e.XAState(xid), "PREPARED")
	eq(t, e.Dump("t")[0][2], int64(1))
	eq(t, e.Locks(), map[string][]string{"t": {"10"}})
	mustExec(t, target, "XA COMMIT '"+xid+"'") // phase two may come from any connection
	eq(t, e.XAState(xid), "COMMITTED")
	eq(t, e.Dump("t")[0][2], int64(500))
}
