package memdb

import (
	"strings"

	aparser "github.com/arana-db/parser"
	"github.com/arana-db/parser/ast"
	"github.com/arana-db/parser/test_driver"
)

// piece is one compiled statement of a (possibly multi-statement) SQL text.
type piece struct {
	text    string
	kind    string // journal kind
	table   string // first table name
	node    ast.StmtNode
	nparams int // placeholders contributed to the whole text's argument count
	lo, hi  int // argument range (within the whole text's arguments) visible to this piece

	xid, xaOpt string // XA statements
	name       string // savepoint statements
}

// splitSQL splits on ';' outside quotes and comments.
func splitSQL(sql string) []string {
	var out []string
	start, n := 0, len(sql)
	for i := 0; i < n; i++ {
		switch ch := sql[i]; {
		case ch == '\'' || ch == '"' || ch == '`':
			for i++; i < n; i++ {
				if sql[i] == '\\' && ch != '`' {
					i++
				} else if sql[i] == ch {
					if i+1 < n && sql[i+1] == ch {
						i++
					} else {
						break
					}
				}
			}
		case ch == '#' || (ch == '-' && i+2 < n && sql[i+1] == '-' && (sql[i+2] == ' ' || sql[i+2] == '\t')):
			for i < n && sql[i] != '\n' {
				i++
			}
		case ch == '/' && i+1 < n && sql[i+1] == '*':
			if j := strings.Index(sql[i+2:], "*/"); j >= 0 {
				i += j + 3
			} else {
				i = n
			}
		case ch == ';':
			out = append(out, sql[start:i])
			start = i + 1
		}
	}
	if start < n {
		out = append(out, sql[start:])
	}
	return out
}

// words tokenises the hand-scanned statements: identifiers/keywords, quoted
// strings (returned with a leading quote marker) and punctuation.
func words(s string) ([]string, bool) {
	var out []string
	for i := 0; i < len(s); {
		ch := s[i]
		switch {
		case ch == ' ' || ch == '\t' || ch == '\n' || ch == '\r':
			i++
		case ch == '\'' || ch == '"' || ch == '`':
			var sb strings.Builder
			j := i + 1
			closed := false
			for ; j < len(s); j++ {
				if s[j] == '\\' && ch != '`' && j+1 < len(s) {
					j++
					sb.WriteByte(s[j])
				} else if s[j] == ch {
					if j+1 < len(s) && s[j+1] == ch {
						sb.WriteByte(ch)
						j++
					} else {
						closed = true
						break
					}
				} else {
					sb.WriteByte(s[j])
				}
			}
			if !closed {
				return nil, false
			}
			out = append(out, "'"+sb.String())
			i = j + 1
		case ch == ',':
			out = append(out, ",")
			i++
		default:
			j := i
			for j < len(s) && !strings.ContainsRune(" \t\r\n,'\"`", rune(s[j])) {
				j++
			}
			out = append(out, s[i:j])
			i = j
		}
	}
	return out, true
}

func isQuoted(w string) bool { return strings.HasPrefix(w, "'") }

// scanSpecial recognises the statements the arana parser does not know:
// XA ..., SAVEPOINT, ROLLBACK TO [SAVEPOINT], RELEASE SAVEPOINT.
// It returns (nil, nil) when the text is none of them.
func scanSpecial(text string) (*piece, error) {
	ws, ok := words(text)
	if len(ws) == 0 {
		return nil, nil
	}
	up := func(i int) string {
		if i < len(ws) && !isQuoted(ws[i]) {
			return strings.ToUpper(ws[i])
		}
		return ""
	}
	bad := myErr(1064, "You have an error in your SQL syntax; check the manual that corresponds to your MySQL server version for the right syntax to use near '%s'", text)
	ident := func(i int) (string, bool) {
		if i >= len(ws) || ws[i] == "," {
			return "", false
		}
		return strings.TrimPrefix(ws[i], "'"), true
	}
	switch up(0) {
	case "SAVEPOINT":
		name, okN := ident(1)
		if !ok || !okN || len(ws) != 2 {
			return nil, bad
		}
		return &piece{text: text, kind: "savepoint", name: name}, nil
	case "RELEASE":
		if up(1) != "SAVEPOINT" {
			return nil, nil
		}
		name, okN := ident(2)
		if !ok || !okN || len(ws) != 3 {
			return nil, bad
		}
		return &piece{text: text, kind: "release_savepoint", name: name}, nil
	case "ROLLBACK":
		i := 1
		if up(i) == "WORK" {
			i++
		}
		if up(i) != "TO" {
			return nil, nil
		}
		i++
		if up(i) == "SAVEPOINT" && i+1 < len(ws) {
			i++
		}
		name, okN := ident(i)
		if !ok || !okN || len(ws) != i+1 {
			return nil, bad
		}
		return &piece{text: text, kind: "rollback_to", name: name}, nil
	case "XA":
	default:
		return nil, nil
	}
	if !ok {
		return nil, bad
	}
	verb := up(1)
	kinds := map[string]string{"START": "xa_start", "BEGIN": "xa_start", "END": "xa_end", "PREPARE": "xa_prepare",
		"COMMIT": "xa_commit", "ROLLBACK": "xa_rollback", "RECOVER": "xa_recover"}
	kind, known := kinds[verb]
	if !known {
		return nil, bad
	}
	p := &piece{text: text, kind: kind}
	if kind == "xa_recover" {
		if len(ws) > 2 && !(len(ws) == 4 && up(2) == "CONVERT" && up(3) == "XID") {
			return nil, bad
		}
		return p, nil
	}
	// xid: 'gtrid' [, 'bqual' [, formatID]]
	i := 2
	if i >= len(ws) || !isQuoted(ws[i]) {
		return nil, bad
	}
	p.xid = ws[i][1:]
	i++
	if i < len(ws) && ws[i] == "," {
		if i+1 >= len(ws) || !isQuoted(ws[i+1]) {
			return nil, bad
		}
		bqual := ws[i+1][1:]
		i += 2
		format := ""
		if i < len(ws) && ws[i] == "," {
			if i+1 >= len(ws) || isQuoted(ws[i+1]) || strings.Trim(ws[i+1], "0123456789") != "" {
				return nil, bad
			}
			format = ws[i+1]
			i += 2
		}
		if bqual != "" || format != "" {
			p.xid += "," + bqual
		}
		if format != "" {
			p.xid += "," + format
		}
	}
	var rest []string
	for ; i < len(ws); i++ {
		rest = append(rest, up(i))
	}
	p.xaOpt = strings.Join(rest, " ")
	valid := map[string][]string{"xa_start": {"", "JOIN", "RESUME"}, "xa_end": {"", "SUSPEND", "SUSPEND FOR MIGRATE"},
		"xa_prepare": {""}, "xa_commit": {"", "ONE PHASE"}, "xa_rollback": {""}}
	for _, v := range valid[kind] {
		if v == p.xaOpt {
			return p, nil
		}
	}
	return nil, bad
}

type paramCounter struct{ n int }

func (c *paramCounter) Enter(n ast.Node) (ast.Node, bool) {
	if _, ok := n.(*test_driver.ParamMarkerExpr); ok {
		c.n++
	}
	return n, false
}
func (c *paramCounter) Leave(n ast.Node) (ast.Node, bool) { return n, true }

func firstTable(refs *ast.TableRefsClause) string {
	if refs == nil || refs.TableRefs == nil {
		return ""
	}
	var walk func(n ast.ResultSetNode) string
	walk = func(n ast.ResultSetNode) string {
		switch x := n.(type) {
		case *ast.Join:
			if s := walk(x.Left); s != "" {
				return s
			}
			return walk(x.Right)
		case *ast.TableSource:
			return walk(x.Source)
		case *ast.TableName:
			return x.Name.O
		}
		return ""
	}
	return walk(refs.TableRefs)
}

func classify(n ast.StmtNode) (kind, tbl string) {
	switch x := n.(type) {
	case *ast.SelectStmt:
		kind = "select"
		if x.LockInfo != nil {
			switch x.LockInfo.LockType {
			case ast.SelectLockForUpdate, ast.SelectLockForUpdateNoWait, ast.SelectLockForUpdateWaitN, ast.SelectLockForUpdateSkipLocked:
				kind = "select_for_update"
			}
		}
		return kind, firstTable(x.From)
	case *ast.InsertStmt:
		return "insert", firstTable(x.Table)
	case *ast.UpdateStmt:
		return "update", firstTable(x.TableRefs)
	case *ast.DeleteStmt:
		return "delete", firstTable(x.TableRefs)
	case *ast.BeginStmt:
		return "begin", ""
	case *ast.CommitStmt:
		return "commit", ""
	case *ast.RollbackStmt:
		return "rollback", ""
	case *ast.ShowStmt:
		return "show", ""
	case *ast.SetStmt:
		return "set", ""
	case *ast.CreateTableStmt:
		return "other", x.Table.Name.O
	case *ast.TruncateTableStmt:
		return "other", x.Table.Name.O
	case *ast.DropTableStmt:
		if len(x.Tables) > 0 {
			return "other", x.Tables[0].Name.O
		}
	case *ast.AlterTableStmt:
		if x.Table != nil {
			return "other", x.Table.Name.O
		}
	}
	return "other", ""
}

// compile turns SQL text into executable pieces. Unparseable SQL is error 1064.
func compile(sql string) (pieces []*piece, err error) {
	defer func() {
		if r := recover(); r != nil {
			pieces, err = nil, myErr(1064, "You have an error in your SQL syntax (parser panic: %v)", r)
		}
	}()
	base := 0
	for _, part := range splitSQL(sql) {
		text := strings.TrimSpace(part)
		if text == "" {
			continue
		}
		sp, err := scanSpecial(text)
		if err != nil {
			return nil, err
		}
		if sp != nil {
			pieces = append(pieces, sp)
			continue
		}
		p := aparser.New() // not pooled: the AST keeps pointing into the parser's buffers
		nodes, _, perr := p.Parse(text, "", "")
		if perr != nil {
			return nil, myErr(1064, "You have an error in your SQL syntax; %v", perr)
		}
		pc := &paramCounter{}
		for _, n := range nodes {
			n.Accept(pc)
		}
		for i, n := range nodes { // normally exactly one; placeholder orders are per parse
			kind, tbl := classify(n)
			np := 0
			if i == 0 {
				np = pc.n
			}
			pieces = append(pieces, &piece{text: text, kind: kind, table: tbl, node: n, nparams: np, lo: base, hi: base + pc.n})
		}
		base += pc.n
	}
	if len(pieces) == 0 {
		return nil, myErr(1065, "Query was empty")
	}
	if len(pieces) == 1 {
		pieces[0].text = sql // journal the text exactly as received
	}
	return pieces, nil
}
