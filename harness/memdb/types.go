// Package memdb is an in-memory, MySQL-dialect database/sql/driver used by the
// verification harness in place of a MySQL server.  It interprets the SQL the
// seata-go AT/XA proxies issue (parsed with github.com/arana-db/parser, the
// same parser the repository uses) and mimics the result typing of
// go-sql-driver/mysql v1.6.0 (parseTime=true, loc=UTC).
//
// Design decisions worth knowing:
//   - one Engine == one schema; all statement execution is serialised by one mutex.
//   - isolation is READ COMMITTED: a transaction sees committed data plus its
//     own write-set; row write locks (insert/update/delete/SELECT FOR UPDATE)
//     are held until commit/rollback (NOT released by ROLLBACK TO SAVEPOINT).
//   - DECIMAL is stored as canonical decimal text, FLOAT/DOUBLE as float64,
//     DATE/DATETIME/TIMESTAMP as time.Time (UTC, microseconds), BIT as []byte
//     (big-endian, (Length+7)/8 bytes), VARCHAR/TEXT/JSON as string, BLOB as []byte.
//   - strings compare byte-wise (utf8mb4_bin).
//   - a faulted COMMIT behaves as "commit failed, transaction rolled back";
//     a faulted ROLLBACK/close still rolls back but reports the error; every
//     other faulted statement has no effect.
package memdb

import (
	"bytes"
	"encoding/json"
	"fmt"
	"math"
	"math/big"
	"reflect"
	"strconv"
	"strings"
	"sync/atomic"
	"time"

	"github.com/go-sql-driver/mysql"
)

// ColType is a MySQL column type.
type ColType int

const (
	TInt ColType = iota
	TBigInt
	TTinyInt
	TSmallInt
	TMediumInt
	TVarchar
	TChar
	TText
	TDouble
	TDecimal
	TFloat
	TDateTime
	TTimestamp
	TDate
	TBlob
	TVarBinary
	TBit
	TLongText
	TJSON
	TLongBlob // addition: undo_log.rollback_info
	tNull     // internal: type of a NULL literal column
)

var typeNames = [...]string{"int", "bigint", "tinyint", "smallint", "mediumint", "varchar", "char", "text",
	"double", "decimal", "float", "datetime", "timestamp", "date", "blob", "varbinary", "bit", "longtext", "json", "longblob", "null"}

// MySQLName is the type name as INFORMATION_SCHEMA.COLUMNS.DATA_TYPE reports it.
func (t ColType) MySQLName() string {
	if t < 0 || int(t) >= len(typeNames) {
		return "unknown"
	}
	return typeNames[t]
}

func (t ColType) isInt() bool {
	return t == TInt || t == TBigInt || t == TTinyInt || t == TSmallInt || t == TMediumInt
}
func (t ColType) isTime() bool { return t == TDateTime || t == TTimestamp || t == TDate }
func (t ColType) isText() bool {
	return t == TVarchar || t == TChar || t == TText || t == TLongText || t == TJSON
}
func (t ColType) isBinary() bool { return t == TBlob || t == TVarBinary || t == TLongBlob }

// Column describes one column. Length is the display/char length (VARCHAR(n)),
// the precision for DECIMAL, the fsp for DATETIME/TIMESTAMP (0 = keep
// microseconds) and the bit count for BIT. Scale is the DECIMAL scale (only
// applied when Length > 0).
type Column struct {
	Name       string
	Type       ColType
	Nullable   bool
	AutoInc    bool
	HasDefault bool
	Default    interface{}
	Length     int
	Scale      int
	Unsigned   bool // integer types: 0 … 2·max+1 (BIGINT UNSIGNED: up to MaxInt64 only, the engine stores int64)

	ci bool // case-insensitive comparison (information_schema identifiers)
}

// TableDef describes a table. Unique lists extra unique indexes.
type TableDef struct {
	Name   string
	Cols   []Column
	PK     []string
	Unique [][]string
}

// Row is one row in column order, in Go canonical types: nil, int64, float64,
// string, []byte, time.Time(UTC).
type Row = []interface{}

func myErr(num uint16, format string, a ...interface{}) *mysql.MySQLError {
	return &mysql.MySQLError{Number: num, Message: fmt.Sprintf(format, a...)}
}

// ---- internal value kinds used by the evaluator ----

type decVal string          // canonical decimal text
type ciStr string           // case-insensitively compared string
type rowVal []interface{}   // row constructor (a, b)
type defaultMarker struct{} // bare DEFAULT keyword

var jsonRawType = reflect.TypeOf(json.RawMessage{})

// normArg converts a driver argument into an evaluator value the way
// go-sql-driver's converter would accept it.
func normArg(v interface{}) (interface{}, error) {
	switch x := v.(type) {
	case nil:
		return nil, nil
	case int64:
		return x, nil
	case float64:
		return x, nil
	case bool:
		if x {
			return int64(1), nil
		}
		return int64(0), nil
	case []byte:
		if x == nil {
			return nil, nil
		}
		return append([]byte{}, x...), nil
	case string:
		return x, nil
	case time.Time:
		// the driver sends the wall clock the value has in the connection's location (DSN parameter loc)
		return relabel(x.In(Location()), time.UTC).Truncate(time.Microsecond), nil
	case uint64:
		if x <= math.MaxInt64 {
			return int64(x), nil
		}
		return decVal(strconv.FormatUint(x, 10)), nil
	case json.RawMessage:
		return append([]byte{}, x...), nil
	}
	rv := reflect.ValueOf(v)
	switch rv.Kind() {
	case reflect.Ptr:
		if rv.IsNil() {
			return nil, nil
		}
		return normArg(rv.Elem().Interface())
	case reflect.Int, reflect.Int8, reflect.Int16, reflect.Int32, reflect.Int64:
		return rv.Int(), nil
	case reflect.Uint, reflect.Uint8, reflect.Uint16, reflect.Uint32, reflect.Uint64:
		return normArg(rv.Uint())
	case reflect.Float32, reflect.Float64:
		return rv.Float(), nil
	case reflect.Bool:
		return normArg(rv.Bool())
	case reflect.String:
		return rv.String(), nil
	case reflect.Slice:
		if rv.Type().Elem().Kind() == reflect.Uint8 {
			return append([]byte{}, rv.Bytes()...), nil
		}
	}
	return nil, fmt.Errorf("unsupported type %T, a %s", v, rv.Kind())
}

// ---- time helpers ----

var timeLayouts = []string{
	"2006-01-02 15:04:05.999999999",
	time.RFC3339Nano,
	"2006-01-02T15:04:05.999999999",
	"2006-01-02",
	"20060102150405",
	"20060102",
	"2006-01-02 15:04:05.999999999 -0700 MST",
	"2006-01-02 15:04:05.999999999 -0700 -0700",
}

func parseTime(s string) (time.Time, bool) {
	s = strings.TrimSpace(s)
	for _, l := range timeLayouts {
		if t, err := time.Parse(l, s); err == nil {
			return t.UTC(), true
		}
	}
	return time.Time{}, false
}

func fmtTime(t time.Time, typ ColType, fsp int) string {
	if typ == TDate {
		return t.Format("2006-01-02")
	}
	s := t.Format("2006-01-02 15:04:05")
	if fsp > 0 && fsp <= 6 {
		frac := fmt.Sprintf("%06d", t.Nanosecond()/1000)
		return s + "." + frac[:fsp]
	}
	if us := t.Nanosecond() / 1000; us != 0 && fsp == 0 {
		return s + "." + strings.TrimRight(fmt.Sprintf("%06d", us), "0")
	}
	return s
}

func fmtFloat(f float64, bits int) string {
	a := math.Abs(f)
	if a != 0 && (a >= 1e15 || a < 1e-4) {
		return strconv.FormatFloat(f, 'e', -1, bits)
	}
	return strconv.FormatFloat(f, 'f', -1, bits)
}

// textOf renders an evaluator/storage value as MySQL text.
func textOf(v interface{}) string {
	switch x := v.(type) {
	case nil:
		return "NULL"
	case int64:
		return strconv.FormatInt(x, 10)
	case float64:
		return fmtFloat(x, 64)
	case decVal:
		return string(x)
	case string:
		return x
	case ciStr:
		return string(x)
	case []byte:
		return string(x)
	case time.Time:
		return fmtTime(x, TDateTime, 0)
	case rowVal:
		parts := make([]string, len(x))
		for i, e := range x {
			parts[i] = textOf(e)
		}
		return "(" + strings.Join(parts, ",") + ")"
	}
	return fmt.Sprint(v)
}

// ---- numbers ----

type numKind int

const (
	nInt numKind = iota
	nDec
	nFloat
)

type num struct {
	k numKind
	i int64
	r *big.Rat
	f float64
}

func (n num) rat() *big.Rat {
	switch n.k {
	case nInt:
		return new(big.Rat).SetInt64(n.i)
	case nDec:
		return n.r
	}
	r := new(big.Rat)
	if r.SetFloat64(n.f) == nil {
		return new(big.Rat)
	}
	return r
}

func (n num) float() float64 {
	switch n.k {
	case nInt:
		return float64(n.i)
	case nDec:
		f, _ := n.r.Float64()
		return f
	}
	return n.f
}

// numPrefix parses the longest numeric prefix of s, as MySQL does when it
// coerces a string to a number ('12abc' -> 12, 'abc' -> 0).
func numPrefix(s string) num {
	s = strings.TrimSpace(s)
	i, n := 0, len(s)
	if i < n && (s[i] == '+' || s[i] == '-') {
		i++
	}
	ds := i
	for i < n && s[i] >= '0' && s[i] <= '9' {
		i++
	}
	isInt := true
	if i < n && s[i] == '.' {
		j := i + 1
		for j < n && s[j] >= '0' && s[j] <= '9' {
			j++
		}
		if j > i+1 || i > ds {
			isInt = false
			i = j
		}
	}
	if i == ds {
		return num{k: nInt}
	}
	if i < n && (s[i] == 'e' || s[i] == 'E') {
		j := i + 1
		if j < n && (s[j] == '+' || s[j] == '-') {
			j++
		}
		k := j
		for k < n && s[k] >= '0' && s[k] <= '9' {
			k++
		}
		if k > j {
			f, _ := strconv.ParseFloat(s[:k], 64)
			return num{k: nFloat, f: f}
		}
	}
	p := s[:i]
	if isInt {
		if v, err := strconv.ParseInt(p, 10, 64); err == nil {
			return num{k: nInt, i: v}
		}
	}
	if r, ok := new(big.Rat).SetString(p); ok {
		return num{k: nDec, r: r}
	}
	return num{k: nInt}
}

func bytesToUint(b []byte) int64 {
	var u uint64
	for _, c := range b {
		u = u<<8 | uint64(c)
	}
	return int64(u)
}

func asNum(v interface{}) num {
	switch x := v.(type) {
	case int64:
		return num{k: nInt, i: x}
	case float64:
		return num{k: nFloat, f: x}
	case decVal:
		if r, ok := new(big.Rat).SetString(string(x)); ok {
			return num{k: nDec, r: r}
		}
		return num{k: nInt}
	case string:
		return numPrefix(x)
	case ciStr:
		return numPrefix(string(x))
	case []byte:
		return numPrefix(string(x))
	case time.Time:
		i, _ := strconv.ParseInt(x.Format("20060102150405"), 10, 64)
		return num{k: nInt, i: i}
	}
	return num{k: nInt}
}

func cmpNum(a, b num) int {
	switch {
	case a.k == nInt && b.k == nInt:
		switch {
		case a.i < b.i:
			return -1
		case a.i > b.i:
			return 1
		}
		return 0
	case a.k == nFloat || b.k == nFloat:
		af, bf := a.float(), b.float()
		switch {
		case af < bf:
			return -1
		case af > bf:
			return 1
		}
		return 0
	}
	return a.rat().Cmp(b.rat())
}

func isStringy(v interface{}) bool {
	switch v.(type) {
	case string, ciStr, []byte:
		return true
	}
	return false
}

// compareVals compares two non-NULL scalar values with MySQL-like coercion.
func compareVals(a, b interface{}) int {
	ta, aIsT := a.(time.Time)
	tb, bIsT := b.(time.Time)
	switch {
	case aIsT && bIsT:
		return cmpTime(ta, tb)
	case aIsT && isStringy(b):
		if t, ok := parseTime(textOf(b)); ok {
			return cmpTime(ta, t)
		}
		return strings.Compare(textOf(a), textOf(b))
	case bIsT && isStringy(a):
		if t, ok := parseTime(textOf(a)); ok {
			return cmpTime(t, tb)
		}
		return strings.Compare(textOf(a), textOf(b))
	case isStringy(a) && isStringy(b):
		_, ca := a.(ciStr)
		_, cb := b.(ciStr)
		sa, sb := textOf(a), textOf(b)
		if ca || cb {
			sa, sb = strings.ToLower(sa), strings.ToLower(sb)
		}
		return strings.Compare(sa, sb)
	}
	return cmpNum(asNum(a), asNum(b))
}

func cmpTime(a, b time.Time) int {
	switch {
	case a.Before(b):
		return -1
	case a.After(b):
		return 1
	}
	return 0
}

// ---- decimals ----

// canonDecimal normalises a decimal text. scale < 0 keeps the digits as given.
func canonDecimal(s string, scale int) (string, bool) {
	s = strings.TrimSpace(s)
	r, ok := new(big.Rat).SetString(s)
	if !ok {
		return "", false
	}
	if scale < 0 {
		scale = 0
		if !strings.ContainsAny(s, "eE/") {
			if i := strings.IndexByte(s, '.'); i >= 0 {
				scale = len(s) - i - 1
			}
		} else if !r.IsInt() {
			f, _ := r.Float64()
			t := strconv.FormatFloat(f, 'f', -1, 64)
			if i := strings.IndexByte(t, '.'); i >= 0 {
				scale = len(t) - i - 1
			}
		}
	}
	out := r.FloatString(scale)
	if strings.HasPrefix(out, "-") && strings.Trim(out, "-0.") == "" {
		out = out[1:]
	}
	return out, true
}

func decScale(d decVal) int {
	if i := strings.IndexByte(string(d), '.'); i >= 0 {
		return len(d) - i - 1
	}
	return 0
}

// ---- column coercion ----

var intRanges = map[ColType][2]int64{
	TTinyInt:   {math.MinInt8, math.MaxInt8},
	TSmallInt:  {math.MinInt16, math.MaxInt16},
	TMediumInt: {-8388608, 8388607},
	TInt:       {math.MinInt32, math.MaxInt32},
	TBigInt:    {math.MinInt64, math.MaxInt64},
}

func strictNumber(s string) (num, bool) {
	t := strings.TrimSpace(s)
	if t == "" {
		return num{}, false
	}
	if _, err := strconv.ParseFloat(t, 64); err != nil {
		return num{}, false
	}
	return numPrefix(t), true
}

// coerce converts an evaluator value to the storage representation of column c.
func coerce(c *Column, v interface{}) (interface{}, error) {
	if v == nil {
		if !c.Nullable {
			return nil, myErr(1048, "Column '%s' cannot be null", c.Name)
		}
		return nil, nil
	}
	if _, ok := v.(rowVal); ok {
		return nil, myErr(1241, "Operand should contain 1 column(s)")
	}
	t := c.Type
	switch {
	case t.isInt():
		var n num
		if isStringy(v) {
			var ok bool
			if n, ok = strictNumber(textOf(v)); !ok {
				return nil, myErr(1366, "Incorrect integer value: '%s' for column '%s'", textOf(v), c.Name)
			}
		} else {
			n = asNum(v)
		}
		var i int64
		switch n.k {
		case nInt:
			i = n.i
		default:
			f := math.Round(n.float())
			if f >= 9.3e18 || f <= -9.3e18 || math.IsNaN(f) {
				return nil, myErr(1264, "Out of range value for column '%s'", c.Name)
			}
			i = int64(f)
		}
		r := intRanges[t]
		if c.Unsigned {
			r = [2]int64{0, math.MaxInt64}
			if t != TBigInt {
				r[1] = 2*intRanges[t][1] + 1
			}
		}
		if i < r[0] || i > r[1] {
			return nil, myErr(1264, "Out of range value for column '%s'", c.Name)
		}
		return i, nil
	case t == TDouble || t == TFloat:
		if isStringy(v) {
			n, ok := strictNumber(textOf(v))
			if !ok {
				return nil, myErr(1366, "Incorrect double value: '%s' for column '%s'", textOf(v), c.Name)
			}
			return n.float(), nil
		}
		f := asNum(v).float()
		if t == TFloat {
			f = float64(float32(f))
		}
		return f, nil
	case t == TDecimal:
		scale := -1
		if c.Length > 0 {
			scale = c.Scale
		}
		var txt string
		switch x := v.(type) {
		case float64:
			txt = strconv.FormatFloat(x, 'f', -1, 64)
		case time.Time:
			txt = strconv.FormatInt(asNum(x).i, 10)
		default:
			txt = textOf(v)
		}
		out, ok := canonDecimal(txt, scale)
		if !ok {
			return nil, myErr(1366, "Incorrect decimal value: '%s' for column '%s'", txt, c.Name)
		}
		if c.Length > 0 {
			digits := strings.TrimLeft(strings.Replace(strings.TrimPrefix(out, "-"), ".", "", 1), "0")
			intDigits := len(strings.TrimLeft(strings.SplitN(strings.TrimPrefix(out, "-"), ".", 2)[0], "0"))
			if intDigits > c.Length-c.Scale && digits != "" {
				return nil, myErr(1264, "Out of range value for column '%s'", c.Name)
			}
		}
		return out, nil
	case t.isText():
		var s string
		if tv, ok := v.(time.Time); ok {
			s = fmtTime(tv, TDateTime, 0)
		} else {
			s = textOf(v)
		}
		if c.Length > 0 && (t == TVarchar || t == TChar) && len([]rune(s)) > c.Length {
			return nil, myErr(1406, "Data too long for column '%s'", c.Name)
		}
		return s, nil
	case t.isBinary():
		if b, ok := v.([]byte); ok {
			return append([]byte{}, b...), nil
		}
		return []byte(textOf(v)), nil
	case t.isTime():
		var tv time.Time
		switch x := v.(type) {
		case time.Time:
			tv = x.UTC()
		case int64, float64, decVal:
			p, ok := parseTime(textOf(x))
			if !ok {
				return nil, myErr(1292, "Incorrect datetime value: '%s' for column '%s'", textOf(v), c.Name)
			}
			tv = p
		default:
			p, ok := parseTime(textOf(v))
			if !ok {
				return nil, myErr(1292, "Incorrect datetime value: '%s' for column '%s'", textOf(v), c.Name)
			}
			tv = p
		}
		if t == TDate {
			return time.Date(tv.Year(), tv.Month(), tv.Day(), 0, 0, 0, 0, time.UTC), nil
		}
		if c.Length > 0 && c.Length < 6 {
			unit := time.Duration(math.Pow10(9 - c.Length))
			return tv.Round(unit), nil // MySQL rounds to the column's fsp
		}
		return tv.Truncate(time.Microsecond), nil
	case t == TBit:
		n := (c.Length + 7) / 8
		if n <= 0 {
			n = 1
		}
		var raw []byte
		switch x := v.(type) {
		case []byte:
			raw = x
		case string:
			raw = []byte(x)
		default:
			u := uint64(asNum(v).i)
			raw = make([]byte, 8)
			for i := 7; i >= 0; i-- {
				raw[i] = byte(u)
				u >>= 8
			}
		}
		raw = bytes.TrimLeft(raw, "\x00")
		if len(raw) > n {
			return nil, myErr(1406, "Data too long for column '%s'", c.Name)
		}
		out := make([]byte, n)
		copy(out[n-len(raw):], raw)
		return out, nil
	}
	return nil, myErr(1105, "unsupported column type %d", int(t))
}

// colValue converts a stored value to the evaluator representation.
func colValue(c *Column, v interface{}) interface{} {
	if v == nil {
		return nil
	}
	switch {
	case c.Type == TDecimal:
		if s, ok := v.(string); ok {
			return decVal(s)
		}
	case c.Type == TBit:
		if b, ok := v.([]byte); ok {
			return bytesToUint(b)
		}
	case c.ci:
		if s, ok := v.(string); ok {
			return ciStr(s)
		}
	}
	return v
}

func valuesEqual(a, b interface{}) bool {
	if a == nil || b == nil {
		return a == nil && b == nil
	}
	switch x := a.(type) {
	case []byte:
		y, ok := b.([]byte)
		return ok && bytes.Equal(x, y)
	case time.Time:
		y, ok := b.(time.Time)
		return ok && x.Equal(y)
	}
	if _, ok := b.([]byte); ok {
		return false
	}
	return a == b
}

func copyVal(v interface{}) interface{} {
	if b, ok := v.([]byte); ok {
		return append([]byte{}, b...)
	}
	return v
}

func copyRow(r Row) Row {
	out := make(Row, len(r))
	for i, v := range r {
		out[i] = copyVal(v)
	}
	return out
}

// keyPart encodes one storage value for use in a primary/unique key string.
func keyPart(v interface{}) string {
	switch x := v.(type) {
	case nil:
		return "\x01N"
	case int64:
		return "i" + strconv.FormatInt(x, 10)
	case float64:
		return "f" + strconv.FormatFloat(x, 'g', -1, 64)
	case string:
		return "s" + x
	case []byte:
		return "b" + string(x)
	case time.Time:
		return "t" + x.UTC().Format(time.RFC3339Nano)
	}
	return "?" + fmt.Sprint(v)
}

func displayPart(v interface{}) string {
	if t, ok := v.(time.Time); ok {
		return fmtTime(t, TDateTime, 0)
	}
	return textOf(v)
}

// ---- the connection's location (go-sql-driver's DSN parameter loc, UTC by default): a DATETIME has no zone, the
// driver reads its wall clock as a time in that location and writes a time.Time as its wall clock there

var wireLocation atomic.Value

// SetLocation sets the location temporal values are handed out in (nil: UTC)
func SetLocation(loc *time.Location) {
	if loc == nil {
		loc = time.UTC
	}
	wireLocation.Store(loc)
}

// Location is the location temporal values are handed out in
func Location() *time.Location {
	if loc, ok := wireLocation.Load().(*time.Location); ok {
		return loc
	}
	return time.UTC
}

// relabel keeps the wall clock of t and reads it in loc
func relabel(t time.Time, loc *time.Location) time.Time {
	return time.Date(t.Year(), t.Month(), t.Day(), t.Hour(), t.Minute(), t.Second(), t.Nanosecond(), loc)
}
