package memdb

import (
	"context"
	"database/sql"
	"testing"
)

func TestBeginTxOptionsReachTheJournal(t *testing.T) {
	e := New("d")
	db := sql.OpenDB(e.Connector())
	e.ResetJournal()
	tx, err := db.BeginTx(context.Background(), &sql.TxOptions{Isolation: sql.LevelSerializable, ReadOnly: true})
	if err != nil {
		t.Fatal(err)
	}
	tx.Rollback()
	var got []string
	for _, j := range e.Journal() {
		got = append(got, j.SQL)
	}
	t.Log(got)
	if len(got) < 2 {
		t.Fatal(got)
	}
}
