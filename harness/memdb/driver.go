package memdb

import (
	"context"
	"database/sql"
	"database/sql/driver"
	"errors"
	"fmt"
	"io"
	"reflect"
	"strconv"
	"strings"
	"sync/atomic"
	"time"
)

// Driver returns a driver whose Open/OpenConnector (any DSN) connect to THIS engine.
func (e *Engine) Driver() driver.Driver { return &memDriver{e: e} }

// Connector is a shortcut for sql.OpenDB(e.Connector()).
func (e *Engine) Connector() driver.Connector { return &connector{d: &memDriver{e: e}} }

type memDriver struct{ e *Engine }

func (d *memDriver) Open(string) (driver.Conn, error) { return d.connect() }
func (d *memDriver) OpenConnector(string) (driver.Connector, error) {
	return &connector{d: d}, nil
}

func (d *memDriver) connect() (driver.Conn, error) {
	s, err := d.e.openSession()
	if err != nil {
		return nil, err
	}
	return &Conn{s: s}, nil
}

type connector struct{ d *memDriver }

func (c *connector) Connect(ctx context.Context) (driver.Conn, error) {
	if err := ctx.Err(); err != nil {
		return nil, err
	}
	return c.d.connect()
}
func (c *connector) Driver() driver.Driver { return c.d }

// Conn is one connection to the engine.
type Conn struct{ s *session }

// ID is the connection id used in journal entries and faults.
func (c *Conn) ID() int { return c.s.id }

var (
	_ driver.Conn               = (*Conn)(nil)
	_ driver.ConnBeginTx        = (*Conn)(nil)
	_ driver.ConnPrepareContext = (*Conn)(nil)
	_ driver.ExecerContext      = (*Conn)(nil)
	_ driver.QueryerContext     = (*Conn)(nil)
	_ driver.Execer             = (*Conn)(nil)
	_ driver.Queryer            = (*Conn)(nil)
	_ driver.Pinger             = (*Conn)(nil)
	_ driver.SessionResetter    = (*Conn)(nil)
	_ driver.Validator          = (*Conn)(nil)
	_ driver.NamedValueChecker  = (*Conn)(nil)
	_ driver.DriverContext      = (*memDriver)(nil)
)

func (c *Conn) dead() bool {
	c.s.e.mu.Lock()
	defer c.s.e.mu.Unlock()
	return c.s.closed
}

func namedArgs(nv []driver.NamedValue) ([]interface{}, error) {
	out := make([]interface{}, len(nv))
	for i, a := range nv {
		v, err := normArg(a.Value)
		if err != nil {
			return nil, err
		}
		out[i] = v
	}
	return out, nil
}

func plainArgs(vs []driver.Value) ([]interface{}, error) {
	out := make([]interface{}, len(vs))
	for i, a := range vs {
		v, err := normArg(a)
		if err != nil {
			return nil, err
		}
		out[i] = v
	}
	return out, nil
}

func (c *Conn) exec(ctx context.Context, query string, args []interface{}, pre []*piece) (driver.Result, error) {
	out, err := c.s.run(ctx, query, args, pre)
	if err != nil {
		return nil, err
	}
	return result{out.lastID, out.affected}, nil
}

func (c *Conn) query(ctx context.Context, query string, args []interface{}, pre []*piece, binary bool) (driver.Rows, error) {
	out, err := c.s.run(ctx, query, args, pre)
	if err != nil {
		return nil, err
	}
	rows := &Rows{cols: out.cols, rows: out.rows, binary: binary, failAt: out.failAt, failErr: out.failErr}
	if len(out.sets) > 1 {
		// several statements with a result each: the first comes first, the others through NextResultSet
		first := out.sets[0]
		rows = &Rows{cols: first.cols, rows: first.rows, binary: binary, failAt: first.failAt, failErr: first.failErr}
		for _, o := range out.sets[1:] {
			rows.more = append(rows.more, &Rows{cols: o.cols, rows: o.rows, binary: binary, failAt: o.failAt, failErr: o.failErr})
		}
	}
	// like go-sql-driver/mysql, the connection is busy with this result until it has been read to its end or
	// closed: another command sent meanwhile fails ("busy buffer", driver.ErrBadConn)
	c.s.e.mu.Lock()
	c.s.pending = rows
	c.s.e.mu.Unlock()
	return rows, nil
}

// connBinary: go-sql-driver uses the binary protocol whenever a statement has
// arguments (unless interpolateParams is emulated).
func (c *Conn) connBinary(nargs int) bool {
	c.s.e.mu.Lock()
	defer c.s.e.mu.Unlock()
	return nargs > 0 && !c.s.e.interp
}

func (c *Conn) ExecContext(ctx context.Context, query string, nv []driver.NamedValue) (driver.Result, error) {
	if len(nv) > 0 && c.s.e.skipFastPath() {
		return nil, driver.ErrSkip
	}
	args, err := namedArgs(nv)
	if err != nil {
		return nil, err
	}
	return c.exec(ctx, query, args, nil)
}

func (c *Conn) QueryContext(ctx context.Context, query string, nv []driver.NamedValue) (driver.Rows, error) {
	if len(nv) > 0 && c.s.e.skipFastPath() {
		return nil, driver.ErrSkip
	}
	args, err := namedArgs(nv)
	if err != nil {
		return nil, err
	}
	return c.query(ctx, query, args, nil, c.connBinary(len(args)))
}

func (c *Conn) Exec(query string, vs []driver.Value) (driver.Result, error) {
	args, err := plainArgs(vs)
	if err != nil {
		return nil, err
	}
	return c.exec(context.Background(), query, args, nil)
}

func (c *Conn) Query(query string, vs []driver.Value) (driver.Rows, error) {
	args, err := plainArgs(vs)
	if err != nil {
		return nil, err
	}
	return c.query(context.Background(), query, args, nil, c.connBinary(len(args)))
}

func (c *Conn) Prepare(query string) (driver.Stmt, error) {
	return c.PrepareContext(context.Background(), query)
}

func (c *Conn) PrepareContext(ctx context.Context, query string) (driver.Stmt, error) {
	if err := ctx.Err(); err != nil {
		return nil, err
	}
	if c.dead() {
		return nil, driver.ErrBadConn
	}
	pieces, err := compile(query)
	if err != nil {
		return nil, err
	}
	n := 0
	for _, p := range pieces {
		n += p.nparams
	}
	atomic.AddInt64(&c.s.e.openStmts, 1)
	return &Stmt{c: c, query: query, pieces: pieces, n: n}, nil
}

func (c *Conn) Begin() (driver.Tx, error) {
	return c.BeginTx(context.Background(), driver.TxOptions{})
}

func (c *Conn) BeginTx(ctx context.Context, opts driver.TxOptions) (driver.Tx, error) {
	if c.dead() {
		return nil, driver.ErrBadConn
	}
	if lvl := sql.IsolationLevel(opts.Isolation); lvl != sql.LevelDefault {
		// as go-sql-driver/mysql does: the level is set for the next transaction only
		name := map[sql.IsolationLevel]string{sql.LevelReadUncommitted: "READ UNCOMMITTED", sql.LevelReadCommitted: "READ COMMITTED",
			sql.LevelRepeatableRead: "REPEATABLE READ", sql.LevelSerializable: "SERIALIZABLE"}[lvl]
		if name == "" {
			return nil, fmt.Errorf("mysql: unsupported isolation level: %d", opts.Isolation)
		}
		if _, err := c.s.run(ctx, "SET TRANSACTION ISOLATION LEVEL "+name, nil, nil); err != nil {
			return nil, err
		}
	}
	q := "START TRANSACTION"
	if opts.ReadOnly {
		q = "START TRANSACTION READ ONLY"
	}
	if _, err := c.s.run(ctx, q, nil, nil); err != nil {
		return nil, err
	}
	return &tx{c: c}, nil
}

func (c *Conn) Close() error { return c.s.close() }

func (c *Conn) Ping(ctx context.Context) error {
	atomic.AddInt64(&c.s.e.pings, 1)
	if c.dead() {
		return driver.ErrBadConn
	}
	return ctx.Err()
}

func (c *Conn) ResetSession(context.Context) error {
	if c.dead() {
		return driver.ErrBadConn
	}
	return nil
}

func (c *Conn) IsValid() bool { return !c.dead() }

func (c *Conn) CheckNamedValue(nv *driver.NamedValue) error {
	v, err := checkValue(nv.Value)
	if err != nil {
		return err
	}
	nv.Value = v
	return nil
}

// checkValue mirrors go-sql-driver's converter: driver.Valuer, pointers and
// every integer/float/bool/string/[]byte kind are accepted.
func checkValue(v interface{}) (driver.Value, error) {
	if driver.IsValue(v) {
		return v, nil
	}
	if vr, ok := v.(driver.Valuer); ok {
		if rv := reflect.ValueOf(vr); rv.Kind() == reflect.Ptr && rv.IsNil() {
			return nil, nil
		}
		sv, err := vr.Value()
		if err != nil {
			return nil, err
		}
		if driver.IsValue(sv) {
			return sv, nil
		}
		return normArg(sv)
	}
	if u, ok := v.(uint64); ok {
		return u, nil
	}
	x, err := normArg(v)
	if err != nil {
		return nil, err
	}
	if d, ok := x.(decVal); ok {
		return string(d), nil
	}
	return x, nil
}

type tx struct{ c *Conn }

func (t *tx) Commit() error {
	if t.c.dead() {
		return driver.ErrBadConn
	}
	_, err := t.c.s.run(context.Background(), "COMMIT", nil, nil)
	return err
}

func (t *tx) Rollback() error {
	if t.c.dead() {
		return driver.ErrBadConn
	}
	_, err := t.c.s.run(context.Background(), "ROLLBACK", nil, nil)
	return err
}

type result struct{ id, n int64 }

func (r result) LastInsertId() (int64, error) { return r.id, nil }
func (r result) RowsAffected() (int64, error) { return r.n, nil }

// Stmt is a prepared statement (always binary protocol, like MySQL).
type Stmt struct {
	c      *Conn
	query  string
	pieces []*piece
	n      int
	closed bool
}

var (
	_ driver.StmtExecContext  = (*Stmt)(nil)
	_ driver.StmtQueryContext = (*Stmt)(nil)
)

func (s *Stmt) Close() error {
	if !s.closed {
		s.closed = true
		atomic.AddInt64(&s.c.s.e.openStmts, -1)
	}
	return nil
}
func (s *Stmt) NumInput() int { return s.n }

func (s *Stmt) check() error {
	if s.closed {
		return errors.New("memdb: statement is closed")
	}
	if s.c.dead() {
		return driver.ErrBadConn
	}
	return nil
}

func (s *Stmt) Exec(vs []driver.Value) (driver.Result, error) {
	if err := s.check(); err != nil {
		return nil, err
	}
	args, err := plainArgs(vs)
	if err != nil {
		return nil, err
	}
	return s.c.exec(context.Background(), s.query, args, s.pieces)
}

func (s *Stmt) Query(vs []driver.Value) (driver.Rows, error) {
	if err := s.check(); err != nil {
		return nil, err
	}
	args, err := plainArgs(vs)
	if err != nil {
		return nil, err
	}
	return s.c.query(context.Background(), s.query, args, s.pieces, true)
}

func (s *Stmt) ExecContext(ctx context.Context, nv []driver.NamedValue) (driver.Result, error) {
	if err := s.check(); err != nil {
		return nil, err
	}
	args, err := namedArgs(nv)
	if err != nil {
		return nil, err
	}
	return s.c.exec(ctx, s.query, args, s.pieces)
}

func (s *Stmt) QueryContext(ctx context.Context, nv []driver.NamedValue) (driver.Rows, error) {
	if err := s.check(); err != nil {
		return nil, err
	}
	args, err := namedArgs(nv)
	if err != nil {
		return nil, err
	}
	return s.c.query(ctx, s.query, args, s.pieces, true)
}

func (s *Stmt) CheckNamedValue(nv *driver.NamedValue) error { return s.c.CheckNamedValue(nv) }

// Rows is a fully materialised result set.
type Rows struct {
	cols    []colMeta
	rows    [][]interface{}
	pos     int
	binary  bool
	failAt  int
	failErr error
	buf     []byte
	drained bool // read to its end, or closed
	more    []*Rows
}

func (r *Rows) HasNextResultSet() bool { return len(r.more) > 0 }

func (r *Rows) NextResultSet() error {
	if len(r.more) == 0 {
		return io.EOF
	}
	next, rest := r.more[0], r.more[1:]
	r.cols, r.rows, r.pos, r.failAt, r.failErr, r.buf = next.cols, next.rows, 0, next.failAt, next.failErr, nil
	r.more = rest
	r.drained = false
	return nil
}

var (
	_ driver.RowsColumnTypeDatabaseTypeName = (*Rows)(nil)
	_ driver.RowsColumnTypeScanType         = (*Rows)(nil)
	_ driver.RowsColumnTypeNullable         = (*Rows)(nil)
	_ driver.RowsColumnTypeLength           = (*Rows)(nil)
)

func (r *Rows) Columns() []string {
	out := make([]string, len(r.cols))
	for i, c := range r.cols {
		out[i] = c.name
	}
	return out
}

func (r *Rows) Close() error { r.pos = len(r.rows); r.more = nil; r.drained = true; return nil }

func (r *Rows) Next(dest []driver.Value) error {
	if r.failAt > 0 && r.pos+1 >= r.failAt {
		return r.failErr
	}
	if r.pos >= len(r.rows) {
		r.drained = len(r.more) == 0
		return io.EOF
	}
	row := r.rows[r.pos]
	r.pos++
	// byte values are handed out as slices of ONE buffer that the next row overwrites, as go-sql-driver/mysql
	// hands out slices of its packet buffer: whoever keeps them (sql.RawBytes) must copy them first
	r.buf = r.buf[:0]
	for i := range dest {
		if i < len(row) {
			dest[i] = wire(row[i], r.cols[i], r.binary)
			if b, ok := dest[i].([]byte); ok {
				if cap(r.buf)-len(r.buf) < len(b) {
					grown := make([]byte, len(r.buf), 2*cap(r.buf)+len(b)+64)
					copy(grown, r.buf)
					r.buf = grown // (earlier values of this row keep pointing into the old array: still theirs)
				}
				start := len(r.buf)
				r.buf = append(r.buf, b...)
				dest[i] = r.buf[start:len(r.buf):len(r.buf)]
			}
		}
	}
	return nil
}

// wire converts a stored value to what go-sql-driver/mysql would hand to
// database/sql: binary protocol -> typed values, text protocol -> []byte,
// time columns -> time.Time in both (parseTime=true).
func wire(v interface{}, m colMeta, binary bool) driver.Value {
	if v == nil {
		return nil
	}
	if t, ok := v.(time.Time); ok {
		if m.typ.isTime() || m.typ == tNull {
			return relabel(t, Location())
		}
		return []byte(fmtTime(t, TDateTime, 0))
	}
	if b, ok := v.([]byte); ok {
		return append([]byte{}, b...)
	}
	if binary {
		switch x := v.(type) {
		case int64:
			if m.typ.isInt() {
				return x
			}
		case float64:
			switch m.typ {
			case TFloat:
				return float32(x)
			case TDouble:
				return x
			}
		}
	}
	switch x := v.(type) {
	case int64:
		return []byte(strconv.FormatInt(x, 10))
	case float64:
		if m.typ == TFloat {
			return []byte(fmtFloat(x, 32))
		}
		return []byte(fmtFloat(x, 64))
	case string:
		return []byte(x)
	}
	return []byte(textOf(v))
}

var dbTypeNames = map[ColType]string{TInt: "INT", TBigInt: "BIGINT", TTinyInt: "TINYINT", TSmallInt: "SMALLINT", TMediumInt: "MEDIUMINT",
	TVarchar: "VARCHAR", TChar: "CHAR", TText: "TEXT", TDouble: "DOUBLE", TDecimal: "DECIMAL", TFloat: "FLOAT", TDateTime: "DATETIME",
	TTimestamp: "TIMESTAMP", TDate: "DATE", TBlob: "BLOB", TVarBinary: "VARBINARY", TBit: "BIT", TLongText: "LONGTEXT", TJSON: "JSON",
	TLongBlob: "LONGBLOB", tNull: "NULL"}

func (r *Rows) ColumnTypeDatabaseTypeName(i int) string { return dbTypeNames[r.cols[i].typ] }

var (
	scanInt8      = reflect.TypeOf(int8(0))
	scanInt16     = reflect.TypeOf(int16(0))
	scanInt32     = reflect.TypeOf(int32(0))
	scanInt64     = reflect.TypeOf(int64(0))
	scanFloat32   = reflect.TypeOf(float32(0))
	scanFloat64   = reflect.TypeOf(float64(0))
	scanNullInt   = reflect.TypeOf(sql.NullInt64{})
	scanNullFloat = reflect.TypeOf(sql.NullFloat64{})
	scanNullTime  = reflect.TypeOf(sql.NullTime{})
	scanRawBytes  = reflect.TypeOf(sql.RawBytes{})
	scanUnknown   = reflect.TypeOf(new(interface{}))
)

// ColumnTypeScanType follows mysqlField.scanType() of go-sql-driver/mysql v1.6.0.
func (r *Rows) ColumnTypeScanType(i int) reflect.Type {
	m := r.cols[i]
	switch m.typ {
	case TTinyInt, TSmallInt, TInt, TMediumInt, TBigInt:
		if m.nullable {
			return scanNullInt
		}
		if m.unsigned {
			switch m.typ {
			case TTinyInt:
				return reflect.TypeOf(uint8(0))
			case TSmallInt:
				return reflect.TypeOf(uint16(0))
			case TBigInt:
				return reflect.TypeOf(uint64(0))
			}
			return reflect.TypeOf(uint32(0))
		}
		switch m.typ {
		case TTinyInt:
			return scanInt8
		case TSmallInt:
			return scanInt16
		case TBigInt:
			return scanInt64
		}
		return scanInt32
	case TFloat:
		if m.nullable {
			return scanNullFloat
		}
		return scanFloat32
	case TDouble:
		if m.nullable {
			return scanNullFloat
		}
		return scanFloat64
	case TDateTime, TTimestamp, TDate:
		return scanNullTime
	case tNull:
		return scanUnknown
	}
	return scanRawBytes
}

func (r *Rows) ColumnTypeNullable(i int) (nullable, ok bool) { return r.cols[i].nullable, true }

func (r *Rows) ColumnTypeLength(i int) (int64, bool) {
	m := r.cols[i]
	if (m.typ.isText() || m.typ.isBinary()) && m.length > 0 {
		return int64(m.length), true
	}
	return 0, false
}

// String helps debugging journal args.
func (e Entry) String() string {
	var sb strings.Builder
	sb.WriteString("#" + strconv.Itoa(e.Seq) + " c" + strconv.Itoa(e.Conn) + " " + e.Kind)
	if e.Table != "" {
		sb.WriteString(" " + e.Table)
	}
	if e.SQL != "" {
		sb.WriteString(" " + strconv.Quote(e.SQL))
	}
	if e.Err != "" {
		sb.WriteString(" ERR=" + e.Err)
	}
	return sb.String()
}
