package memdb

import (
	"context"
	"database/sql/driver"
	"fmt"
	"math/rand"
	"strings"
	"testing"
	"time"
)

// TestNoPanicFuzz throws grammar-generated statements with hostile arguments at the engine; nothing may
// reach the recover wrapper (which would journal "panic").
func TestNoPanicFuzz(t *testing.T) {
	e, _ := newT(t)
	must(t, e.CreateTable(allTypesDef(true, "nl")))
	must(t, e.InsertRows("t", Row{1, "x", 1}, Row{2, nil, nil}, Row{3, "12abc", -7}))
	when := time.Date(2024, 2, 29, 13, 14, 15, 123456000, time.UTC)
	must(t, e.Exec("INSERT INTO nl (c_int,c_tiny,c_small,c_medium,c_varchar,c_char,c_text,c_double,c_decimal,c_float,c_datetime,c_timestamp,c_date,c_blob,c_varbinary,c_bit,c_longtext,c_json,c_longblob) VALUES (?,?,?,?,?,?,?,?,?,?,?,?,?,?,?,?,?,?,?)",
		-5, 7, 300, 70000, "vc", "ch", "text", 1.5, "12.345", float32(2.25), when, when, "2024-02-29", []byte{1, 2}, []byte("vb"), true, "long", `{"a":1}`, []byte{9}))
	must(t, e.Exec("INSERT INTO nl (c_int) VALUES (NULL)"))
	cols := []string{"id", "c_int", "c_tiny", "c_varchar", "c_double", "c_decimal", "c_float", "c_datetime", "c_date", "c_blob", "c_bit", "c_json", "c_text", "nl.c_int", "nosuch"}
	atoms := []string{"?", "?", "1", "0", "-1", "NULL", "'a'", "'12abc'", "1.5", "0.0", "1e10", "9223372036854775807", "-9223372036854775808", "x'ff'", "now()", "now(6)", "''", "'2024-02-29'", "TRUE", "DEFAULT(c_int)", "@@version", "18446744073709551615", "1e400"}
	bin := []string{"+", "-", "*", "/", "%", "DIV", "=", "<>", "<", "<=", ">", ">=", "<=>", "AND", "OR", "XOR", "&", "|", "^", "<<", ">>", "LIKE", "NOT LIKE"}
	fn := []string{"LOWER", "UPPER", "LENGTH", "ABS", "CONCAT", "COALESCE", "IFNULL", "CHAR_LENGTH", "TRIM", "IF", "NULLIF", "nosuchfn"}
	r := rand.New(rand.NewSource(7))
	var expr func(d int) string
	expr = func(d int) string {
		if d <= 0 || r.Intn(4) == 0 {
			if r.Intn(2) == 0 {
				return cols[r.Intn(len(cols))]
			}
			return atoms[r.Intn(len(atoms))]
		}
		switch r.Intn(12) {
		case 0:
			return "(" + expr(d-1) + ")"
		case 1:
			return "NOT " + expr(d-1)
		case 2:
			return "-" + expr(d-1)
		case 3:
			return expr(d-1) + " IS NULL"
		case 4:
			return expr(d-1) + " IN (" + expr(d-1) + ", " + expr(d-1) + ")"
		case 5:
			return expr(d-1) + " BETWEEN " + expr(d-1) + " AND " + expr(d-1)
		case 6:
			n := r.Intn(4)
			as := make([]string, n)
			for i := range as {
				as[i] = expr(d - 1)
			}
			return fn[r.Intn(len(fn))] + "(" + strings.Join(as, ", ") + ")"
		case 7:
			return "(" + expr(d-1) + ", " + expr(d-1) + ") IN ((" + expr(d-1) + ", " + expr(d-1) + "), (" + expr(d-1) + "))"
		case 8:
			return "CASE WHEN " + expr(d-1) + " THEN " + expr(d-1) + " ELSE " + expr(d-1) + " END"
		case 9:
			return "CAST(" + expr(d-1) + " AS " + []string{"SIGNED", "CHAR", "DECIMAL(10,2)", "DATETIME", "DOUBLE", "UNSIGNED", "DATE", "BINARY", "JSON"}[r.Intn(9)] + ")"
		}
		return "(" + expr(d-1) + " " + bin[r.Intn(len(bin))] + " " + expr(d-1) + ")"
	}
	argPool := []interface{}{nil, int64(1), int64(-1), "a", "1", "", []byte{0xff}, 1.5, true, when, uint64(1 << 63), "2024-01-01", "9999999999999999999999", int64(-9223372036854775808)}
	c, err := e.Driver().Open("")
	must(t, err)
	for i := 0; i < 8000; i++ {
		var q string
		col := cols[r.Intn(len(cols)-2)]
		switch r.Intn(7) {
		case 0:
			q = fmt.Sprintf("SELECT %s, %s FROM nl WHERE %s ORDER BY %s LIMIT %s", expr(3), expr(2), expr(3), expr(1), atoms[r.Intn(5)])
		case 1:
			q = fmt.Sprintf("UPDATE nl SET %s = %s, c_int = %s WHERE %s", col, expr(3), expr(2), expr(2))
		case 2:
			q = fmt.Sprintf("INSERT INTO nl (%s, c_int) VALUES (%s, %s), (%s, DEFAULT) ON DUPLICATE KEY UPDATE %s = %s", col, expr(2), expr(2), expr(1), col, expr(2))
		case 3:
			q = fmt.Sprintf("DELETE FROM nl WHERE %s LIMIT 1", expr(3))
		case 4:
			q = fmt.Sprintf("SELECT COUNT(%s), MAX(%s), MIN(%s), SUM(%s), AVG(%s) FROM nl WHERE %s", expr(1), expr(1), expr(1), expr(1), expr(1), expr(2))
		case 5:
			q = fmt.Sprintf("SELECT %s", expr(4))
		case 6:
			q = fmt.Sprintf("SELECT * FROM nl WHERE %s FOR UPDATE; UPDATE t SET n = %s WHERE id = 1", expr(2), expr(2))
		}
		var args []driver.NamedValue
		for k := 0; k < strings.Count(q, "?"); k++ {
			args = append(args, driver.NamedValue{Ordinal: k + 1, Value: argPool[r.Intn(len(argPool))]})
		}
		rows, err := c.(driver.QueryerContext).QueryContext(context.Background(), q, args)
		if err == nil {
			dest := make([]driver.Value, len(rows.Columns()))
			for rows.Next(dest) == nil {
			}
			rr := rows.(*Rows)
			for k := range rr.cols {
				rr.ColumnTypeScanType(k)
				rr.ColumnTypeDatabaseTypeName(k)
			}
			rows.Close()
		}
	}
	bad, ok := 0, 0
	kinds := map[string]int{}
	for _, en := range e.Journal() {
		if en.Err == "" {
			ok++
		} else {
			kinds[strings.SplitN(en.Err, ":", 2)[0]]++
		}
		if strings.Contains(en.Err, "panic") {
			bad++
			if bad < 15 {
				t.Errorf("%v args=%v", en, en.Args)
			}
		}
	}
	t.Logf("%d journal entries, %d ok, errors %v", len(e.Journal()), ok, kinds)
}
