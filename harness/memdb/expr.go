package memdb

import (
	"fmt"
	"math"
	"math/big"
	"strings"
	"time"

	"github.com/arana-db/parser/ast"
	"github.com/arana-db/parser/mysql"
	"github.com/arana-db/parser/opcode"
	"github.com/arana-db/parser/test_driver"
)

// evalCtx is the environment an expression is evaluated in.
type evalCtx struct {
	s      *session
	args   []interface{}
	t      *table
	alias  string // lower-case table alias ("" = none)
	row    Row    // current row (storage values) or nil
	insRow Row    // row proposed by INSERT, for VALUES(col)
	now    time.Time
}

func unsupported(what string) error {
	return myErr(1235, "This version of memdb doesn't yet support '%s'", what)
}

func (c *evalCtx) column(n *ast.ColumnName) (int, error) {
	if c.t == nil {
		return 0, myErr(1054, "Unknown column '%s' in 'field list'", n.Name.O)
	}
	if q := n.Table.L; q != "" && q != c.alias && q != strings.ToLower(c.t.def.Name) {
		return 0, myErr(1054, "Unknown column '%s.%s' in 'field list'", n.Table.O, n.Name.O)
	}
	i, ok := c.t.colIdx[n.Name.L]
	if !ok {
		return 0, myErr(1054, "Unknown column '%s' in 'field list'", n.Name.O)
	}
	return i, nil
}

func literal(v *test_driver.ValueExpr) interface{} {
	switch v.Kind() {
	case test_driver.KindNull:
		return nil
	case test_driver.KindInt64:
		return v.GetInt64()
	case test_driver.KindUint64:
		u := v.GetUint64()
		if u <= math.MaxInt64 {
			return int64(u)
		}
		return decVal(fmt.Sprint(u))
	case test_driver.KindFloat32, test_driver.KindFloat64:
		return v.GetFloat64()
	case test_driver.KindString, test_driver.KindBytes:
		return v.GetString()
	case test_driver.KindBinaryLiteral, test_driver.KindMysqlBit:
		return append([]byte{}, v.GetBytes()...)
	case test_driver.KindMysqlDecimal:
		d, ok := canonDecimal(v.GetMysqlDecimal().String(), -1)
		if !ok {
			return decVal("0")
		}
		return decVal(d)
	}
	return fmt.Sprint(v.GetValue())
}

func truth(v interface{}) (val, null bool) {
	switch x := v.(type) {
	case nil:
		return false, true
	case int64:
		return x != 0, false
	case time.Time:
		return true, false
	}
	n := asNum(v)
	return cmpNum(n, num{k: nInt}) != 0, false
}

func boolVal(b bool) interface{} {
	if b {
		return int64(1)
	}
	return int64(0)
}

// cmp3 compares with SQL three-valued logic; rows compare element-wise.
func cmp3(a, b interface{}) (c int, null bool, err error) {
	ra, aRow := a.(rowVal)
	rb, bRow := b.(rowVal)
	if aRow || bRow {
		if !aRow || !bRow || len(ra) != len(rb) {
			n := 1
			if aRow {
				n = len(ra)
			}
			return 0, false, myErr(1241, "Operand should contain %d column(s)", n)
		}
		for i := range ra {
			d, nl, e := cmp3(ra[i], rb[i])
			if e != nil {
				return 0, false, e
			}
			if nl {
				null = true
				continue
			}
			if d != 0 {
				return d, false, nil
			}
		}
		return 0, null, nil
	}
	if a == nil || b == nil {
		return 0, true, nil
	}
	return compareVals(a, b), false, nil
}

func likeMatch(s, p []rune, esc rune, ci bool) bool {
	for len(p) > 0 {
		switch {
		case p[0] == '%':
			for len(p) > 0 && p[0] == '%' {
				p = p[1:]
			}
			if len(p) == 0 {
				return true
			}
			for i := 0; i <= len(s); i++ {
				if likeMatch(s[i:], p, esc, ci) {
					return true
				}
			}
			return false
		case p[0] == '_':
			if len(s) == 0 {
				return false
			}
		default:
			ch := p[0]
			if ch == esc && len(p) > 1 {
				p = p[1:]
				ch = p[0]
			}
			if len(s) == 0 {
				return false
			}
			if s[0] != ch && !(ci && strings.EqualFold(string(s[0]), string(ch))) {
				return false
			}
		}
		s, p = s[1:], p[1:]
	}
	return len(s) == 0
}

func arith(op opcode.Op, a, b interface{}) (interface{}, error) {
	if a == nil || b == nil {
		return nil, nil
	}
	x, y := asNum(a), asNum(b)
	if _, ok := a.(string); ok && x.k != nInt {
		x = num{k: nFloat, f: x.float()}
	}
	if _, ok := b.(string); ok && y.k != nInt {
		y = num{k: nFloat, f: y.float()}
	}
	isZero := func(n num) bool { return cmpNum(n, num{k: nInt}) == 0 }
	switch op {
	case opcode.Div:
		if isZero(y) {
			return nil, nil
		}
		if x.k == nFloat || y.k == nFloat {
			return x.float() / y.float(), nil
		}
		q := new(big.Rat).Quo(x.rat(), y.rat())
		sc := 4
		if d, ok := a.(decVal); ok {
			sc += decScale(d)
		}
		return decVal(q.FloatString(sc)), nil
	case opcode.IntDiv:
		if isZero(y) {
			return nil, nil
		}
		if x.k == nInt && y.k == nInt {
			if x.i == math.MinInt64 && y.i == -1 {
				return nil, myErr(1690, "BIGINT value is out of range")
			}
			return x.i / y.i, nil
		}
		return int64(math.Trunc(x.float() / y.float())), nil
	case opcode.Mod:
		if isZero(y) {
			return nil, nil
		}
		if x.k == nInt && y.k == nInt {
			if y.i == -1 {
				return int64(0), nil
			}
			return x.i % y.i, nil
		}
		return math.Mod(x.float(), y.float()), nil
	}
	if x.k == nInt && y.k == nInt {
		var r int64
		ok := true
		switch op {
		case opcode.Plus:
			r = x.i + y.i
			ok = (r > x.i) == (y.i > 0)
		case opcode.Minus:
			r = x.i - y.i
			ok = (r < x.i) == (y.i > 0)
		case opcode.Mul:
			if x.i != 0 && y.i != 0 {
				r = x.i * y.i
				ok = r/y.i == x.i && !(x.i == -1 && y.i == math.MinInt64) && !(y.i == -1 && x.i == math.MinInt64)
			}
		}
		if !ok {
			return nil, myErr(1690, "BIGINT value is out of range")
		}
		return r, nil
	}
	if x.k == nFloat || y.k == nFloat {
		switch op {
		case opcode.Plus:
			return x.float() + y.float(), nil
		case opcode.Minus:
			return x.float() - y.float(), nil
		}
		return x.float() * y.float(), nil
	}
	sa, sb := 0, 0
	if d, ok := a.(decVal); ok {
		sa = decScale(d)
	}
	if d, ok := b.(decVal); ok {
		sb = decScale(d)
	}
	r, sc := new(big.Rat), sa
	if sb > sc {
		sc = sb
	}
	switch op {
	case opcode.Plus:
		r.Add(x.rat(), y.rat())
	case opcode.Minus:
		r.Sub(x.rat(), y.rat())
	default:
		r.Mul(x.rat(), y.rat())
		sc = sa + sb
	}
	return decVal(r.FloatString(sc)), nil
}

func (c *evalCtx) eval(e ast.ExprNode) (interface{}, error) {
	switch n := e.(type) {
	case nil:
		return nil, nil
	case *test_driver.ParamMarkerExpr:
		if n.Order < 0 || n.Order >= len(c.args) {
			return nil, fmt.Errorf("argument count mismatch (got: %d; has: >%d)", len(c.args), n.Order)
		}
		return c.args[n.Order], nil
	case *test_driver.ValueExpr:
		return literal(n), nil
	case *ast.ColumnNameExpr:
		i, err := c.column(n.Name)
		if err != nil {
			return nil, err
		}
		if c.row == nil {
			return nil, myErr(1054, "Unknown column '%s' in 'field list'", n.Name.Name.O)
		}
		return colValue(&c.t.def.Cols[i], c.row[i]), nil
	case *ast.ParenthesesExpr:
		return c.eval(n.Expr)
	case *ast.RowExpr:
		out := make(rowVal, len(n.Values))
		for i, v := range n.Values {
			x, err := c.eval(v)
			if err != nil {
				return nil, err
			}
			out[i] = x
		}
		if len(out) == 1 {
			return out[0], nil
		}
		return out, nil
	case *ast.BinaryOperationExpr:
		return c.binary(n)
	case *ast.UnaryOperationExpr:
		v, err := c.eval(n.V)
		if err != nil {
			return nil, err
		}
		switch n.Op {
		case opcode.Not, opcode.Not2:
			t, null := truth(v)
			if null {
				return nil, nil
			}
			return boolVal(!t), nil
		case opcode.Minus:
			if d, ok := v.(decVal); ok {
				if strings.HasPrefix(string(d), "-") {
					return d[1:], nil
				}
				return "-" + d, nil
			}
			return arith(opcode.Minus, int64(0), v)
		case opcode.Plus:
			return v, nil
		case opcode.BitNeg:
			if v == nil {
				return nil, nil
			}
			return ^asNum(v).i, nil
		}
		return nil, unsupported(n.Op.String())
	case *ast.PatternInExpr:
		if n.Sel != nil {
			return nil, unsupported("IN (subquery)")
		}
		l, err := c.eval(n.Expr)
		if err != nil {
			return nil, err
		}
		found, sawNull := false, false
		for _, it := range n.List {
			r, err := c.eval(it)
			if err != nil {
				return nil, err
			}
			d, null, err := cmp3(l, r)
			if err != nil {
				return nil, err
			}
			if null {
				sawNull = true
			} else if d == 0 {
				found = true
				break
			}
		}
		if !found && sawNull {
			return nil, nil
		}
		return boolVal(found != n.Not), nil
	case *ast.BetweenExpr:
		v, err := c.eval(n.Expr)
		if err != nil {
			return nil, err
		}
		lo, err := c.eval(n.Left)
		if err != nil {
			return nil, err
		}
		hi, err := c.eval(n.Right)
		if err != nil {
			return nil, err
		}
		d1, n1, err := cmp3(v, lo)
		if err != nil {
			return nil, err
		}
		d2, n2, err := cmp3(v, hi)
		if err != nil {
			return nil, err
		}
		// (v >= lo) AND (v <= hi) in three-valued logic
		if (!n1 && d1 < 0) || (!n2 && d2 > 0) {
			return boolVal(n.Not), nil
		}
		if n1 || n2 {
			return nil, nil
		}
		return boolVal(!n.Not), nil
	case *ast.IsNullExpr:
		v, err := c.eval(n.Expr)
		if err != nil {
			return nil, err
		}
		return boolVal((v == nil) != n.Not), nil
	case *ast.IsTruthExpr:
		v, err := c.eval(n.Expr)
		if err != nil {
			return nil, err
		}
		t, null := truth(v)
		res := !null && t == (n.True != 0)
		return boolVal(res != n.Not), nil
	case *ast.PatternLikeExpr:
		v, err := c.eval(n.Expr)
		if err != nil {
			return nil, err
		}
		p, err := c.eval(n.Pattern)
		if err != nil {
			return nil, err
		}
		if v == nil || p == nil {
			return nil, nil
		}
		_, ci := v.(ciStr)
		esc := rune(n.Escape)
		if esc == 0 {
			esc = '\\'
		}
		return boolVal(likeMatch([]rune(textOf(v)), []rune(textOf(p)), esc, ci) != n.Not), nil
	case *ast.DefaultExpr:
		if n.Name == nil {
			return defaultMarker{}, nil
		}
		i, err := c.column(n.Name)
		if err != nil {
			return nil, err
		}
		if c.t.def.Cols[i].AutoInc {
			return int64(0), nil
		}
		v, err := defaultAt(&c.t.def.Cols[i], c.now)
		if err != nil {
			return nil, err
		}
		return colValue(&c.t.def.Cols[i], v), nil
	case *ast.ValuesExpr:
		i, err := c.column(n.Column.Name)
		if err != nil {
			return nil, err
		}
		if c.insRow == nil {
			return nil, nil
		}
		return colValue(&c.t.def.Cols[i], c.insRow[i]), nil
	case *ast.FuncCallExpr:
		return c.call(n)
	case *ast.AggregateFuncExpr:
		return nil, myErr(1111, "Invalid use of group function")
	case *ast.CaseExpr:
		var base interface{}
		if n.Value != nil {
			var err error
			if base, err = c.eval(n.Value); err != nil {
				return nil, err
			}
		}
		for _, w := range n.WhenClauses {
			v, err := c.eval(w.Expr)
			if err != nil {
				return nil, err
			}
			hit := false
			if n.Value != nil {
				d, null, err := cmp3(base, v)
				if err != nil {
					return nil, err
				}
				hit = !null && d == 0
			} else {
				hit, _ = truth(v)
			}
			if hit {
				return c.eval(w.Result)
			}
		}
		return c.eval(n.ElseClause)
	case *ast.FuncCastExpr:
		v, err := c.eval(n.Expr)
		if err != nil || v == nil {
			return nil, err
		}
		switch n.Tp.Tp {
		case mysql.TypeLonglong, mysql.TypeLong:
			x := asNum(v)
			if x.k == nInt {
				return x.i, nil
			}
			return int64(math.Round(x.float())), nil
		case mysql.TypeNewDecimal:
			sc := n.Tp.Decimal
			if sc < 0 {
				sc = 0
			}
			return decVal(asNum(v).rat().FloatString(sc)), nil
		case mysql.TypeDouble, mysql.TypeFloat:
			return asNum(v).float(), nil
		case mysql.TypeDatetime, mysql.TypeDate, mysql.TypeTimestamp:
			if t, ok := v.(time.Time); ok {
				return t, nil
			}
			if t, ok := parseTime(textOf(v)); ok {
				return t, nil
			}
			return nil, nil
		}
		return textOf(v), nil
	case *ast.VariableExpr:
		if n.IsSystem {
			if v, ok := c.s.sysVars()[strings.ToLower(n.Name)]; ok {
				return v, nil
			}
			return nil, myErr(1193, "Unknown system variable '%s'", n.Name)
		}
		return nil, nil
	}
	return nil, unsupported(fmt.Sprintf("%T", e))
}

func (c *evalCtx) binary(n *ast.BinaryOperationExpr) (interface{}, error) {
	l, err := c.eval(n.L)
	if err != nil {
		return nil, err
	}
	switch n.Op { // short-circuit forms keep NULL semantics
	case opcode.LogicAnd:
		lt, ln := truth(l)
		if !ln && !lt {
			return int64(0), nil
		}
		r, err := c.eval(n.R)
		if err != nil {
			return nil, err
		}
		rt, rn := truth(r)
		if !rn && !rt {
			return int64(0), nil
		}
		if ln || rn {
			return nil, nil
		}
		return int64(1), nil
	case opcode.LogicOr:
		lt, ln := truth(l)
		if !ln && lt {
			return int64(1), nil
		}
		r, err := c.eval(n.R)
		if err != nil {
			return nil, err
		}
		rt, rn := truth(r)
		if !rn && rt {
			return int64(1), nil
		}
		if ln || rn {
			return nil, nil
		}
		return int64(0), nil
	}
	r, err := c.eval(n.R)
	if err != nil {
		return nil, err
	}
	switch n.Op {
	case opcode.LogicXor:
		lt, ln := truth(l)
		rt, rn := truth(r)
		if ln || rn {
			return nil, nil
		}
		return boolVal(lt != rt), nil
	case opcode.EQ, opcode.NE, opcode.LT, opcode.LE, opcode.GT, opcode.GE:
		d, null, err := cmp3(l, r)
		if err != nil {
			return nil, err
		}
		if null {
			if d != 0 && (n.Op == opcode.EQ || n.Op == opcode.NE) {
				return boolVal(n.Op == opcode.NE), nil // rows already differ in a non-NULL position
			}
			return nil, nil
		}
		switch n.Op {
		case opcode.EQ:
			return boolVal(d == 0), nil
		case opcode.NE:
			return boolVal(d != 0), nil
		case opcode.LT:
			return boolVal(d < 0), nil
		case opcode.LE:
			return boolVal(d <= 0), nil
		case opcode.GT:
			return boolVal(d > 0), nil
		}
		return boolVal(d >= 0), nil
	case opcode.NullEQ:
		if l == nil || r == nil {
			return boolVal(l == nil && r == nil), nil
		}
		d, null, err := cmp3(l, r)
		if err != nil {
			return nil, err
		}
		return boolVal(!null && d == 0), nil
	case opcode.Plus, opcode.Minus, opcode.Mul, opcode.Div, opcode.IntDiv, opcode.Mod:
		if _, ok := l.(rowVal); ok {
			return nil, myErr(1241, "Operand should contain 1 column(s)")
		}
		if _, ok := r.(rowVal); ok {
			return nil, myErr(1241, "Operand should contain 1 column(s)")
		}
		return arith(n.Op, l, r)
	case opcode.And, opcode.Or, opcode.Xor, opcode.LeftShift, opcode.RightShift:
		if l == nil || r == nil {
			return nil, nil
		}
		a, b := uint64(asNum(l).i), uint64(asNum(r).i)
		switch n.Op {
		case opcode.And:
			return int64(a & b), nil
		case opcode.Or:
			return int64(a | b), nil
		case opcode.Xor:
			return int64(a ^ b), nil
		case opcode.LeftShift:
			return int64(a << (b & 63)), nil
		}
		return int64(a >> (b & 63)), nil
	}
	return nil, unsupported(n.Op.String())
}

func (c *evalCtx) call(n *ast.FuncCallExpr) (interface{}, error) {
	name := n.FnName.L
	args := make([]interface{}, len(n.Args))
	for i, a := range n.Args {
		v, err := c.eval(a)
		if err != nil {
			return nil, err
		}
		if _, ok := v.(rowVal); ok {
			return nil, myErr(1241, "Operand should contain 1 column(s)")
		}
		args[i] = v
	}
	need := func(lo, hi int) error {
		if len(args) < lo || (hi >= 0 && len(args) > hi) {
			return myErr(1582, "Incorrect parameter count in the call to native function '%s'", n.FnName.O)
		}
		return nil
	}
	str := func(v interface{}) string {
		if t, ok := v.(time.Time); ok {
			return fmtTime(t, TDateTime, 0)
		}
		return textOf(v)
	}
	switch name {
	case "now", "current_timestamp", "sysdate", "localtime", "localtimestamp":
		if err := need(0, 1); err != nil {
			return nil, err
		}
		fsp := int64(0)
		if len(args) == 1 && args[0] != nil {
			fsp = asNum(args[0]).i
		}
		if fsp < 0 || fsp > 6 {
			return nil, myErr(1426, "Too-big precision %d specified for 'now'. Maximum is 6.", fsp)
		}
		return c.now.Truncate(time.Duration(math.Pow10(int(9 - fsp)))), nil
	case "version":
		return serverVersion, need(0, 0)
	case "database", "schema":
		return c.s.e.name, need(0, 0)
	case "connection_id":
		return int64(c.s.id), need(0, 0)
	case "last_insert_id":
		return c.s.lastID, need(0, 0)
	case "lower", "lcase", "upper", "ucase", "length", "char_length", "character_length", "abs", "trim":
		if err := need(1, 1); err != nil || args[0] == nil {
			return nil, err
		}
		switch name {
		case "lower", "lcase":
			return strings.ToLower(str(args[0])), nil
		case "upper", "ucase":
			return strings.ToUpper(str(args[0])), nil
		case "length":
			return int64(len(str(args[0]))), nil
		case "trim":
			return strings.Trim(str(args[0]), " "), nil
		case "abs":
			switch x := asNum(args[0]); x.k {
			case nInt:
				if x.i == math.MinInt64 {
					return nil, myErr(1690, "BIGINT value is out of range")
				}
				if x.i < 0 {
					return -x.i, nil
				}
				return x.i, nil
			case nDec:
				return decVal(strings.TrimPrefix(textOf(args[0]), "-")), nil
			default:
				return math.Abs(x.f), nil
			}
		}
		return int64(len([]rune(str(args[0])))), nil
	case "concat":
		if err := need(1, -1); err != nil {
			return nil, err
		}
		var sb strings.Builder
		for _, a := range args {
			if a == nil {
				return nil, nil
			}
			sb.WriteString(str(a))
		}
		return sb.String(), nil
	case "coalesce":
		if err := need(1, -1); err != nil {
			return nil, err
		}
		for _, a := range args {
			if a != nil {
				return a, nil
			}
		}
		return nil, nil
	case "ifnull":
		if err := need(2, 2); err != nil {
			return nil, err
		}
		if args[0] != nil {
			return args[0], nil
		}
		return args[1], nil
	case "nullif":
		if err := need(2, 2); err != nil {
			return nil, err
		}
		if d, null, _ := cmp3(args[0], args[1]); !null && d == 0 {
			return nil, nil
		}
		return args[0], nil
	case "if":
		if err := need(3, 3); err != nil {
			return nil, err
		}
		if t, _ := truth(args[0]); t {
			return args[1], nil
		}
		return args[2], nil
	}
	return nil, myErr(1305, "FUNCTION %s.%s does not exist", c.s.e.name, n.FnName.O)
}

const serverVersion = "8.0.30"

func (s *session) sysVars() map[string]interface{} {
	ac := int64(0)
	if s.autocommit {
		ac = 1
	}
	step := s.e.autoStep
	if step < 1 {
		step = 1
	}
	return map[string]interface{}{
		"auto_increment_increment": step,
		"auto_increment_offset":    int64(1),
		"autocommit":               ac,
		"version":                  serverVersion,
		"version_comment":          "memdb",
		"transaction_isolation":    "READ-COMMITTED",
		"tx_isolation":             "READ-COMMITTED",
		"max_allowed_packet":       int64(67108864),
		"sql_mode":                 "STRICT_TRANS_TABLES",
		"lower_case_table_names":   int64(1),
	}
}

// defaultOf yields the storage value a column takes when no value is given.
func defaultOf(col *Column) (interface{}, error) { return defaultAt(col, time.Time{}) }

func defaultAt(col *Column, now time.Time) (interface{}, error) {
	if col.HasDefault {
		if d, ok := col.Default.(string); ok && col.Type.isTime() && !now.IsZero() {
			switch strings.ToLower(strings.TrimSpace(d)) {
			case "current_timestamp", "current_timestamp()", "now()", "current_timestamp(6)", "now(6)", "current_timestamp(3)", "now(3)":
				return coerce(col, now)
			}
		}
		v, err := normArg(col.Default)
		if err != nil {
			return nil, err
		}
		return coerce(col, v)
	}
	if col.Nullable {
		return nil, nil
	}
	return nil, myErr(1364, "Field '%s' doesn't have a default value", col.Name)
}
