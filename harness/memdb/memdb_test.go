package memdb

import (
	"context"
	"database/sql"
	"database/sql/driver"
	"errors"
	"fmt"
	"reflect"
	"strings"
	"sync"
	"testing"
	"time"

	"github.com/go-sql-driver/mysql"

	"seata.apache.org/seata-go/pkg/datasource/sql/datasource"
	smysql "seata.apache.org/seata-go/pkg/datasource/sql/datasource/mysql"
	"seata.apache.org/seata-go/pkg/datasource/sql/types"
)

func newT(t *testing.T) (*Engine, *sql.DB) {
	t.Helper()
	e := New("testdb")
	must(t, e.CreateTable(TableDef{Name: "t", Cols: []Column{
		{Name: "id", Type: TBigInt, AutoInc: true},
		{Name: "name", Type: TVarchar, Length: 32, Nullable: true},
		{Name: "n", Type: TInt, Nullable: true},
	}, PK: []string{"id"}}))
	e.CreateUndoLogTable()
	e.CreateFenceLogTable()
	db := sql.OpenDB(e.Connector())
	t.Cleanup(func() { db.Close() })
	return e, db
}

func must(t *testing.T, err error) {
	t.Helper()
	if err != nil {
		t.Fatalf("unexpected error: %v", err)
	}
}

func mustExec(t *testing.T, q interface {
	Exec(string, ...interface{}) (sql.Result, error)
}, query string, args ...interface{}) (lastID, affected int64) {
	t.Helper()
	r, err := q.Exec(query, args...)
	if err != nil {
		t.Fatalf("%s: %v", query, err)
	}
	lastID, _ = r.LastInsertId()
	affected, _ = r.RowsAffected()
	return
}

func errNo(err error) uint16 {
	var me *mysql.MySQLError
	if errors.As(err, &me) {
		return me.Number
	}
	return 0
}

func wantErr(t *testing.T, err error, num uint16) {
	t.Helper()
	if errNo(err) != num {
		t.Fatalf("want MySQL error %d, got %v", num, err)
	}
}

func queryAll(t *testing.T, q interface {
	Query(string, ...interface{}) (*sql.Rows, error)
}, query string, args ...interface{}) [][]interface{} {
	t.Helper()
	rows, err := q.Query(query, args...)
	if err != nil {
		t.Fatalf("%s: %v", query, err)
	}
	defer rows.Close()
	cols, _ := rows.Columns()
	var out [][]interface{}
	for rows.Next() {
		vals := make([]interface{}, len(cols))
		ptrs := make([]interface{}, len(cols))
		for i := range vals {
			ptrs[i] = &vals[i]
		}
		must(t, rows.Scan(ptrs...))
		for i, v := range vals {
			if b, ok := v.([]byte); ok {
				vals[i] = string(b)
			}
		}
		out = append(out, vals)
	}
	must(t, rows.Err())
	return out
}

func eq(t *testing.T, got, want interface{}) {
	t.Helper()
	if !reflect.DeepEqual(got, want) {
		t.Fatalf("got  %#v\nwant %#v", got, want)
	}
}

// ---------------------------------------------------------------- proxy statement shapes

func TestProxyStatementShapes(t *testing.T) {
	e, db := newT(t)
	id, n := mustExec(t, db, "INSERT INTO T (name, n, id) VALUES (?, ?, ?)", "a", 1, 10)
	eq(t, [2]int64{id, n}, [2]int64{10, 1}) // explicit value into the AUTO_INCREMENT column is reported
	id, n = mustExec(t, db, "INSERT INTO t (name, n) VALUES (?, ?), ('c', 3)", "b", 2)
	eq(t, [2]int64{id, n}, [2]int64{11, 2}) // first generated id of the statement

	// binary protocol (with args): ints int64, strings []byte
	got := queryAll(t, db, "SELECT SQL_NO_CACHE name,n,id FROM t WHERE id=? FOR UPDATE", 10)
	eq(t, got, [][]interface{}{{"a", int64(1), int64(10)}})
	got = queryAll(t, db, "SELECT name,n,id FROM T WHERE  (`id`) IN ((?),(?))", 11, 12)
	eq(t, got, [][]interface{}{{"b", int64(2), int64(11)}, {"c", int64(3), int64(12)}})
	got = queryAll(t, db, "SELECT * FROM t WHERE (`id`,`name`) IN ((?,?),(?,?)) ORDER BY id DESC", 10, "a", 12, "zzz")
	eq(t, got, [][]interface{}{{int64(10), "a", int64(1)}})
	// text protocol (no args): everything []byte
	got = queryAll(t, db, "SELECT id, n, name FROM t WHERE id = 10")
	eq(t, got, [][]interface{}{{"10", "1", "a"}})
	// restored-AST shape the proxy builds for before images
	got = queryAll(t, db, "SELECT SQL_NO_CACHE * FROM t WHERE id=? ORDER BY id LIMIT ? FOR UPDATE", 10, 1)
	eq(t, len(got), 1)

	_, n = mustExec(t, db, "UPDATE T SET name = ? , n = ?  WHERE id = ? ", "aa", 100, 10)
	eq(t, n, int64(1))
	_, n = mustExec(t, db, "UPDATE T SET name = ? , n = ?  WHERE id = ? ", "aa", 100, 10)
	eq(t, n, int64(0)) // unchanged rows are not counted (CLIENT_FOUND_ROWS off)
	_, n = mustExec(t, db, "DELETE FROM T WHERE id = ? ", 10)
	eq(t, n, int64(1))
	eq(t, e.Dump("t"), []Row{{int64(11), "b", int64(2)}, {int64(12), "c", int64(3)}})

	eq(t, queryAll(t, db, "SELECT VERSION()"), [][]interface{}{{"8.0.30"}})
	eq(t, queryAll(t, db, "SELECT 1"), [][]interface{}{{"1"}})
	eq(t, queryAll(t, db, "SELECT COUNT(*), COUNT(1), max(id) FROM t WHERE id > ?", 0), [][]interface{}{{int64(2), int64(2), int64(12)}})
	eq(t, queryAll(t, db, "SELECT COUNT(*) FROM t"), [][]interface{}{{"2"}})
	eq(t, queryAll(t, db, "SELECT 1 FROM  undo_log  LIMIT 1"), [][]interface{}(nil))
	eq(t, queryAll(t, db, "SHOW VARIABLES LIKE 'auto_increment_increment'"), [][]interface{}{{"auto_increment_increment", "1"}})

	var now time.Time
	must(t, db.QueryRow("SELECT now(6)").Scan(&now))
	if time.Since(now) > time.Minute || now.Location() != time.UTC {
		t.Fatalf("bad now(): %v", now)
	}
	// column labels are reported as written
	rows, err := db.Query("SELECT NAME, n AS cnt, COUNT(*) FROM t GROUP BY 1")
	if err == nil {
		rows.Close()
		t.Fatal("GROUP BY should be reported as unsupported")
	}
	rows, err = db.Query("SELECT NAME, n AS cnt, n+1 FROM t")
	must(t, err)
	cols, _ := rows.Columns()
	rows.Close()
	eq(t, cols, []string{"NAME", "cnt", "n+1"})
}

func TestUndoLogStatements(t *testing.T) {
	e, db := newT(t)
	ctx := context.Background()
	conn, err := db.Conn(ctx)
	must(t, err)
	defer conn.Close()
	const ins = "INSERT INTO  undo_log (branch_id,xid,context,rollback_info,log_status,log_created,log_modified) VALUES (?, ?, ?, ?, ?, now(6), now(6))"
	// the proxy calls the driver directly with a uint64 branch id and []byte payloads
	must(t, conn.Raw(func(dc interface{}) error {
		st, err := dc.(driver.Conn).Prepare(ins)
		if err != nil {
			return err
		}
		defer st.Close()
		eq(t, st.NumInput(), 5)
		_, err = st.Exec([]driver.Value{uint64(77), "xid-1", []byte("serializer=json"), []byte{0, 1, 2, 0xff}, int64(0)})
		return err
	}))
	_, err = db.Exec(ins, int64(77), "xid-1", []byte("c"), []byte("r"), 0)
	wantErr(t, err, 1062) // UNIQUE(xid, branch_id)
	mustExec(t, db, ins, int64(78), "xid-1", []byte("c"), []byte("r"), 1)

	var (
		branch  uint64
		xid     string
		c, info []byte
		status  int32
	)
	must(t, db.QueryRow("SELECT `branch_id`,`xid`,`context`,`rollback_info`,`log_status` FROM  undo_log  WHERE branch_id = ? AND xid = ? FOR UPDATE", int64(77), "xid-1").
		Scan(&branch, &xid, &c, &info, &status))
	eq(t, branch, uint64(77))
	eq(t, info, []byte{0, 1, 2, 0xff})
	eq(t, string(c), "serializer=json")
	row := e.Dump("undo_log")[0]
	if ts, ok := row[6].(time.Time); !ok || ts.Location() != time.UTC || time.Since(ts) > time.Minute {
		t.Fatalf("log_created = %#v", row[6])
	}

	// batch delete: the proxy passes decimal STRINGS for branch ids
	_, n := mustExec(t, db, " DELETE FROM  undo_log  WHERE branch_id IN  (?)  AND xid IN  (?) ", "77", "xid-1")
	eq(t, n, int64(1))
	_, n = mustExec(t, db, "DELETE FROM  undo_log  WHERE branch_id = ? AND xid = ?", int64(78), "xid-1")
	eq(t, n, int64(1))
	eq(t, len(e.Dump("undo_log")), 0)
}

func TestFenceLogStatements(t *testing.T) {
	e, db := newT(t)
	tx, err := db.Begin()
	must(t, err)
	now := time.Now()
	type status byte
	_, n := mustExec(t, tx, "insert into  tcc_fence_log  (xid, branch_id, action_name, status, gmt_create, gmt_modified) values ( ?,?,?,?,?,?)",
		"x1", int64(5), "act", status(1), now, now)
	eq(t, n, int64(1))
	_, err = tx.Exec("insert into  tcc_fence_log  (xid, branch_id, action_name, status, gmt_create, gmt_modified) values ( ?,?,?,?,?,?)",
		"x1", int64(5), "act", status(1), now, now)
	if me, ok := err.(*mysql.MySQLError); !ok || me.Number != 1062 { // the fence code type-asserts exactly like this
		t.Fatalf("want *mysql.MySQLError 1062, got %#v", err)
	}
	var (
		xid, action string
		branch      int64
		st          status
		c, m        time.Time
	)
	must(t, tx.QueryRow("select xid, branch_id, action_name, status, gmt_create, gmt_modified from  tcc_fence_log  where xid = ? and branch_id = ? for update", "x1", int64(5)).
		Scan(&xid, &branch, &action, &st, &c, &m))
	eq(t, st, status(1))
	if d := c.Sub(now); d > time.Millisecond || d < -time.Millisecond { // DATETIME(3) rounds to ms
		t.Fatalf("gmt_create %v vs %v", c, now)
	}
	_, n = mustExec(t, tx, "update  tcc_fence_log  set status = ?, gmt_modified = ? where xid = ? and  branch_id = ? and status = ? ", status(2), time.Now(), "x1", int64(5), status(1))
	eq(t, n, int64(1))
	_, n = mustExec(t, tx, "update  tcc_fence_log  set status = ?, gmt_modified = ? where xid = ? and  branch_id = ? and status = ? ", status(3), time.Now(), "x1", int64(5), status(1))
	eq(t, n, int64(0))
	must(t, tx.Commit())
	_, n = mustExec(t, db, "delete from  tcc_fence_log  where gmt_modified < ?  and status in (2 , 3 , 4)", time.Now().Add(time.Hour))
	eq(t, n, int64(1))
	mustExec(t, db, "insert into tcc_fence_log (xid, branch_id) values ('x2', 1)")
	_, n = mustExec(t, db, "delete from  tcc_fence_log  where xid = ? and  branch_id = ? ", "x2", 1)
	eq(t, n, int64(1))
	eq(t, len(e.Dump("tcc_fence_log")), 0)
}

// ---------------------------------------------------------------- INFORMATION_SCHEMA via the real meta cache

func allTypesDef(nullable bool, name string) TableDef {
	cols := []Column{{Name: "id", Type: TBigInt, AutoInc: true}}
	add := func(n string, tp ColType, l, sc int) {
		cols = append(cols, Column{Name: n, Type: tp, Nullable: nullable, Length: l, Scale: sc})
	}
	add("c_int", TInt, 0, 0)
	add("c_tiny", TTinyInt, 0, 0)
	add("c_small", TSmallInt, 0, 0)
	add("c_medium", TMediumInt, 0, 0)
	add("c_varchar", TVarchar, 40, 0)
	add("c_char", TChar, 4, 0)
	add("c_text", TText, 0, 0)
	add("c_double", TDouble, 0, 0)
	add("c_decimal", TDecimal, 10, 2)
	add("c_float", TFloat, 0, 0)
	add("c_datetime", TDateTime, 6, 0)
	add("c_timestamp", TTimestamp, 0, 0)
	add("c_date", TDate, 0, 0)
	add("c_blob", TBlob, 0, 0)
	add("c_varbinary", TVarBinary, 16, 0)
	add("c_bit", TBit, 1, 0)
	add("c_longtext", TLongText, 0, 0)
	add("c_json", TJSON, 0, 0)
	add("c_longblob", TLongBlob, 0, 0)
	return TableDef{Name: name, Cols: cols, PK: []string{"id"}, Unique: [][]string{{"c_varchar", "c_int"}}}
}

func TestTableMetaViaRealTrigger(t *testing.T) {
	e, db := newT(t)
	must(t, e.CreateTable(allTypesDef(false, "alltypes")))
	must(t, e.CreateTable(TableDef{Name: "multi", Cols: []Column{{Name: "a", Type: TInt}, {Name: "b", Type: TVarchar, Length: 8},
		{Name: "v", Type: TVarchar, Length: 8, Nullable: true, HasDefault: true, Default: "dflt"}}, PK: []string{"a", "b"}}))
	ctx := context.Background()
	cache := metaSource{db: db}
	if !raceEnabled {
		// BaseTableMetaCache.refresh reads its map without the lock while GetTableMeta writes it: a data
		// race inside the repository, so under -race the trigger is exercised without the cache.
		cache.real = smysql.NewTableMetaInstance(db, &mysql.Config{DBName: "testdb"})
	}

	meta, err := cache.GetTableMeta(ctx, "testdb", "t")
	must(t, err)
	eq(t, meta.ColumnNames, []string{"id", "name", "n"})
	eq(t, meta.GetPrimaryKeyOnlyName(), []string{"id"})
	id := meta.Columns["id"]
	eq(t, []interface{}{id.DatabaseTypeString, id.IsNullable, id.Autoincrement, id.ColumnKey, id.ColumnType}, []interface{}{"bigint", int8(0), true, "PRI", "bigint"})
	nm := meta.Columns["name"]
	eq(t, []interface{}{nm.DatabaseTypeString, nm.IsNullable, nm.Autoincrement, nm.ColumnType}, []interface{}{"varchar", int8(1), false, "varchar(32)"})
	eq(t, meta.Indexs["PRIMARY"].IType, types.IndexTypePrimaryKey)

	meta, err = cache.GetTableMeta(ctx, "testdb", "`undo_log`")
	must(t, err)
	eq(t, meta.Columns["rollback_info"].DatabaseTypeString, "longblob")
	uniq := 0
	for name, ix := range meta.Indexs {
		if ix.IType == types.IndexUnique {
			uniq++
			eq(t, len(ix.Columns), 2)
			eq(t, name, "xid")
		}
	}
	eq(t, uniq, 1)

	meta, err = cache.GetTableMeta(ctx, "testdb", "multi")
	must(t, err)
	eq(t, meta.GetPrimaryKeyOnlyName(), []string{"a", "b"})
	eq(t, string(meta.Columns["v"].ColumnDef), "dflt")
	if meta.Columns["a"].ColumnDef != nil {
		t.Fatal("COLUMN_DEFAULT of a column without default must be NULL")
	}

	meta, err = cache.GetTableMeta(ctx, "testdb", "alltypes")
	must(t, err)
	want := map[string]string{"c_int": "int", "c_tiny": "tinyint", "c_small": "smallint", "c_medium": "mediumint", "c_varchar": "varchar",
		"c_char": "char", "c_text": "text", "c_double": "double", "c_decimal": "decimal", "c_float": "float", "c_datetime": "datetime",
		"c_timestamp": "timestamp", "c_date": "date", "c_blob": "blob", "c_varbinary": "varbinary", "c_bit": "bit", "c_longtext": "longtext",
		"c_json": "json", "c_longblob": "longblob"}
	for c, tp := range want {
		eq(t, meta.Columns[c].DatabaseTypeString, tp)
	}
	eq(t, meta.Columns["c_decimal"].ColumnType, "decimal(10,2)")

	if _, err = cache.GetTableMeta(ctx, "testdb", "nosuch"); err == nil {
		t.Fatal("unknown table must not yield a TableMeta")
	}
	// generic access to the views
	got := queryAll(t, db, "SELECT COLUMN_NAME FROM information_schema.columns WHERE table_schema = 'TESTDB' AND table_name = 'T' AND ORDINAL_POSITION > 1 ORDER BY ORDINAL_POSITION DESC")
	eq(t, got, [][]interface{}{{"n"}, {"name"}})
}

type metaSource struct {
	db   *sql.DB
	real *smysql.TableMetaCache
}

func (m metaSource) GetTableMeta(ctx context.Context, dbName, table string) (*types.TableMeta, error) {
	if m.real != nil {
		return m.real.GetTableMeta(ctx, dbName, table)
	}
	conn, err := m.db.Conn(ctx)
	if err != nil {
		return nil, err
	}
	defer conn.Close()
	return smysql.NewMysqlTrigger().LoadOne(ctx, dbName, strings.ToUpper(table), conn) // the cache upper-cases too
}

// ---------------------------------------------------------------- scan types

func TestScanTypesAndGetScanSlice(t *testing.T) {
	e, db := newT(t)
	must(t, e.CreateTable(allTypesDef(false, "nn")))
	must(t, e.CreateTable(allTypesDef(true, "nl")))
	when := time.Date(2024, 2, 29, 13, 14, 15, 123456000, time.UTC)
	const ins = "INSERT INTO %s (c_int,c_tiny,c_small,c_medium,c_varchar,c_char,c_text,c_double,c_decimal,c_float,c_datetime,c_timestamp,c_date,c_blob,c_varbinary,c_bit,c_longtext,c_json,c_longblob) VALUES (?,?,?,?,?,?,?,?,?,?,?,?,?,?,?,?,?,?,?)"
	args := []interface{}{-5, 7, 300, 70000, "vc", "ch", "text", 1.5, "12.345", float32(2.25), when, when, "2024-02-29", []byte{1, 2}, []byte("vb"), true, "long", `{"a":1}`, []byte{9}}
	mustExec(t, db, fmt.Sprintf(ins, "nn"), args...)
	mustExec(t, db, fmt.Sprintf(ins, "nl"), args...)
	nulls := make([]interface{}, len(args))
	mustExec(t, db, fmt.Sprintf(ins, "nl"), nulls...)
	_, err := db.Exec(fmt.Sprintf(ins, "nn"), nulls...)
	wantErr(t, err, 1048)

	eq(t, e.Dump("nn")[0], Row{int64(1), int64(-5), int64(7), int64(300), int64(70000), "vc", "ch", "text", 1.5, "12.35", 2.25,
		when, when.Truncate(time.Microsecond), time.Date(2024, 2, 29, 0, 0, 0, 0, time.UTC), []byte{1, 2}, []byte("vb"), []byte{1}, "long", `{"a":1}`, []byte{9}})

	wantScan := map[string][2]reflect.Type{ // column -> {NOT NULL, nullable}
		"id": {scanInt64, scanInt64}, "c_int": {scanInt32, scanNullInt}, "c_tiny": {scanInt8, scanNullInt}, "c_small": {scanInt16, scanNullInt},
		"c_medium": {scanInt32, scanNullInt}, "c_varchar": {scanRawBytes, scanRawBytes}, "c_char": {scanRawBytes, scanRawBytes},
		"c_text": {scanRawBytes, scanRawBytes}, "c_double": {scanFloat64, scanNullFloat}, "c_decimal": {scanRawBytes, scanRawBytes},
		"c_float": {scanFloat32, scanNullFloat}, "c_datetime": {scanNullTime, scanNullTime}, "c_timestamp": {scanNullTime, scanNullTime},
		"c_date": {scanNullTime, scanNullTime}, "c_blob": {scanRawBytes, scanRawBytes}, "c_varbinary": {scanRawBytes, scanRawBytes},
		"c_bit": {scanRawBytes, scanRawBytes}, "c_longtext": {scanRawBytes, scanRawBytes}, "c_json": {scanRawBytes, scanRawBytes},
		"c_longblob": {scanRawBytes, scanRawBytes},
	}
	wantDB := map[string]string{"id": "BIGINT", "c_int": "INT", "c_tiny": "TINYINT", "c_small": "SMALLINT", "c_medium": "MEDIUMINT", "c_varchar": "VARCHAR",
		"c_char": "CHAR", "c_text": "TEXT", "c_double": "DOUBLE", "c_decimal": "DECIMAL", "c_float": "FLOAT", "c_datetime": "DATETIME", "c_timestamp": "TIMESTAMP",
		"c_date": "DATE", "c_blob": "BLOB", "c_varbinary": "VARBINARY", "c_bit": "BIT", "c_longtext": "LONGTEXT", "c_json": "JSON", "c_longblob": "LONGBLOB"}

	for ti, tbl := range []string{"nn", "nl"} {
		for _, withArgs := range []bool{true, false} { // binary and text protocol
			q, qa := "SELECT * FROM "+tbl+" WHERE id > 0 FOR UPDATE", []interface{}(nil)
			if withArgs {
				q, qa = "SELECT * FROM "+tbl+" WHERE id > ? FOR UPDATE", []interface{}{0}
			}
			rows, err := db.Query(q, qa...)
			must(t, err)
			cts, err := rows.ColumnTypes()
			must(t, err)
			for _, ct := range cts {
				eq(t, ct.ScanType(), wantScan[ct.Name()][ti])
				eq(t, ct.DatabaseTypeName(), wantDB[ct.Name()])
				if nl, ok := ct.Nullable(); !ok || nl != (ti == 1 && ct.Name() != "id") {
					t.Fatalf("%s.%s nullable=%v,%v", tbl, ct.Name(), nl, ok)
				}
			}
			count := 0
			for rows.Next() {
				slice := datasource.GetScanSlice(cts)
				eq(t, len(slice), len(cts))
				if count == 1 {
					// GetScanSlice maps RawBytes columns to *string, which database/sql cannot fill from
					// NULL (on a real server too); keep the typed holders for the other columns only.
					for i, ct := range cts {
						if ct.ScanType() == scanRawBytes {
							slice[i] = new(sql.RawBytes)
						}
					}
				}
				if err := rows.Scan(slice...); err != nil {
					t.Fatalf("%s args=%v row %d: %v", tbl, withArgs, count, err)
				}
				if count == 0 {
					if ti == 0 {
						eq(t, *slice[1].(*int32), int32(-5))
						eq(t, *slice[8].(*float64), 1.5)
						eq(t, *slice[10].(*float32), float32(2.25))
					} else {
						eq(t, *slice[1].(*sql.NullInt64), sql.NullInt64{Int64: -5, Valid: true})
					}
					eq(t, strOf(slice[9]), "12.35")
					eq(t, *slice[11].(*sql.NullTime), sql.NullTime{Time: when, Valid: true})
					eq(t, strOf(slice[16]), "\x01")
				} else {
					eq(t, *slice[1].(*sql.NullInt64), sql.NullInt64{})
					eq(t, *slice[11].(*sql.NullTime), sql.NullTime{})
				}
				count++
			}
			must(t, rows.Err())
			rows.Close()
			eq(t, count, 1+ti)
		}
	}

	// raw driver values of both protocols
	raw := func(q string, args ...driver.NamedValue) []driver.Value {
		c, err := e.Driver().Open("whatever")
		must(t, err)
		defer c.Close()
		r, err := c.(driver.QueryerContext).QueryContext(context.Background(), q, args)
		must(t, err)
		defer r.Close()
		dest := make([]driver.Value, len(r.Columns()))
		must(t, r.Next(dest))
		return dest
	}
	bin := raw("SELECT c_int, c_float, c_double, c_decimal, c_varchar, c_blob, c_datetime, c_date, c_bit, id+1, 'lit' FROM nn WHERE id = ?", driver.NamedValue{Ordinal: 1, Value: int64(1)})
	eq(t, bin, []driver.Value{int64(-5), float32(2.25), 1.5, []byte("12.35"), []byte("vc"), []byte{1, 2}, when, time.Date(2024, 2, 29, 0, 0, 0, 0, time.UTC), []byte{1}, int64(2), []byte("lit")})
	txt := raw("SELECT c_int, c_float, c_double, c_decimal, c_varchar, c_blob, c_datetime, c_date, c_bit, id+1, 'lit' FROM nn WHERE id = 1")
	eq(t, txt, []driver.Value{[]byte("-5"), []byte("2.25"), []byte("1.5"), []byte("12.35"), []byte("vc"), []byte{1, 2}, when, time.Date(2024, 2, 29, 0, 0, 0, 0, time.UTC), []byte{1}, []byte("2"), []byte("lit")})
	eq(t, raw("SELECT COUNT(*) FROM nn WHERE id = ?", driver.NamedValue{Ordinal: 1, Value: int64(1)}), []driver.Value{int64(1)})
	eq(t, raw("SELECT COUNT(*) FROM nn"), []driver.Value{[]byte("1")})
	e.SetInterpolateParams(true)
	eq(t, raw("SELECT COUNT(*) FROM nn WHERE id = ?", driver.NamedValue{Ordinal: 1, Value: int64(1)}), []driver.Value{[]byte("1")})
}

// ---------------------------------------------------------------- expressions

func TestWhereExpressions(t *testing.T) {
	e, db := newT(t)
	must(t, e.InsertRows("t", Row{1, "alpha", 10}, Row{2, "Beta", 20}, Row{3, nil, nil}, Row{4, "a_b%", -5}, Row{int64(5), "50", int64(50)}))
	ids := func(where string, args ...interface{}) string {
		t.Helper()
		var out []string
		for _, r := range queryAll(t, db, "SELECT id FROM t WHERE "+where, args...) {
			out = append(out, fmt.Sprint(r[0]))
		}
		return strings.Join(out, ",")
	}
	cases := []struct {
		where string
		args  []interface{}
		want  string
	}{
		{"n = 10", nil, "1"}, {"n != 10", nil, "2,4,5"}, {"n <> 10", nil, "2,4,5"}, {"n < 20", nil, "1,4"}, {"n <= 20", nil, "1,2,4"},
		{"n > 10", nil, "2,5"}, {"n >= 10", nil, "1,2,5"}, {"n <=> NULL", nil, "3"}, {"n <=> 10", nil, "1"}, {"NOT (n <=> NULL)", nil, "1,2,4,5"},
		{"n = NULL", nil, ""}, {"n IS NULL", nil, "3"}, {"n IS NOT NULL AND name IS NOT NULL", nil, "1,2,4,5"},
		{"n = 10 OR n = 20", nil, "1,2"}, {"n = 10 OR name IS NULL", nil, "1,3"}, {"NOT n = 10", nil, "2,4,5"}, {"n = 10 XOR id = 2", nil, "1,2"},
		{"(n = 10 OR n = 20) AND id > 1", nil, "2"}, {"n IN (10, 20, NULL)", nil, "1,2"}, {"n NOT IN (10, 20)", nil, "4,5"}, {"n NOT IN (10, NULL)", nil, ""},
		{"(id, n) IN ((1, 10), (2, 21))", nil, "1"}, {"(id, n) = (2, 20)", nil, "2"}, {"n BETWEEN 10 AND 20", nil, "1,2"}, {"n NOT BETWEEN 10 AND 20", nil, "4,5"},
		{"name LIKE 'a%'", nil, "1,4"}, {"name LIKE 'A%'", nil, ""}, {"name NOT LIKE 'a%'", nil, "2,5"}, {"name LIKE '_eta'", nil, "2"},
		{"name LIKE 'a\\_b\\%'", nil, "4"}, {"name LIKE ?", []interface{}{"%a"}, "1,2"},
		{"n + 1 = 11", nil, "1"}, {"n - ? = 0", []interface{}{20}, "2"}, {"n * 2 = 40", nil, "2"}, {"n / 4 = 2.5", nil, "1"}, {"n % 3 = 2", nil, "2,5"}, {"n DIV 3 = 3", nil, "1"},
		{"-n = 5", nil, "4"}, {"ABS(n) = 5", nil, "4"}, {"LOWER(name) = 'beta'", nil, "2"}, {"UPPER(name) = 'ALPHA'", nil, "1"},
		{"CONCAT(name, '-', n) = 'alpha-10'", nil, "1"}, {"LENGTH(name) = 4", nil, "2,4"}, {"COALESCE(n, 0) = 0", nil, "3"}, {"IFNULL(name, 'x') = 'x'", nil, "3"},
		{"name = 'beta'", nil, ""},                                     // byte-wise string comparison
		{"n = '10'", nil, "1"}, {"id IN (?)", []interface{}{"2"}, "2"}, // number vs numeric string compares numerically
		{"name = 50", nil, "5"}, {"name > 'a'", nil, "1,4"},
		{"id = ?", []interface{}{uint8(3)}, "3"}, {"id = ? OR id = ?", []interface{}{int32(1), float64(2)}, "1,2"},
		{"now() > '2020-01-01'", nil, "1,2,3,4,5"}, {"1", nil, "1,2,3,4,5"}, {"0", nil, ""}, {"NULL", nil, ""},
		{"CASE WHEN n > 10 THEN 1 ELSE 0 END", nil, "2,5"}, {"n = DEFAULT(n)", nil, ""}, {"t.n = 10 AND `t`.`id` = 1", nil, "1"},
	}
	for _, c := range cases {
		if got := ids(c.where, c.args...); got != c.want {
			t.Errorf("WHERE %s %v: got %q want %q", c.where, c.args, got, c.want)
		}
	}
	eq(t, queryAll(t, db, "SELECT id FROM testdb.t AS x WHERE x.id >= ? ORDER BY n DESC, id LIMIT ?", 1, 3), [][]interface{}{{int64(5)}, {int64(2)}, {int64(1)}})
	eq(t, queryAll(t, db, "SELECT id FROM t ORDER BY name LIMIT 1, 2"), [][]interface{}{{"5"}, {"2"}}) // NULL first, then byte order: '50' < 'Beta' < 'a_b%'
	// time column vs string
	mustExec(t, db, "INSERT INTO undo_log (branch_id,xid,context,rollback_info,log_status,log_created,log_modified) VALUES (1,'x','c','r',0,'2024-01-02 03:04:05.5','2024-01-02 03:04:05')")
	eq(t, queryAll(t, db, "SELECT branch_id FROM undo_log WHERE log_created > '2024-01-02 03:04:05' AND log_modified = ? AND log_created < ?", "2024-01-02 03:04:05", time.Date(2025, 1, 1, 0, 0, 0, 0, time.UTC)),
		[][]interface{}{{int64(1)}})
}

func TestInsertVariants(t *testing.T) {
	e, db := newT(t)
	must(t, e.CreateTable(TableDef{Name: "d", Cols: []Column{
		{Name: "id", Type: TInt, AutoInc: true},
		{Name: "k", Type: TVarchar, Length: 8},
		{Name: "v", Type: TInt, HasDefault: true, Default: 7},
		{Name: "ts", Type: TDateTime, HasDefault: true, Default: "CURRENT_TIMESTAMP"},
		{Name: "amount", Type: TDecimal, Length: 10, Scale: 2, Nullable: true},
	}, PK: []string{"id"}, Unique: [][]string{{"k"}}}))
	id, n := mustExec(t, db, "INSERT INTO d (k) VALUES ('a')")
	eq(t, [2]int64{id, n}, [2]int64{1, 1})
	id, n = mustExec(t, db, "INSERT INTO d (id, k, v, ts, amount) VALUES (NULL, 'b', DEFAULT, now(), 1.005), (0, 'c', 3, '2024-01-01', ?)", 2)
	eq(t, [2]int64{id, n}, [2]int64{2, 2})
	id, _ = mustExec(t, db, "INSERT INTO d (id, k) VALUES (10, 'e')")
	eq(t, id, int64(10))
	id, _ = mustExec(t, db, "INSERT INTO d SET k = 'f'")
	eq(t, id, int64(11)) // counter follows explicit values
	rows := e.Dump("d")
	eq(t, []interface{}{rows[0][2], rows[1][2], rows[1][4], rows[2][4]}, []interface{}{int64(7), int64(7), "1.01", "2.00"})

	_, err := db.Exec("INSERT INTO d (k) VALUES ('a')")
	wantErr(t, err, 1062)
	if !strings.Contains(err.Error(), "Duplicate entry 'a' for key") {
		t.Fatal(err)
	}
	_, err = db.Exec("INSERT INTO d (id, k) VALUES (1, 'zz')")
	wantErr(t, err, 1062)
	_, err = db.Exec("INSERT INTO d (k) VALUES ('g'), ('a')") // statement is atomic
	wantErr(t, err, 1062)
	eq(t, len(e.Dump("d")), 5)
	_, n = mustExec(t, db, "INSERT IGNORE INTO d (k) VALUES ('h'), ('a')")
	eq(t, n, int64(1))

	// ON DUPLICATE KEY UPDATE: 1 per insert, 2 per changed update, 0 unchanged
	_, n = mustExec(t, db, "INSERT INTO d (k, v) VALUES ('a', 100) ON DUPLICATE KEY UPDATE v = VALUES(v)")
	eq(t, n, int64(2))
	_, n = mustExec(t, db, "INSERT INTO d (k, v) VALUES ('a', 100) ON DUPLICATE KEY UPDATE v = VALUES(v)")
	eq(t, n, int64(0))
	_, n = mustExec(t, db, "INSERT INTO d (k, v) VALUES ('a', 1), ('new', 5) ON DUPLICATE KEY UPDATE v = v + VALUES(v), amount = ?", 9)
	eq(t, n, int64(3))
	got := queryAll(t, db, "SELECT v, amount FROM d WHERE k IN ('a','new') ORDER BY k")
	eq(t, got, [][]interface{}{{"101", "9.00"}, {"5", nil}})
	_, n = mustExec(t, db, "REPLACE INTO d (id, k) VALUES (1, 'r')")
	eq(t, n, int64(2))

	_, err = db.Exec("INSERT INTO d (k, v) VALUES ('x')")
	wantErr(t, err, 1136)
	_, err = db.Exec("INSERT INTO d (v) VALUES (1)")
	wantErr(t, err, 1364)
	_, err = db.Exec("INSERT INTO d (k, v) VALUES ('y', NULL)")
	wantErr(t, err, 1048)
	_, err = db.Exec("INSERT INTO d (k) VALUES ('way too long')")
	wantErr(t, err, 1406)
	_, err = db.Exec("INSERT INTO d (k, v) VALUES ('y', 'abc')")
	wantErr(t, err, 1366)
	_, err = db.Exec("INSERT INTO d (k, nosuch) VALUES ('y', 1)")
	wantErr(t, err, 1054)
	_, err = db.Exec("INSERT INTO nosuch (k) VALUES ('y')")
	wantErr(t, err, 1146)
}

func TestUpdateDeleteVariants(t *testing.T) {
	e, db := newT(t)
	must(t, e.InsertRows("t", Row{1, "a", 1}, Row{2, "b", 2}, Row{3, "c", 3}, Row{4, "d", nil}))
	_, n := mustExec(t, db, "UPDATE t SET n = n + 1, name = CONCAT(name, n) WHERE id <= ?", 2)
	eq(t, n, int64(2))
	eq(t, e.Dump("t")[:2], []Row{{int64(1), "a2", int64(2)}, {int64(2), "b3", int64(3)}}) // later assignments see earlier ones
	_, n = mustExec(t, db, "UPDATE t SET n = n - ?, name = NULL WHERE n * 2 >= 6 ORDER BY id DESC LIMIT 1", 1)
	eq(t, n, int64(1))
	eq(t, e.Dump("t")[2], Row{int64(3), nil, int64(2)})
	_, n = mustExec(t, db, "UPDATE t SET n = 2 WHERE n = 2")
	eq(t, n, int64(0))
	_, n = mustExec(t, db, "UPDATE t SET id = id + 10 WHERE id = 4")
	eq(t, n, int64(1))
	_, err := db.Exec("UPDATE t SET id = 1 WHERE id = 2")
	wantErr(t, err, 1062)
	_, err = db.Exec("UPDATE t SET nosuch = 1")
	wantErr(t, err, 1054)
	_, err = db.Exec("UPDATE t SET id = NULL WHERE id = 1")
	wantErr(t, err, 1048)
	id, _ := mustExec(t, db, "INSERT INTO t (name) VALUES ('auto')")
	eq(t, id, int64(15)) // auto-increment follows the updated key
	_, n = mustExec(t, db, "DELETE FROM t WHERE id > 0 ORDER BY id DESC LIMIT 2")
	eq(t, n, int64(2))
	_, n = mustExec(t, db, "DELETE FROM t")
	eq(t, n, int64(3))
}

func TestMultiStatementSetShowDDLErrors(t *testing.T) {
	e, db := newT(t)
	_, n := mustExec(t, db, "INSERT INTO t (name) VALUES ('a;b'); INSERT INTO t (name) VALUES (?), (?) ; ;", "x", "y")
	eq(t, n, int64(2))
	eq(t, len(e.Dump("t")), 3)
	_, err := db.Exec("INSERT INTO t (name) VALUES (?); DELETE FROM t WHERE id = ?", "only-one")
	if err == nil || errNo(err) != 0 || errors.Is(err, driver.ErrSkip) || !strings.Contains(err.Error(), "argument") {
		t.Fatalf("argument count mismatch must be a plain error, got %v", err)
	}
	eq(t, len(e.Dump("t")), 3)
	_, err = db.Query("SELECT * FROM t WHERE id = ?")
	if err == nil {
		t.Fatal("missing argument accepted")
	}

	mustExec(t, db, "SET NAMES utf8mb4")
	mustExec(t, db, "SET autocommit = 1, @x = 3")
	mustExec(t, db, "SET SESSION TRANSACTION ISOLATION LEVEL READ COMMITTED")
	eq(t, queryAll(t, db, "SHOW VARIABLES LIKE 'auto%'"), [][]interface{}{{"auto_increment_increment", "1"}, {"auto_increment_offset", "1"}, {"autocommit", "1"}})
	eq(t, queryAll(t, db, "SELECT @@autocommit"), [][]interface{}{{"1"}})
	eq(t, queryAll(t, db, "SHOW TABLES LIKE 'u%'"), [][]interface{}{{"undo_log"}})

	mustExec(t, db, "CREATE TABLE IF NOT EXISTS `acct` (id BIGINT NOT NULL AUTO_INCREMENT, owner VARCHAR(20) NOT NULL DEFAULT 'nobody', bal DECIMAL(12,2), "+
		"created DATETIME(6) DEFAULT CURRENT_TIMESTAMP, raw VARBINARY(8), body LONGBLOB, note TEXT, PRIMARY KEY (id), UNIQUE KEY uk_owner (owner)) ENGINE=InnoDB")
	def := e.Def("acct")
	eq(t, def.PK, []string{"id"})
	eq(t, def.Unique, [][]string{{"owner"}})
	eq(t, []ColType{def.Cols[0].Type, def.Cols[1].Type, def.Cols[2].Type, def.Cols[3].Type, def.Cols[4].Type, def.Cols[5].Type, def.Cols[6].Type},
		[]ColType{TBigInt, TVarchar, TDecimal, TDateTime, TVarBinary, TLongBlob, TText})
	mustExec(t, db, "INSERT INTO acct (bal) VALUES (1)")
	eq(t, e.Dump("acct")[0][1:3], Row{"nobody", "1.00"})
	mustExec(t, db, "ALTER TABLE acct ADD COLUMN z INT")
	mustExec(t, db, "TRUNCATE TABLE acct")
	eq(t, len(e.Dump("acct")), 0)
	mustExec(t, db, "DROP TABLE acct")
	_, err = db.Exec("DROP TABLE acct")
	wantErr(t, err, 1051)
	mustExec(t, db, "DROP TABLE IF EXISTS acct")

	for _, bad := range []string{"SELEC 1", "SELECT FROM", "INSERT INTO t VALUES (", "XA FROB 'x'", "XA START", "SAVEPOINT", "ROLLBACK TO", "'unterminated", "", " ; ", "SELECT * FROM t WHERE (id, n) = 1",
		"SELECT nosuchfn(1)", "SELECT * FROM t JOIN t t2 ON 1=1", "UPDATE t SET n = (SELECT 1)", "SELECT id FROM t WHERE id IN (SELECT 1)", "SELECT 9223372036854775807 + 1", "SELECT 1 LIMIT -1"} {
		if _, err := db.Exec(bad); err == nil {
			t.Errorf("%q accepted", bad)
		} else if _, ok := err.(*mysql.MySQLError); !ok {
			t.Errorf("%q: error %T %v is not a *mysql.MySQLError", bad, err, err)
		}
	}
	_, err = db.Exec("SELEC 1")
	wantErr(t, err, 1064)
	_, err = db.Query("SELECT * FROM nosuch")
	wantErr(t, err, 1146)
	_, err = db.Query("SELECT nosuch FROM t")
	wantErr(t, err, 1054)
	_, err = db.Query("SELECT x.id FROM t")
	wantErr(t, err, 1054)
	for _, en := range e.Journal() {
		if strings.Contains(en.Err, "panic") {
			t.Fatalf("panic reached the recover wrapper: %v", en)
		}
	}
}

// ---------------------------------------------------------------- transactions, isolation, locks

func TestTransactionsIsolationLocks(t *testing.T) {
	e, db := newT(t)
	ctx := context.Background()
	must(t, e.InsertRows("t", Row{1, "a", 1}, Row{2, "b", 2}))
	c1, _ := db.Conn(ctx)
	c2, _ := db.Conn(ctx)
	defer c1.Close()
	defer c2.Close()

	tx1, err := c1.BeginTx(ctx, nil)
	must(t, err)
	mustExec(t, execer{c1}, "UPDATE t SET n = 100 WHERE id = 1")
	mustExec(t, execer{c1}, "INSERT INTO t (id, name) VALUES (3, 'c')")
	mustExec(t, execer{c1}, "DELETE FROM t WHERE id = 2")
	eq(t, queryAll(t, queryer{c1}, "SELECT id, n FROM t"), [][]interface{}{{"1", "100"}, {"3", nil}}) // own writes visible
	eq(t, queryAll(t, queryer{c2}, "SELECT id, n FROM t"), [][]interface{}{{"1", "1"}, {"2", "2"}})   // others see committed data
	eq(t, len(e.Dump("t")), 2)
	eq(t, len(e.OpenTxns()), 1)
	eq(t, e.Locks(), map[string][]string{"t": {"1", "2", "3"}})

	_, err = c2.ExecContext(ctx, "UPDATE t SET n = 5 WHERE id = 1")
	wantErr(t, err, 1205)
	_, err = c2.ExecContext(ctx, "DELETE FROM t WHERE id = 2")
	wantErr(t, err, 1205)
	_, err = c2.ExecContext(ctx, "INSERT INTO t (id) VALUES (3)")
	wantErr(t, err, 1205)
	_, err = c2.QueryContext(ctx, "SELECT * FROM t WHERE id = 1 FOR UPDATE")
	wantErr(t, err, 1205)
	_, err = c2.ExecContext(ctx, "INSERT INTO t (id) VALUES (4)") // untouched key is free
	must(t, err)
	must(t, tx1.Commit())
	eq(t, e.Dump("t"), []Row{{int64(1), "a", int64(100)}, {int64(3), "c", nil}, {int64(4), nil, nil}})
	eq(t, e.Locks(), map[string][]string{})
	eq(t, len(e.OpenTxns()), 0)

	// rollback discards, SELECT FOR UPDATE locks
	tx2, _ := c2.BeginTx(ctx, nil)
	eq(t, len(queryAll(t, queryer{c2}, "SELECT * FROM t WHERE id IN (?, ?) FOR UPDATE", 1, 3)), 2)
	mustExec(t, execer{c2}, "UPDATE t SET n = 0")
	_, err = c1.ExecContext(ctx, "UPDATE t SET n = 9 WHERE id = 3")
	wantErr(t, err, 1205)
	must(t, tx2.Rollback())
	eq(t, e.Dump("t")[0], Row{int64(1), "a", int64(100)})
	_, err = c1.ExecContext(ctx, "UPDATE t SET n = 9 WHERE id = 3")
	must(t, err)

	// BEGIN inside a transaction commits the open one; SQL-text COMMIT/ROLLBACK work
	mustExec(t, execer{c1}, "BEGIN")
	mustExec(t, execer{c1}, "UPDATE t SET n = 1 WHERE id = 1")
	mustExec(t, execer{c1}, "START TRANSACTION")
	eq(t, e.Dump("t")[0][2], int64(1))
	mustExec(t, execer{c1}, "UPDATE t SET n = 2 WHERE id = 1")
	mustExec(t, execer{c1}, "ROLLBACK")
	eq(t, e.Dump("t")[0][2], int64(1))
	// autocommit = 0: implicit transaction
	mustExec(t, execer{c1}, "SET autocommit = 0")
	mustExec(t, execer{c1}, "UPDATE t SET n = 3 WHERE id = 1")
	eq(t, e.Dump("t")[0][2], int64(1))
	eq(t, len(e.OpenTxns()), 1)
	mustExec(t, execer{c1}, "COMMIT")
	eq(t, e.Dump("t")[0][2], int64(3))
	mustExec(t, execer{c1}, "UPDATE t SET n = 4 WHERE id = 1")
	mustExec(t, execer{c1}, "SET autocommit = 1") // commits
	eq(t, e.Dump("t")[0][2], int64(4))

	// closing a connection rolls its transaction back
	var cid int
	raw, _ := e.Driver().Open("")
	cid = raw.(*Conn).ID()
	_, err = raw.(driver.ConnBeginTx).BeginTx(ctx, driver.TxOptions{})
	must(t, err)
	_, err = raw.(driver.ExecerContext).ExecContext(ctx, "UPDATE t SET n = 77 WHERE id = 1", nil)
	must(t, err)
	eq(t, e.OpenTxns(), []int{cid})
	must(t, raw.Close())
	eq(t, e.Dump("t")[0][2], int64(4))
	eq(t, len(e.Locks()), 0)
	if _, err = raw.(driver.ExecerContext).ExecContext(ctx, "SELECT 1", nil); err != driver.ErrBadConn {
		t.Fatalf("closed connection: %v", err)
	}

	// unique-index entries are protected against concurrent inserts too
	tx3, _ := c1.BeginTx(ctx, nil)
	mustExec(t, execer{c1}, "INSERT INTO undo_log (branch_id,xid,context,rollback_info,log_status,log_created,log_modified) VALUES (1,'u','c','r',0,now(),now())")
	_, err = c2.ExecContext(ctx, "INSERT INTO undo_log (branch_id,xid,context,rollback_info,log_status,log_created,log_modified) VALUES (1,'u','c','r',0,now(),now())")
	wantErr(t, err, 1205)
	must(t, tx3.Rollback())
}

type execer struct{ c *sql.Conn }

func (e execer) Exec(q string, a ...interface{}) (sql.Result, error) {
	return e.c.ExecContext(context.Background(), q, a...)
}

type queryer struct{ c *sql.Conn }

func (e queryer) Query(q string, a ...interface{}) (*sql.Rows, error) {
	return e.c.QueryContext(context.Background(), q, a...)
}

func TestBlockingLocks(t *testing.T) {
	e, db := newT(t)
	e.LockMode(true)
	e.LockWaitTimeout(200 * time.Millisecond)
	must(t, e.InsertRows("t", Row{1, "a", 1}))
	ctx := context.Background()
	tx, _ := db.BeginTx(ctx, nil)
	mustExec(t, tx, "UPDATE t SET n = n + 1 WHERE id = 1")

	start := time.Now()
	_, err := db.Exec("UPDATE t SET n = n + 10 WHERE id = 1")
	wantErr(t, err, 1205)
	if time.Since(start) < 150*time.Millisecond {
		t.Fatal("did not wait")
	}
	e.LockWaitTimeout(5 * time.Second)
	var wg sync.WaitGroup
	wg.Add(1)
	var werr error
	go func() {
		defer wg.Done()
		_, werr = db.Exec("UPDATE t SET n = n + 10 WHERE id = 1")
	}()
	time.Sleep(50 * time.Millisecond)
	must(t, tx.Commit())
	wg.Wait()
	must(t, werr)
	eq(t, e.Dump("t")[0][2], int64(12)) // the waiter re-read the committed value
	// a cancelled context ends the wait
	tx, _ = db.BeginTx(ctx, nil)
	mustExec(t, tx, "DELETE FROM t WHERE id = 1")
	cctx, cancel := context.WithTimeout(ctx, 50*time.Millisecond)
	defer cancel()
	_, err = db.ExecContext(cctx, "UPDATE t SET n = 0 WHERE id = 1")
	if !errors.Is(err, context.DeadlineExceeded) {
		t.Fatalf("want deadline exceeded, got %v", err)
	}
	must(t, tx.Rollback())
}

func TestSavepoints(t *testing.T) {
	e, db := newT(t)
	must(t, e.InsertRows("t", Row{1, "a", 1}, Row{2, "b", 2}))
	ctx := context.Background()
	c, _ := db.Conn(ctx)
	defer c.Close()
	x := execer{c}
	mustExec(t, x, "BEGIN")
	mustExec(t, x, "UPDATE t SET n = 10 WHERE id = 1")
	mustExec(t, x, "savepoint seatago123point;;") // exactly what the proxy sends
	mustExec(t, x, "UPDATE t SET n = 20 WHERE id = 2")
	mustExec(t, x, "SAVEPOINT `sp2`")
	mustExec(t, x, "DELETE FROM t WHERE id = 1")
	eq(t, len(queryAll(t, queryer{c}, "SELECT * FROM t")), 1)
	mustExec(t, x, "rollback to seatago123point;;")
	eq(t, queryAll(t, queryer{c}, "SELECT n FROM t"), [][]interface{}{{"10"}, {"2"}})
	eq(t, e.Locks(), map[string][]string{"t": {"1", "2"}}) // InnoDB keeps the row locks
	_, err := c.ExecContext(ctx, "ROLLBACK TO SAVEPOINT sp2")
	wantErr(t, err, 1305) // destroyed by the rollback to the earlier savepoint
	mustExec(t, x, "UPDATE t SET n = 21 WHERE id = 2")
	mustExec(t, x, "ROLLBACK TO SAVEPOINT seatago123point") // still usable
	mustExec(t, x, "RELEASE SAVEPOINT seatago123point")
	_, err = c.ExecContext(ctx, "RELEASE SAVEPOINT seatago123point")
	wantErr(t, err, 1305)
	// the proxy issues savepoint statements through Query as well
	rows, err := c.QueryContext(ctx, "savepoint q1;")
	must(t, err)
	cols, _ := rows.Columns()
	eq(t, len(cols), 0)
	eq(t, rows.Next(), false)
	rows.Close()
	mustExec(t, x, "COMMIT")
	eq(t, e.Dump("t"), []Row{{int64(1), "a", int64(10)}, {int64(2), "b", int64(2)}})
	var kinds []string
	for _, en := range e.Journal() {
		if strings.Contains(en.Kind, "save") || en.Kind == "rollback_to" {
			kinds = append(kinds, en.Kind)
		}
	}
	eq(t, kinds, []string{"savepoint", "savepoint", "rollback_to", "rollback_to", "rollback_to", "release_savepoint", "release_savepoint", "savepoint"})
}

// ---------------------------------------------------------------- XA

func TestXA(t *testing.T) {
	e, db := newT(t)
	must(t, e.InsertRows("t", Row{1, "a", 1}))
	ctx := context.Background()
	c1, _ := db.Conn(ctx)
	c2, _ := db.Conn(ctx)
	defer c2.Close()
	x1, x2 := execer{c1}, execer{c2}
	const xid = "192.168.0.1:8091:12345-67"

	mustExec(t, x1, "XA START '"+xid+"'")
	eq(t, e.XAState(xid), "ACTIVE")
	eq(t, len(e.OpenTxns()), 1)
	mustExec(t, x1, "UPDATE t SET n = 2 WHERE id = 1")
	_, err := c1.ExecContext(ctx, "XA START 'other'")
	wantErr(t, err, 1399)
	_, err = c2.ExecContext(ctx, "XA START '"+xid+"'")
	wantErr(t, err, 1440)
	_, err = c1.ExecContext(ctx, "XA PREPARE '"+xid+"'")
	wantErr(t, err, 1399)
	_, err = c1.ExecContext(ctx, "XA ROLLBACK '"+xid+"'")
	wantErr(t, err, 1399) // not allowed before XA END
	_, err = c1.ExecContext(ctx, "XA COMMIT '"+xid+"' ONE PHASE")
	wantErr(t, err, 1399)
	for _, q := range []string{"BEGIN", "COMMIT", "ROLLBACK"} {
		_, err = c1.ExecContext(ctx, q)
		wantErr(t, err, 1399)
	}
	if _, err = c1.BeginTx(ctx, nil); errNo(err) != 1399 {
		t.Fatalf("BeginTx in XA ACTIVE: %v", err)
	}
	_, err = c1.ExecContext(ctx, "XA END 'nosuch'")
	wantErr(t, err, 1399)
	_, err = c2.ExecContext(ctx, "XA END '"+xid+"'")
	wantErr(t, err, 1397)
	_, err = c2.ExecContext(ctx, "XA COMMIT '"+xid+"'")
	wantErr(t, err, 1397) // not prepared yet
	mustExec(t, x1, "XA END '"+xid+"'")
	eq(t, e.XAState(xid), "IDLE")
	_, err = c1.ExecContext(ctx, "UPDATE t SET n = 3 WHERE id = 1")
	wantErr(t, err, 1399)
	if !strings.Contains(err.Error(), "IDLE state") {
		t.Fatal(err)
	}
	_, err = c1.ExecContext(ctx, "XA COMMIT '"+xid+"'")
	wantErr(t, err, 1399)
	mustExec(t, x1, "XA PREPARE '"+xid+"'")
	eq(t, e.XAState(xid), "PREPARED")
	eq(t, len(e.OpenTxns()), 0)
	eq(t, queryAll(t, queryer{c2}, "XA RECOVER"), [][]interface{}{{"1", fmt.Sprint(len(xid)), "0", xid}})
	must(t, c1.Raw(func(dc interface{}) error { return dc.(driver.Conn).Close() })) // the branch survives its connection
	c1.Close()
	eq(t, e.XAState(xid), "PREPARED")
	eq(t, e.Locks(), map[string][]string{"t": {"1"}})
	_, err = c2.ExecContext(ctx, "UPDATE t SET n = 9 WHERE id = 1")
	wantErr(t, err, 1205)
	eq(t, e.Dump("t")[0][2], int64(1))
	_, err = c2.ExecContext(ctx, "XA COMMIT '"+xid+"' ONE PHASE")
	wantErr(t, err, 1399)
	mustExec(t, x2, "XA COMMIT '"+xid+"'") // from ANY connection
	eq(t, e.XAState(xid), "COMMITTED")
	eq(t, e.Dump("t")[0][2], int64(2))
	eq(t, len(e.Locks()), 0)
	_, err = c2.ExecContext(ctx, "XA COMMIT '"+xid+"'")
	wantErr(t, err, 1397)
	_, err = c2.ExecContext(ctx, "XA ROLLBACK 'unknown'")
	wantErr(t, err, 1397)

	// rollback from IDLE, one-phase commit, rollback of a prepared branch from another connection
	mustExec(t, x2, "XA START 'r1'")
	mustExec(t, x2, "DELETE FROM t")
	mustExec(t, x2, "XA END 'r1'")
	mustExec(t, x2, "XA ROLLBACK 'r1'")
	eq(t, e.XAState("r1"), "ROLLEDBACK")
	eq(t, len(e.Dump("t")), 1)
	mustExec(t, x2, "XA START 'o1'; UPDATE t SET n = 5; XA END 'o1'; XA COMMIT 'o1' ONE PHASE")
	eq(t, e.Dump("t")[0][2], int64(5))
	mustExec(t, x2, "XA START 'p1','bq',1")
	mustExec(t, x2, "UPDATE t SET n = 6")
	mustExec(t, x2, "XA END 'p1','bq',1")
	mustExec(t, x2, "XA PREPARE 'p1','bq',1")
	eq(t, e.XAState("p1,bq,1"), "PREPARED")
	mustExec(t, db, "XA ROLLBACK 'p1','bq',1")
	eq(t, e.Dump("t")[0][2], int64(5))
	mustExec(t, x2, "XA START 'r1'") // a finished xid may be reused
	// closing a connection in XA ACTIVE rolls the branch back
	must(t, c2.Raw(func(dc interface{}) error { return dc.(driver.Conn).Close() }))
	eq(t, e.XAState("r1"), "ROLLEDBACK")
	// the exact driver-level call shape of MysqlXAConn (args == nil)
	raw, _ := e.Driver().Open("")
	defer raw.Close()
	_, err = raw.(driver.ExecerContext).ExecContext(ctx, "XA START 'z'", nil)
	must(t, err)
	mustExec(t, db, "BEGIN")
}

// ---------------------------------------------------------------- faults and journal

func TestFaultsAndJournal(t *testing.T) {
	e, db := newT(t)
	db.SetMaxOpenConns(1)
	must(t, e.InsertRows("t", Row{1, "a", 1}))
	must(t, db.Ping())
	e.ResetJournal()

	e.AddFault(Fault{Kind: "update", Table: "T", Nth: 2})
	mustExec(t, db, "UPDATE t SET n = 2 WHERE id = ?", 1)
	_, err := db.Exec("UPDATE t SET n = 3 WHERE id = 1")
	wantErr(t, err, 1105)
	mustExec(t, db, "UPDATE t SET n = 4 WHERE id = 1")
	eq(t, e.FaultsFired(), 1)
	eq(t, e.Dump("t")[0][2], int64(4)) // the faulted statement had no effect

	custom := errors.New("boom")
	e.AddFault(Fault{Kind: "commit", Err: custom})
	tx, _ := db.Begin()
	mustExec(t, tx, "UPDATE t SET n = 5 WHERE id = 1")
	if err = tx.Commit(); err != custom {
		t.Fatalf("commit: %v", err)
	}
	eq(t, e.Dump("t")[0][2], int64(4)) // commit failed => rolled back
	eq(t, len(e.OpenTxns()), 0)
	eq(t, len(e.Locks()), 0)

	e.AddFault(Fault{Kind: "select", Nth: 1, Sticky: true})
	for i := 0; i < 3; i++ {
		_, err = db.Query("SELECT * FROM t")
		wantErr(t, err, 1105)
	}
	queryAll(t, db, "SELECT * FROM t FOR UPDATE") // different kind
	e.ClearFaults()
	queryAll(t, db, "SELECT * FROM t")
	eq(t, e.FaultsFired(), 5)

	e.AddFault(Fault{Kind: "xa_prepare"})
	mustExec(t, db, "XA START 'f'; XA END 'f'")
	_, err = db.Exec("XA PREPARE 'f'")
	wantErr(t, err, 1105)
	eq(t, e.XAState("f"), "IDLE")
	mustExec(t, db, "XA ROLLBACK 'f'")

	e.AddFault(Fault{Kind: "connect"})
	db2 := sql.OpenDB(e.Connector())
	if err = db2.Ping(); errNo(err) != 1105 {
		t.Fatalf("connect fault: %v", err)
	}
	must(t, db2.Ping())
	db2.Close()

	j := e.Journal()
	first := j[0]
	eq(t, []interface{}{first.Kind, first.Table, first.SQL, first.Args, first.Err, first.RowsAffected, first.InTxn},
		[]interface{}{"update", "t", "UPDATE t SET n = 2 WHERE id = ?", []interface{}{int64(1)}, "", int64(1), false})
	if j[1].Err == "" || j[1].RowsAffected != 0 {
		t.Fatalf("faulted entry: %+v", j[1])
	}
	var kinds []string
	for i, en := range j {
		if i > 0 && en.Seq != j[i-1].Seq+1 {
			t.Fatalf("journal sequence broken at %d", i)
		}
		kinds = append(kinds, en.Kind)
	}
	got := strings.Join(kinds, " ")
	want := "update update update begin update commit select select select select_for_update select xa_start xa_end xa_prepare xa_rollback connect connect close"
	eq(t, got, want)
	eq(t, j[4].InTxn, true)
	eq(t, j[5].Err, "boom")
	conn := j[0].Conn
	e.ResetJournal()
	e.AddFault(Fault{Conn: conn + 1000})
	mustExec(t, db, "UPDATE t SET n = 6") // fault bound to another connection id
	eq(t, len(e.Journal()), 1)
}

// ---------------------------------------------------------------- Clone / Dump / direct access

func TestCloneDumpForeignWriter(t *testing.T) {
	e, db := newT(t)
	must(t, e.CreateTable(TableDef{Name: "nopk", Cols: []Column{{Name: "v", Type: TVarchar, Nullable: true}}}))
	must(t, e.InsertRows("t", Row{3, "c", 3}, Row{1, "a", 1}, Row{nil, "auto", nil}))
	must(t, e.InsertRows("nopk", Row{"z"}, Row{"a"}, Row{"m"}))
	eq(t, e.Dump("t"), []Row{{int64(1), "a", int64(1)}, {int64(3), "c", int64(3)}, {int64(4), "auto", nil}})
	eq(t, e.Dump("nopk"), []Row{{"z"}, {"a"}, {"m"}}) // insertion order without PK
	eq(t, queryAll(t, db, "SELECT v FROM nopk"), [][]interface{}{{"z"}, {"a"}, {"m"}})
	if err := e.InsertRows("t", Row{1, "dup", 0}); errNo(err) != 1062 {
		t.Fatal(err)
	}
	eq(t, e.Tables(), []string{"nopk", "t", "tcc_fence_log", "undo_log"})
	if e.Def("nosuch") != nil || e.Def("T").Name != "t" {
		t.Fatal("Def")
	}

	tx, _ := db.Begin()
	mustExec(t, tx, "UPDATE t SET n = 50 WHERE id = 1")
	e.AddFault(Fault{Kind: "delete"})
	c := e.Clone()
	eq(t, c.Dump("t"), e.Dump("t")) // committed data only
	eq(t, len(c.Journal()), 0)
	eq(t, len(c.OpenTxns()), 0)
	must(t, c.Exec("DELETE FROM t WHERE id = ?", 1)) // no fault, no lock in the clone
	eq(t, len(c.Dump("t")), 2)
	eq(t, len(e.Dump("t")), 3)
	eq(t, len(c.Journal()), 0) // Exec is not journaled

	before := len(e.Journal())
	if err := e.Exec("UPDATE t SET n = 0 WHERE id = 1"); errNo(err) != 1205 { // foreign writer honours row locks
		t.Fatal(err)
	}
	must(t, e.Exec("UPDATE t SET n = ? WHERE id = ?", 33, 3))
	eq(t, len(e.Journal()), before)
	must(t, tx.Rollback())
	eq(t, e.DumpAll()["t"][1], Row{int64(3), "c", int64(33)})
	d := e.Dump("t")
	d[0][1] = "mutated"
	eq(t, e.Dump("t")[0][1], "a")
	id, _ := mustExec(t, sql.OpenDB(c.Connector()), "INSERT INTO t (name) VALUES ('x')")
	eq(t, id, int64(5)) // auto-increment counter is cloned
}

func TestDriverSurface(t *testing.T) {
	e, _ := newT(t)
	name := fmt.Sprintf("memdb-test-%d", time.Now().UnixNano())
	sql.Register(name, e.Driver())
	db, err := sql.Open(name, "root:pw@tcp(127.0.0.1:3306)/testdb?multiStatements=true")
	must(t, err)
	defer db.Close()
	must(t, db.Ping())
	st, err := db.Prepare("SELECT id FROM t WHERE id = ? OR name = ?")
	must(t, err)
	_, err = st.Query(1)
	if err == nil || !strings.Contains(err.Error(), "expected 2 arguments") {
		t.Fatalf("NumInput not enforced: %v", err)
	}
	rows, err := st.Query(1, "x")
	must(t, err)
	rows.Close()
	st.Close()
	_, err = db.Prepare("SELEC")
	wantErr(t, err, 1064)
	// named-value checker: the conversions go-sql-driver accepts
	type myInt int16
	type myStr string
	var np *int
	v := 5
	mustExec(t, db, "INSERT INTO t (id, name, n) VALUES (?, ?, ?)", uint64(1), myStr("s"), myInt(3))
	mustExec(t, db, "INSERT INTO t (id, name, n) VALUES (?, ?, ?)", uint32(2), sql.NullString{}, np)
	mustExec(t, db, "INSERT INTO t (id, name, n) VALUES (?, ?, ?)", int8(3), []byte("b"), &v)
	mustExec(t, db, "INSERT INTO t (id, name, n) VALUES (?, ?, ?)", 4, "t", true)
	eq(t, e.Dump("t"), []Row{{int64(1), "s", int64(3)}, {int64(2), nil, nil}, {int64(3), "b", int64(5)}, {int64(4), "t", int64(1)}})
	if _, err = db.Exec("INSERT INTO t (name) VALUES (?)", struct{}{}); err == nil {
		t.Fatal("struct argument accepted")
	}
	// deterministic clock
	e.SetClock(func() time.Time { return time.Date(2030, 1, 2, 3, 4, 5, 678901234, time.UTC) })
	var a, b time.Time
	must(t, db.QueryRow("SELECT now(), now(6)").Scan(&a, &b))
	eq(t, a, time.Date(2030, 1, 2, 3, 4, 5, 0, time.UTC))
	eq(t, b, time.Date(2030, 1, 2, 3, 4, 5, 678901000, time.UTC))
}

// strOf reads a text holder of GetScanSlice (*string before the NULL repair in /repo, *sql.NullString after)
func strOf(h interface{}) string {
	switch x := h.(type) {
	case *string:
		return *x
	case *sql.NullString:
		return x.String
	case *sql.RawBytes:
		return string(*x)
	}
	return fmt.Sprintf("%T", h)
}
