package memdb

import (
	"fmt"
	"sort"
	"strings"
	"sync"
	"sync/atomic"
	"time"

	"github.com/go-sql-driver/mysql"
)

// rowRec is an immutable stored row version.
type rowRec struct {
	key  string // primary key encoding, or "#<rid>" for tables without PK
	rid  int64  // insertion sequence (orders tables without PK)
	vals Row
}

type uniqIdx struct {
	name string
	cols []int
}

type table struct {
	def      TableDef
	colIdx   map[string]int // lower(name) -> index
	pk       []int
	uniq     []uniqIdx
	autoCol  int // index of the AUTO_INCREMENT column or -1
	rows     map[string]*rowRec
	nextRID  int64
	autoInc  int64 // next auto-increment value
	autoStep int64 // auto_increment_increment (0/1: none)
	virtual  bool  // information_schema view: no locks, read-only
}

type lockEnt struct {
	owner   *txn
	display string
	isPK    bool
}

type xaRec struct {
	xid   string
	state string // ACTIVE, IDLE, PREPARED, COMMITTED, ROLLEDBACK
	tx    *txn
	conn  int
}

// Entry is one journaled statement.
type Entry struct {
	Conn         int
	Seq          int
	Kind         string
	Table        string
	SQL          string
	Args         []interface{}
	Err          string
	RowsAffected int64
	InTxn        bool
}

// Fault fails the Nth (1-based, counted from the moment the fault is added)
// statement matching the filter.
type Fault struct {
	Conn   int    // 0 = any
	Kind   string // "" = any, else an Entry.Kind
	Table  string // "" = any; case-insensitive
	Nth    int
	Err    error         // nil -> *mysql.MySQLError{Number:1105, Message:"injected fault"}
	Sticky bool          // keep failing every later match too
	Delay  time.Duration // > 0: the statement is not failed but held up for this long (a slow server)
	// AtRow > 0: the statement is answered, and reading its result fails when row number AtRow (1-based) is
	// asked for — an error that arrives from rows.Next, not from the query call (a lock wait timeout, a lost
	// connection in the middle of a result)
	AtRow int
	// Panic: the statement does not return, it panics (a stand-in for a panic anywhere under the proxy's
	// statement call: an executor, a hook)
	Panic bool
}

type panicFault struct{}

func (*panicFault) Error() string { return "panic" }

type rowFault struct {
	at  int
	err error
}

func (r *rowFault) Error() string { return "fails at row" }

type delayFault struct{ d time.Duration }

func (d *delayFault) Error() string { return "delay" }

type faultState struct {
	Fault
	seen int
	done bool
}

// Engine is one database ("schema") with tables; safe for concurrent use.
type Engine struct {
	mu       sync.Mutex
	name     string
	tables   map[string]*table // lower(name)
	locks    map[string]map[string]*lockEnt
	lockCh   chan struct{} // closed+replaced on every lock release
	block    bool
	lockWait time.Duration
	xa       map[string]*xaRec
	sessions map[int]*session
	pings    int64
	// openStmts: server-side prepared statements not closed yet (a server allows max_prepared_stmt_count of
	// them, 16382 by default; a statement a client forgets to close stays until its connection ends)
	openStmts int64
	// strictBusy: a connection with an unread result set refuses other commands, as go-sql-driver/mysql does
	strictBusy bool
	nextConn   int
	nextTxn    int
	journal    []Entry
	seq        int
	faults     []*faultState
	fired      int
	clock      func() time.Time
	interp     bool  // emulate interpolateParams=true (text protocol for conn-level queries with args)
	skipFast   bool  // emulate interpolateParams=false fully: conn-level Exec/Query with arguments answer driver.ErrSkip
	autoStep   int64 // auto_increment_increment of this server (0 or 1: every value; offset is 1)
}

// SetAutoIncStep sets the server's auto_increment_increment (auto_increment_offset stays 1): generated
// values are 1, 1+n, 1+2n, ... and a statement that generates several values spaces them n apart.
func (e *Engine) SetAutoIncStep(n int64) {
	e.mu.Lock()
	defer e.mu.Unlock()
	e.autoStep = n
	for _, t := range e.tables {
		t.autoStep = n
	}
}

// New creates an empty engine for the schema dbName.
func New(dbName string) *Engine {
	return &Engine{
		name:       dbName,
		tables:     map[string]*table{},
		locks:      map[string]map[string]*lockEnt{},
		lockCh:     make(chan struct{}),
		lockWait:   5 * time.Second,
		xa:         map[string]*xaRec{},
		sessions:   map[int]*session{},
		strictBusy: true,
		clock:      time.Now,
	}
}

// Name returns the schema name.
func (e *Engine) Name() string { return e.name }

// SetClock replaces the clock used by now() (determinism in tests).
func (e *Engine) SetClock(f func() time.Time) {
	e.mu.Lock()
	defer e.mu.Unlock()
	if f == nil {
		f = time.Now
	}
	e.clock = f
}

// SetInterpolateParams(true) emulates a DSN with interpolateParams=true:
// Conn-level Query/Exec with arguments use the text protocol typing.
func (e *Engine) SetInterpolateParams(on bool) {
	e.mu.Lock()
	defer e.mu.Unlock()
	e.interp = on
}

// SetSkipFastPath(true) makes conn-level ExecContext / QueryContext with arguments answer
// driver.ErrSkip, as go-sql-driver/mysql does when the DSN lacks interpolateParams=true: database/sql
// then falls back to prepare + execute.
func (e *Engine) SetSkipFastPath(on bool) {
	e.mu.Lock()
	defer e.mu.Unlock()
	e.skipFast = on
}

func (e *Engine) skipFastPath() bool {
	e.mu.Lock()
	defer e.mu.Unlock()
	return e.skipFast
}

// LockMode selects row-lock conflict handling: false (default) fails fast with
// MySQLError 1205, true blocks until released (or LockWaitTimeout elapses).
func (e *Engine) LockMode(block bool) {
	e.mu.Lock()
	defer e.mu.Unlock()
	e.block = block
}

// LockWaitTimeout sets how long a blocked statement waits (default 5s).
func (e *Engine) LockWaitTimeout(d time.Duration) {
	e.mu.Lock()
	defer e.mu.Unlock()
	e.lockWait = d
}

func newTable(def TableDef) (*table, error) {
	t := &table{def: def, colIdx: map[string]int{}, rows: map[string]*rowRec{}, autoCol: -1, autoInc: 1}
	t.def.Cols = append([]Column{}, def.Cols...)
	if def.Name == "" || len(def.Cols) == 0 {
		return nil, myErr(1113, "A table must have at least 1 column")
	}
	for i, c := range t.def.Cols {
		l := strings.ToLower(c.Name)
		if _, dup := t.colIdx[l]; dup {
			return nil, myErr(1060, "Duplicate column name '%s'", c.Name)
		}
		t.colIdx[l] = i
		if c.AutoInc {
			if !c.Type.isInt() || t.autoCol >= 0 {
				return nil, myErr(1075, "Incorrect table definition; there can be only one auto column and it must be an integer key")
			}
			t.autoCol = i
		}
	}
	for _, n := range def.PK {
		i, ok := t.colIdx[strings.ToLower(n)]
		if !ok {
			return nil, myErr(1072, "Key column '%s' doesn't exist in table", n)
		}
		t.def.Cols[i].Nullable = false
		t.pk = append(t.pk, i)
	}
	used := map[string]bool{"primary": true}
	for _, u := range def.Unique {
		idx := uniqIdx{}
		for _, n := range u {
			i, ok := t.colIdx[strings.ToLower(n)]
			if !ok {
				return nil, myErr(1072, "Key column '%s' doesn't exist in table", n)
			}
			idx.cols = append(idx.cols, i)
		}
		if len(idx.cols) == 0 {
			continue
		}
		base := t.def.Cols[idx.cols[0]].Name
		idx.name = base
		for k := 2; used[strings.ToLower(idx.name)]; k++ {
			idx.name = fmt.Sprintf("%s_%d", base, k)
		}
		used[strings.ToLower(idx.name)] = true
		t.uniq = append(t.uniq, idx)
	}
	return t, nil
}

// CreateTable adds a table to the catalogue.
func (e *Engine) CreateTable(def TableDef) error {
	e.mu.Lock()
	defer e.mu.Unlock()
	return e.createTableLocked(def)
}

func (e *Engine) createTableLocked(def TableDef) error {
	l := strings.ToLower(def.Name)
	if _, ok := e.tables[l]; ok {
		return myErr(1050, "Table '%s' already exists", def.Name)
	}
	t, err := newTable(def)
	if err != nil {
		return err
	}
	t.autoStep = e.autoStep
	e.tables[l] = t
	return nil
}

// DropTable removes a table from the catalogue (no-op when unknown).
func (e *Engine) DropTable(name string) {
	e.mu.Lock()
	defer e.mu.Unlock()
	delete(e.tables, strings.ToLower(name))
}

// CreateUndoLogTable creates seata's `undo_log` table.
func (e *Engine) CreateUndoLogTable() {
	_ = e.CreateTable(TableDef{Name: "undo_log", Cols: []Column{
		{Name: "id", Type: TBigInt, AutoInc: true},
		{Name: "branch_id", Type: TBigInt},
		{Name: "xid", Type: TVarchar, Length: 128},
		{Name: "context", Type: TVarchar, Length: 128},
		{Name: "rollback_info", Type: TLongBlob},
		{Name: "log_status", Type: TInt},
		{Name: "log_created", Type: TDateTime, Length: 6},
		{Name: "log_modified", Type: TDateTime, Length: 6},
	}, PK: []string{"id"}, Unique: [][]string{{"xid", "branch_id"}}})
}

// CreateFenceLogTable creates seata's `tcc_fence_log` table.
func (e *Engine) CreateFenceLogTable() {
	_ = e.CreateTable(TableDef{Name: "tcc_fence_log", Cols: []Column{
		{Name: "xid", Type: TVarchar, Length: 128},
		{Name: "branch_id", Type: TBigInt},
		{Name: "action_name", Type: TVarchar, Length: 64, Nullable: true},
		{Name: "status", Type: TTinyInt, Nullable: true},
		{Name: "gmt_create", Type: TDateTime, Length: 3, Nullable: true},
		{Name: "gmt_modified", Type: TDateTime, Length: 3, Nullable: true},
	}, PK: []string{"xid", "branch_id"}})
}

// Tables lists table names, sorted.
func (e *Engine) Tables() []string {
	e.mu.Lock()
	defer e.mu.Unlock()
	return e.tableNamesLocked()
}

func (e *Engine) tableNamesLocked() []string {
	var out []string
	for _, t := range e.tables {
		out = append(out, t.def.Name)
	}
	sort.Strings(out)
	return out
}

// Def returns a copy of a table's definition (nil if unknown).
func (e *Engine) Def(name string) *TableDef {
	e.mu.Lock()
	defer e.mu.Unlock()
	t := e.tables[strings.ToLower(name)]
	if t == nil {
		return nil
	}
	d := t.def
	d.Cols = append([]Column{}, t.def.Cols...)
	d.PK = append([]string{}, t.def.PK...)
	d.Unique = nil
	for _, u := range t.def.Unique {
		d.Unique = append(d.Unique, append([]string{}, u...))
	}
	return &d
}

func (t *table) keyOf(vals Row, rid int64) string {
	if len(t.pk) == 0 {
		return fmt.Sprintf("#%d", rid)
	}
	parts := make([]string, len(t.pk))
	for i, c := range t.pk {
		parts[i] = keyPart(vals[c])
	}
	return strings.Join(parts, "\x00")
}

func (t *table) displayKey(rec *rowRec) string {
	if len(t.pk) == 0 {
		return rec.key
	}
	parts := make([]string, len(t.pk))
	for i, c := range t.pk {
		parts[i] = displayPart(rec.vals[c])
	}
	return strings.Join(parts, "_")
}

// sortRecs orders rows by primary key (typed), or insertion order without PK.
func (t *table) sortRecs(recs []*rowRec) {
	sort.SliceStable(recs, func(i, j int) bool {
		a, b := recs[i], recs[j]
		for _, c := range t.pk {
			av, bv := colValue(&t.def.Cols[c], a.vals[c]), colValue(&t.def.Cols[c], b.vals[c])
			if av == nil || bv == nil {
				if av == nil && bv != nil {
					return true
				}
				if av != nil {
					return false
				}
				continue
			}
			if d := compareVals(av, bv); d != 0 {
				return d < 0
			}
		}
		return a.rid < b.rid
	})
}

// nextAuto is the value the next generated key takes: the smallest value >= the counter that is
// congruent to the offset (1) modulo the step
func (t *table) nextAuto() int64 {
	v := t.autoInc
	if t.autoStep > 1 {
		for v%t.autoStep != 1%t.autoStep {
			v++
		}
	}
	return v
}

func (t *table) bumpAuto(vals Row) {
	if t.autoCol >= 0 {
		if v, ok := vals[t.autoCol].(int64); ok && v >= t.autoInc {
			t.autoInc = v + 1
		}
	}
}

// InsertRows inserts committed rows directly, bypassing SQL, locks and journal.
func (e *Engine) InsertRows(name string, rows ...Row) error {
	e.mu.Lock()
	defer e.mu.Unlock()
	t := e.tables[strings.ToLower(name)]
	if t == nil {
		return myErr(1146, "Table '%s.%s' doesn't exist", e.name, name)
	}
	for _, r := range rows {
		if len(r) != len(t.def.Cols) {
			return myErr(1136, "Column count doesn't match value count at row 1")
		}
		vals := make(Row, len(r))
		for i := range r {
			v, err := normArg(r[i])
			if err != nil {
				return err
			}
			c := &t.def.Cols[i]
			if i == t.autoCol && (v == nil || v == int64(0)) {
				v = t.nextAuto()
			}
			if vals[i], err = coerce(c, v); err != nil {
				return err
			}
		}
		t.bumpAuto(vals)
		t.nextRID++
		rec := &rowRec{rid: t.nextRID, vals: vals}
		rec.key = t.keyOf(vals, rec.rid)
		if _, dup := t.rows[rec.key]; dup {
			return myErr(1062, "Duplicate entry '%s' for key '%s.PRIMARY'", t.displayKey(rec), t.def.Name)
		}
		for _, u := range t.uniq {
			for _, o := range t.rows {
				if uniqMatch(u, o.vals, vals) {
					return myErr(1062, "Duplicate entry '%s' for key '%s.%s'", uniqDisplay(u, vals), t.def.Name, u.name)
				}
			}
		}
		t.rows[rec.key] = rec
	}
	return nil
}

func uniqMatch(u uniqIdx, a, b Row) bool {
	for _, c := range u.cols {
		if a[c] == nil || b[c] == nil || !valuesEqual(a[c], b[c]) {
			return false
		}
	}
	return true
}

func uniqDisplay(u uniqIdx, vals Row) string {
	parts := make([]string, len(u.cols))
	for i, c := range u.cols {
		parts[i] = displayPart(vals[c])
	}
	return strings.Join(parts, "-")
}

// Dump returns the committed rows of a table sorted by primary key.
func (e *Engine) Dump(name string) []Row {
	e.mu.Lock()
	defer e.mu.Unlock()
	return e.dumpLocked(name)
}

func (e *Engine) dumpLocked(name string) []Row {
	t := e.tables[strings.ToLower(name)]
	if t == nil {
		return nil
	}
	recs := make([]*rowRec, 0, len(t.rows))
	for _, r := range t.rows {
		recs = append(recs, r)
	}
	t.sortRecs(recs)
	out := make([]Row, len(recs))
	for i, r := range recs {
		out[i] = copyRow(r.vals)
	}
	return out
}

// DumpAll dumps every table.
func (e *Engine) DumpAll() map[string][]Row {
	e.mu.Lock()
	defer e.mu.Unlock()
	out := map[string][]Row{}
	for _, n := range e.tableNamesLocked() {
		out[n] = e.dumpLocked(n)
	}
	return out
}

// Clone deep-copies catalogue and committed data (fresh journal, no faults, no
// open transactions, no XA state).
func (e *Engine) Clone() *Engine {
	e.mu.Lock()
	defer e.mu.Unlock()
	c := New(e.name)
	c.block, c.lockWait, c.clock, c.interp = e.block, e.lockWait, e.clock, e.interp
	for l, t := range e.tables {
		nt, _ := newTable(t.def)
		nt.nextRID, nt.autoInc = t.nextRID, t.autoInc
		for k, r := range t.rows {
			nt.rows[k] = &rowRec{key: r.key, rid: r.rid, vals: copyRow(r.vals)}
		}
		c.tables[l] = nt
	}
	return c
}

// Exec runs a statement on a private autocommit connection WITHOUT journaling
// it and without fault injection (a "foreign writer"). Row locks are honoured.
func (e *Engine) Exec(sql string, args ...interface{}) error {
	s := &session{e: e, autocommit: true, silent: true}
	vals := make([]interface{}, len(args))
	for i, a := range args {
		v, err := normArg(a)
		if err != nil {
			return err
		}
		vals[i] = v
	}
	_, err := s.run(nil, sql, vals, nil)
	_ = s.close()
	return err
}

// ---- journal ----

// Journal returns a copy of the journal, in global order.
func (e *Engine) Journal() []Entry {
	e.mu.Lock()
	defer e.mu.Unlock()
	out := make([]Entry, len(e.journal))
	copy(out, e.journal)
	return out
}

// ResetJournal clears the journal.
func (e *Engine) ResetJournal() {
	e.mu.Lock()
	defer e.mu.Unlock()
	e.journal = nil
}

func (e *Engine) record(s *session, kind, tbl, sql string, args []interface{}, err error, affected int64, inTxn bool) {
	if s.silent {
		return
	}
	e.seq++
	en := Entry{Conn: s.id, Seq: e.seq, Kind: kind, Table: tbl, SQL: sql, RowsAffected: affected, InTxn: inTxn}
	if len(args) > 0 {
		en.Args = make([]interface{}, len(args))
		for i, a := range args {
			en.Args[i] = copyVal(a)
		}
	}
	if err != nil {
		en.Err = err.Error()
	}
	e.journal = append(e.journal, en)
}

// ---- faults ----

// AddFault registers a fault.
func (e *Engine) AddFault(f Fault) {
	e.mu.Lock()
	defer e.mu.Unlock()
	if f.Nth <= 0 {
		f.Nth = 1
	}
	e.faults = append(e.faults, &faultState{Fault: f})
}

// ClearFaults removes all faults (FaultsFired is kept).
func (e *Engine) ClearFaults() {
	e.mu.Lock()
	defer e.mu.Unlock()
	e.faults = nil
}

// FaultsFired counts fault firings so far.
func (e *Engine) FaultsFired() int {
	e.mu.Lock()
	defer e.mu.Unlock()
	return e.fired
}

func (e *Engine) matchFault(s *session, kind, tbl string) error {
	if s.silent {
		return nil
	}
	// catalogue queries (the table-meta cache and its background refresher) are never counted unless
	// the fault names the table
	catalogue := strings.EqualFold(tbl, "columns") || strings.EqualFold(tbl, "statistics")
	var out error
	for _, f := range e.faults {
		if catalogue && f.Table == "" {
			continue
		}
		if f.done || (f.Conn != 0 && f.Conn != s.id) || (f.Kind != "" && f.Kind != kind) ||
			(f.Table != "" && !strings.EqualFold(f.Table, tbl)) {
			continue
		}
		f.seen++
		if f.seen < f.Nth || out != nil {
			continue
		}
		if !f.Sticky {
			f.done = true
		}
		e.fired++
		out = f.Err
		if f.Panic {
			out = &panicFault{}
		} else if f.Delay > 0 {
			out = &delayFault{f.Delay}
		} else if out == nil {
			out = &mysql.MySQLError{Number: 1105, Message: "injected fault"}
		}
		if f.AtRow > 0 {
			out = &rowFault{f.AtRow, out}
		}
	}
	return out
}

// ---- inspection ----

// StrictBusy switches the "busy buffer" behaviour on or off (default on).
func (e *Engine) StrictBusy(on bool) {
	e.mu.Lock()
	defer e.mu.Unlock()
	e.strictBusy = on
}

// Pings is the number of pings that have reached the engine.
func (e *Engine) Pings() int64 { return atomic.LoadInt64(&e.pings) }

// OpenStmts is the number of prepared statements that have been prepared and not closed (statements of
// connections that were closed meanwhile are still counted: the harness looks at differences on live pools).
func (e *Engine) OpenStmts() int64 { return atomic.LoadInt64(&e.openStmts) }

// SessionCount is the number of connections that are open.
func (e *Engine) SessionCount() int {
	e.mu.Lock()
	defer e.mu.Unlock()
	return len(e.sessions)
}

// OpenTxns lists ids of connections currently inside a transaction.
func (e *Engine) OpenTxns() []int {
	e.mu.Lock()
	defer e.mu.Unlock()
	var out []int
	for id, s := range e.sessions {
		if s.tx != nil {
			out = append(out, id)
		}
	}
	sort.Ints(out)
	return out
}

// XAState reports "", ACTIVE, IDLE, PREPARED, COMMITTED or ROLLEDBACK.
func (e *Engine) XAState(xid string) string {
	e.mu.Lock()
	defer e.mu.Unlock()
	if r := e.xa[xid]; r != nil {
		return r.state
	}
	return ""
}

// Locks returns table -> locked primary-key strings (pk values joined by "_").
func (e *Engine) Locks() map[string][]string {
	e.mu.Lock()
	defer e.mu.Unlock()
	out := map[string][]string{}
	for tl, m := range e.locks {
		name := tl
		if t := e.tables[tl]; t != nil {
			name = t.def.Name
		}
		for _, l := range m {
			if l.isPK {
				out[name] = append(out[name], l.display)
			}
		}
		sort.Strings(out[name])
		if len(out[name]) == 0 {
			delete(out, name)
		}
	}
	return out
}

// ---- locks ----

type wouldBlock struct{ table, key string }

func (w *wouldBlock) Error() string { return "lock wait: " + w.table + "/" + w.key }

var errLockWait = &mysql.MySQLError{Number: 1205, Message: "Lock wait timeout exceeded; try restarting transaction"}

func (e *Engine) acquire(tx *txn, tl, key, display string, isPK bool) error {
	m := e.locks[tl]
	if m == nil {
		m = map[string]*lockEnt{}
		e.locks[tl] = m
	}
	if l := m[key]; l != nil {
		if l.owner == tx {
			return nil
		}
		return &wouldBlock{tl, key}
	}
	m[key] = &lockEnt{owner: tx, display: display, isPK: isPK}
	tx.locks = append(tx.locks, [2]string{tl, key})
	return nil
}

func (e *Engine) releaseLocks(tx *txn) {
	for _, lk := range tx.locks {
		if m := e.locks[lk[0]]; m != nil {
			if l := m[lk[1]]; l != nil && l.owner == tx {
				delete(m, lk[1])
			}
			if len(m) == 0 {
				delete(e.locks, lk[0])
			}
		}
	}
	tx.locks = nil
	close(e.lockCh)
	e.lockCh = make(chan struct{})
}
