package memdb

import (
	"context"
	"database/sql/driver"
	"fmt"
	"sort"
	"strings"
	"time"

	"github.com/arana-db/parser/ast"
)

// txn is a write-set layered over committed data plus the row locks it holds.
// It is owned by a session, or (XA PREPARED) detached and owned by the engine.
type txn struct {
	id    int
	ws    map[string]map[string]*rowRec // lower(table) -> key -> version (nil = deleted)
	locks [][2]string
	saves []savepoint
}

type savepoint struct {
	name string
	ws   map[string]map[string]*rowRec
}

func (tx *txn) snapshot() map[string]map[string]*rowRec {
	out := make(map[string]map[string]*rowRec, len(tx.ws))
	for t, m := range tx.ws {
		c := make(map[string]*rowRec, len(m))
		for k, r := range m {
			c[k] = r
		}
		out[t] = c
	}
	return out
}

func (tx *txn) put(tl, key string, rec *rowRec) {
	m := tx.ws[tl]
	if m == nil {
		m = map[string]*rowRec{}
		tx.ws[tl] = m
	}
	m[key] = rec
}

// session is the per-connection state.
type session struct {
	e          *Engine
	id         int
	autocommit bool
	tx         *txn
	xa         *xaRec
	closed     bool
	silent     bool // Engine.Exec private connection: no journal, no faults
	lastID     int64
	pending    *Rows // the result set the connection is still busy with (see Conn.query)
}

// outcome is the result of one statement.
type outcome struct {
	cols     []colMeta
	rows     [][]interface{}
	affected int64
	lastID   int64
	failAt   int // > 0: reading row number failAt of the result fails with failErr
	failErr  error
	// sets: for a text of several statements, the result sets of its queries in order (the outcome itself is the
	// last statement's)
	sets []*outcome
}

func (e *Engine) newTxn() *txn {
	e.nextTxn++
	return &txn{id: e.nextTxn, ws: map[string]map[string]*rowRec{}}
}

func (e *Engine) openSession() (*session, error) {
	e.mu.Lock()
	defer e.mu.Unlock()
	e.nextConn++
	s := &session{e: e, id: e.nextConn, autocommit: true}
	if err := e.matchFault(s, "connect", ""); err != nil {
		e.record(s, "connect", "", "", nil, err, 0, false)
		return nil, err
	}
	e.sessions[s.id] = s
	e.record(s, "connect", "", "", nil, nil, 0, false)
	return s, nil
}

// close rolls back any open (non-prepared) transaction and ends the session.
func (s *session) close() error {
	e := s.e
	e.mu.Lock()
	defer e.mu.Unlock()
	if s.closed {
		return nil
	}
	inTxn := s.tx != nil
	err := e.matchFault(s, "close", "")
	if s.xa != nil {
		s.xa.state, s.xa.tx = "ROLLEDBACK", nil
		s.xa = nil
	}
	s.discardTxn()
	s.closed = true
	delete(e.sessions, s.id)
	e.record(s, "close", "", "", nil, err, 0, inTxn)
	return err
}

func (s *session) discardTxn() {
	if s.tx != nil {
		s.e.releaseLocks(s.tx)
		s.tx = nil
	}
}

func (e *Engine) apply(tx *txn) {
	for tl, m := range tx.ws {
		t := e.tables[tl]
		if t == nil {
			continue
		}
		for k, rec := range m {
			if rec == nil {
				delete(t.rows, k)
			} else {
				t.rows[k] = rec
			}
		}
	}
	tx.ws = map[string]map[string]*rowRec{}
}

func (s *session) commitTxn() {
	if s.tx != nil {
		s.e.apply(s.tx)
		s.e.releaseLocks(s.tx)
		s.tx = nil
	}
}

func xaFail(state string) error {
	return myErr(1399, "XAER_RMFAIL: The command cannot be executed when global transaction is in the  %s state", state)
}

func (s *session) begin() error {
	if s.xa != nil {
		return xaFail(s.xa.state)
	}
	s.commitTxn() // BEGIN inside a transaction implicitly commits it
	s.tx = s.e.newTxn()
	return nil
}

func (s *session) commit() error {
	if s.xa != nil {
		return xaFail(s.xa.state)
	}
	s.commitTxn()
	return nil
}

func (s *session) rollback() error {
	if s.xa != nil {
		return xaFail(s.xa.state)
	}
	s.discardTxn()
	return nil
}

func (s *session) setAutocommit(on bool) error {
	if s.xa != nil && on != s.autocommit {
		return xaFail(s.xa.state)
	}
	if on && !s.autocommit {
		s.commitTxn()
	}
	s.autocommit = on
	return nil
}

func (s *session) savepoint(name string) error {
	if s.tx == nil {
		return nil // no transaction: MySQL accepts it as a no-op
	}
	s.dropSavepoint(name)
	s.tx.saves = append(s.tx.saves, savepoint{name: name, ws: s.tx.snapshot()})
	return nil
}

func (s *session) findSavepoint(name string) int {
	if s.tx != nil {
		for i := len(s.tx.saves) - 1; i >= 0; i-- {
			if strings.EqualFold(s.tx.saves[i].name, name) {
				return i
			}
		}
	}
	return -1
}

func (s *session) dropSavepoint(name string) {
	if i := s.findSavepoint(name); i >= 0 {
		s.tx.saves = append(s.tx.saves[:i], s.tx.saves[i+1:]...)
	}
}

// rollbackTo restores the write-set; row locks taken since are KEPT (as InnoDB does).
func (s *session) rollbackTo(name string) error {
	i := s.findSavepoint(name)
	if i < 0 {
		return myErr(1305, "SAVEPOINT %s does not exist", name)
	}
	sp := s.tx.saves[i]
	s.tx.saves = s.tx.saves[:i+1]
	s.tx.ws = sp.ws
	s.tx.saves[i].ws = s.tx.snapshot()
	return nil
}

func (s *session) releaseSavepoint(name string) error {
	i := s.findSavepoint(name)
	if i < 0 {
		return myErr(1305, "SAVEPOINT %s does not exist", name)
	}
	s.tx.saves = s.tx.saves[:i]
	return nil
}

// ---- XA ----

func (s *session) xaOp(p *piece) (*outcome, error) {
	e := s.e
	xid := p.xid
	own := s.xa != nil && s.xa.xid == xid
	switch p.kind {
	case "xa_start":
		if s.xa != nil {
			return nil, xaFail(s.xa.state)
		}
		if s.tx != nil {
			return nil, myErr(1400, "XAER_OUTSIDE: Some work is done outside global transaction")
		}
		if r := e.xa[xid]; r != nil {
			if p.xaOpt == "JOIN" || p.xaOpt == "RESUME" {
				return nil, myErr(1398, "XAER_INVAL: Invalid arguments (or unsupported command)")
			}
			if r.state == "ACTIVE" || r.state == "IDLE" || r.state == "PREPARED" {
				return nil, myErr(1440, "XAER_DUPID: The XID already exists")
			}
		}
		s.tx = e.newTxn()
		s.xa = &xaRec{xid: xid, state: "ACTIVE", tx: s.tx, conn: s.id}
		e.xa[xid] = s.xa
	case "xa_end":
		if !own {
			if s.xa != nil {
				return nil, xaFail(s.xa.state)
			}
			return nil, myErr(1397, "XAER_NOTA: Unknown XID")
		}
		if s.xa.state != "ACTIVE" {
			return nil, xaFail(s.xa.state)
		}
		s.xa.state = "IDLE"
	case "xa_prepare":
		if !own {
			if s.xa != nil {
				return nil, xaFail(s.xa.state)
			}
			return nil, myErr(1397, "XAER_NOTA: Unknown XID")
		}
		if s.xa.state != "IDLE" {
			return nil, xaFail(s.xa.state)
		}
		s.xa.state = "PREPARED" // write-set and locks now detached from the connection
		s.xa, s.tx = nil, nil
	case "xa_commit", "xa_rollback":
		commit := p.kind == "xa_commit"
		var r *xaRec
		if own {
			r = s.xa
			okState := r.state == "IDLE" && (!commit || p.xaOpt == "ONE PHASE")
			if !okState {
				return nil, xaFail(r.state)
			}
		} else {
			if s.xa != nil {
				return nil, xaFail(s.xa.state)
			}
			if s.tx != nil {
				return nil, myErr(1400, "XAER_OUTSIDE: Some work is done outside global transaction")
			}
			r = e.xa[xid]
			if r == nil || r.state != "PREPARED" {
				return nil, myErr(1397, "XAER_NOTA: Unknown XID")
			}
			if commit && p.xaOpt == "ONE PHASE" {
				return nil, xaFail(r.state)
			}
		}
		if commit {
			e.apply(r.tx)
			r.state = "COMMITTED"
		} else {
			r.state = "ROLLEDBACK"
		}
		e.releaseLocks(r.tx)
		r.tx = nil
		if own {
			s.xa, s.tx = nil, nil
		}
	case "xa_recover":
		var xids []string
		for x, r := range e.xa {
			if r.state == "PREPARED" {
				xids = append(xids, x)
			}
		}
		sort.Strings(xids)
		out := &outcome{cols: []colMeta{
			{name: "formatID", typ: TBigInt}, {name: "gtrid_length", typ: TBigInt},
			{name: "bqual_length", typ: TBigInt}, {name: "data", typ: TVarchar}}}
		for _, x := range xids {
			out.rows = append(out.rows, []interface{}{int64(1), int64(len(x)), int64(0), x})
		}
		return out, nil
	}
	return &outcome{}, nil
}

// ---- statement driver ----

func ctxDone(ctx context.Context) <-chan struct{} {
	if ctx == nil {
		return nil
	}
	return ctx.Done()
}

// run executes a (possibly multi-statement) SQL text; result of the last statement.
func (s *session) run(ctx context.Context, sql string, args []interface{}, pre []*piece) (*outcome, error) {
	if ctx != nil && ctx.Err() != nil {
		return nil, ctx.Err()
	}
	pieces := pre
	if pieces == nil {
		var err error
		if pieces, err = compile(sql); err != nil {
			s.e.mu.Lock()
			s.e.record(s, "other", "", sql, args, err, 0, s.tx != nil)
			s.e.mu.Unlock()
			return nil, err
		}
	}
	want := 0
	for _, p := range pieces {
		want += p.nparams
	}
	if want != len(args) {
		err := fmt.Errorf("argument count mismatch (got: %d; has: %d)", len(args), want)
		s.e.mu.Lock()
		s.e.record(s, pieces[0].kind, pieces[0].table, sql, args, err, 0, s.tx != nil)
		s.e.mu.Unlock()
		return nil, err
	}
	var out *outcome
	var sets []*outcome
	for _, p := range pieces {
		var err error
		if out, err = s.execPiece(ctx, p, args[p.lo:p.hi]); err != nil {
			return nil, err
		}
		if out != nil && out.cols != nil {
			sets = append(sets, out)
		}
	}
	if len(pieces) > 1 && len(sets) > 1 && out != nil {
		out.sets = sets
	}
	return out, nil
}

func (s *session) execPiece(ctx context.Context, p *piece, args []interface{}) (out *outcome, err error) {
	e := s.e
	e.mu.Lock()
	defer e.mu.Unlock()
	if s.closed {
		return nil, driver.ErrBadConn
	}
	if s.pending != nil {
		if !s.pending.drained && e.strictBusy {
			e.record(s, "busy", "", p.text, args, driver.ErrBadConn, 0, s.tx != nil)
			return nil, driver.ErrBadConn
		}
		s.pending = nil
	}
	inTxn := s.tx != nil
	defer func() {
		var n int64
		if out != nil {
			n = out.affected
		}
		e.record(s, p.kind, p.table, p.text, args, err, n, inTxn)
	}()
	ferr := e.matchFault(s, p.kind, p.table)
	var midResult *rowFault
	if rf, ok := ferr.(*rowFault); ok {
		midResult, ferr = rf, nil
	}
	if _, boom := ferr.(*panicFault); boom {
		err = ferr // (for the journal)
		panic("memdb: injected panic in " + p.kind)
	}
	if d, slow := ferr.(*delayFault); slow {
		// a slow server: the statement is held up (without the engine lock), then runs
		e.mu.Unlock()
		time.Sleep(d.d)
		e.mu.Lock()
		ferr = nil
	}
	if ferr != nil {
		if (p.kind == "commit" || p.kind == "rollback") && s.xa == nil {
			s.discardTxn() // faulted COMMIT == commit failed, transaction rolled back
		}
		return nil, ferr
	}
	var timer <-chan time.Time
	for {
		out, err = s.tryPiece(p, args)
		if _, blocked := err.(*wouldBlock); !blocked {
			if err == nil && out != nil && midResult != nil {
				out.failAt, out.failErr = midResult.at, midResult.err
			}
			return out, err
		}
		if !e.block {
			return nil, errLockWait
		}
		if timer == nil {
			wait := e.lockWait
			// SELECT ... FOR UPDATE WAIT n gives up after n seconds (WAIT 0: at once), whatever the session's timeout
			if sel, ok := p.node.(*ast.SelectStmt); ok && sel.LockInfo != nil && sel.LockInfo.LockType == ast.SelectLockForUpdateWaitN {
				if limit := time.Duration(sel.LockInfo.WaitSec) * time.Second; limit < wait {
					wait = limit
				}
			}
			timer = time.After(wait)
		}
		ch := e.lockCh
		var werr error
		e.mu.Unlock()
		select {
		case <-ch:
		case <-timer:
			werr = errLockWait
		case <-ctxDone(ctx):
			werr = ctx.Err()
		}
		e.mu.Lock()
		if werr == nil && s.closed {
			werr = driver.ErrBadConn
		}
		if werr != nil {
			return nil, werr
		}
	}
}

func (s *session) tryPiece(p *piece, args []interface{}) (out *outcome, err error) {
	defer func() {
		if r := recover(); r != nil {
			out, err = nil, myErr(1105, "panic: %v", r)
		}
	}()
	return s.dispatch(p, args)
}

// withTxn runs a data statement inside the session's transaction, or inside a
// private one that is committed at the end when the session is in autocommit
// mode. A failing statement leaves no trace in the write-set (locks it took
// inside an explicit transaction are kept, as InnoDB does).
func (s *session) withTxn(f func(tx *txn) (*outcome, error)) (out *outcome, err error) {
	e := s.e
	if s.xa != nil && s.xa.state != "ACTIVE" {
		return nil, xaFail(s.xa.state)
	}
	if s.tx == nil && !s.autocommit {
		s.tx = e.newTxn()
	}
	if s.tx != nil {
		tx, snap := s.tx, s.tx.snapshot()
		defer func() {
			if r := recover(); r != nil {
				tx.ws = snap
				panic(r)
			}
		}()
		if out, err = f(tx); err != nil {
			tx.ws = snap
		}
		return out, err
	}
	tx := e.newTxn()
	defer e.releaseLocks(tx)
	if out, err = f(tx); err == nil {
		e.apply(tx)
	}
	return out, err
}
