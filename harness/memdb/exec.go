package memdb

import (
	"sort"
	"strings"
	"time"

	"github.com/arana-db/parser/ast"
	"github.com/arana-db/parser/format"
	"github.com/arana-db/parser/opcode"
)

// colMeta describes one result column.
type colMeta struct {
	name     string
	typ      ColType
	nullable bool
	length   int
	scale    int
	dyn      bool // type inferred from the values
	unsigned bool
}

func (s *session) dispatch(p *piece, args []interface{}) (*outcome, error) {
	switch p.kind {
	case "xa_start", "xa_end", "xa_prepare", "xa_commit", "xa_rollback", "xa_recover":
		return s.xaOp(p)
	case "savepoint":
		return &outcome{}, s.savepoint(p.name)
	case "rollback_to":
		return &outcome{}, s.rollbackTo(p.name)
	case "release_savepoint":
		return &outcome{}, s.releaseSavepoint(p.name)
	}
	switch n := p.node.(type) {
	case *ast.SelectStmt:
		return s.execSelect(n, args)
	case *ast.InsertStmt:
		return s.execInsert(n, args)
	case *ast.UpdateStmt:
		return s.execUpdate(n, args)
	case *ast.DeleteStmt:
		return s.execDelete(n, args)
	case *ast.BeginStmt:
		return &outcome{}, s.begin()
	case *ast.CommitStmt:
		return &outcome{}, s.commit()
	case *ast.RollbackStmt:
		return &outcome{}, s.rollback()
	case *ast.SetStmt:
		for _, v := range n.Variables {
			if strings.EqualFold(v.Name, "autocommit") {
				c := &evalCtx{s: s, args: args, now: s.e.clock().UTC()}
				val, err := c.eval(v.Value)
				if err != nil {
					if cn, ok := v.Value.(*ast.ColumnNameExpr); ok { // SET autocommit = ON
						val = cn.Name.Name.L
					} else {
						return nil, err
					}
				}
				on := false
				switch strings.ToLower(textOf(val)) {
				case "1", "on", "true":
					on = true
				}
				if err := s.setAutocommit(on); err != nil {
					return nil, err
				}
			}
		}
		return &outcome{}, nil
	case *ast.ShowStmt:
		return s.execShow(n, args)
	case *ast.UseStmt:
		if !strings.EqualFold(n.DBName, s.e.name) && !strings.EqualFold(n.DBName, "information_schema") {
			return nil, myErr(1049, "Unknown database '%s'", n.DBName)
		}
		return &outcome{}, nil
	case *ast.CreateTableStmt, *ast.DropTableStmt, *ast.TruncateTableStmt:
		return s.execDDL(p.node)
	case ast.DDLNode, *ast.AnalyzeTableStmt, *ast.FlushStmt:
		return &outcome{}, nil // accepted, no effect
	}
	return nil, myErr(1064, "You have an error in your SQL syntax; unsupported statement near '%s'", p.text)
}

// ---- table resolution and transaction view ----

func (s *session) resolve(refs *ast.TableRefsClause) (*table, string, error) {
	if refs == nil || refs.TableRefs == nil {
		return nil, "", myErr(1064, "You have an error in your SQL syntax; missing table")
	}
	j := refs.TableRefs
	if j.Right != nil {
		return nil, "", unsupported("JOIN")
	}
	alias := ""
	var src ast.ResultSetNode = j.Left
	if ts, ok := src.(*ast.TableSource); ok {
		alias, src = ts.AsName.L, ts.Source
	}
	tn, ok := src.(*ast.TableName)
	if !ok {
		return nil, "", unsupported("derived table")
	}
	schema := tn.Schema.L
	if schema == "information_schema" {
		if t := s.e.infoTable(tn.Name.L); t != nil {
			return t, alias, nil
		}
		return nil, "", myErr(1109, "Unknown table '%s' in information_schema", tn.Name.O)
	}
	t := s.e.tables[tn.Name.L]
	if t == nil || (schema != "" && schema != strings.ToLower(s.e.name)) {
		db := s.e.name
		if schema != "" {
			db = tn.Schema.O
		}
		return nil, "", myErr(1146, "Table '%s.%s' doesn't exist", db, tn.Name.O)
	}
	return t, alias, nil
}

func tkey(t *table) string { return strings.ToLower(t.def.Name) }

// view lists the rows visible to tx (committed data overlaid with its
// write-set), ordered by primary key / insertion.
func (s *session) view(t *table, tx *txn) []*rowRec {
	var ws map[string]*rowRec
	if tx != nil {
		ws = tx.ws[tkey(t)]
	}
	out := make([]*rowRec, 0, len(t.rows)+len(ws))
	for k, r := range t.rows {
		if w, ok := ws[k]; ok {
			if w != nil {
				out = append(out, w)
			}
		} else {
			out = append(out, r)
		}
	}
	for k, w := range ws {
		if _, ok := t.rows[k]; !ok && w != nil {
			out = append(out, w)
		}
	}
	t.sortRecs(out)
	return out
}

func (s *session) lookup(t *table, tx *txn, key string) *rowRec {
	if tx != nil {
		if w, ok := tx.ws[tkey(t)][key]; ok {
			return w
		}
	}
	return t.rows[key]
}

func (s *session) lockRow(t *table, tx *txn, rec *rowRec) error {
	if t.virtual {
		return nil
	}
	return s.e.acquire(tx, tkey(t), rec.key, t.displayKey(rec), len(t.pk) > 0)
}

func (s *session) lockUniq(t *table, tx *txn, u uniqIdx, vals Row) error {
	parts := []string{"u", u.name}
	for _, c := range u.cols {
		if vals[c] == nil {
			return nil
		}
		parts = append(parts, keyPart(vals[c]))
	}
	return s.e.acquire(tx, tkey(t), strings.Join(parts, "\x00"), "", false)
}

// ---- WHERE / ORDER BY / LIMIT ----

func (c *evalCtx) filter(recs []*rowRec, where ast.ExprNode) ([]*rowRec, error) {
	if where == nil {
		return recs, nil
	}
	out := recs[:0:0]
	for _, r := range recs {
		c.row = r.vals
		v, err := c.eval(where)
		if err != nil {
			return nil, err
		}
		if _, isRow := v.(rowVal); isRow {
			return nil, myErr(1241, "Operand should contain 1 column(s)")
		}
		if t, _ := truth(v); t {
			out = append(out, r)
		}
	}
	c.row = nil
	return out, nil
}

func (c *evalCtx) order(recs []*rowRec, ob *ast.OrderByClause) ([]*rowRec, error) {
	if ob == nil || len(ob.Items) == 0 {
		return recs, nil
	}
	keys := make([][]interface{}, len(recs))
	for i, r := range recs {
		c.row = r.vals
		for _, it := range ob.Items {
			v, err := c.eval(it.Expr)
			if err != nil {
				return nil, err
			}
			keys[i] = append(keys[i], v)
		}
	}
	c.row = nil
	idx := make([]int, len(recs))
	for i := range idx {
		idx[i] = i
	}
	sort.SliceStable(idx, func(a, b int) bool {
		ka, kb := keys[idx[a]], keys[idx[b]]
		for i, it := range ob.Items {
			var d int
			switch {
			case ka[i] == nil && kb[i] == nil:
			case ka[i] == nil:
				d = -1
			case kb[i] == nil:
				d = 1
			default:
				d, _, _ = cmp3(ka[i], kb[i])
			}
			if d != 0 {
				return (d < 0) != it.Desc
			}
		}
		return false
	})
	out := make([]*rowRec, len(recs))
	for i, j := range idx {
		out[i] = recs[j]
	}
	return out, nil
}

func (c *evalCtx) limit(n int, l *ast.Limit) (lo, hi int, err error) {
	lo, hi = 0, n
	if l == nil {
		return
	}
	num := func(e ast.ExprNode) (int64, error) {
		v, err := c.eval(e)
		if err != nil {
			return 0, err
		}
		x := asNum(v)
		if v == nil || x.k != nInt || x.i < 0 {
			return 0, myErr(1064, "You have an error in your SQL syntax; bad LIMIT value '%s'", textOf(v))
		}
		return x.i, nil
	}
	if l.Offset != nil {
		o, err := num(l.Offset)
		if err != nil {
			return 0, 0, err
		}
		if o > int64(n) {
			o = int64(n)
		}
		lo = int(o)
	}
	if l.Count != nil {
		cnt, err := num(l.Count)
		if err != nil {
			return 0, 0, err
		}
		if int64(lo)+cnt < int64(hi) {
			hi = lo + int(cnt)
		}
	}
	return
}

func (c *evalCtx) selectRows(recs []*rowRec, where ast.ExprNode, ob *ast.OrderByClause, l *ast.Limit) ([]*rowRec, error) {
	recs, err := c.filter(recs, where)
	if err != nil {
		return nil, err
	}
	if recs, err = c.order(recs, ob); err != nil {
		return nil, err
	}
	lo, hi, err := c.limit(len(recs), l)
	if err != nil {
		return nil, err
	}
	return recs[lo:hi], nil
}

// ---- SELECT ----

type projection struct {
	meta colMeta
	col  int // >= 0: plain column reference
	expr ast.ExprNode
	agg  *ast.AggregateFuncExpr
}

func fieldName(f *ast.SelectField) string {
	if f.AsName.O != "" {
		return f.AsName.O
	}
	if cn, ok := f.Expr.(*ast.ColumnNameExpr); ok {
		return cn.Name.Name.O
	}
	if t := strings.TrimSpace(f.Text()); t != "" {
		return t
	}
	var sb strings.Builder
	if err := f.Expr.Restore(format.NewRestoreCtx(format.DefaultRestoreFlags, &sb)); err == nil {
		return sb.String()
	}
	return "?"
}

func plain(v interface{}) interface{} {
	switch x := v.(type) {
	case decVal:
		return string(x)
	case ciStr:
		return string(x)
	case rowVal:
		return textOf(x)
	}
	return v
}

func dynType(v interface{}) ColType {
	switch v.(type) {
	case int64:
		return TBigInt
	case float64:
		return TDouble
	case decVal:
		return TDecimal
	case []byte:
		return TVarBinary
	case time.Time:
		return TDateTime
	}
	return TVarchar
}

func (c *evalCtx) projections(st *ast.SelectStmt) ([]projection, error) {
	var out []projection
	for _, f := range st.Fields.Fields {
		if f.WildCard != nil {
			if c.t == nil {
				return nil, myErr(1096, "No tables used")
			}
			if q := f.WildCard.Table.L; q != "" && q != c.alias && q != tkey(c.t) {
				return nil, myErr(1051, "Unknown table '%s'", f.WildCard.Table.O)
			}
			for i, col := range c.t.def.Cols {
				out = append(out, projection{col: i, meta: colMeta{name: col.Name, typ: col.Type, nullable: col.Nullable, length: col.Length, scale: col.Scale, unsigned: col.Unsigned}})
			}
			continue
		}
		e := f.Expr
		for {
			pe, ok := e.(*ast.ParenthesesExpr)
			if !ok {
				break
			}
			e = pe.Expr
		}
		if cn, ok := e.(*ast.ColumnNameExpr); ok {
			if cn.Name.Name.O == "*" && c.t != nil { // the proxy builds SELECT * as a column named "*"
				for i, col := range c.t.def.Cols {
					out = append(out, projection{col: i, meta: colMeta{name: col.Name, typ: col.Type, nullable: col.Nullable, length: col.Length, scale: col.Scale, unsigned: col.Unsigned}})
				}
				continue
			}
			i, err := c.column(cn.Name)
			if err != nil {
				return nil, err
			}
			col := c.t.def.Cols[i]
			out = append(out, projection{col: i, meta: colMeta{name: fieldName(f), typ: col.Type, nullable: col.Nullable, length: col.Length, scale: col.Scale, unsigned: col.Unsigned}})
			continue
		}
		p := projection{col: -1, expr: e, meta: colMeta{name: fieldName(f), typ: TVarchar, nullable: true, dyn: true}}
		if a, ok := e.(*ast.AggregateFuncExpr); ok {
			p.agg = a
		}
		out = append(out, p)
	}
	return out, nil
}

func (c *evalCtx) aggregate(a *ast.AggregateFuncExpr, recs []*rowRec) (interface{}, error) {
	name := strings.ToLower(a.F)
	if a.Distinct || len(a.Args) != 1 {
		return nil, unsupported(a.F + " with DISTINCT or several arguments")
	}
	var acc interface{}
	count := int64(0)
	for _, r := range recs {
		c.row = r.vals
		v, err := c.eval(a.Args[0])
		if err != nil {
			return nil, err
		}
		if v == nil {
			continue
		}
		count++
		switch name {
		case "max", "min":
			if acc == nil {
				acc = v
			} else if d := compareVals(v, acc); (name == "max") == (d > 0) && d != 0 {
				acc = v
			}
		case "sum", "avg":
			if acc == nil {
				acc = v
				if _, isInt := v.(int64); isInt {
					acc = decVal(textOf(v))
				}
			} else if acc, err = arith(opcode.Plus, acc, v); err != nil {
				return nil, err
			}
		}
	}
	c.row = nil
	switch name {
	case "count":
		return count, nil
	case "max", "min", "sum":
		return acc, nil
	case "avg":
		if acc == nil {
			return nil, nil
		}
		return arith(opcode.Div, acc, count)
	}
	return nil, unsupported(a.F)
}

func (s *session) execSelect(st *ast.SelectStmt, args []interface{}) (*outcome, error) {
	if st.GroupBy != nil || st.Having != nil || st.Distinct || st.With != nil || len(st.Lists) > 0 || st.Fields == nil {
		return nil, unsupported("GROUP BY/HAVING/DISTINCT/WITH")
	}
	c := &evalCtx{s: s, args: args, now: s.e.clock().UTC()}
	if st.From == nil {
		return c.runSelect(st, nil, []*rowRec{{vals: Row{}}}, false)
	}
	t, alias, err := s.resolve(st.From)
	if err != nil {
		return nil, err
	}
	c.t, c.alias = t, alias
	forUpdate := false
	if st.LockInfo != nil {
		switch st.LockInfo.LockType {
		case ast.SelectLockForUpdate, ast.SelectLockForUpdateNoWait, ast.SelectLockForUpdateWaitN, ast.SelectLockForUpdateSkipLocked:
			forUpdate = !t.virtual
		}
	}
	if forUpdate {
		return s.withTxn(func(tx *txn) (*outcome, error) { return c.runSelect(st, tx, s.view(t, tx), true) })
	}
	if s.xa != nil && s.xa.state != "ACTIVE" {
		return nil, xaFail(s.xa.state)
	}
	if s.tx == nil && !s.autocommit {
		s.tx = s.e.newTxn()
	}
	return c.runSelect(st, s.tx, s.view(t, s.tx), false)
}

func (c *evalCtx) runSelect(st *ast.SelectStmt, tx *txn, recs []*rowRec, lock bool) (*outcome, error) {
	projs, err := c.projections(st)
	if err != nil {
		return nil, err
	}
	hasAgg := false
	for _, p := range projs {
		hasAgg = hasAgg || p.agg != nil
	}
	var ob *ast.OrderByClause
	var lim *ast.Limit
	if !hasAgg {
		ob, lim = st.OrderBy, st.Limit
	}
	if c.t == nil {
		c.row = Row{}
	}
	recs, err = c.selectRows(recs, st.Where, ob, lim)
	if err != nil {
		return nil, err
	}
	if lock {
		// SKIP LOCKED leaves out the rows another transaction has locked, NOWAIT fails at once on the first of
		// them (the LIMIT has been applied before: an approximation, MySQL skips first)
		mode := ast.SelectLockForUpdate
		if st.LockInfo != nil {
			mode = st.LockInfo.LockType
		}
		kept := recs[:0:0]
		for _, r := range recs {
			if err := c.s.lockRow(c.t, tx, r); err != nil {
				if _, blocked := err.(*wouldBlock); blocked && mode == ast.SelectLockForUpdateSkipLocked {
					continue
				} else if blocked && mode == ast.SelectLockForUpdateNoWait {
					return nil, myErr(3572, "Statement aborted because lock(s) could not be acquired immediately and NOWAIT is set.")
				}
				return nil, err
			}
			kept = append(kept, r)
		}
		recs = kept
	}
	out := &outcome{}
	if hasAgg {
		row := make([]interface{}, len(projs))
		for i, p := range projs {
			if p.agg == nil {
				return nil, unsupported("mixing aggregate and non-aggregate select items")
			}
			if row[i], err = c.aggregate(p.agg, recs); err != nil {
				return nil, err
			}
		}
		out.rows = [][]interface{}{row}
		if st.Limit != nil {
			lo, hi, err := c.limit(1, st.Limit)
			if err != nil {
				return nil, err
			}
			out.rows = out.rows[lo:hi]
		}
	} else {
		for _, r := range recs {
			c.row = r.vals
			row := make([]interface{}, len(projs))
			for i, p := range projs {
				if p.col >= 0 {
					row[i] = copyVal(r.vals[p.col])
				} else if row[i], err = c.eval(p.expr); err != nil {
					return nil, err
				}
			}
			out.rows = append(out.rows, row)
		}
	}
	c.row = nil
	for i, p := range projs {
		m := p.meta
		if m.dyn {
			m.nullable = len(out.rows) == 0
			seen := false
			for _, r := range out.rows {
				if r[i] == nil {
					m.nullable = true
				} else if !seen {
					m.typ, seen = dynType(r[i]), true
				}
				r[i] = plain(r[i])
			}
			if !seen && len(out.rows) > 0 {
				m.typ = tNull
			}
			if p.agg != nil && strings.EqualFold(p.agg.F, "count") {
				m.typ, m.nullable = TBigInt, false
			}
		}
		out.cols = append(out.cols, m)
	}
	return out, nil
}

// ---- SHOW ----

func (s *session) execShow(n *ast.ShowStmt, args []interface{}) (*outcome, error) {
	c := &evalCtx{s: s, args: args, now: s.e.clock().UTC()}
	pattern := "%"
	if n.Pattern != nil {
		p, err := c.eval(n.Pattern.Pattern)
		if err != nil {
			return nil, err
		}
		pattern = textOf(p)
	}
	match := func(v string) bool {
		return likeMatch([]rune(strings.ToLower(v)), []rune(strings.ToLower(pattern)), '\\', true)
	}
	switch n.Tp {
	case ast.ShowVariables:
		vars := s.sysVars()
		names := make([]string, 0, len(vars))
		for k := range vars {
			names = append(names, k)
		}
		sort.Strings(names)
		out := &outcome{cols: []colMeta{{name: "Variable_name", typ: TVarchar}, {name: "Value", typ: TVarchar, nullable: true}}}
		for _, k := range names {
			if match(k) {
				out.rows = append(out.rows, []interface{}{k, textOf(vars[k])})
			}
		}
		return out, nil
	case ast.ShowTables:
		out := &outcome{cols: []colMeta{{name: "Tables_in_" + s.e.name, typ: TVarchar}}}
		for _, t := range s.e.tableNamesLocked() {
			if match(t) {
				out.rows = append(out.rows, []interface{}{t})
			}
		}
		return out, nil
	case ast.ShowDatabases:
		out := &outcome{cols: []colMeta{{name: "Database", typ: TVarchar}}}
		for _, d := range []string{"information_schema", s.e.name} {
			if match(d) {
				out.rows = append(out.rows, []interface{}{d})
			}
		}
		return out, nil
	}
	return nil, unsupported("this SHOW statement")
}
